//! S2K key derivation: `StringToKey::derive_key`, `impl Serialize for StringToKey`.

use pgp::crypto::hash::HashAlgorithm;
use pgp::ser::Serialize;
use pgp::types::StringToKey;
use rand::Rng;

use super::{par_map, plan_answer, rfc};
use crate::ctx::{guarded, hx, Ctx};
use crate::gen::random_bytes;
use crate::plan::Model;

#[derive(Clone, Debug)]
pub struct Case {
    pub spec: rfc::S2k,
    pub pw: Vec<u8>,
    pub ks: usize,
}

pub fn to_rpgp(spec: &rfc::S2k) -> StringToKey {
    let a8 = |s: &Vec<u8>| -> [u8; 8] { s[..8].try_into().expect("8") };
    match spec {
        rfc::S2k::Simple { hash } => StringToKey::Simple { hash_alg: HashAlgorithm::from(*hash) },
        rfc::S2k::Salted { hash, salt } => StringToKey::Salted { hash_alg: HashAlgorithm::from(*hash), salt: a8(salt) },
        rfc::S2k::Iterated { hash, salt, count } => {
            StringToKey::IteratedAndSalted { hash_alg: HashAlgorithm::from(*hash), salt: a8(salt), count: *count }
        }
        rfc::S2k::Argon2 { salt, t, p, m } => {
            StringToKey::Argon2 { salt: salt[..16].try_into().expect("16"), t: *t, p: *p, m_enc: *m }
        }
    }
}

/// `typ= hash= salt= count=` / `typ=4 salt= t= p= m=` part of a request line
pub fn spec_args(spec: &rfc::S2k) -> String {
    match spec {
        rfc::S2k::Simple { hash } => format!("typ=0 hash={hash}"),
        rfc::S2k::Salted { hash, salt } => format!("typ=1 hash={hash} salt={}", hx(salt)),
        rfc::S2k::Iterated { hash, salt, count } => format!("typ=3 hash={hash} salt={} count={count}", hx(salt)),
        rfc::S2k::Argon2 { salt, t, p, m } => format!("typ=4 salt={} t={t} p={p} m={m}", hx(salt)),
    }
}

pub const HASHES: [u8; 9] = [8, 2, 10, 9, 11, 1, 3, 12, 14];
const PWLENS: [usize; 12] = [0, 1, 7, 8, 9, 55, 56, 63, 64, 65, 119, 200];

fn gen_cases(ctx: &mut Ctx) -> Vec<Case> {
    let mut v = Vec::new();
    let thorough = ctx.thorough();
    // A. every coded count
    let hash_sets: Vec<Vec<u8>> = if thorough {
        vec![HASHES.to_vec(), HASHES.to_vec()]
    } else {
        vec![vec![0], vec![0]] // placeholder: one hash per count, chosen below
    };
    for c in 0u16..=255 {
        let c = c as u8;
        let hs: Vec<u8> = if thorough {
            if c < 208 { hash_sets[0].clone() } else { hash_sets[1].clone() }
        } else if c < 160 {
            vec![HASHES[c as usize % 9], HASHES[(c as usize + 4) % 9], HASHES[(c as usize / 16 + c as usize) % 9]]
        } else {
            vec![8u8, 2, [10u8, 9, 11, 1][c as usize % 4]]
        };
        for h in hs {
            let d = rfc::digest_len(h).unwrap_or(32);
            let ks = if c < 112 { [16usize, 24, 32, 17, 31, 20][c as usize % 6] } else { [16usize, 24, 32][c as usize % 3].min(d) };
            let pwlen = PWLENS[(c as usize + h as usize) % PWLENS.len()];
            let salt = random_bytes(&mut ctx.rng, 8);
            let pw = random_bytes(&mut ctx.rng, pwlen);
            v.push(Case { spec: rfc::S2k::Iterated { hash: h, salt, count: c }, pw, ks });
        }
    }
    // B. type x hash (known, unknown) x key size (incl. multi-round and out-of-range sizes)
    let mut kss: Vec<usize> = (16..=32).collect();
    kss.extend([0usize, 1, 15, 33, 40, 48, 63, 64, 65, 100]);
    let hashes_b: Vec<u8> = HASHES.iter().copied().chain([0u8, 4, 5, 110, 200]).collect();
    let mut i = 0usize;
    for typ in 0..4 {
        for &h in &hashes_b {
            for &ks in &kss {
                if !thorough && ks > 32 && (i % 3 != 0) {
                    i += 1;
                    continue;
                }
                i += 1;
                let salt = random_bytes(&mut ctx.rng, 8);
                let pw = random_bytes(&mut ctx.rng, PWLENS[i % PWLENS.len()]);
                let spec = match typ {
                    0 => rfc::S2k::Simple { hash: h },
                    1 => rfc::S2k::Salted { hash: h, salt },
                    2 => rfc::S2k::Iterated { hash: h, salt, count: [0u8, 1, 15, 16][i % 4] },
                    _ => rfc::S2k::Iterated { hash: h, salt, count: [96u8, 31, 47, 100][i % 4] },
                };
                v.push(Case { spec, pw, ks });
            }
        }
    }
    // C. password length 0..200 (every remainder class of the last partial copy), and lengths
    //    around the decoded count (the "count < data_size" branch)
    let mut lens: Vec<usize> = (0..=200).collect();
    lens.extend([1014usize, 1015, 1016, 1017, 1018, 1100, 2039, 2040, 2041, 4000]);
    for (j, &n) in lens.iter().enumerate() {
        let salt = random_bytes(&mut ctx.rng, 8);
        let pw = random_bytes(&mut ctx.rng, n);
        let h = if thorough { HASHES[j % 9] } else { [8u8, 2, 10][j % 3] };
        v.push(Case { spec: rfc::S2k::Iterated { hash: h, salt: salt.clone(), count: [0u8, 16][j % 2] }, pw: pw.clone(), ks: [16, 32, 24][j % 3] });
        if j % 4 == 0 {
            v.push(Case { spec: rfc::S2k::Salted { hash: h, salt }, pw, ks: 32 });
        }
    }
    // D. Argon2: parameter admission and small derivations
    let ts: &[u8] = if thorough { &[0, 1, 2, 3, 4, 31, 32, 33, 255] } else { &[0, 1, 3, 32, 33] };
    let ps: &[u8] = if thorough { &[0, 1, 2, 3, 4, 5, 7, 8, 9, 16, 17, 32, 33, 255] } else { &[0, 1, 2, 3, 4, 5, 8, 32, 33] };
    let ms: Vec<u8> = if thorough { (0..=14).chain([22u8, 31, 32, 255]).collect() } else { (0..=10).chain([22u8, 31, 32]).collect() };
    let mut k = 0usize;
    for &t in ts {
        for &p in ps {
            for &m in &ms {
                k += 1;
                // keep the expensive corner (many passes x much memory) sparse
                let cost = (t as u64).min(33) * (1u64 << m.min(20));
                if cost > 40_000 && k % 5 != 0 {
                    continue;
                }
                if !thorough && k % 2 == 0 && t != 1 {
                    continue;
                }
                let salt = random_bytes(&mut ctx.rng, 16);
                let n = ctx.rng.gen_range(0..40usize);
                let pw = random_bytes(&mut ctx.rng, n);
                v.push(Case { spec: rfc::S2k::Argon2 { salt, t, p, m }, pw, ks: [16usize, 24, 32, 3, 4][k % 5] });
            }
        }
    }
    v
}

pub fn request(c: &Case) -> String {
    format!("s2k.derive {} pw={} ks={}", spec_args(&c.spec), hx(&c.pw), c.ks)
}

pub fn run(ctx: &mut Ctx, model: &mut Model) {
    let cases = gen_cases(ctx);
    // real code + RFC oracle (parallel: the large iteration counts dominate)
    let evals: Vec<(Result<Vec<u8>, String>, Option<Option<Vec<u8>>>)> = par_map(&cases, |c| {
        let s = to_rpgp(&c.spec);
        let real = match guarded(|| s.derive_key(&c.pw, c.ks)) {
            Ok(Ok(k)) => Ok(k.as_ref().to_vec()),
            Ok(Err(e)) => Err(format!("{e}")),
            Err(p) => Err(format!("panic: {p}")),
        };
        // the RFC value is not computed where it would need > 2 GiB (encoded m > 21)
        let want = match &c.spec {
            rfc::S2k::Argon2 { m, .. } if *m > 21 => None,
            _ => Some(rfc::s2k(&c.spec, &c.pw, c.ks)),
        };
        (real, want)
    });
    let reqs: Vec<String> = cases.iter().map(request).collect();
    let answers = model.ask(&reqs);
    let items: Vec<(usize, &String)> = answers.iter().enumerate().collect();
    let impls: Vec<String> = par_map(&items, |(i, ans)| {
        let real = evals[*i].0.clone().map(|b| vec![b]);
        plan_answer(ans, &real).0
    });
    for (i, c) in cases.iter().enumerate() {
        let (real, want) = &evals[i];
        ctx.case(reqs[i].clone(), impls[i].clone());
        let kind = match &c.spec {
            rfc::S2k::Simple { .. } => "simple",
            rfc::S2k::Salted { .. } => "salted",
            rfc::S2k::Iterated { .. } => "iterated",
            rfc::S2k::Argon2 { .. } => "argon2",
        };
        ctx.stat(&format!("s2k:{kind}:{}", if real.is_ok() { "ok" } else { "err" }));
        if let rfc::S2k::Iterated { count, .. } = &c.spec {
            ctx.stat(&format!("s2k:count_hi_nibble:{}", count >> 4));
        }
        let site = "StringToKey::derive_key";
        if real.as_ref().err().is_some_and(|e| e.starts_with("panic")) {
            ctx.oracle("s2k_no_panic", site, &reqs[i], false, real.as_ref().err().unwrap());
            continue;
        }
        // "S2K key derivation … exactly those obtained by composing the underlying primitives as
        // RFC 9580 specifies"
        match (real, want) {
            (Ok(k), Some(Some(w))) => ctx.oracle("s2k_rfc_bytes", site, &reqs[i], k == w, &format!("rpgp={} rfc={}", hx(k), hx(w))),
            (Ok(k), Some(None)) => ctx.oracle("s2k_rfc_bytes", site, &reqs[i], false, &format!("rpgp derives {} where the RFC defines no value", hx(k))),
            (Err(e), Some(Some(_))) => {
                // refusals the library documents: Argon2 t,p > 32 (DoS limit); key sizes below the
                // Argon2 minimum tag length are not reachable with a cipher
                let documented = match &c.spec {
                    rfc::S2k::Argon2 { t, p, .. } => *t > 32 || *p > 32 || c.ks < 4,
                    _ => false,
                };
                ctx.oracle("s2k_rfc_accepts", site, &reqs[i], documented, e);
            }
            (Err(_), Some(None)) => ctx.oracle("s2k_rfc_bytes", site, &reqs[i], true, ""),
            (_, None) => {
                // encoded m > 21: above the library's documented 2 GiB limit
                ctx.oracle("s2k_memory_limit_refused", site, &reqs[i], real.is_err(), "derived a key above the documented memory limit");
            }
        }
    }
    // specifier serialisation (direct)
    let mut seen = 0;
    for c in cases.iter().step_by(7) {
        let s = to_rpgp(&c.spec);
        let Ok(Ok(b)) = guarded(|| s.to_bytes()) else { continue };
        let req = format!("s2k.spec {}", spec_args(&c.spec));
        ctx.case(req.clone(), format!("ok:{}", hx(&b)));
        ctx.oracle("s2k_spec_rfc_bytes", "impl Serialize for StringToKey", &req, b == rfc::s2k_spec_bytes(&c.spec), &hx(&b));
        seen += 1;
    }
    ctx.stat_n("s2k:spec_cases", seen);
}
