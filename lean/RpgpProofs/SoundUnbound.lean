import RpgpProofs.SoundVerify
/-!
# SoundUnbound — what is *not* bound by a signature, version-3 signatures, certificates (C02)

* the unhashed area enters the verification functions only through the issuer subpackets
  (`match_identity`) and, for `verify_bindings`, the embedded back-signature;
* the bit-count octets of an MPI within the same octet count do not change the parsed value;
* a version-3 signature never verifies against a log of honest (v4 / v6) signatures;
* `verify_bindings`: a signing-capable subkey needs a verifying back-signature.
-/
namespace Rpgp.Sound
open Rpgp Rpgp.SigDigest

/-! ## unhashed area -/

theorem bodiesOf_append (t : Nat) (a b : List Wire.Subpacket) :
    bodiesOf t (a ++ b) = bodiesOf t a ++ bodiesOf t b := by
  simp [bodiesOf, List.filter_append, List.map_append]

/-- two parsed v4 / v6 signature packets that differ only in their unhashed areas are read
identically by every `Signature::verify*` function as soon as the unhashed areas carry the same
issuer subpackets (Issuer Key ID, type 16; Issuer Fingerprint, type 33) -/
theorem ofWire_unhashed (v6 : Bool) (typ pk hash : Byte) (hashed u1 u2 : List Wire.Subpacket)
    (left salt : Bytes) (sb : Wire.SigBytes)
    (h16 : bodiesOf Gen.spRdIssuerKeyId u1 = bodiesOf Gen.spRdIssuerKeyId u2)
    (h33 : bodiesOf Gen.spRdIssuerFingerprint u1 = bodiesOf Gen.spRdIssuerFingerprint u2) :
    ofWire (.v4 v6 typ pk hash hashed u1 left salt sb) = ofWire (.v4 v6 typ pk hash hashed u2 left salt sb) := by
  simp [ofWire, bodiesOf_append, h16, h33]

/-- the issuer lists enter only through `match_identity`: signatures that differ in nothing else
and agree on `match_identity` for the key get the same verdict -/
theorem dataPre_issuers_only (hk : Byte → Bool) (k : VKey) (s : Sig) (ids fps : List Bytes) (d : Bytes)
    (h : matchIdentity { s with issuerIds := ids, issuerFps := fps } k = matchIdentity s k) :
    dataPre hk k { s with issuerIds := ids, issuerFps := fps } d = dataPre hk k s d := by
  unfold dataPre
  simp only [h]

theorem verifyData_issuers_only (P : Prims) (k : VKey) (s : Sig) (ids fps : List Bytes) (d : Bytes)
    (h : matchIdentity { s with issuerIds := ids, issuerFps := fps } k = matchIdentity s k) :
    verifyData P k { s with issuerIds := ids, issuerFps := fps } d = verifyData P k s d := by
  unfold verifyData
  rw [dataPre_issuers_only _ k s ids fps d h]
  cases dataPre P.hashKnown k s d <;> simp [finish, check]

/-- the binding entry points do not look at issuer subpackets at all -/
theorem subkeyBindingPre_ignores (hk : Byte → Bool) (primary : VKey) (sub : Key) (s : Sig) (ids fps : List Bytes) :
    subkeyBindingPre hk primary sub { s with issuerIds := ids, issuerFps := fps } = subkeyBindingPre hk primary sub s := by
  have hg : ¬ (Gen.sndIdentitySubkeyBinding = 1) := by decide
  unfold subkeyBindingPre
  simp only [hg, false_and, if_false]

theorem subkeyBinding_ignores_issuers (P : Prims) (primary : VKey) (sub : Key) (s : Sig) (ids fps : List Bytes) :
    verifySubkeyBinding P primary sub { s with issuerIds := ids, issuerFps := fps } = verifySubkeyBinding P primary sub s := by
  unfold verifySubkeyBinding
  rw [subkeyBindingPre_ignores]
  cases subkeyBindingPre P.hashKnown primary sub s <;> rfl

/-! ## MPI bit count -/

theorem take2_be16_append (n : Nat) (b : Bytes) : Wire.take 2 (be16 n ++ b) = some (be16 n, b) := by
  simp [Wire.take, be16, beBytes]

/-- two MPI encodings with the same octets and bit counts that need the same number of octets parse
to the same value: the low bits of the bit count are not bound -/
theorem mpiParse_bitcount (n n' : Nat) (b : Bytes) (hn : n < 65536) (hn' : n' < 65536)
    (h1 : n ≤ Gen.mpiMaxBits) (h2 : n' ≤ Gen.mpiMaxBits) (h : (n + 7) / 8 = (n' + 7) / 8) :
    Wire.mpiParse (be16 n ++ b) = Wire.mpiParse (be16 n' ++ b) := by
  unfold Wire.mpiParse
  rw [take2_be16_append, take2_be16_append]
  simp only [beNat_be16 n hn, beNat_be16 n' hn']
  rw [if_neg (by omega), if_neg (by omega), h]

/-! ## version 3 signatures -/

theorem preimage_tail_ff (i : Spec.Input) (hv : i.ver ≠ .v3) :
    ∃ x n, Spec.preimage i = x ++ (0xFF :: be32 n) := by
  cases h : i.ver with
  | v3 => exact absurd h hv
  | v4 =>
    refine ⟨Spec.subjectBytes .v4 i.typ i.subject ++ Spec.hashedFields i ++ [0x04], (Spec.hashedFields i).length, ?_⟩
    simp [Spec.preimage, h, Spec.trailerBytes, List.append_assoc]
  | v6 =>
    refine ⟨i.salt ++ Spec.subjectBytes .v6 i.typ i.subject ++ Spec.hashedFields i ++ [0x06], (Spec.hashedFields i).length, ?_⟩
    simp [Spec.preimage, h, Spec.trailerBytes, List.append_assoc]

/-- octets that end in a v3 tail and are an honest (v4 / v6) pre-image: the type octet is 0xFF -/
theorem v3_tail_typ_ff (c : Cfg) (hv : c.ver = .v3) (x : Bytes) (ft : Bytes) (hft : fieldsAndTrailer c = some ft)
    (i : Spec.Input) (hi : i.ver ≠ .v3) (h : Spec.preimage i = x ++ ft) : c.typ = 0xFF := by
  rw [fieldsAndTrailer_v3 c hv] at hft
  cases hft
  obtain ⟨y, n, hy⟩ := preimage_tail_ff i hi
  rw [hy] at h
  have h1 := List.append_inj' h (by simp [be32_length])
  have := h1.2
  simp only [List.cons.injEq] at this
  exact this.1.symm

theorem verifyData_suffix (c : Cfg) (kv : Nat) (d p : Bytes) (h : SigDigest.verifyData c kv d = some p) :
    ∃ x ft, fieldsAndTrailer c = some ft ∧ p = x ++ ft := by
  unfold SigDigest.verifyData at h
  split at h
  · cases h
  split at h
  · cases h
  simp only at h
  split at h
  · cases h
  · simp only [Option.map_eq_some_iff] at h
    obtain ⟨ft, hft, rfl⟩ := h
    exact ⟨_, ft, hft, rfl⟩

theorem verifyData_typ_ff (c : Cfg) (kv : Nat) (d : Bytes) (h : c.typ = 0xFF) : SigDigest.verifyData c kv d = none := by
  have hd : ∀ x, hashDataToSign c x = none := by
    intro x
    unfold hashDataToSign
    have e1 : ¬ ((0xFF : Byte) = typText ∨ (0xFF : Byte) = typBinary) := by decide
    have e2 : ¬ ((0xFF : Byte) = Gen.sdSigTypeTimestamp.toUInt8 ∨ (0xFF : Byte) = Gen.sdSigTypeStandalone.toUInt8) := by decide
    rw [h, if_neg e1, if_neg e2]
  unfold SigDigest.verifyData
  simp only [hd]
  split
  · rfl
  split <;> rfl
/-- **a version-3 data signature never verifies against honest signers**: rpgp's signers produce
v4 / v6 signatures only, and the two kinds of pre-image cannot coincide for any type octet the
verifier accepts -/
theorem verifyData_v3_never (P : Prims) (L : List (Bytes × Bytes)) (S : List Signed) (k : VKey) (s : Sig) (d : Bytes)
    (hU : Unforgeable P L) (hH : LogHonest P L S) (hS : HonestInputs S) (hv : s.cfg.ver = .v3)
    (hC : ∀ p, SigDigest.verifyData s.cfg k.ver d = some p → CollisionFreeOn P S s.cfg.hash p) :
    verifyData P k s d ≠ .ok := by
  intro h
  obtain ⟨p, hp, hc⟩ := (finish_ok_iff _ P k s _).1 h
  obtain ⟨_, _, _, _, _, _, hd, _⟩ := dataPre_ok _ k s d p hp
  obtain ⟨e, he, _, hpe⟩ := sound_core P L S _ k s p hU hH (hC p hd) hc
  obtain ⟨x, ft, hft, rfl⟩ := verifyData_suffix s.cfg k.ver d p hd
  have := v3_tail_typ_ff s.cfg hv x ft hft e.input (hS e he).2 hpe
  rw [verifyData_typ_ff s.cfg k.ver d this] at hd
  cases hd

theorem verifyCertification_suffix (c : Cfg) (sv : Nat) (k : Key) (tag : Nat) (id : Ser) (p : Bytes)
    (h : verifyCertification c sv k tag id = some p) : ∃ x ft, fieldsAndTrailer c = some ft ∧ p = x ++ ft := by
  unfold verifyCertification at h
  split at h
  · cases h
  split at h
  · cases h
  split at h
  · cases h
  split at h
  · cases h
  · simp only [Option.map_eq_some_iff] at h
    obtain ⟨ft, hft, rfl⟩ := h
    exact ⟨_, ft, hft, rfl⟩

/-- a version-3 certification never verifies against honest signers -/
theorem verifyCert_v3_never (P : Prims) (L : List (Bytes × Bytes)) (S : List Signed) (signer : VKey) (signee : Key)
    (s : Sig) (tag : Nat) (id : Ser)
    (hU : Unforgeable P L) (hH : LogHonest P L S) (hS : HonestInputs S) (hv : s.cfg.ver = .v3)
    (hC : ∀ p, verifyCertification s.cfg signer.ver signee tag id = some p → CollisionFreeOn P S s.cfg.hash p) :
    verifyCert P signer signee s tag id ≠ .ok := by
  intro h
  obtain ⟨p, hp, hc⟩ := (finish_ok_iff _ P signer s _).1 h
  obtain ⟨_, hty, _, _, _, _, hd, _⟩ := certPre_ok _ signer signee s tag id p hp
  obtain ⟨e, he, _, hpe⟩ := sound_core P L S _ signer s p hU hH (hC p hd) hc
  obtain ⟨x, ft, hft, rfl⟩ := verifyCertification_suffix s.cfg signer.ver signee tag id p hd
  have := v3_tail_typ_ff s.cfg hv x ft hft e.input (hS e he).2 hpe
  rw [this] at hty
  revert hty
  decide

theorem verifyKey_suffix (c : Cfg) (sv : Nat) (k : Key) (p : Bytes)
    (h : SigDigest.verifyKey c sv k = some p) : ∃ x ft, fieldsAndTrailer c = some ft ∧ p = x ++ ft := by
  unfold SigDigest.verifyKey at h
  split at h
  · cases h
  split at h
  · cases h
  split at h
  · cases h
  · simp only [Option.map_eq_some_iff] at h
    obtain ⟨ft, hft, rfl⟩ := h
    exact ⟨_, ft, hft, rfl⟩

theorem verifySubkeyBinding_suffix (c : Cfg) (pk sk : Key) (p : Bytes)
    (h : SigDigest.verifySubkeyBinding c pk sk = some p) : ∃ x ft, fieldsAndTrailer c = some ft ∧ p = x ++ ft := by
  unfold SigDigest.verifySubkeyBinding at h
  split at h
  · cases h
  split at h
  · cases h
  split at h
  · simp only [Option.map_eq_some_iff] at h
    obtain ⟨ft, hft, rfl⟩ := h
    exact ⟨_, ft, hft, rfl⟩
  · cases h

theorem verifyPrimaryKeyBinding_suffix (c : Cfg) (sk pk : Key) (p : Bytes)
    (h : SigDigest.verifyPrimaryKeyBinding c sk pk = some p) : ∃ x ft, fieldsAndTrailer c = some ft ∧ p = x ++ ft := by
  unfold SigDigest.verifyPrimaryKeyBinding at h
  split at h
  · cases h
  split at h
  · cases h
  split at h
  · simp only [Option.map_eq_some_iff] at h
    obtain ⟨ft, hft, rfl⟩ := h
    exact ⟨_, ft, hft, rfl⟩
  · cases h

theorem verifyKey_v3_never (P : Prims) (L : List (Bytes × Bytes)) (S : List Signed) (signer : VKey) (signee : Key) (s : Sig)
    (hU : Unforgeable P L) (hH : LogHonest P L S) (hS : HonestInputs S) (hv : s.cfg.ver = .v3)
    (hC : ∀ p, SigDigest.verifyKey s.cfg signer.ver signee = some p → CollisionFreeOn P S s.cfg.hash p) :
    verifyKey P signer signee s ≠ .ok := by
  intro h
  obtain ⟨p, hp, hc⟩ := (finish_ok_iff _ P signer s _).1 h
  obtain ⟨_, hty, _, _, _, _, hd, _⟩ := keyPre_ok _ signer signee s p hp
  obtain ⟨e, he, _, hpe⟩ := sound_core P L S _ signer s p hU hH (hC p hd) hc
  obtain ⟨x, ft, hft, rfl⟩ := verifyKey_suffix s.cfg signer.ver signee p hd
  have := v3_tail_typ_ff s.cfg hv x ft hft e.input (hS e he).2 hpe
  rw [this] at hty
  revert hty
  decide

theorem verifySubkeyBinding_v3_never (P : Prims) (L : List (Bytes × Bytes)) (S : List Signed) (primary : VKey) (sub : Key) (s : Sig)
    (hU : Unforgeable P L) (hH : LogHonest P L S) (hS : HonestInputs S) (hv : s.cfg.ver = .v3)
    (hC : ∀ p, SigDigest.verifySubkeyBinding s.cfg primary.toKey sub = some p → CollisionFreeOn P S s.cfg.hash p) :
    verifySubkeyBinding P primary sub s ≠ .ok := by
  intro h
  obtain ⟨p, hp, hc⟩ := (finish_ok_iff _ P primary s _).1 h
  obtain ⟨_, hty, _, _, _, hd, _⟩ := subkeyBindingPre_ok _ primary sub s p hp
  obtain ⟨e, he, _, hpe⟩ := sound_core P L S _ primary s p hU hH (hC p hd) hc
  obtain ⟨x, ft, hft, rfl⟩ := verifySubkeyBinding_suffix s.cfg primary.toKey sub p hd
  have := v3_tail_typ_ff s.cfg hv x ft hft e.input (hS e he).2 hpe
  rw [this] at hty
  revert hty
  decide

theorem verifyPrimaryKeyBinding_v3_never (P : Prims) (L : List (Bytes × Bytes)) (S : List Signed) (sub : VKey) (primary : Key) (s : Sig)
    (hU : Unforgeable P L) (hH : LogHonest P L S) (hS : HonestInputs S) (hv : s.cfg.ver = .v3)
    (hC : ∀ p, SigDigest.verifyPrimaryKeyBinding s.cfg sub.toKey primary = some p → CollisionFreeOn P S s.cfg.hash p) :
    verifyPrimaryKeyBinding P sub primary s ≠ .ok := by
  intro h
  obtain ⟨p, hp, hc⟩ := (finish_ok_iff _ P sub s _).1 h
  obtain ⟨_, hty, _, _, _, hd, _⟩ := primaryKeyBindingPre_ok _ sub primary s p hp
  obtain ⟨e, he, _, hpe⟩ := sound_core P L S _ sub s p hU hH (hC p hd) hc
  obtain ⟨x, ft, hft, rfl⟩ := verifyPrimaryKeyBinding_suffix s.cfg sub.toKey primary p hd
  have := v3_tail_typ_ff s.cfg hv x ft hft e.input (hS e he).2 hpe
  rw [this] at hty
  revert hty
  decide

/-- inline: a v3 signature in a message never verifies either: the slot's octets end in the v3 tail -/
theorem verifyMessage_v3_never (P : Prims) (L : List (Bytes × Bytes)) (S : List Signed) (k : VKey)
    (ops : Option Ops) (s : Sig) (chunks : List Bytes)
    (hU : Unforgeable P L) (hH : LogHonest P L S) (hS : HonestInputs S) (hv : s.cfg.ver = .v3)
    (hC : ∀ a p, inlinePre P.hashKnown ops s chunks = .ok (some (a, p)) → CollisionFreeOn P S s.cfg.hash p) :
    verifyMessage P k ops s chunks ≠ .ok := by
  intro h
  unfold verifyMessage inlineSlot at h
  cases hp : inlinePre P.hashKnown ops s chunks with
  | error g => simp [hp, Except.map] at h
  | ok slot =>
    cases slot with
    | none => simp [hp, Except.map, verifyInline, Gen.sndInlineNoneIsError] at h
    | some ap =>
      obtain ⟨a, p⟩ := ap
      obtain ⟨ha, _, _, _, ft, hft, hpe⟩ := inlinePre_some _ ops s chunks a p hp
      simp only [hp, Except.map, Option.map] at h
      obtain ⟨_, hty, _, _, _, hc⟩ := verifyInline_some_ok P k s _ h
      subst ha
      obtain ⟨e, he, _, hpre⟩ := sound_core P L S _ k s p hU hH (hC _ p hp) hc
      rw [hpe] at hpre
      have := v3_tail_typ_ff s.cfg hv _ ft hft e.input (hS e he).2 hpre
      rw [this] at hty
      revert hty
      decide

/-! ## other signature types through `Signature::verify` -/

def areaFits (i : Spec.Input) : Prop :=
  match i.ver with
  | .v3 => True
  | .v4 => i.area.length < 65536
  | .v6 => i.area.length + 8 < 4294967296

theorem wf_areaFits (i : Spec.Input) (h : Spec.WF i = true) : areaFits i := by
  unfold areaFits
  cases hv : i.ver <;> simp only
  · simp only [Spec.WF, hv, Bool.and_eq_true, decide_eq_true_eq] at h
    exact h.2.1.1
  · simp only [Spec.WF, hv, Bool.and_eq_true, decide_eq_true_eq] at h
    exact h.2.1.1

/-- octet strings that end in the tails (hashed fields + trailer) of two v4 / v6 inputs and are
equal: same version and same type octet -/
theorem hashedFields_len_v4 (i : Spec.Input) (h : i.ver = .v4) : (Spec.hashedFields i).length = 6 + i.area.length := by
  simp [Spec.hashedFields, h, be16_length]; omega

theorem hashedFields_len_v6 (i : Spec.Input) (h : i.ver = .v6) : (Spec.hashedFields i).length = 8 + i.area.length := by
  simp [Spec.hashedFields, h, be32_length]; omega

theorem tail_typ_eq (a b : Spec.Input) (x y : Bytes) (ha : a.ver ≠ .v3) (hb : b.ver ≠ .v3)
    (la : areaFits a) (lb : areaFits b)
    (h : x ++ Spec.tailBytes a = y ++ Spec.tailBytes b) : a.ver = b.ver ∧ a.typ = b.typ := by
  unfold areaFits at la lb
  have tl : ∀ i : Spec.Input, i.ver ≠ .v3 → (Spec.trailerBytes i).length = 6 := by
    intro i hi
    cases hv : i.ver
    · exact absurd hv hi
    · exact trailer_v4_length i hv
    · exact trailer_v6_length i hv
  have e : ∀ i : Spec.Input, i.ver ≠ .v3 → Spec.tailBytes i = Spec.hashedFields i ++ Spec.trailerBytes i := by
    intro i hi
    cases hv : i.ver
    · exact absurd hv hi
    · simp [Spec.tailBytes, hv]
    · simp [Spec.tailBytes, hv]
  rw [e a ha, e b hb, ← List.append_assoc, ← List.append_assoc] at h
  obtain ⟨hF, hT⟩ := List.append_inj' h (by rw [tl a ha, tl b hb])
  cases hva : a.ver with
  | v3 => exact absurd hva ha
  | v4 =>
    cases hvb : b.ver with
    | v3 => exact absurd hvb hb
    | v4 =>
      rw [hva] at la; rw [hvb] at lb
      simp only at la lb
      simp only [Spec.trailerBytes, hva, hvb, List.cons_append, List.nil_append, List.cons.injEq, true_and] at hT
      have hl : (Spec.hashedFields a).length = (Spec.hashedFields b).length :=
        be32_inj _ _ (by rw [hashedFields_len_v4 a hva]; omega) (by rw [hashedFields_len_v4 b hvb]; omega) hT
      have h2 := (List.append_inj' hF hl).2
      simp only [Spec.hashedFields, hva, hvb, List.cons_append, List.nil_append, List.cons.injEq, true_and] at h2
      exact ⟨rfl, h2.1⟩
    | v6 =>
      simp [Spec.trailerBytes, hva, hvb] at hT
  | v6 =>
    cases hvb : b.ver with
    | v3 => exact absurd hvb hb
    | v4 =>
      simp [Spec.trailerBytes, hva, hvb] at hT
    | v6 =>
      rw [hva] at la; rw [hvb] at lb
      simp only at la lb
      simp only [Spec.trailerBytes, hva, hvb, List.cons_append, List.nil_append, List.cons.injEq, true_and] at hT
      have hl : (Spec.hashedFields a).length = (Spec.hashedFields b).length :=
        be32_inj _ _ (by rw [hashedFields_len_v6 a hva]; omega) (by rw [hashedFields_len_v6 b hvb]; omega) hT
      have h2 := (List.append_inj' hF hl).2
      simp only [Spec.hashedFields, hva, hvb, List.cons_append, List.nil_append, List.cons.injEq, true_and] at h2
      exact ⟨rfl, h2.1⟩

theorem toInput_areaFits (c : Cfg) (s : Spec.Subject) (ft : Bytes) (h : fieldsAndTrailer c = some ft) :
    areaFits (c.toInput s) := by
  have hb := fieldsAndTrailer_bounds c ft h
  unfold areaFits
  cases hv : c.ver <;> rw [hv] at hb <;> simp [Cfg.toInput, hv] <;> exact hb

/-- `Signature::verify` with a type other than Binary / Text (rpgp hashes one octet of the data for
Standalone 0x02 and Timestamp 0x40, and refuses every other type) never verifies against honest
signers: the type octet is part of the hashed tail, and honest inputs carry a type of one of the
RFC's four subject classes -/
theorem verifyData_other_type_never (P : Prims) (L : List (Bytes × Bytes)) (S : List Signed) (k : VKey) (s : Sig) (d : Bytes)
    (hU : Unforgeable P L) (hH : LogHonest P L S) (hS : HonestInputs S) (hv : s.cfg.ver ≠ .v3)
    (hty : Spec.classOf s.cfg.typ = none)
    (hC : ∀ p, SigDigest.verifyData s.cfg k.ver d = some p → CollisionFreeOn P S s.cfg.hash p) :
    verifyData P k s d ≠ .ok := by
  intro h
  obtain ⟨p, hp, hc⟩ := (finish_ok_iff _ P k s _).1 h
  obtain ⟨_, _, _, _, _, _, hd, _⟩ := dataPre_ok _ k s d p hp
  obtain ⟨e, he, _, hpe⟩ := sound_core P L S _ k s p hU hH (hC p hd) hc
  obtain ⟨x, ft, hft, rfl⟩ := verifyData_suffix s.cfg k.ver d p hd
  have hs := fieldsAndTrailer_eq_spec s.cfg ft (.document []) hft
  rw [Spec.preimage_eq, hs] at hpe
  have ht := tail_typ_eq e.input (s.cfg.toInput (.document [])) _ x (hS e he).2
    (by rw [toInput_ver']; exact hv) (wf_areaFits _ (hS e he).1) (toInput_areaFits s.cfg _ ft hft) hpe
  have hwf := (hS e he).1
  have hcls : Spec.classOf e.input.typ = some e.input.subject.cls := by
    simp only [Spec.WF, Bool.and_eq_true, beq_iff_eq] at hwf
    exact hwf.1.1.2
  have : (s.cfg.toInput (.document [])).typ = s.cfg.typ := by
    cases hc' : s.cfg.ver <;> simp [Cfg.toInput]
  rw [ht.2, this, hty] at hcls
  cases hcls

/-! ## certificates -/

/-- `Signed*SubKey::verify_bindings`, one binding signature: the subkey binding verifies, and if
the hashed key flags say "signing" there is an embedded signature that verifies as a primary key
binding made by the subkey -/
theorem verifyOneBinding_ok (P : Prims) (primary sub : VKey) (b : BindSig)
    (h : verifyOneBinding P primary sub b = .ok) :
    verifySubkeyBinding P primary sub.toKey b.sig = .ok ∧
    (b.signFlag = true → ∃ e, b.embedded = some e ∧ verifyPrimaryKeyBinding P sub primary.toKey e = .ok) := by
  unfold verifyOneBinding at h
  cases hs : verifySubkeyBinding P primary sub.toKey b.sig with
  | err g => simp [hs] at h
  | ok =>
    refine ⟨rfl, ?_⟩
    intro hf
    have hg : Gen.publicSubkeyChecksBacksig = 1 := by decide
    simp only [hs, hg, hf, and_self, if_true] at h
    cases he : b.embedded with
    | none => simp [he] at h
    | some e => exact ⟨e, rfl, by simpa [he] using h⟩

theorem verifySubkeyBindings_ok (P : Prims) (primary sub : VKey) (sigs : List BindSig)
    (h : verifySubkeyBindings P primary sub sigs = .ok) :
    sigs ≠ [] ∧ ∀ b ∈ sigs, verifyOneBinding P primary sub b = .ok := by
  unfold verifySubkeyBindings at h
  cases sigs with
  | nil => simp at h
  | cons a t =>
    simp only [List.isEmpty_cons, Bool.false_eq_true, if_false] at h
    refine ⟨by simp, ?_⟩
    intro b hb
    exact (firstErr_ok_iff _).1 h _ (List.mem_map_of_mem hb)

theorem verifyUser_ok (P : Prims) (k : VKey) (tag : Nat) (id : Ser) (sigs : List Sig)
    (h : verifyUser P k tag id sigs = .ok) :
    sigs ≠ [] ∧ ∀ s ∈ sigs, verifyCertSelf P k s tag id = .ok := by
  unfold verifyUser at h
  cases sigs with
  | nil => simp at h
  | cons a t =>
    simp only [List.isEmpty_cons, Bool.false_eq_true, if_false] at h
    refine ⟨by simp, ?_⟩
    intro b hb
    exact (firstErr_ok_iff _).1 h _ (List.mem_map_of_mem (f := fun s => verifyCertSelf P k s tag id) hb)

theorem verifyCertificate_ok (P : Prims) (primary : VKey) (d : Details) (subkeys : List (VKey × List BindSig))
    (h : verifyCertificate P primary d subkeys = .ok) :
    verifyDetails P primary d = .ok ∧ ∀ sk ∈ subkeys, verifySubkeyBindings P primary sk.1 sk.2 = .ok := by
  unfold verifyCertificate at h
  have := (firstErr_ok_iff _).1 h
  refine ⟨this _ (by simp), ?_⟩
  intro sk hsk
  exact this _ (List.mem_cons_of_mem _ (List.mem_map_of_mem (f := fun sk => verifySubkeyBindings P primary sk.1 sk.2) hsk))

theorem verifyDetails_ok (P : Prims) (k : VKey) (d : Details) (h : verifyDetails P k d = .ok) :
    (∀ u ∈ d.users, verifyUser P k tagUserId u.1 u.2 = .ok) ∧
    (∀ u ∈ d.attrs, verifyUser P k tagUserAttribute u.1 u.2 = .ok) ∧
    (∀ s ∈ d.revocations, verifyKeySelf P k s = .ok) ∧ (∀ s ∈ d.directs, verifyKeySelf P k s = .ok) := by
  unfold verifyDetails at h
  have := (firstErr_ok_iff _).1 h
  refine ⟨?_, ?_, ?_, ?_⟩
  · intro u hu
    exact this _ (by simp only [List.mem_append, List.mem_map]; exact Or.inl (Or.inl (Or.inl ⟨u, hu, rfl⟩)))
  · intro u hu
    exact this _ (by simp only [List.mem_append, List.mem_map]; exact Or.inl (Or.inl (Or.inr ⟨u, hu, rfl⟩)))
  · intro s hs
    exact this _ (by simp only [List.mem_append, List.mem_map]; exact Or.inl (Or.inr ⟨s, hs, rfl⟩))
  · intro s hs
    exact this _ (by simp only [List.mem_append, List.mem_map]; exact Or.inr ⟨s, hs, rfl⟩)

/-- `CleartextSignedMessage::verify`: success means one of the signatures verifies over
`signed_text()` -/
theorem verifyCleartext_ok (P : Prims) (k : VKey) (sigs : List Sig) (csf : Bytes)
    (h : verifyCleartext P k sigs csf = .ok) :
    ∃ s ∈ sigs, verifyData P k s (SV.signedText csf) = .ok := by
  unfold verifyCleartext at h
  split at h
  · rename_i ha
    obtain ⟨s, hs, he⟩ := List.any_eq_true.1 ha
    exact ⟨s, hs, by simpa using he⟩
  · cases h

end Rpgp.Sound
