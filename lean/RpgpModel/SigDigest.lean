import RpgpModel.Bytes
import RpgpModel.Canon
import RpgpModel.Gen.Constants
/-!
# SigDigest — the byte strings that are hashed for signatures (C11, shared with C02)

Two layers, kept apart on purpose:

* `Rpgp.SigDigest.Spec` — the *specification*: RFC 9580 §5.2.4 ("Computing Signatures") typed in as
  data, plus RFC 4880 §5.2.4 for version 3.  `Spec.preimage` is the octet string whose hash is
  handed to the public-key primitive.  Nothing in it mentions rpgp.
* `Rpgp.SigDigest` (the rest) — the *code*: one definition per hashing routine of rpgp, in the order in
  which the routine feeds its hasher, with the routine's own guards and its own `try_into()?`
  failure points.  Every definition returns `Option Bytes`: `none` = the routine returns `Err`
  before the primitive is called, `some p` = the digest handed to `SigningKey::sign` /
  `VerifyingKey::verify` is `hash(p)`.

  | definition               | Rust item                                                          |
  |--------------------------|--------------------------------------------------------------------|
  | `serializeForHashing`    | `packet/signature/types.rs  serialize_for_hashing`                  |
  | `hashSignatureData`      | `packet/signature/config.rs SignatureConfig::hash_signature_data`   |
  | `trailer`                | `SignatureConfig::trailer`                                          |
  | `signData`               | `SignatureConfig::sign` = `into_hasher` + `io::copy` + `SignatureHasher::sign` (also `MessageBuilder` signers, `DetachedSignature::sign_*`, `CleartextSignedMessage::new`) |
  | `signCertification`      | `SignatureConfig::sign_certification(_third_party)`                 |
  | `signSubkeyBinding`      | `SignatureConfig::sign_subkey_binding`                              |
  | `signPrimaryKeyBinding`  | `SignatureConfig::sign_primary_key_binding`                         |
  | `signKey`                | `SignatureConfig::sign_key`                                         |
  | `verifyData`             | `Signature::verify` (+ `hash_data_to_sign`, `NormalizedReader`)     |
  | `verifyCertification`    | `Signature::verify_(third_party_)certification`                     |
  | `verifySubkeyBinding`    | `Signature::verify_subkey_binding`                                  |
  | `verifyPrimaryKeyBinding`| `Signature::verify_primary_key_binding`                             |
  | `verifyKey`              | `Signature::verify_key(_third_party)`                               |
  | `verifyInline`           | `reader/signed_many.rs SignaturePacket::new_hasher` + `fill_inner` + `Message::verify_nested_explicit` |

The hash function itself is not modelled (it is a parameter of every statement that needs it);
the model stops at the hasher's input.  Octets and field widths come from `Gen` (re-extracted
from the source on every run, one definition per use site).
-/
namespace Rpgp.SigDigest

/-- signature versions the hashing code distinguishes; `v3` stands for `V2 | V3` -/
inductive Ver where
  | v3
  | v4
  | v6
deriving DecidableEq, Repr

/-- `self.version().into()` for the versions that write their octet into the hash -/
def Ver.octet : Ver → Byte
  | .v3 => Gen.sdSigVerV3.toUInt8
  | .v4 => Gen.sdSigVerV4.toUInt8
  | .v6 => Gen.sdSigVerV6.toUInt8

/-- `x.try_into()?` into an unsigned integer of `octets` octets followed by a big-endian write -/
def lenField (octets n : Nat) : Option Bytes :=
  if n < 256 ^ octets then some (beBytes octets n) else none

/-! ## specification (RFC 9580 §5.2.4, RFC 4880 §5.2.4) -/
namespace Spec

/-- how a key enters a signature hash: the version-specific framing class and the body of the
public-key packet (RFC 9580 §5.2.4: "0x99, two-octet length, body" for a version 4 key, "0x9B,
four-octet length, body" for a version 6 key) -/
inductive KeyFmt where
  | legacy
  | v6
deriving DecidableEq, Repr

structure Key where
  fmt : KeyFmt
  body : Bytes
deriving DecidableEq, Repr

/-- what is signed -/
inductive Subject where
  /-- 0x00 / 0x01: the document (for 0x01 after conversion of line endings to CR LF) -/
  | document (data : Bytes)
  /-- 0x1F / 0x20: the key -/
  | directKey (k : Key)
  /-- 0x10–0x13 / 0x30: the key, then the User ID (`attr = false`) or User Attribute packet body -/
  | certification (k : Key) (attr : Bool) (body : Bytes)
  /-- 0x18 / 0x19 / 0x28: the primary key, then the subkey -/
  | binding (primary sub : Key)
deriving DecidableEq, Repr

inductive Class where
  | doc
  | direct
  | cert
  | bind
deriving DecidableEq, Repr

def Subject.cls : Subject → Class
  | .document _ => .doc
  | .directKey _ => .direct
  | .certification .. => .cert
  | .binding .. => .bind

/-- the subject class RFC 9580 §5.2.1 / §5.2.4 prescribes for a signature type octet -/
def classOf (typ : Byte) : Option Class :=
  if typ = 0x00 ∨ typ = 0x01 then some .doc
  else if typ = 0x10 ∨ typ = 0x11 ∨ typ = 0x12 ∨ typ = 0x13 ∨ typ = 0x30 then some .cert
  else if typ = 0x18 ∨ typ = 0x19 ∨ typ = 0x28 then some .bind
  else if typ = 0x1F ∨ typ = 0x20 then some .direct
  else none

def keyBytes (k : Key) : Bytes :=
  match k.fmt with
  | .legacy => 0x99 :: (be16 k.body.length ++ k.body)
  | .v6 => 0x9B :: (be32 k.body.length ++ k.body)

/-- User ID / User Attribute framing: 0xB4 / 0xD1 and a four-octet length for v4 and v6
signatures, the bare body for v3 -/
def idBytes (ver : Ver) (attr : Bool) (body : Bytes) : Bytes :=
  match ver with
  | .v3 => body
  | _ => (if attr then 0xD1 else 0xB4) :: (be32 body.length ++ body)

def subjectBytes (ver : Ver) (typ : Byte) : Subject → Bytes
  | .document d => if typ = 0x01 then canon d else d
  | .directKey k => keyBytes k
  | .certification k attr body => keyBytes k ++ idBytes ver attr body
  | .binding p s => keyBytes p ++ keyBytes s

/-- everything that determines the digest -/
structure Input where
  ver : Ver
  typ : Byte
  pk : Byte
  hash : Byte
  /-- the hashed subpacket data exactly as in the signature packet (v4, v6) -/
  area : Bytes
  /-- v6 only -/
  salt : Bytes
  /-- v3 only: creation time -/
  created : Nat
  subject : Subject
deriving DecidableEq, Repr

/-- "the signature version, type, public-key algorithm, hash algorithm, hashed subpacket length
(two octets for v4, four for v6) and hashed subpacket body" -/
def hashedFields (i : Input) : Bytes :=
  match i.ver with
  | .v3 => []
  | .v4 => [0x04, i.typ, i.pk, i.hash] ++ be16 i.area.length ++ i.area
  | .v6 => [0x06, i.typ, i.pk, i.hash] ++ be32 i.area.length ++ i.area

/-- "the version, 0xFF and a four-octet big-endian number that is the length of the hashed data
from the Signature packet through the hashed subpacket body" -/
def trailerBytes (i : Input) : Bytes :=
  match i.ver with
  | .v3 => []
  | .v4 => [0x04, 0xFF] ++ be32 (hashedFields i).length
  | .v6 => [0x06, 0xFF] ++ be32 (hashedFields i).length

/-- RFC 9580 table 23: salt size per hash algorithm octet -/
def saltSize (hash : Byte) : Option Nat :=
  if hash = 8 then some 16        -- SHA2-256
  else if hash = 9 then some 24   -- SHA2-384
  else if hash = 10 then some 32  -- SHA2-512
  else if hash = 11 then some 16  -- SHA2-224
  else if hash = 12 then some 16  -- SHA3-256
  else if hash = 14 then some 32  -- SHA3-512
  else none

/-- the octet string that is hashed -/
def preimage (i : Input) : Bytes :=
  match i.ver with
  | .v3 => subjectBytes .v3 i.typ i.subject ++ (i.typ :: be32 i.created)
  | .v4 => subjectBytes .v4 i.typ i.subject ++ hashedFields i ++ trailerBytes i
  | .v6 => i.salt ++ subjectBytes .v6 i.typ i.subject ++ hashedFields i ++ trailerBytes i

/-- decidable well-formedness: every length fits its field, the salt has the size table 23
gives, the subject is of the class the type octet demands, fields that the version does not
use are empty, text documents are given in canonical form -/
def keyWF (k : Key) : Bool :=
  match k.fmt with
  | .legacy => k.body.length < 65536
  | .v6 => k.body.length < 4294967296

def subjectWF (ver : Ver) : Subject → Bool
  | .document _ => true
  | .directKey k => keyWF k
  | .certification k _ body => keyWF k && (ver == .v3 || body.length < 4294967296)
  | .binding p s => keyWF p && keyWF s

def WF (i : Input) : Bool :=
  subjectWF i.ver i.subject && (classOf i.typ == some i.subject.cls) &&
  (match i.subject with
   | .document d => if i.typ = 0x01 then canon d == d else true
   | _ => true) &&
  (match i.ver with
   | .v3 => i.area.isEmpty && i.salt.isEmpty && i.created < 4294967296
   | .v4 => i.area.length < 65536 && i.salt.isEmpty && i.created == 0
   | .v6 => i.area.length + 8 < 4294967296 && saltSize i.hash == some i.salt.length && i.created == 0)

end Spec

/-! ## the code -/

/-- what `Serialize` offers for an object that is hashed: `write_len()` (announced) and the
octets `to_writer` produces; they are two separate implementations in the crate -/
structure Ser where
  writeLen : Nat
  bytes : Bytes
deriving DecidableEq, Repr

def Ser.truthful (s : Ser) : Prop := s.writeLen = s.bytes.length

instance (s : Ser) : Decidable s.truthful := by unfold Ser.truthful; infer_instance

/-- a key as `serialize_for_hashing` sees it: `KeyDetails::version()` and `Serialize` -/
structure Key where
  /-- key version octet -/
  ver : Nat
  ser : Ser
deriving DecidableEq, Repr

/-- `serialize_for_hashing(key, hasher)` -/
def serializeForHashing (k : Key) : Option Bytes :=
  if k.ver = 2 ∨ k.ver = 3 ∨ k.ver = 4 then
    (lenField Gen.sdSfhLegacyLenOctets k.ser.writeLen).map fun l =>
      Gen.sdSfhLegacyPrefix.toUInt8 :: (l ++ k.ser.bytes)
  else if k.ver = 6 then
    (lenField Gen.sdSfhV6LenOctets k.ser.writeLen).map fun l =>
      Gen.sdSfhV6Prefix.toUInt8 :: (l ++ k.ser.bytes)
  else none   -- `unimplemented_err!("key version {:?}")`

/-- a `SignatureConfig` as far as hashing is concerned -/
structure Cfg where
  ver : Ver
  typ : Byte
  pk : Byte
  hash : Byte
  /-- concatenation of `Subpacket::to_writer` over `hashed_subpackets` -/
  area : Bytes
  /-- `SignatureVersionSpecific::V2 | V3 { created }` -/
  created : Nat := 0
  /-- `SignatureVersionSpecific::V6 { salt }` -/
  salt : Bytes := []
deriving DecidableEq, Repr

/-- the salt-size check (`hash_alg.salt_len() == Some(salt.len())`) of `hash_signature_data`,
`Signature::verify` and `SignaturePacket::new_hasher` -/
def saltSizeOk (c : Cfg) : Bool :=
  match c.ver with
  | .v6 => Gen.sdSaltLenOf c.hash.toNat == some c.salt.length
  | _ => true

/-- `SignatureConfig::hash_signature_data`: (octets fed to the hasher, returned length); for a v6
configuration it first compares the salt size with the table -/
def hashSignatureData (c : Cfg) : Option (Bytes × Nat) :=
  match c.ver with
  | .v3 => some (c.typ :: beBytes (Gen.sdHsdV3Len - 1) c.created, 0)
  | .v4 =>
    (lenField Gen.sdHsdV4AreaLenOctets c.area.length).map fun l =>
      let res := [c.ver.octet, c.typ, c.pk, c.hash] ++ l ++ c.area
      (res, res.length)
  | .v6 =>
    if !saltSizeOk c then none
    else
      (lenField Gen.sdHsdV6AreaLenOctets c.area.length).map fun l =>
        let res := [c.ver.octet, c.typ, c.pk, c.hash] ++ l ++ c.area
        (res, res.length)

/-- `SignatureConfig::trailer(len)` -/
def trailer (c : Cfg) (len : Nat) : Option Bytes :=
  match c.ver with
  | .v3 => some []
  | _ => (lenField Gen.sdTrailerLenOctets len).map fun l => [c.ver.octet, Gen.sdTrailerMarker.toUInt8] ++ l

/-- `let len = config.hash_signature_data(&mut hasher)?; hasher.update(&config.trailer(len)?)` -/
def fieldsAndTrailer (c : Cfg) : Option Bytes :=
  match hashSignatureData c with
  | none => none
  | some (f, len) => (trailer c len).map fun t => f ++ t

/-- `if let V6 { salt } = … { hasher.update(salt) }` -/
def saltBytes (c : Cfg) : Bytes :=
  match c.ver with
  | .v6 => c.salt
  | _ => []

def typBinary : Byte := Gen.sdSigTypeBinary.toUInt8
def typText : Byte := Gen.sdSigTypeText.toUInt8

/-- `SignatureConfig::is_certification` / the `matches!` of the verifier -/
def isCertification (typ : Byte) : Bool :=
  typ == Gen.sdSigTypeCertGeneric.toUInt8 || typ == Gen.sdSigTypeCertPersona.toUInt8 ||
  typ == Gen.sdSigTypeCertCasual.toUInt8 || typ == Gen.sdSigTypeCertPositive.toUInt8 ||
  typ == Gen.sdSigTypeCertRevocation.toUInt8

/-- sign side: `(v4 sig ∧ v4 key) ∨ (v6 sig ∧ v6 key)` -/
def signAligned (c : Cfg) (signerVer : Nat) : Bool :=
  (c.ver == .v4 && signerVer == 4) || (c.ver == .v6 && signerVer == 6)

/-- verify side: `check_signature_key_version_alignment` -/
def verifyAligned (c : Cfg) (signerVer : Nat) : Bool :=
  (signerVer != 6 || c.ver == .v6) && (c.ver != .v6 || signerVer == 6)

/-- packet tags of the identity packets -/
def tagUserId : Nat := 13
def tagUserAttribute : Nat := 17

/-- prefix of the identity packet; `len` is what the caller announces -/
def idPrefix (ver : Ver) (uidOctet attrOctet octets : Nat) (tag len : Nat) : Option Bytes :=
  match ver with
  | .v3 => some []
  | _ =>
    if tag = tagUserId then (lenField octets len).map fun l => uidOctet.toUInt8 :: l
    else if tag = tagUserAttribute then (lenField octets len).map fun l => attrOctet.toUInt8 :: l
    else none

/-! ### signing -/

/-- `SignatureConfig::sign(key, pw, data)`: `into_hasher` (salt, `NormalizingHasher` in text
mode iff the type is Text), the data copied in `chunks`, then `SignatureHasher::sign`. -/
def signData (c : Cfg) (signerVer : Nat) (chunks : List Bytes) : Option Bytes :=
  let body := if c.typ = typText then hashedText chunks else chunks.flatten
  if !signAligned c signerVer then none
  else if !(c.typ == typBinary || c.typ == typText) then none
  else (fieldsAndTrailer c).map fun ft => saltBytes c ++ body ++ ft

/-- `SignatureConfig::sign_certification_third_party(signer, pw, signee, tag, id)` -/
def signCertification (c : Cfg) (signerVer : Nat) (signee : Key) (tag : Nat) (id : Ser) : Option Bytes :=
  if !signAligned c signerVer then none
  else if !isCertification c.typ then none
  else
    match serializeForHashing signee with
    | none => none
    | some k =>
      -- `packet_buf = id.to_writer()`; the announced length is `packet_buf.len()`
      match idPrefix c.ver Gen.sdSignUidPrefix Gen.sdSignAttrPrefix Gen.sdSignIdLenOctets tag id.bytes.length with
      | none => none
      | some pre => (fieldsAndTrailer c).map fun ft => saltBytes c ++ k ++ pre ++ id.bytes ++ ft

/-- `SignatureConfig::sign_subkey_binding(signer, signer_pub, pw, signee)`: primary = signer_pub,
subkey = signee; types 0x18 / 0x28 only -/
def signSubkeyBinding (c : Cfg) (signerVer : Nat) (primary sub : Key) : Option Bytes :=
  if !signAligned c signerVer then none
  else if !(c.typ == Gen.sdSigTypeSubkeyBinding.toUInt8 || c.typ == Gen.sdSigTypeSubkeyRevocation.toUInt8) then none
  else
    match serializeForHashing primary, serializeForHashing sub with
    | some p, some s => (fieldsAndTrailer c).map fun ft => saltBytes c ++ p ++ s ++ ft
    | _, _ => none

/-- `SignatureConfig::sign_primary_key_binding(signer, signer_pub, pw, signee)`: primary =
signee, subkey = signer_pub; the hashing order is primary then subkey, as above; type 0x19 only -/
def signPrimaryKeyBinding (c : Cfg) (signerVer : Nat) (primary sub : Key) : Option Bytes :=
  if !signAligned c signerVer then none
  else if !(c.typ == Gen.sdSigTypeKeyBinding.toUInt8) then none
  else
    match serializeForHashing primary, serializeForHashing sub with
    | some p, some s => (fieldsAndTrailer c).map fun ft => saltBytes c ++ p ++ s ++ ft
    | _, _ => none

/-- `SignatureConfig::sign_key(signing_key, pw, key)` -/
def signKey (c : Cfg) (signerVer : Nat) (key : Key) : Option Bytes :=
  if !signAligned c signerVer then none
  else if !(c.typ == Gen.sdSigTypeKey.toUInt8 || c.typ == Gen.sdSigTypeKeyRevocation.toUInt8) then none
  else
    match serializeForHashing key with
    | none => none
    | some k => (fieldsAndTrailer c).map fun ft => saltBytes c ++ k ++ ft

/-! ### verifying -/

/-- `SignatureConfig::hash_data_to_sign`: what of `data` is hashed -/
def hashDataToSign (c : Cfg) (data : Bytes) : Option Bytes :=
  if c.typ = typText ∨ c.typ = typBinary then some data
  else if c.typ = Gen.sdSigTypeTimestamp.toUInt8 ∨ c.typ = Gen.sdSigTypeStandalone.toUInt8 then
    match data with
    | b :: _ => some [b]       -- `read_exact` of one octet
    | [] => none
  else none                    -- `unimplemented_err!`

/-- `Signature::verify(key, data)` (also `DetachedSignature::verify`,
`CleartextSignedMessage::verify`) -/
def verifyData (c : Cfg) (signerVer : Nat) (data : Bytes) : Option Bytes :=
  if !verifyAligned c signerVer then none
  else if !saltSizeOk c then none
  else
    let d := if c.typ = typText then normalizedRead Gen.normalizedReaderWindow data else data
    match hashDataToSign c d with
    | none => none
    | some body => (fieldsAndTrailer c).map fun ft => saltBytes c ++ body ++ ft

/-- `Signature::verify_third_party_certification(signee, signer, tag, id)`; the announced id
length is `id.write_len()` here -/
def verifyCertification (c : Cfg) (signerVer : Nat) (signee : Key) (tag : Nat) (id : Ser) : Option Bytes :=
  if !isCertification c.typ then none
  else if !verifyAligned c signerVer then none
  else
    match serializeForHashing signee with
    | none => none
    | some k =>
      match idPrefix c.ver Gen.sdVerUidPrefix Gen.sdVerAttrPrefix Gen.sdVerIdLenOctets tag id.writeLen with
      | none => none
      | some pre => (fieldsAndTrailer c).map fun ft => saltBytes c ++ k ++ pre ++ id.bytes ++ ft

/-- `Signature::verify_subkey_binding(signer = primary, signee = subkey)` -/
def verifySubkeyBinding (c : Cfg) (primary sub : Key) : Option Bytes :=
  if !(c.typ == Gen.sdSigTypeSubkeyBinding.toUInt8 || c.typ == Gen.sdSigTypeSubkeyRevocation.toUInt8) then none
  else if !verifyAligned c primary.ver then none
  else
    match serializeForHashing primary, serializeForHashing sub with
    | some p, some s => (fieldsAndTrailer c).map fun ft => saltBytes c ++ p ++ s ++ ft
    | _, _ => none

/-- `Signature::verify_primary_key_binding(signer = subkey, signee = primary)` -/
def verifyPrimaryKeyBinding (c : Cfg) (sub primary : Key) : Option Bytes :=
  if !(c.typ == Gen.sdSigTypeKeyBinding.toUInt8) then none
  else if !verifyAligned c sub.ver then none
  else
    match serializeForHashing primary, serializeForHashing sub with
    | some p, some s => (fieldsAndTrailer c).map fun ft => saltBytes c ++ p ++ s ++ ft
    | _, _ => none

/-- `Signature::verify_key_third_party(signee, signer)` -/
def verifyKey (c : Cfg) (signerVer : Nat) (signee : Key) : Option Bytes :=
  if !(c.typ == Gen.sdSigTypeKey.toUInt8 || c.typ == Gen.sdSigTypeKeyRevocation.toUInt8) then none
  else if !verifyAligned c signerVer then none
  else
    match serializeForHashing signee with
    | none => none
    | some k => (fieldsAndTrailer c).map fun ft => saltBytes c ++ k ++ ft

/-- inline signatures: `SignaturePacket::new_hasher` (salt-size check, salt, `NormalizingHasher`
in text mode iff the type is Text), the literal body delivered in `chunks`, then
`hash_signature_data` + `trailer` in `fill_inner`, then `Message::verify_nested_explicit`
(`check_inline_verification_preconditions`: document types only, version alignment). -/
def verifyInline (c : Cfg) (signerVer : Nat) (chunks : List Bytes) : Option Bytes :=
  if !saltSizeOk c then none
  else
    let body := if c.typ = typText then hashedText chunks else chunks.flatten
    match fieldsAndTrailer c with
    | none => none
    | some ft =>
      if !(c.typ == typBinary || c.typ == typText) then none
      else if !verifyAligned c signerVer then none
      else some (saltBytes c ++ body ++ ft)

/-! ## from the code's view of a key to the specification's -/

def Key.toSpec (k : Key) : Spec.Key :=
  { fmt := if k.ver = 6 then .v6 else .legacy, body := k.ser.bytes }

def Cfg.toInput (c : Cfg) (s : Spec.Subject) : Spec.Input :=
  { ver := c.ver, typ := c.typ, pk := c.pk, hash := c.hash,
    area := match c.ver with | .v3 => [] | _ => c.area,
    salt := match c.ver with | .v6 => c.salt | _ => [],
    created := match c.ver with | .v3 => c.created | _ => 0,
    subject := s }

end Rpgp.SigDigest
