//! C07 — generated keys are valid, self-consistent and usable for every seed and shape.
//!
//! Sweep of the REAL generator (`SecretKeyParamsBuilder` -> `SecretKeyParams::generate`) over
//! RNG seeds x {v4, v6} x primary algorithm x subkey lists x locked|unlocked x 0..3 user ids
//! (threads over seeds; results are fed to `ctx` sequentially, so runs are deterministic).
//!
//! Correspondence (model: lean/RpgpModel/KeyGen.lean, ops: lean/RpgpModel/Ops/C07.lean):
//!   validate ...     builder validation decision (error class) — `SecretKeyParamsBuilder::build`
//!   gen_shape ...    packet / signature / subpacket sequence of the generated certificate
//!                    (or the error class of `generate`)
//!   mpi_enc raw=     bytes rpgp wrote for a value-dependent field (secret scalars, points,
//!                    signature halves) = model `mpiWrite (stripZeros raw)`
//!   mpi_dec how= n=  value rpgp holds after re-import (`pad_key` / `from_slice` / plain MPI /
//!                    reversed Curve25519) = model reader
//!   eddsa_sig r= s=  the 64 octets `PubKeyInner::verify` rebuilds from stripped r/s = what the
//!                    primitive produced
//!   c25519_enc raw=  reversed, unstripped Curve25519Legacy secret
//!   mpi_read data=   `Mpi::try_from_reader` on boundary inputs (synthetic stream)
//!   pad_key n= val=  `pad_key::<N>` (hook) on boundary inputs
//!   vb_pub / vb_sec / vb_topub  composition of `verify_bindings` (public / secret form) over per-signature
//!                    verdicts measured with the real `Signature::verify_*`, incl. mutated
//!                    certificates (dropped back-signature, unsigned components, swapped sigs)
//! every request counts in `ctx.stat` how often the leading-zero branch was taken, per field
//! (`field:<name>` = occurrences, `leading_zero:<name>` = of which with >= 1 leading zero octet;
//! `material:` prefix = bare `KeyType::generate` key pairs of the material sweep).
//! Synthetic streams: builder configurations (`validate_sweep`), shapes `generate` refuses or
//! panics on (`shape_errors`), boundary MPIs, `pad_key` lengths, crafted scalars with every
//! leading-zero count through the real secret-key reader, 6k-40k EdDSA legacy signatures.
//!
//! Oracle (property text only): verify_bindings on secret and public form; equality after binary
//! and armored export/import (secret and public); flags / preferences / features as requested;
//! back-signature present exactly for signing subkeys; sign -> verify and encrypt -> decrypt with
//! the generated AND the re-imported keys.

use std::io::Read;

use pgp::composed::{
    ArmorOptions, Deserializable, DetachedSignature, EncryptionCaps, KeyType, Message, MessageBuilder, SecretKeyParamsBuilder,
    SignedPublicKey, SignedPublicSubKey, SignedSecretKey, SignedSecretSubKey, SubkeyParams, SubkeyParamsBuilder,
};
use pgp::crypto::aead::{AeadAlgorithm, ChunkSize};
use pgp::crypto::ecc_curve::ECCCurve;
use pgp::crypto::hash::HashAlgorithm;
use pgp::crypto::public_key::PublicKeyAlgorithm;
use pgp::crypto::sym::SymmetricKeyAlgorithm;
use pgp::packet::{KeyFlags, PacketTrait, Signature, SubpacketData};
use pgp::ser::Serialize;
use pgp::types::{
    CompressionAlgorithm, EddsaLegacyPublicParams, KeyDetails, KeyVersion, Mpi, Password, PlainSecretParams, PublicParams, S2kParams,
    SignatureBytes, SigningKey, StringToKey, Tag, Timestamp, VerifyingKey,
};
use rand::{Rng, RngCore, SeedableRng};
use rand_chacha::ChaCha8Rng;
use smallvec::SmallVec;

use crate::ctx::{guarded, hx, Ctx};

// ---------------------------------------------------------------------------------------------
// configuration (shape) of one key
// ---------------------------------------------------------------------------------------------

/// key type in the numbering of the line protocol: kind = position in `enum KeyType`,
/// param = bit size or position in `enum ECCCurve`
#[derive(Clone, Copy, Debug, PartialEq, Eq)]
pub struct Kt(pub u8, pub u32);

pub const RSA: u8 = 0;
pub const ECDH: u8 = 1;
pub const EDLEG: u8 = 2;
pub const ECDSA: u8 = 3;
pub const DSA: u8 = 4;
pub const ED25519: u8 = 5;
pub const ED448: u8 = 6;
pub const X25519: u8 = 7;
pub const X448: u8 = 8;

fn curve(i: u32) -> ECCCurve {
    match i {
        0 => ECCCurve::Curve25519Legacy,
        1 => ECCCurve::Ed25519Legacy,
        2 => ECCCurve::P256,
        3 => ECCCurve::P384,
        4 => ECCCurve::P521,
        5 => ECCCurve::BrainpoolP256r1,
        6 => ECCCurve::BrainpoolP384r1,
        7 => ECCCurve::BrainpoolP512r1,
        _ => ECCCurve::Secp256k1,
    }
}

impl Kt {
    fn real(self) -> KeyType {
        match self.0 {
            RSA => KeyType::Rsa(self.1),
            ECDH => KeyType::ECDH(curve(self.1)),
            EDLEG => KeyType::Ed25519Legacy,
            ECDSA => KeyType::ECDSA(curve(self.1)),
            DSA => KeyType::Dsa(match self.1 {
                1024 => pgp::composed::DsaKeySize::B1024,
                2048 => pgp::composed::DsaKeySize::B2048,
                _ => pgp::composed::DsaKeySize::B3072,
            }),
            ED25519 => KeyType::Ed25519,
            ED448 => KeyType::Ed448,
            X25519 => KeyType::X25519,
            _ => KeyType::X448,
        }
    }
    fn enc(self) -> String {
        format!("{}:{}", self.0, self.1)
    }
    fn name(self) -> String {
        match self.0 {
            RSA => format!("rsa{}", self.1),
            ECDH => format!("ecdh-{}", curve(self.1).name().replace(' ', "")),
            EDLEG => "ed25519legacy".into(),
            ECDSA => format!("ecdsa-{}", curve(self.1).name().replace(' ', "")),
            DSA => format!("dsa{}", self.1),
            ED25519 => "ed25519".into(),
            ED448 => "ed448".into(),
            X25519 => "x25519".into(),
            _ => "x448".into(),
        }
    }
    fn signs(self) -> bool {
        matches!(self.0, RSA | EDLEG | ECDSA | DSA | ED25519 | ED448)
    }
    fn encrypts(self) -> bool {
        matches!(self.0, RSA | ECDH | X25519 | X448)
    }
}

#[derive(Clone, Debug)]
pub struct SubCfg {
    pub kt: Kt,
    pub ver: u8,
    pub sign: bool,
    pub enc: u8, // 0 none, 1 communication, 2 storage, 3 all
    pub auth: bool,
    pub locked: bool,
}

#[derive(Clone, Debug)]
pub struct Cfg {
    pub ver: u8,
    pub set_ver: bool, // call `.version(..)` on the builder (false: leave the builder's default)
    pub kt: Kt,
    pub sign: bool,
    pub cert: bool,
    pub enc: u8,
    pub auth: bool,
    pub primary_uid: Option<String>,
    pub uids: Vec<String>,
    pub locked: bool,
    pub default_s2k: bool,
    pub pw: String,
    pub sym: Vec<u8>,
    pub hash: Vec<u8>,
    pub comp: Vec<u8>,
    pub aead: Vec<(u8, u8)>,
    pub seipd1: bool,
    pub seipd2: bool,
    pub created: u32,
    pub subs: Vec<SubCfg>,
}

fn caps(e: u8) -> EncryptionCaps {
    match e {
        0 => EncryptionCaps::None,
        1 => EncryptionCaps::Communication,
        2 => EncryptionCaps::Storage,
        _ => EncryptionCaps::All,
    }
}

fn kver(v: u8) -> KeyVersion {
    match v {
        2 => KeyVersion::V2,
        3 => KeyVersion::V3,
        4 => KeyVersion::V4,
        5 => KeyVersion::V5,
        6 => KeyVersion::V6,
        o => KeyVersion::Other(o),
    }
}

/// cheap S2K so that locked keys do not dominate the run (the default for v6 is Argon2 with 64 MiB)
fn cheap_s2k(rng: &mut ChaCha8Rng, ver: u8) -> S2kParams {
    if ver == 6 {
        let aead = [AeadAlgorithm::Ocb, AeadAlgorithm::Eax, AeadAlgorithm::Gcm][rng.gen_range(0..3)];
        let mut nonce = vec![0u8; aead.nonce_size()];
        rng.fill(&mut nonce[..]);
        S2kParams::Aead {
            sym_alg: SymmetricKeyAlgorithm::AES256,
            aead_mode: aead,
            s2k: StringToKey::new_iterated(&mut *rng, HashAlgorithm::Sha256, 0),
            nonce: nonce.into(),
        }
    } else {
        let mut iv = vec![0u8; 16];
        rng.fill(&mut iv[..]);
        S2kParams::Cfb { sym_alg: SymmetricKeyAlgorithm::AES128, s2k: StringToKey::new_iterated(&mut *rng, HashAlgorithm::Sha256, 0), iv: iv.into() }
    }
}

impl Cfg {
    /// replayable one-line description (also the model request's argument list)
    pub fn args(&self) -> String {
        let subs = if self.subs.is_empty() {
            "-".to_string()
        } else {
            self.subs
                .iter()
                .map(|s| format!("{};{};{};{};{}", s.kt.enc(), s.ver, s.sign as u8, s.enc, s.auth as u8))
                .collect::<Vec<_>>()
                .join(",")
        };
        format!(
            "ver={} setver={} kt={} sign={} cert={} enc={} auth={} puid={} nuid={} subs={}",
            self.ver, self.set_ver as u8, self.kt.enc(), self.sign as u8, self.cert as u8, self.enc, self.auth as u8,
            self.primary_uid.is_some() as u8, self.uids.len(), subs
        )
    }

    /// argument list of the `gen_shape` request: shape plus requested preferences / features
    pub fn shape_args(&self) -> String {
        let l = |v: &Vec<u8>| if v.is_empty() { "-".to_string() } else { v.iter().map(|x| x.to_string()).collect::<Vec<_>>().join(",") };
        let aead: Vec<u8> = self.aead.iter().flat_map(|&(a, b)| [a, b]).collect();
        format!("{} sym={} hash={} comp={} aead={} f1={} f2={}", self.args(), l(&self.sym), l(&self.hash), l(&self.comp), l(&aead), self.seipd1 as u8, self.seipd2 as u8)
    }

    fn describe(&self, seed: u64) -> String {
        format!(
            "seed={seed} {} locked={} default_s2k={} sublocked={} sym={:?} hash={:?} comp={:?} aead={:?} f1={} f2={} created={} uid0={:?} uids={:?}",
            self.args(),
            self.locked as u8,
            self.default_s2k as u8,
            self.subs.iter().map(|s| if s.locked { '1' } else { '0' }).collect::<String>(),
            self.sym, self.hash, self.comp, self.aead, self.seipd1 as u8, self.seipd2 as u8, self.created, self.primary_uid, self.uids
        )
    }

    fn builder(&self, rng: &mut ChaCha8Rng) -> SecretKeyParamsBuilder {
        let mut b = SecretKeyParamsBuilder::default();
        if self.set_ver {
            b.version(kver(self.ver));
        }
        b.key_type(self.kt.real())
            .can_sign(self.sign)
            .can_certify(self.cert)
            .can_encrypt(caps(self.enc))
            .can_authenticate(self.auth)
            .created_at(Timestamp::from_secs(self.created))
            .feature_seipd_v1(self.seipd1)
            .feature_seipd_v2(self.seipd2)
            .preferred_symmetric_algorithms(self.sym.iter().map(|&x| SymmetricKeyAlgorithm::from(x)).collect::<SmallVec<[_; 8]>>())
            .preferred_hash_algorithms(self.hash.iter().map(|&x| HashAlgorithm::from(x)).collect::<SmallVec<[_; 8]>>())
            .preferred_compression_algorithms(self.comp.iter().map(|&x| CompressionAlgorithm::from(x)).collect::<SmallVec<[_; 8]>>())
            .preferred_aead_algorithms(
                self.aead.iter().map(|&(s, a)| (SymmetricKeyAlgorithm::from(s), AeadAlgorithm::from(a))).collect::<SmallVec<[_; 4]>>(),
            );
        if let Some(u) = &self.primary_uid {
            b.primary_user_id(u.clone());
        }
        for u in &self.uids {
            b.user_id(u.clone());
        }
        if self.locked {
            b.passphrase(Some(self.pw.clone()));
            if !self.default_s2k {
                b.s2k(Some(cheap_s2k(rng, self.ver)));
            }
        } else {
            b.passphrase(None);
        }
        for s in &self.subs {
            let mut sb = SubkeyParamsBuilder::default();
            sb.version(kver(s.ver))
                .key_type(s.kt.real())
                .can_sign(s.sign)
                .can_encrypt(caps(s.enc))
                .can_authenticate(s.auth)
                .created_at(Timestamp::from_secs(self.created + 1));
            if s.locked {
                sb.passphrase(Some(self.pw.clone()));
                if !self.default_s2k {
                    sb.s2k(Some(cheap_s2k(rng, s.ver)));
                }
            } else {
                sb.passphrase(None);
            }
            b.subkey(sb.build().expect("subkey params"));
        }
        b
    }
}

/// class of a builder / generate error, as the model names them
pub fn err_class(e: &str) -> &'static str {
    if e.contains("Keys of version") && e.contains("can not be generated") && !e.contains("Subkeys of version") {
        "key_version"
    } else if e.contains("Subkeys of version") {
        "subkey_version"
    } else if e.contains("V6 primary key may not be combined") {
        "v6_primary_nonv6_sub"
    } else if e.contains("primary key may not be combined with V6 subkey") {
        "nonv6_primary_v6_sub"
    } else if e.contains("can not be used for signing keys") {
        "cannot_sign"
    } else if e.contains("can not be used for encryption keys") {
        "cannot_encrypt"
    } else if e.contains("can not be used for authentication keys") {
        "cannot_auth"
    } else if e.contains("less than 2048bits") {
        "rsa_small"
    } else if e.contains("is not supported for ECDSA") {
        "ecdsa_curve"
    } else if e.contains("V4 keys must have a primary User ID") {
        "v4_needs_uid"
    } else if e.contains("is illegal for key version") {
        "legacy_alg_version"
    } else if e.contains("for ECDH") {
        "ecdh_curve"
    } else if e.contains("Invalid algorithm") && e.contains("for key version") {
        "v3_alg"
    } else if e.contains("unsupported key version") || e.contains("not allowed for signer key version") {
        "sig_version"
    } else if e.contains("can not be used for signing operations") {
        "not_signing_alg"
    } else {
        "other"
    }
}

// ---------------------------------------------------------------------------------------------
// independent reading of what was requested back from the certificate (oracle helpers)
// ---------------------------------------------------------------------------------------------

fn flag_bits(f: &KeyFlags) -> u8 {
    (f.certify() as u8) | (f.sign() as u8) << 1 | (f.encrypt_comms() as u8) << 2 | (f.encrypt_storage() as u8) << 3 | (f.authentication() as u8) << 5
}

fn want_primary_flags(c: &Cfg) -> u8 {
    (c.cert as u8) | (c.sign as u8) << 1 | ((c.enc & 1) << 2) | ((c.enc >> 1) & 1) << 3 | (c.auth as u8) << 5
}

fn want_sub_flags(s: &SubCfg) -> u8 {
    (s.sign as u8) << 1 | ((s.enc & 1) << 2) | ((s.enc >> 1) & 1) << 3 | (s.auth as u8) << 5
}

/// the self-signature that carries the key's metadata: the direct-key signature of a v6 key, the
/// certification of the primary User ID of a v4 key
fn metadata_sig(k: &SignedPublicKey) -> Option<&Signature> {
    if k.primary_key.version() == KeyVersion::V6 {
        k.details.direct_signatures.first()
    } else {
        k.details.users.iter().find(|u| u.is_primary()).or(k.details.users.first()).and_then(|u| u.signatures.first())
    }
}

// ---------------------------------------------------------------------------------------------
// result of one seed (computed in a worker thread)
// ---------------------------------------------------------------------------------------------

#[derive(Default)]
pub struct Report {
    pub input: String,
    pub cases: Vec<(String, String)>,
    pub oracles: Vec<(&'static str, &'static str, bool, String)>,
    pub stats: Vec<String>,
    pub micros: u128,
}

impl Report {
    fn oracle(&mut self, name: &'static str, site: &'static str, ok: bool, detail: String) {
        self.oracles.push((name, site, ok, detail));
    }
    fn stat(&mut self, s: String) {
        self.stats.push(s);
    }
    fn case(&mut self, req: String, ans: String) {
        self.cases.push((req, ans));
    }
}

const SITE_GEN: &str = "SecretKeyParams::generate";

/// generate one key for `cfg` from `seed`
pub fn generate(cfg: &Cfg, seed: u64) -> Result<Result<SignedSecretKey, String>, String> {
    let mut rng = ChaCha8Rng::seed_from_u64(seed);
    guarded(|| {
        let params = cfg.builder(&mut rng).build().map_err(|e| format!("build: {e}"))?;
        params.generate(&mut rng).map_err(|e| format!("generate: {e}"))
    })
}

fn sign_verify(rep: &mut Report, what: &'static str, sk: &impl SigningKey, pw: &Password, vk: &impl VerifyingKey, hash: HashAlgorithm, seed: u64) {
    let mut rng = ChaCha8Rng::seed_from_u64(seed ^ 0x5167);
    let data = format!("C07 sign/verify {seed}").into_bytes();
    let r = guarded(|| {
        // value-dependent encodings: an RSA / DSA / ECDSA signature value whose leading octet is zero is
        // written as a shorter MPI (1 in 256 signatures): a generated key must verify those too
        let many = match vk.algorithm() {
            pgp::crypto::public_key::PublicKeyAlgorithm::RSA => 320,
            pgp::crypto::public_key::PublicKeyAlgorithm::DSA | pgp::crypto::public_key::PublicKeyAlgorithm::ECDSA => 40,
            _ => 0,
        };
        for i in 0..many {
            let d = format!("C07 sign/verify {seed} #{i}").into_bytes();
            let sig = DetachedSignature::sign_binary_data(&mut rng, sk, pw, hash, &d[..]).map_err(|e| format!("sign #{i}: {e}"))?;
            sig.verify(vk, &d).map_err(|e| format!("verify of signature #{i} over {:?}: {e}", String::from_utf8_lossy(&d)))?;
        }
        let sig = DetachedSignature::sign_binary_data(&mut rng, sk, pw, hash, &data[..]).map_err(|e| format!("sign: {e}"))?;
        sig.verify(vk, &data).map_err(|e| format!("verify: {e}"))?;
        // and a modified text must not verify
        let mut other = data.clone();
        other[0] ^= 1;
        if sig.verify(vk, &other).is_ok() {
            return Err("signature verifies over modified data".to_string());
        }
        Ok(())
    });
    let (ok, d) = match r {
        Ok(Ok(())) => (true, String::new()),
        Ok(Err(e)) => (false, e),
        Err(p) => (false, format!("panic: {p}")),
    };
    rep.oracle("sign_then_verify", what, ok, d);
}

fn encrypt_decrypt(rep: &mut Report, what: &'static str, v6: bool, enc_key: &impl pgp::types::EncryptionKey, pw: &Password, dec: &SignedSecretKey, seed: u64) {
    let mut rng = ChaCha8Rng::seed_from_u64(seed ^ 0xE2C);
    let data = format!("C07 encrypt/decrypt {seed}").into_bytes();
    let r = guarded(|| -> Result<(), String> {
        let mut out = Vec::new();
        if v6 {
            let mut b = MessageBuilder::from_bytes("", data.clone()).seipd_v2(&mut rng, SymmetricKeyAlgorithm::AES128, AeadAlgorithm::Ocb, ChunkSize::C8KiB);
            b.encrypt_to_key(&mut rng, enc_key).map_err(|e| format!("encrypt_to_key: {e}"))?;
            b.to_writer(&mut rng, &mut out).map_err(|e| format!("write: {e}"))?;
        } else {
            let mut b = MessageBuilder::from_bytes("", data.clone()).seipd_v1(&mut rng, SymmetricKeyAlgorithm::AES128);
            b.encrypt_to_key(&mut rng, enc_key).map_err(|e| format!("encrypt_to_key: {e}"))?;
            b.to_writer(&mut rng, &mut out).map_err(|e| format!("write: {e}"))?;
        }
        let m = Message::from_bytes(&out[..]).map_err(|e| format!("parse: {e}"))?;
        let mut m = m.decrypt(pw, dec).map_err(|e| format!("decrypt: {e}"))?;
        let mut got = Vec::new();
        m.read_to_end(&mut got).map_err(|e| format!("read: {e}"))?;
        if got != data {
            return Err("decrypted payload differs".into());
        }
        Ok(())
    });
    let (ok, d) = match r {
        Ok(Ok(())) => (true, String::new()),
        Ok(Err(e)) => (false, e),
        Err(p) => (false, format!("panic: {p}")),
    };
    rep.oracle("encrypt_then_decrypt", what, ok, d);
}

/// hash algorithm usable with every signing algorithm in play
fn hash_for(kt: Kt) -> HashAlgorithm {
    match kt.0 {
        ED448 => HashAlgorithm::Sha512,
        ECDSA if kt.1 == 4 => HashAlgorithm::Sha512,
        ECDSA if kt.1 == 3 => HashAlgorithm::Sha384,
        _ => HashAlgorithm::Sha256,
    }
}

/// which component of a re-imported key differs
fn diff_hint(a: &SignedSecretKey, b: &SignedSecretKey) -> String {
    let mut v = Vec::new();
    if a.primary_key != b.primary_key {
        let hdr = a.primary_key.packet_header() != b.primary_key.packet_header();
        let rest = a.primary_key.public_key() != b.primary_key.public_key() || a.primary_key.secret_params() != b.primary_key.secret_params();
        v.push(format!("primary_key(packet_header differs: {hdr}, key material differs: {rest})"));
    }
    if a.details != b.details {
        v.push("details".into());
    }
    for (i, (x, y)) in a.secret_subkeys.iter().zip(b.secret_subkeys.iter()).enumerate() {
        if x != y {
            let hdr = x.key.packet_header() != y.key.packet_header();
            let rest = x.key.public_key() != y.key.public_key() || x.key.secret_params() != y.key.secret_params() || x.signatures != y.signatures;
            v.push(format!("secret_subkey[{i}](packet_header differs: {hdr}, other parts differ: {rest})"));
        }
    }
    if a.secret_subkeys.len() != b.secret_subkeys.len() || a.public_subkeys != b.public_subkeys {
        v.push("subkey lists".into());
    }
    let only_headers = !v.is_empty() && v.iter().all(|x| x.contains("packet_header differs: true") && !x.contains("differ: true)") && !x.contains("differs: true)"));
    if only_headers {
        format!("only packet headers differ (stale header of a locked packet): {}", v.join(", "))
    } else {
        format!("re-imported key differs in: {}", v.join(", "))
    }
}

/// everything the property says about one generated key
pub fn check_key(cfg: &Cfg, seed: u64, key: &SignedSecretKey, rep: &mut Report) {
    let pw = if cfg.locked { Password::from(cfg.pw.as_str()) } else { Password::empty() };
    let any_sub_locked = cfg.subs.iter().any(|s| s.locked);
    let pw_any = if cfg.locked || any_sub_locked { Password::from(cfg.pw.as_str()) } else { Password::empty() };

    // "whose self-signatures and subkey bindings ... all verify"
    rep.oracle("secret_bindings_verify", "SignedSecretKey::verify_bindings", key.verify_bindings().is_ok(), format!("{:?}", key.verify_bindings().err()));
    // "whose public half verifies too"
    let public = key.to_public_key();
    rep.oracle("public_bindings_verify", "SignedSecretKey::to_public_key -> SignedPublicKey::verify_bindings", public.verify_bindings().is_ok(), format!("{:?}", public.verify_bindings().err()));

    // "(including the embedded back-signature of signing subkeys)"
    for (i, (s, sk)) in cfg.subs.iter().zip(key.secret_subkeys.iter()).enumerate() {
        let sig = sk.signatures.first();
        let emb = sig.and_then(|s| s.embedded_signature());
        let ok = match (s.sign, emb) {
            (true, Some(b)) => b.verify_primary_key_binding(sk.key.public_key(), key.primary_key.public_key()).is_ok(),
            (true, None) => false,
            (false, e) => e.is_none(),
        };
        rep.oracle("backsig_iff_signing_subkey", "SecretKeyParams::generate (sign_primary_key_binding)", ok, format!("subkey {i} can_sign={} embedded={}", s.sign, emb.is_some()));
    }
    rep.oracle("component_counts", SITE_GEN,
        key.secret_subkeys.len() == cfg.subs.len() && key.public_subkeys.is_empty()
            && key.details.users.len() == cfg.uids.len() + cfg.primary_uid.is_some() as usize,
        format!("subkeys {} users {}", key.secret_subkeys.len(), key.details.users.len()));

    // "which is equal to itself after binary or armored export and re-import"
    let mut reimported: Option<SignedSecretKey> = None;
    match guarded(|| key.to_bytes()) {
        Ok(Ok(bytes)) => {
            if key.write_len() != bytes.len() {
                rep.stat("side:write_len_mismatch:SignedSecretKey".into()); // C05's subject (D5a/D5c family), not part of this property
            }
            match guarded(|| SignedSecretKey::from_bytes(&bytes[..])) {
                Ok(Ok(k2)) => {
                    rep.oracle("binary_export_import_secret", "SignedSecretKey::to_bytes -> from_bytes", &k2 == key, diff_hint(key, &k2));
                    // the same modulo the in-memory packet headers: same bytes again, and the
                    // re-imported key is a fixed point of export/import
                    let again = k2.to_bytes().ok();
                    let fixed = again.as_ref().and_then(|b| SignedSecretKey::from_bytes(&b[..]).ok()).map(|k3| k3 == k2).unwrap_or(false);
                    rep.oracle("export_import_stable", "SignedSecretKey::to_bytes -> from_bytes -> to_bytes", again.as_deref() == Some(&bytes[..]) && fixed, "bytes or fixed point differ".into());
                    reimported = Some(k2);
                }
                Ok(Err(e)) => rep.oracle("binary_export_import_secret", "SignedSecretKey::to_bytes -> from_bytes", false, e.to_string()),
                Err(p) => rep.oracle("binary_export_import_secret", "SignedSecretKey::to_bytes -> from_bytes", false, format!("panic: {p}")),
            }
        }
        Ok(Err(e)) => rep.oracle("binary_export_import_secret", "SignedSecretKey::to_bytes", false, e.to_string()),
        Err(p) => rep.oracle("binary_export_import_secret", "SignedSecretKey::to_bytes", false, format!("panic: {p}")),
    }
    let arm_opts = || ArmorOptions { headers: None, include_checksum: seed % 2 == 0 };
    match guarded(|| key.to_armored_string(arm_opts())) {
        Ok(Ok(s)) => match guarded(|| SignedSecretKey::from_string(&s)) {
            Ok(Ok((k2, _))) => rep.oracle("armored_export_import_secret", "SignedSecretKey::to_armored_string -> from_string", &k2 == key, diff_hint(key, &k2)),
            Ok(Err(e)) => rep.oracle("armored_export_import_secret", "SignedSecretKey::to_armored_string -> from_string", false, e.to_string()),
            Err(p) => rep.oracle("armored_export_import_secret", "SignedSecretKey::to_armored_string -> from_string", false, format!("panic: {p}")),
        },
        Ok(Err(e)) => rep.oracle("armored_export_import_secret", "SignedSecretKey::to_armored_string", false, e.to_string()),
        Err(p) => rep.oracle("armored_export_import_secret", "SignedSecretKey::to_armored_string", false, format!("panic: {p}")),
    }
    match guarded(|| public.to_bytes()) {
        Ok(Ok(bytes)) => {
            if public.write_len() != bytes.len() {
                rep.stat("side:write_len_mismatch:SignedPublicKey".into());
            }
            match guarded(|| SignedPublicKey::from_bytes(&bytes[..])) {
                Ok(Ok(k2)) => rep.oracle("binary_export_import_public", "SignedPublicKey::to_bytes -> from_bytes", k2 == public, "re-imported key differs".into()),
                Ok(Err(e)) => rep.oracle("binary_export_import_public", "SignedPublicKey::to_bytes -> from_bytes", false, e.to_string()),
                Err(p) => rep.oracle("binary_export_import_public", "SignedPublicKey::to_bytes -> from_bytes", false, format!("panic: {p}")),
            }
        }
        Ok(Err(e)) => rep.oracle("binary_export_import_public", "SignedPublicKey::to_bytes", false, e.to_string()),
        Err(p) => rep.oracle("binary_export_import_public", "SignedPublicKey::to_bytes", false, format!("panic: {p}")),
    }
    match guarded(|| public.to_armored_string(arm_opts())) {
        Ok(Ok(s)) => match guarded(|| SignedPublicKey::from_string(&s)) {
            Ok(Ok((k2, _))) => rep.oracle("armored_export_import_public", "SignedPublicKey::to_armored_string -> from_string", k2 == public, "re-imported key differs".into()),
            Ok(Err(e)) => rep.oracle("armored_export_import_public", "SignedPublicKey::to_armored_string -> from_string", false, e.to_string()),
            Err(p) => rep.oracle("armored_export_import_public", "SignedPublicKey::to_armored_string -> from_string", false, format!("panic: {p}")),
        },
        Ok(Err(e)) => rep.oracle("armored_export_import_public", "SignedPublicKey::to_armored_string", false, e.to_string()),
        Err(p) => rep.oracle("armored_export_import_public", "SignedPublicKey::to_armored_string", false, format!("panic: {p}")),
    }

    // "whose flags and preferences are those requested"
    let ver_ok = u8::from(key.primary_key.version()) == cfg.ver && key.secret_subkeys.iter().zip(&cfg.subs).all(|(k, s)| u8::from(k.key.version()) == s.ver);
    rep.oracle("versions_as_requested", SITE_GEN, ver_ok, format!("primary {:?}", key.primary_key.version()));
    let alg_ok = key.primary_key.algorithm() == cfg.kt.real().to_alg() && key.secret_subkeys.iter().zip(&cfg.subs).all(|(k, s)| k.key.algorithm() == s.kt.real().to_alg());
    rep.oracle("algorithms_as_requested", SITE_GEN, alg_ok, format!("primary {:?}", key.primary_key.algorithm()));
    match metadata_sig(&public) {
        Some(ms) => {
            let got = flag_bits(&ms.key_flags());
            rep.oracle("flags_as_requested", "KeyDetails::sign (metadata self-signature)", got == want_primary_flags(cfg), format!("got {got:#04x} want {:#04x}", want_primary_flags(cfg)));
            let sym: Vec<u8> = ms.preferred_symmetric_algs().iter().map(|&a| u8::from(a)).collect();
            let hash: Vec<u8> = ms.preferred_hash_algs().iter().map(|&a| u8::from(a)).collect();
            let comp: Vec<u8> = ms.preferred_compression_algs().iter().map(|&a| u8::from(a)).collect();
            let aead: Vec<(u8, u8)> = ms.preferred_aead_algs().iter().map(|&(s, a)| (u8::from(s), u8::from(a))).collect();
            rep.oracle("prefs_as_requested", "KeyDetails::sign (metadata self-signature)", sym == cfg.sym && hash == cfg.hash && comp == cfg.comp && aead == cfg.aead,
                format!("sym {sym:?} hash {hash:?} comp {comp:?} aead {aead:?}"));
            let (f1, f2) = ms.features().map(|f| (f.seipd_v1(), f.seipd_v2())).unwrap_or((false, false));
            rep.oracle("features_as_requested", "KeyDetails::sign (metadata self-signature)", f1 == cfg.seipd1 && f2 == cfg.seipd2, format!("seipd1 {f1} seipd2 {f2}"));
        }
        None => {
            rep.oracle("flags_as_requested", "KeyDetails::sign (metadata self-signature)", false, "no self-signature carries the requested key flags / preferences".into());
        }
    }
    for (i, (s, sk)) in cfg.subs.iter().zip(key.secret_subkeys.iter()).enumerate() {
        let got = sk.signatures.first().map(|x| flag_bits(&x.key_flags()));
        rep.oracle("subkey_flags_as_requested", "PublicSubkey::sign (subkey binding)", got == Some(want_sub_flags(s)), format!("subkey {i}: got {got:?} want {:#04x}", want_sub_flags(s)));
    }
    // primary user id is marked primary; user ids are the requested ones, in order
    let want_uids: Vec<&str> = cfg.primary_uid.iter().map(|s| s.as_str()).chain(cfg.uids.iter().map(|s| s.as_str())).collect();
    let got_uids: Vec<String> = key.details.users.iter().map(|u| String::from_utf8_lossy(u.id.id()).to_string()).collect();
    rep.oracle("user_ids_as_requested", SITE_GEN, got_uids.iter().map(|s| s.as_str()).collect::<Vec<_>>() == want_uids
        && (cfg.primary_uid.is_none() || key.details.users[0].is_primary()), format!("{got_uids:?}"));

    // "whose keys actually sign/verify and encrypt/decrypt" — with the generated key and with
    // the key as re-imported from its binary export
    let keys: Vec<(&'static str, &SignedSecretKey)> = match &reimported {
        Some(k2) => vec![("generated key", key), ("re-imported key", k2)],
        None => vec![("generated key", key)],
    };
    for (which, k) in keys {
        let site_p: &'static str = if which == "generated key" { "generated primary: sign -> verify" } else { "re-imported primary: sign -> verify" };
        sign_verify(rep, site_p, &k.primary_key, &pw, &public.primary_key, hash_for(cfg.kt), seed);
        for (i, (s, sk)) in cfg.subs.iter().zip(k.secret_subkeys.iter()).enumerate() {
            let spw = if s.locked { Password::from(cfg.pw.as_str()) } else { Password::empty() };
            if s.kt.signs() {
                let site: &'static str = if which == "generated key" { "generated subkey: sign -> verify" } else { "re-imported subkey: sign -> verify" };
                sign_verify(rep, site, &sk.key, &spw, &public.public_subkeys[i].key, hash_for(s.kt), seed + i as u64 + 1);
            }
            if s.kt.encrypts() {
                // a single password is handed to the message API: skip shapes where primary and
                // subkey would need different ones (never generated here: same passphrase)
                let site: &'static str = if which == "generated key" { "generated subkey: encrypt -> decrypt" } else { "re-imported subkey: encrypt -> decrypt" };
                encrypt_decrypt(rep, site, s.ver == 6, &public.public_subkeys[i].key, &pw_any, k, seed + i as u64 + 1);
            }
        }
        if cfg.kt.encrypts() {
            let site: &'static str = if which == "generated key" { "generated primary: encrypt -> decrypt" } else { "re-imported primary: encrypt -> decrypt" };
            encrypt_decrypt(rep, site, cfg.ver == 6, &public.primary_key, &pw_any, k, seed);
        }
    }
}

// ---------------------------------------------------------------------------------------------
// shape generator
// ---------------------------------------------------------------------------------------------

const PRIMARIES_FAST: [Kt; 7] = [Kt(EDLEG, 0), Kt(ED25519, 0), Kt(ED448, 0), Kt(ECDSA, 2), Kt(ECDSA, 3), Kt(ECDSA, 4), Kt(ECDSA, 8)];
const SUBS_ENC: [Kt; 6] = [Kt(ECDH, 0), Kt(ECDH, 2), Kt(ECDH, 3), Kt(ECDH, 4), Kt(X25519, 0), Kt(X448, 0)];
const SUBS_SIGN: [Kt; 7] = [Kt(EDLEG, 0), Kt(ED25519, 0), Kt(ED448, 0), Kt(ECDSA, 2), Kt(ECDSA, 3), Kt(ECDSA, 4), Kt(ECDSA, 8)];

fn uid(rng: &mut ChaCha8Rng, i: usize) -> String {
    match rng.gen_range(0..5) {
        0 => format!("user{i}"),
        1 => format!("Üser {i} <u{i}@example.org>"),
        2 => format!("  spaced {i}  "),
        3 => "x".repeat(1 + (i * 97) % 300),
        _ => format!("Verif {i} <verif{i}@example.org>"),
    }
}

/// one supported shape; `slow` admits RSA / DSA material (seconds per key)
pub fn random_cfg(rng: &mut ChaCha8Rng, slow_primary: Option<Kt>, slow_sub: bool) -> Cfg {
    let ver: u8 = if rng.gen_bool(0.5) { 4 } else { 6 };
    let legacy_ok = ver == 4;
    let kt = match slow_primary {
        Some(k) => k,
        None => loop {
            let k = PRIMARIES_FAST[rng.gen_range(0..PRIMARIES_FAST.len())];
            if k.0 == EDLEG && !legacy_ok {
                continue;
            }
            break k;
        },
    };
    let n_subs = [0usize, 1, 1, 1, 2, 2, 3][rng.gen_range(0..7)];
    let mut subs = Vec::new();
    for j in 0..n_subs {
        let signing = rng.gen_bool(0.4);
        let skt = loop {
            let k = if slow_sub && j == 0 {
                Kt(RSA, 2048)
            } else if signing {
                SUBS_SIGN[rng.gen_range(0..SUBS_SIGN.len())]
            } else {
                SUBS_ENC[rng.gen_range(0..SUBS_ENC.len())]
            };
            if !legacy_ok && (k == Kt(ECDH, 0) || k.0 == EDLEG) {
                continue;
            }
            break k;
        };
        let sign = skt.signs() && (signing || rng.gen_bool(0.5));
        let enc = if skt.encrypts() { [1u8, 2, 3, 3][rng.gen_range(0..4)] } else { 0 };
        // a subkey without any capability is legal too (seldom)
        let (sign, enc) = if rng.gen_bool(0.03) { (false, 0) } else { (sign, enc) };
        subs.push(SubCfg { kt: skt, ver, sign, enc, auth: skt.signs() && rng.gen_bool(0.2), locked: false });
    }
    let locked = rng.gen_bool(0.5);
    for s in subs.iter_mut() {
        s.locked = locked && rng.gen_bool(0.85);
    }
    // v4 needs a primary user id; v6 may go without any
    let primary_uid = if ver == 4 || rng.gen_bool(0.7) { Some(uid(rng, 0)) } else { None };
    let n_uids = if primary_uid.is_some() { rng.gen_range(0..=2) } else { [0usize, 0, 1, 2][rng.gen_range(0..4)] };
    let uids = (0..n_uids).map(|i| uid(rng, i + 1)).collect();
    let pick = |rng: &mut ChaCha8Rng, pool: &[u8]| -> Vec<u8> {
        let n = rng.gen_range(0..=pool.len().min(4));
        let mut v: Vec<u8> = Vec::new();
        while v.len() < n {
            let x = pool[rng.gen_range(0..pool.len())];
            if !v.contains(&x) {
                v.push(x);
            }
        }
        v
    };
    let sym = pick(rng, &[7, 8, 9, 2, 3, 4, 10, 11, 12, 13]);
    let hash = pick(rng, &[8, 9, 10, 11, 12, 14, 2, 3]);
    let comp = pick(rng, &[0, 1, 2, 3]);
    let n_aead = rng.gen_range(0..=3);
    let aead = (0..n_aead).map(|_| ([7u8, 8, 9][rng.gen_range(0..3)], [1u8, 2, 3][rng.gen_range(0..3)])).collect();
    Cfg {
        ver,
        set_ver: true,
        kt,
        sign: rng.gen_bool(0.8),
        cert: rng.gen_bool(0.9),
        enc: if kt.encrypts() { rng.gen_range(0..4) } else { 0 },
        auth: rng.gen_bool(0.2),
        primary_uid,
        uids,
        locked,
        default_s2k: locked && rng.gen_bool(0.04),
        pw: ["", "pw", "correct horse battery staple", "pässwörd\u{1F511}"][rng.gen_range(0..4)].to_string(),
        sym,
        hash,
        comp,
        aead,
        seipd1: rng.gen_bool(0.8),
        seipd2: rng.gen_bool(0.5),
        created: rng.gen_range(1_000_000_000..1_900_000_000),
        subs,
    }
}

/// hand-picked shapes at the edges of "supported": always run first, seed independent
pub fn corpus() -> Vec<(Cfg, u64)> {
    let base = |ver: u8, kt: Kt| Cfg {
        ver, set_ver: true, kt, sign: true, cert: true, enc: 0, auth: false,
        primary_uid: Some("Corpus <corpus@example.org>".into()), uids: vec![], locked: false, default_s2k: false, pw: "pw".into(),
        sym: vec![9, 7], hash: vec![10, 8], comp: vec![2, 1], aead: vec![(9, 2)], seipd1: true, seipd2: true, created: 1_700_000_000, subs: vec![],
    };
    let sub = |kt: Kt, ver: u8, sign: bool, enc: u8| SubCfg { kt, ver, sign, enc, auth: false, locked: false };
    let mut v = Vec::new();
    // builder left at its default version (v4)
    let mut c = base(4, Kt(ED25519, 0)); c.set_ver = false; v.push((c, 1));
    // default version, no primary user id, one other user id
    let mut c = base(4, Kt(ED25519, 0)); c.set_ver = false; c.primary_uid = None; c.uids = vec!["only <only@example.org>".into()]; v.push((c, 2));
    // default version, no user id at all
    let mut c = base(4, Kt(ED25519, 0)); c.set_ver = false; c.primary_uid = None; v.push((c, 3));
    // the same user id twice
    let mut c = base(4, Kt(ECDSA, 2)); c.uids = vec!["Corpus <corpus@example.org>".into()]; v.push((c, 4));
    let mut c = base(6, Kt(ED25519, 0)); c.uids = vec!["Corpus <corpus@example.org>".into()]; v.push((c, 5));
    // empty user id
    let mut c = base(4, Kt(EDLEG, 0)); c.primary_uid = Some(String::new()); v.push((c, 6));
    // v6 without any user id, no subkeys
    let mut c = base(6, Kt(ED448, 0)); c.primary_uid = None; v.push((c, 7));
    // nothing requested: no flags, no preferences, no features
    let mut c = base(4, Kt(ED25519, 0)); c.sign = false; c.cert = false; c.sym = vec![]; c.hash = vec![]; c.comp = vec![]; c.aead = vec![]; c.seipd1 = false; c.seipd2 = false; v.push((c.clone(), 8));
    c.ver = 6; v.push((c, 9));
    // X25519 / Ed25519 (RFC 9580 algorithms) in a v4 key, legacy algorithms next to them
    let mut c = base(4, Kt(ED25519, 0)); c.subs = vec![sub(Kt(X25519, 0), 4, false, 3), sub(Kt(ECDH, 0), 4, false, 1), sub(Kt(EDLEG, 0), 4, true, 0), sub(Kt(X448, 0), 4, false, 2)]; v.push((c, 10));
    // empty passphrase (locked with the empty string), all subkeys locked
    let mut c = base(6, Kt(ED25519, 0)); c.locked = true; c.pw = String::new(); c.subs = vec![sub(Kt(X25519, 0), 6, false, 3), sub(Kt(ED448, 0), 6, true, 0)]; for s in c.subs.iter_mut() { s.locked = true; } v.push((c.clone(), 11));
    // locked primary, unlocked subkeys — and the reverse
    let mut d = c.clone(); d.pw = "pw".into(); for s in d.subs.iter_mut() { s.locked = false; } v.push((d, 12));
    let mut d = c.clone(); d.pw = "pw".into(); d.locked = false; v.push((d, 13));
    // default S2K (Argon2 for v6, iterated for v4)
    let mut d = c.clone(); d.pw = "pw".into(); d.default_s2k = true; v.push((d.clone(), 14));
    d.ver = 4; for s in d.subs.iter_mut() { s.ver = 4; } v.push((d, 15));
    // signing + authentication subkey of every signing algorithm under an ECDSA primary
    let mut c = base(4, Kt(ECDSA, 8)); c.subs = SUBS_SIGN.iter().map(|&k| { let mut s = sub(k, 4, true, 0); s.auth = true; s }).collect(); v.push((c, 16));
    let mut c = base(6, Kt(ECDSA, 4)); c.subs = SUBS_SIGN.iter().filter(|k| k.0 != EDLEG).map(|&k| sub(k, 6, true, 0)).collect(); v.push((c, 17));
    // extreme creation times
    let mut c = base(4, Kt(ED25519, 0)); c.created = 0; v.push((c, 18));
    let mut c = base(6, Kt(ED25519, 0)); c.created = u32::MAX - 1; c.subs = vec![sub(Kt(X25519, 0), 6, false, 3)]; v.push((c, 19));
    // long preference lists (more than the inline capacity of the SmallVecs)
    let mut c = base(6, Kt(ED25519, 0)); c.sym = vec![9, 8, 7, 13, 12, 11, 10, 4, 3, 2, 1]; c.hash = vec![8, 9, 10, 11, 12, 14, 2, 3, 1]; c.comp = vec![0, 1, 2, 3]; c.aead = vec![(9, 1), (9, 2), (9, 3), (8, 1), (8, 2), (7, 3)]; v.push((c, 20));
    v
}

pub fn one_seed(cfg: &Cfg, seed: u64) -> Report {
    let t0 = std::time::Instant::now();
    let mut rep = Report { input: cfg.describe(seed), ..Default::default() };
    match generate(cfg, seed) {
        Ok(Ok(key)) => {
            rep.stat(format!("primary:{}", cfg.kt.name()));
            rep.stat(format!("version:v{}", cfg.ver));
            rep.stat(format!("uids:{}", cfg.uids.len() + cfg.primary_uid.is_some() as usize));
            rep.stat(format!("subkeys:{}", cfg.subs.len()));
            rep.stat(if cfg.locked { "locked".into() } else { "unlocked".into() });
            for s in &cfg.subs {
                rep.stat(format!("sub:{}{}", s.kt.name(), if s.sign { "+sign" } else { "" }));
            }
            check_key(cfg, seed, &key, &mut rep);
            rep.case(format!("gen_shape {}", cfg.shape_args()), format!("ok:{}", render_shape(&key)));
            field_cases(cfg, &key, &mut rep);
            vb_cases(cfg, seed, &key, &mut rep);
        }
        Ok(Err(e)) => {
            if cfg.ver == 4 && cfg.primary_uid.is_none() && err_class(&e) == "v4_needs_uid" {
                // by the builder's own rule not a supported shape (reached only through the
                // default-version corpus entries, and only once that rule is applied to them)
                rep.stat("refused:v4_needs_uid".into());
            } else {
                // every other shape produced here is a supported one: generation must succeed
                rep.oracle("generate_accepts_supported_shape", SITE_GEN, false, e);
            }
        }
        Err(p) => rep.oracle("generate_does_not_panic", SITE_GEN, false, p),
    }
    rep.micros = t0.elapsed().as_micros();
    rep
}

pub fn run(ctx: &mut Ctx) {
    let mut rng = ChaCha8Rng::seed_from_u64(ctx.seed ^ 0xC07);
    let n_fast = ctx.pick(300, 6000);
    let n_rsa = ctx.pick(4, 24);
    let n_dsa = ctx.pick(1, 6);
    let mut jobs: Vec<(Cfg, u64)> = Vec::new();
    jobs.extend(corpus());
    for i in 0..n_fast {
        let slow_sub = i % ctx.pick(150, 300) == 7;
        jobs.push((random_cfg(&mut rng, None, slow_sub), rng.gen()));
    }
    for _ in 0..n_rsa {
        jobs.push((random_cfg(&mut rng, Some(Kt(RSA, 2048)), false), rng.gen()));
    }
    for i in 0..n_dsa {
        // DSA-2048 parameter generation takes seconds (and varies a lot): thorough tier only
        let bits = if ctx.thorough() && i % 2 == 0 { 2048 } else { 1024 };
        jobs.push((random_cfg(&mut rng, Some(Kt(DSA, bits)), false), rng.gen()));
    }
    if !ctx.thorough() {
        // the default S2K of a locked v6 key is Argon2 (64 MiB, t = 3) per unlock: in the quick tier only
        // the two corpus shapes use it, the random shapes use the cheap S2K
        let n_corpus = corpus().len();
        for (cfg, _) in jobs.iter_mut().skip(n_corpus) {
            cfg.default_s2k = false;
        }
        // sorted so that the slow jobs (RSA, DSA, Argon2) start first and do not form the tail
        jobs.sort_by_key(|(c, _)| !(c.default_s2k || matches!(c.kt.0, RSA | DSA) || c.subs.iter().any(|s| s.kt.0 == RSA)));
    } else {
        jobs.sort_by_key(|(c, _)| !(c.default_s2k || matches!(c.kt.0, RSA | DSA) || c.subs.iter().any(|s| s.kt.0 == RSA)));
    }
    let threads = std::thread::available_parallelism().map(|n| n.get()).unwrap_or(4).min(16);
    let t_sweep = std::time::Instant::now();
    let next = std::sync::atomic::AtomicUsize::new(0);
    let results: std::sync::Mutex<Vec<(usize, Report)>> = std::sync::Mutex::new(Vec::new());
    std::thread::scope(|s| {
        for _ in 0..threads {
            s.spawn(|| loop {
                let i = next.fetch_add(1, std::sync::atomic::Ordering::SeqCst);
                if i >= jobs.len() {
                    break;
                }
                let (cfg, seed) = &jobs[i];
                let rep = one_seed(cfg, *seed);
                results.lock().expect("lock").push((i, rep));
            });
        }
    });
    let mut results = results.into_inner().expect("lock");
    results.sort_by_key(|(i, _)| *i);
    let mut total_us = 0u128;
    let mut slowest: Vec<(u128, String)> = results.iter().map(|(_, r)| (r.micros, r.input.chars().take(120).collect())).collect();
    slowest.sort();
    for (us, inp) in slowest.iter().rev().take(3) {
        ctx.note(&format!("slow key: {} ms {inp}", us / 1000));
    }
    ctx.note(&format!("key sweep wall: {} ms", t_sweep.elapsed().as_millis()));
    for (_, rep) in results {
        total_us += rep.micros;
        for s in &rep.stats {
            ctx.stat(s);
        }
        for (req, ans) in rep.cases {
            ctx.case(req, ans);
        }
        for (name, site, ok, detail) in rep.oracles {
            ctx.oracle(name, site, &rep.input, ok, &detail);
        }
    }
    ctx.note(&format!("keys generated: {} (cpu {} ms over {threads} threads)", jobs.len(), total_us / 1000));
    let mut t = std::time::Instant::now();
    let mut lap = |ctx: &mut Ctx, what: &str| {
        ctx.note(&format!("phase {what}: {} ms", t.elapsed().as_millis()));
        t = std::time::Instant::now();
    };
    validate_sweep(ctx);
    lap(ctx, "validate_sweep");
    shape_errors(ctx);
    lap(ctx, "shape_errors");
    mpi_stream(ctx);
    pad_stream(ctx);
    lap(ctx, "mpi/pad streams");
    material_sweep(ctx);
    lap(ctx, "material_sweep");
    eddsa_sweep(ctx);
    lap(ctx, "eddsa_sweep");
    crafted_scalars(ctx);
    lap(ctx, "crafted_scalars");
}

// ---------------------------------------------------------------------------------------------
// synthetic streams (no certificate needed)
// ---------------------------------------------------------------------------------------------

fn all_kts() -> Vec<Kt> {
    let mut v = vec![Kt(RSA, 1024), Kt(RSA, 2047), Kt(RSA, 2048), Kt(RSA, 4096), Kt(EDLEG, 0), Kt(DSA, 1024), Kt(DSA, 2048), Kt(DSA, 3072),
        Kt(ED25519, 0), Kt(ED448, 0), Kt(X25519, 0), Kt(X448, 0)];
    for c in 0..9 {
        v.push(Kt(ECDH, c));
        v.push(Kt(ECDSA, c));
    }
    v
}

fn shape_cfg(ver: Option<u8>, kt: Kt, sign: bool, enc: u8, auth: bool, puid: bool, nuid: usize, subs: Vec<SubCfg>) -> Cfg {
    Cfg {
        ver: ver.unwrap_or(4), set_ver: ver.is_some(), kt, sign, cert: true, enc, auth,
        primary_uid: if puid { Some("P".into()) } else { None }, uids: (0..nuid).map(|i| format!("U{i}")).collect(),
        locked: false, default_s2k: false, pw: String::new(), sym: vec![], hash: vec![], comp: vec![], aead: vec![], seipd1: true, seipd2: false,
        created: 1_600_000_000, subs,
    }
}

fn real_validate(cfg: &Cfg) -> String {
    let mut rng = ChaCha8Rng::seed_from_u64(0);
    match guarded(|| cfg.builder(&mut rng).build().map(|_| ())) {
        Ok(Ok(())) => "ok".into(),
        Ok(Err(e)) => format!("err:{}", err_class(&e.to_string())),
        Err(_) => "panic".into(),
    }
}

/// builder validation: (version set? which) x every key type x capability requests x user ids x
/// one or two subkeys of every kind
pub fn validate_sweep(ctx: &mut Ctx) {
    let vers: [Option<u8>; 7] = [None, Some(2), Some(3), Some(4), Some(5), Some(6), Some(7)];
    let kts = all_kts();
    let mut rng = ChaCha8Rng::seed_from_u64(ctx.seed ^ 0x7A11);
    let mut n = 0u64;
    let mut emit = |ctx: &mut Ctx, cfg: &Cfg| {
        let ans = real_validate(cfg);
        ctx.stat(&format!("validate:{ans}"));
        ctx.case(format!("validate {}", cfg.args()), ans);
    };
    for ver in vers {
        for &kt in &kts {
            for caps in 0..16u8 {
                for puid in [false, true] {
                    let cfg = shape_cfg(ver, kt, caps & 1 != 0, (caps >> 1) & 3, caps & 8 != 0, puid, (caps as usize) % 2, vec![]);
                    emit(ctx, &cfg);
                    n += 1;
                }
            }
        }
    }
    // one subkey of every kind / version / capability request under a few primaries
    let every = ctx.pick(13, 1);
    let mut i = 0u64;
    for ver in vers {
        for pkt in [Kt(ED25519, 0), Kt(RSA, 2048), Kt(ECDSA, 2)] {
            for &skt in &kts {
                for sver in [3u8, 4, 5, 6, 7] {
                    for caps in 0..16u8 {
                        i += 1;
                        if i % every != 0 {
                            continue;
                        }
                        let sub = SubCfg { kt: skt, ver: sver, sign: caps & 1 != 0, enc: (caps >> 1) & 3, auth: caps & 8 != 0, locked: false };
                        let cfg = shape_cfg(ver, pkt, true, 0, false, true, 0, vec![sub]);
                        emit(ctx, &cfg);
                        n += 1;
                    }
                }
            }
        }
    }
    // two or three subkeys: the first error in source order must be the one reported
    for _ in 0..ctx.pick(1500, 12000) {
        let ver = vers[rng.gen_range(0..vers.len())];
        let pkt = kts[rng.gen_range(0..kts.len())];
        let ns = rng.gen_range(2..=3);
        let subs = (0..ns).map(|_| SubCfg { kt: kts[rng.gen_range(0..kts.len())], ver: [3u8, 4, 4, 4, 6, 6, 6, 5, 7, 2][rng.gen_range(0..10)], sign: rng.gen_bool(0.3), enc: [0u8, 0, 1, 2, 3][rng.gen_range(0..5)], auth: rng.gen_bool(0.2), locked: false }).collect();
        let cfg = shape_cfg(ver, pkt, rng.gen_bool(0.7), [0u8, 0, 3][rng.gen_range(0..3)], rng.gen_bool(0.2), rng.gen_bool(0.7), rng.gen_range(0..3), subs);
        emit(ctx, &cfg);
        n += 1;
    }
    ctx.note(&format!("validate sweep: {n} builder configurations"));
}

/// shapes that pass the builder and are refused (or not) by `generate`: error class / shape
pub fn shape_errors(ctx: &mut Ctx) {
    let sub = |kt: Kt, ver: u8, sign: bool, enc: u8| SubCfg { kt, ver, sign, enc, auth: false, locked: false };
    let mut list: Vec<Cfg> = Vec::new();
    // legacy encodings outside v4
    list.push(shape_cfg(Some(6), Kt(EDLEG, 0), true, 0, false, true, 0, vec![]));
    list.push(shape_cfg(Some(6), Kt(ED25519, 0), true, 0, false, true, 0, vec![sub(Kt(ECDH, 0), 6, false, 3)]));
    list.push(shape_cfg(Some(6), Kt(ED25519, 0), true, 0, false, true, 0, vec![sub(Kt(X25519, 0), 6, false, 3), sub(Kt(EDLEG, 0), 6, true, 0)]));
    list.push(shape_cfg(Some(5), Kt(EDLEG, 0), true, 0, false, false, 0, vec![]));
    // curves the generators do not support
    for c in [1u32, 5, 6, 7, 8] {
        list.push(shape_cfg(Some(4), Kt(ED25519, 0), true, 0, false, true, 0, vec![sub(Kt(ECDH, c), 4, false, 3)]));
        list.push(shape_cfg(Some(4), Kt(ECDH, c), false, 3, false, true, 0, vec![]));
    }
    // key versions other than 4 and 6
    for v in [2u8, 3, 5] {
        list.push(shape_cfg(Some(v), Kt(ED25519, 0), true, 0, false, false, 0, vec![]));
        list.push(shape_cfg(Some(v), Kt(ED25519, 0), true, 0, false, true, 0, vec![]));
        list.push(shape_cfg(Some(v), Kt(ED25519, 0), true, 0, false, false, 1, vec![]));
        list.push(shape_cfg(Some(v), Kt(ED25519, 0), true, 0, false, false, 0, vec![sub(Kt(X25519, 0), 4, false, 3)]));
        list.push(shape_cfg(Some(4), Kt(ED25519, 0), true, 0, false, true, 0, vec![sub(Kt(X25519, 0), v, false, 3)]));
        list.push(shape_cfg(Some(4), Kt(ED25519, 0), true, 0, false, true, 0, vec![sub(Kt(ED25519, 0), v, true, 0)]));
        list.push(shape_cfg(Some(4), Kt(ED25519, 0), true, 0, false, true, 0, vec![sub(Kt(ED25519, 0), v, true, 0), sub(Kt(ECDH, 8), 4, false, 3)]));
    }
    // encryption-only algorithms asked to certify: refused when the first signature is attempted —
    // unless there is nothing to sign
    for kt in [Kt(X25519, 0), Kt(X448, 0), Kt(ECDH, 2), Kt(ECDH, 0)] {
        list.push(shape_cfg(Some(4), kt, false, 3, false, true, 0, vec![]));
        list.push(shape_cfg(None, kt, false, 3, false, false, 0, vec![]));
        list.push(shape_cfg(None, kt, false, 3, false, false, 0, vec![sub(Kt(ED25519, 0), 4, true, 0)]));
        if kt != Kt(ECDH, 0) {
            list.push(shape_cfg(Some(6), kt, false, 3, false, false, 0, vec![]));
        }
    }
    // the default version: a v4 key, with and without user ids
    list.push(shape_cfg(None, Kt(ED25519, 0), true, 0, false, false, 0, vec![]));
    list.push(shape_cfg(None, Kt(ED25519, 0), true, 0, false, false, 2, vec![sub(Kt(X25519, 0), 4, false, 3)]));
    list.push(shape_cfg(None, Kt(ECDSA, 2), true, 0, false, true, 1, vec![sub(Kt(ECDSA, 2), 4, true, 0)]));
    if ctx.thorough() {
        list.push(shape_cfg(Some(3), Kt(RSA, 2048), true, 3, false, false, 0, vec![]));
        list.push(shape_cfg(Some(3), Kt(RSA, 2048), true, 3, false, true, 0, vec![]));
    }
    for (i, cfg) in list.iter().enumerate() {
        let ans = match generate(cfg, 900 + i as u64) {
            Ok(Ok(k)) => format!("ok:{}", render_shape(&k)),
            Ok(Err(e)) => format!("err:{}", err_class(&e)),
            Err(_) => "panic".into(),
        };
        ctx.stat(&format!("shape_edge:{}", ans.split('_').next().unwrap_or("").split(':').take(2).collect::<Vec<_>>().join(":")));
        ctx.case(format!("gen_shape {}", cfg.shape_args()), ans);
    }
}

/// `Mpi::try_from_reader` / `Mpi::from_slice` + `to_writer` on boundary inputs
pub fn mpi_stream(ctx: &mut Ctx) {
    let mut rng = ChaCha8Rng::seed_from_u64(ctx.seed ^ 0x4D51);
    let mut inputs: Vec<Vec<u8>> = vec![vec![], vec![0], vec![0, 0], vec![0, 1], vec![0, 1, 1], vec![0, 8, 0], vec![0, 9, 0, 0xff], vec![0, 9, 1], vec![0x40, 0, 1], vec![0x40, 1, 1]];
    for bits in [0usize, 1, 7, 8, 9, 15, 16, 17, 255, 256, 257, 263, 2047, 2048, 16383, 16384, 16385, 65535] {
        let n = (bits + 7) / 8;
        for variant in 0..6 {
            let mut body = crate::gen::random_bytes(&mut rng, n);
            match variant {
                1 => body.iter_mut().take(1).for_each(|b| *b = 0),
                2 => body.iter_mut().take(2).for_each(|b| *b = 0),
                3 => body.iter_mut().for_each(|b| *b = 0),
                4 => { body.pop(); }
                5 => body.extend_from_slice(&[0xAA, 0xBB]),
                _ => {}
            }
            let mut v = vec![(bits >> 8) as u8, bits as u8];
            v.extend_from_slice(&body);
            inputs.push(v);
        }
    }
    for inp in &inputs {
        ctx.case(format!("mpi_read data={}", hx(inp)), real_mpi_read(inp));
    }
    // from_slice + to_writer for every leading-zero count of short strings and a few long ones
    for len in (0..=40usize).chain([64, 255, 256, 257, 2048]) {
        for zeros in 0..=len.min(if len <= 40 { len } else { 3 }) {
            let mut raw = crate::gen::random_bytes(&mut rng, len);
            raw.iter_mut().take(zeros).for_each(|b| *b = 0);
            if zeros < len && raw[zeros] == 0 {
                raw[zeros] = 1 << rng.gen_range(0..8);
            }
            let wire = Mpi::from_slice(&raw).to_bytes().unwrap_or_default();
            ctx.case(format!("mpi_enc raw={}", hx(&raw)), format!("ok:{}", hx(&wire)));
        }
    }
}

/// `pad_key::<N>` (hook) for every input length around N and every leading-zero count
pub fn pad_stream(ctx: &mut Ctx) {
    let mut rng = ChaCha8Rng::seed_from_u64(ctx.seed ^ 0x9AD);
    for n in [32usize, 48, 56, 57, 66] {
        for len in 0..=n + 2 {
            let mut v = crate::gen::random_bytes(&mut rng, len);
            if len > 0 && len % 3 == 0 {
                v[0] = 0;
            }
            let ans = match guarded(|| pgp::verif_hooks::pad_key(n, &v)) {
                Ok(Some(k)) => format!("ok:{}", hx(&k)),
                Ok(None) => "err".into(),
                Err(_) => "panic".into(),
            };
            ctx.case(format!("pad_key n={n} val={}", hx(&v)), ans);
        }
    }
}

/// bare key material of every algorithm with an MPI-encoded scalar, in numbers large enough for
/// the 1/256 leading-zero cases to occur per field (write -> read of the real code vs the model)
pub fn material_sweep(ctx: &mut Ctx) {
    let per = ctx.pick(1500, 6000);
    let kinds: Vec<(Kt, usize)> = vec![
        (Kt(EDLEG, 0), per), (Kt(ECDSA, 2), per), (Kt(ECDSA, 3), per / 2), (Kt(ECDSA, 4), per / 8), (Kt(ECDSA, 8), per),
        (Kt(ECDH, 2), per), (Kt(ECDH, 3), per / 2), (Kt(ECDH, 4), per / 8), (Kt(ECDH, 0), per), (Kt(ED25519, 0), per / 2), (Kt(X25519, 0), per / 2),
        (Kt(ED448, 0), per / 8), (Kt(X448, 0), per / 4),
    ];
    let mut jobs: Vec<(Kt, u64)> = Vec::new();
    let mut rng = ChaCha8Rng::seed_from_u64(ctx.seed ^ 0x3A7E);
    for (kt, n) in kinds {
        for _ in 0..n {
            jobs.push((kt, rng.gen()));
        }
    }
    let threads = std::thread::available_parallelism().map(|n| n.get()).unwrap_or(4).min(16);
    let next = std::sync::atomic::AtomicUsize::new(0);
    let results: std::sync::Mutex<Vec<(usize, Report)>> = std::sync::Mutex::new(Vec::new());
    std::thread::scope(|s| {
        for _ in 0..threads {
            s.spawn(|| loop {
                let i = next.fetch_add(1, std::sync::atomic::Ordering::SeqCst);
                if i >= jobs.len() {
                    break;
                }
                let (kt, seed) = jobs[i];
                let mut rep = Report { input: format!("material kt={} seed={seed}", kt.enc()), ..Default::default() };
                let mut rng = ChaCha8Rng::seed_from_u64(seed);
                match guarded(|| kt.real().generate(&mut rng)) {
                    Ok(Ok((pubp, pgp::types::SecretParams::Plain(ref plain)))) => {
                        let alg = kt.real().to_alg();
                        secret_fields(&mut rep, alg, &pubp, plain);
                        public_fields(&mut rep, alg, &pubp);
                    }
                    Ok(Ok(_)) => {}
                    Ok(Err(e)) => rep.oracle("material_generates", "KeyType::generate", false, e.to_string()),
                    Err(p) => rep.oracle("material_generates", "KeyType::generate", false, format!("panic: {p}")),
                }
                results.lock().expect("lock").push((i, rep));
            });
        }
    });
    let mut results = results.into_inner().expect("lock");
    results.sort_by_key(|(i, _)| *i);
    for (_, rep) in results {
        for s in &rep.stats {
            ctx.stat(&format!("material:{s}"));
        }
        for (req, ans) in rep.cases {
            ctx.case(req, ans);
        }
        for (name, site, ok, detail) in rep.oracles {
            ctx.oracle(name, site, &rep.input, ok, &detail);
        }
    }
    ctx.note(&format!("material sweep: {} key pairs", jobs.len()));
}

/// EdDSA legacy signatures: the halves rpgp stores (stripped) against the 64 octets the primitive
/// produced for the same secret and digest (Ed25519 is deterministic), and acceptance of the
/// stripped form by the real `verify`
pub fn eddsa_sweep(ctx: &mut Ctx) {
    use pgp::crypto::Signer;
    let n = ctx.pick(6000, 40000);
    let mut rng = ChaCha8Rng::seed_from_u64(ctx.seed ^ 0xEDD5A);
    let key = crate::keys::eddsa_legacy_ecdh(&mut rng);
    let secret = match key.primary_key.secret_params() {
        pgp::types::SecretParams::Plain(PlainSecretParams::EdDSALegacy(pgp::crypto::eddsa_legacy::SecretKey::Ed25519(k))) => *k.as_bytes(),
        _ => return,
    };
    let legacy = pgp::crypto::ed25519::SecretKey::try_from_bytes(secret, pgp::crypto::ed25519::Mode::EdDSALegacy).expect("key");
    let native = pgp::crypto::ed25519::SecretKey::try_from_bytes(secret, pgp::crypto::ed25519::Mode::Ed25519).expect("key");
    for i in 0..n {
        let mut digest = [0u8; 32];
        rng.fill_bytes(&mut digest);
        let (Ok(SignatureBytes::Mpis(v)), Ok(SignatureBytes::Native(nat))) = (legacy.sign(HashAlgorithm::Sha256, &digest), native.sign(HashAlgorithm::Sha256, &digest)) else {
            ctx.oracle("eddsa_signs", "ed25519::SecretKey::sign", &format!("digest={}", hx(&digest)), false, "sign failed");
            continue;
        };
        let (r, s) = (v[0].as_ref().to_vec(), v[1].as_ref().to_vec());
        let short = r.len() < 32 || s.len() < 32;
        ctx.stat("field:ed25519legacy.sig.r");
        ctx.stat("field:ed25519legacy.sig.s");
        if r.len() < 32 { ctx.stat("leading_zero:ed25519legacy.sig.r"); }
        if s.len() < 32 { ctx.stat("leading_zero:ed25519legacy.sig.s"); }
        if short || i % 16 == 0 {
            ctx.case(format!("eddsa_sig r={} s={}", hx(&r), hx(&s)), format!("ok:{}", hx(&nat)));
            // property: the key's own signature verifies, also when a half was stored short
            let ok = key.primary_key.public_key().verify(HashAlgorithm::Sha256, &digest, &SignatureBytes::Mpis(v.clone())).is_ok();
            ctx.oracle("short_eddsa_signature_verifies", "PubKeyInner::verify (EdDSALegacy r/s re-padding)", &format!("secret={} digest={}", hx(&secret), hx(&digest)), ok, "stripped signature rejected");
        }
    }
    // over-long halves are refused
    for (rl, sl) in [(33usize, 32usize), (32, 33), (40, 1), (0, 0), (1, 32)] {
        let sig = SignatureBytes::Mpis(vec![Mpi::from_slice(&vec![1u8; rl]), Mpi::from_slice(&vec![1u8; sl])]);
        let real = key.primary_key.public_key().verify(HashAlgorithm::Sha256, &[7u8; 32], &sig);
        // only the length decision is compared: for admissible lengths the model yields the octets
        let too_long = real.as_ref().err().map(|e| e.to_string().contains("invalid R (len)") || e.to_string().contains("invalid S (len)")).unwrap_or(false);
        ctx.case(format!("eddsa_len r={} s={}", hx(&vec![1u8; rl]), hx(&vec![1u8; sl])), if too_long { "err".into() } else { "ok".into() });
    }
}

/// scalars with 0..n leading zero octets pushed through the real secret-key reader
/// (`PlainSecretParams::try_from_reader_no_checksum`): `pad_key` paths take every count, the ECDSA
/// path (`SecretKey::from_slice`) only down to 24 octets — the model must predict which
pub fn crafted_scalars(ctx: &mut Ctx) {
    let mut rng = ChaCha8Rng::seed_from_u64(ctx.seed ^ 0xC4AF);
    for kt in [Kt(ECDSA, 2), Kt(ECDSA, 3), Kt(ECDSA, 4), Kt(ECDSA, 8), Kt(ECDH, 2), Kt(ECDH, 3), Kt(ECDH, 4), Kt(EDLEG, 0), Kt(ECDH, 0)] {
        let Ok(Ok((pubp, pgp::types::SecretParams::Plain(ref plain)))) = guarded(|| kt.real().generate(&mut rng)) else { continue };
        let alg = kt.real().to_alg();
        let raw: Vec<u8> = match plain {
            PlainSecretParams::ECDSA(k) => k.to_bytes(),
            PlainSecretParams::ECDH(k) => k.to_bytes(),
            PlainSecretParams::EdDSALegacy(pgp::crypto::eddsa_legacy::SecretKey::Ed25519(k)) => k.as_bytes().to_vec(),
            _ => continue,
        };
        let n = raw.len();
        let c25519 = kt == Kt(ECDH, 0);
        for zeros in 0..=n {
            // big-endian value with `zeros` leading zero octets (for Curve25519 the stored form is
            // the reversed scalar: same thing on the wire)
            let mut be: Vec<u8> = if c25519 { raw.iter().rev().copied().collect() } else { raw.clone() };
            be.iter_mut().take(zeros).for_each(|b| *b = 0);
            if zeros < n && be[zeros] == 0 {
                be[zeros] = 1;
            }
            let wire = Mpi::from_slice(&be).to_bytes().unwrap_or_default();
            let back = guarded(|| PlainSecretParams::try_from_reader_no_checksum(&wire[..], KeyVersion::V6, alg, &pubp));
            let got: Option<Vec<u8>> = match &back {
                Ok(Ok(PlainSecretParams::ECDSA(k))) => Some(k.to_bytes()),
                Ok(Ok(PlainSecretParams::ECDH(k))) => Some(k.to_bytes()),
                Ok(Ok(PlainSecretParams::EdDSALegacy(pgp::crypto::eddsa_legacy::SecretKey::Ed25519(k)))) => Some(k.as_bytes().to_vec()),
                _ => None,
            };
            let how = if c25519 { "c25519" } else if kt.0 == ECDSA { "ec" } else { "pad" };
            // an all-zero scalar is refused by the primitive itself (not part of the encoding model)
            if zeros == n && got.is_none() {
                ctx.stat("crafted:zero_scalar_refused_by_primitive");
                continue;
            }
            let ans = match &got {
                Some(v) => format!("ok:{}:0", hx(v)),
                None => "err".into(),
            };
            ctx.stat(&format!("crafted:{}:{}", kt.name(), if got.is_some() { "accepted" } else { "refused" }));
            ctx.case(format!("mpi_dec how={how} n={n} data={}", hx(&wire)), ans);
            // property-level statement of the same: the value that comes back is the value written
            if let Some(v) = &got {
                let want: Vec<u8> = if c25519 { be.iter().rev().copied().collect() } else { be.clone() };
                if !c25519 || zeros == 0 {
                    ctx.oracle("crafted_scalar_value_preserved", "PlainSecretParams::try_from_reader (pad_key / from_slice)", &format!("kt={} wire={}", kt.enc(), hx(&wire)), v == &want, "value changed");
                }
            }
        }
    }
}

// ---------------------------------------------------------------------------------------------
// correspondence: shape of the certificate
// ---------------------------------------------------------------------------------------------

fn render_subpacket(d: &SubpacketData) -> String {
    let dots = |v: Vec<u8>| v.iter().map(|x| x.to_string()).collect::<Vec<_>>().join(".");
    match d {
        SubpacketData::SignatureCreationTime(_) => "2".into(),
        SubpacketData::IssuerFingerprint(_) => "33".into(),
        SubpacketData::IssuerKeyId(_) => "16".into(),
        SubpacketData::KeyFlags(f) => format!("27={}", flag_bits(f)),
        SubpacketData::Features(f) => format!("30={}{}", f.seipd_v1() as u8, f.seipd_v2() as u8),
        SubpacketData::PreferredSymmetricAlgorithms(l) => format!("11={}", dots(l.iter().map(|&a| u8::from(a)).collect())),
        SubpacketData::PreferredHashAlgorithms(l) => format!("21={}", dots(l.iter().map(|&a| u8::from(a)).collect())),
        SubpacketData::PreferredCompressionAlgorithms(l) => format!("22={}", dots(l.iter().map(|&a| u8::from(a)).collect())),
        SubpacketData::PreferredAeadAlgorithms(l) => format!("39={}", dots(l.iter().flat_map(|&(a, b)| [u8::from(a), u8::from(b)]).collect())),
        SubpacketData::IsPrimary(b) => format!("25={}", *b as u8),
        SubpacketData::EmbeddedSignature(s) => format!("32({})", render_sig(s)),
        other => format!("?{other:?}").replace(' ', ""),
    }
}

fn render_sig(s: &Signature) -> String {
    match s.config() {
        Some(c) => format!(
            "S{}.{}.{}.{}[{}]{{{}}}",
            u8::from(c.version()),
            u8::from(c.typ),
            u8::from(c.pub_alg),
            u8::from(c.hash_alg),
            c.hashed_subpackets.iter().map(|p| render_subpacket(&p.data)).collect::<Vec<_>>().join(","),
            c.unhashed_subpackets.iter().map(|p| render_subpacket(&p.data)).collect::<Vec<_>>().join(",")
        ),
        None => "S?".into(),
    }
}

/// the certificate in serialisation order: `K` primary, signatures, `U` user ids, `B` subkeys
pub fn render_shape(k: &SignedSecretKey) -> String {
    let mut t = vec![format!("K{}.{}", u8::from(k.primary_key.version()), u8::from(k.primary_key.algorithm()))];
    t.extend(k.details.revocation_signatures.iter().map(render_sig));
    t.extend(k.details.direct_signatures.iter().map(render_sig));
    for u in &k.details.users {
        t.push("U".into());
        t.extend(u.signatures.iter().map(render_sig));
    }
    for a in &k.details.user_attributes {
        t.push("A".into());
        t.extend(a.signatures.iter().map(render_sig));
    }
    for s in &k.public_subkeys {
        t.push(format!("P{}.{}", u8::from(s.key.version()), u8::from(s.key.algorithm())));
        t.extend(s.signatures.iter().map(render_sig));
    }
    for s in &k.secret_subkeys {
        t.push(format!("B{}.{}", u8::from(s.key.version()), u8::from(s.key.algorithm())));
        t.extend(s.signatures.iter().map(render_sig));
    }
    t.join("_")
}

// ---------------------------------------------------------------------------------------------
// correspondence: value-dependent fields
// ---------------------------------------------------------------------------------------------

/// independent MPI splitter: (mpi bytes incl. the two length octets, rest)
fn split_mpi(b: &[u8]) -> Option<(&[u8], &[u8])> {
    if b.len() < 2 {
        return None;
    }
    let bits = (b[0] as usize) << 8 | b[1] as usize;
    let n = (bits + 7) / 8;
    if b.len() < 2 + n {
        return None;
    }
    Some(b.split_at(2 + n))
}

fn lz_count(v: &[u8]) -> usize {
    v.iter().take_while(|&&b| b == 0).count()
}

fn lz_stat(rep: &mut Report, field: &str, zeros: usize) {
    rep.stat(format!("field:{field}"));
    if zeros > 0 {
        rep.stat(format!("leading_zero:{field}"));
    }
    if zeros > 1 {
        rep.stat(format!("leading_zero_2plus:{field}"));
    }
}

/// what the real reader makes of one serialised MPI
fn real_mpi_read(data: &[u8]) -> String {
    let mut cur = std::io::Cursor::new(data);
    match guarded(|| Mpi::try_from_reader(&mut cur)) {
        Ok(Ok(m)) => format!("ok:{}:{}", hx(m.as_ref()), data.len() - cur.position() as usize),
        Ok(Err(_)) => "err".into(),
        Err(_) => "panic".into(),
    }
}

/// a plain MPI field (numbers: RSA, DSA, signature halves): both directions
fn mpi_field(rep: &mut Report, field: &str, nominal: usize, value: &[u8], wire: &[u8]) {
    rep.case(format!("mpi_enc raw={}", hx(value)), format!("ok:{}", hx(wire)));
    rep.case(format!("mpi_dec how=mpi n=0 data={}", hx(wire)), real_mpi_read(wire));
    lz_stat(rep, field, nominal.saturating_sub(value.len()));
}

fn curve_tag(c: &ECCCurve) -> String {
    c.name().to_lowercase().replace(' ', "").replace("nist", "")
}

/// secret material: what rpgp writes for it and what it holds after reading that back
pub fn secret_fields(rep: &mut Report, alg: PublicKeyAlgorithm, pubp: &PublicParams, plain: &PlainSecretParams) {
    let mut wire = Vec::new();
    if plain.to_writer(&mut wire, KeyVersion::V6).is_err() {
        return;
    }
    let back = guarded(|| PlainSecretParams::try_from_reader_no_checksum(&wire[..], KeyVersion::V6, alg, pubp));
    let back = match back {
        Ok(Ok(b)) => Some(b),
        _ => None,
    };
    match plain {
        PlainSecretParams::ECDSA(k) => {
            let raw = k.to_bytes();
            let f = format!("ecdsa-{}.secret", curve_tag(&k.curve()));
            rep.case(format!("mpi_enc raw={}", hx(&raw)), format!("ok:{}", hx(&wire)));
            let ans = match &back {
                Some(PlainSecretParams::ECDSA(k2)) => format!("ok:{}:0", hx(&k2.to_bytes())),
                _ => "err".into(),
            };
            rep.case(format!("mpi_dec how=ec n={} data={}", raw.len(), hx(&wire)), ans);
            lz_stat(rep, &f, lz_count(&raw));
        }
        PlainSecretParams::ECDH(k) => {
            let f = format!("ecdh-{}.secret", curve_tag(&k.curve()));
            if matches!(k.curve(), ECCCurve::Curve25519Legacy) {
                let le = k.to_bytes();
                rep.case(format!("c25519_enc raw={}", hx(&le)), format!("ok:{}", hx(&wire)));
                let ans = match &back {
                    Some(PlainSecretParams::ECDH(k2)) => format!("ok:{}:0", hx(&k2.to_bytes())),
                    _ => "err".into(),
                };
                rep.case(format!("mpi_dec how=c25519 n=32 data={}", hx(&wire)), ans);
                // stored big endian: the first stored octet is the last of the little-endian scalar
                lz_stat(rep, &f, le.iter().rev().take_while(|&&b| b == 0).count());
            } else {
                let raw = k.to_bytes();
                rep.case(format!("mpi_enc raw={}", hx(&raw)), format!("ok:{}", hx(&wire)));
                let ans = match &back {
                    Some(PlainSecretParams::ECDH(k2)) => format!("ok:{}:0", hx(&k2.to_bytes())),
                    _ => "err".into(),
                };
                rep.case(format!("mpi_dec how=pad n={} data={}", raw.len(), hx(&wire)), ans);
                lz_stat(rep, &f, lz_count(&raw));
            }
        }
        PlainSecretParams::EdDSALegacy(pgp::crypto::eddsa_legacy::SecretKey::Ed25519(k)) => {
            let raw = k.as_bytes().to_vec();
            rep.case(format!("mpi_enc raw={}", hx(&raw)), format!("ok:{}", hx(&wire)));
            let ans = match &back {
                Some(PlainSecretParams::EdDSALegacy(pgp::crypto::eddsa_legacy::SecretKey::Ed25519(k2))) => format!("ok:{}:0", hx(k2.as_bytes())),
                _ => "err".into(),
            };
            rep.case(format!("mpi_dec how=pad n=32 data={}", hx(&wire)), ans);
            lz_stat(rep, "ed25519legacy.secret", lz_count(&raw));
        }
        PlainSecretParams::RSA(k) => {
            let (d, p, q, u) = k.to_bytes();
            let mut rest = &wire[..];
            for (name, val, nominal) in [("d", d, 256usize), ("p", p, 128), ("q", q, 128), ("u", u, 128)] {
                if let Some((m, r)) = split_mpi(rest) {
                    mpi_field(rep, &format!("rsa.secret.{name}"), nominal, &val, m);
                    rest = r;
                }
            }
        }
        PlainSecretParams::DSA(k) => {
            let x = k.to_bytes();
            mpi_field(rep, "dsa.secret.x", 0, &x, &wire);
        }
        // native fixed-size secrets: nothing is stripped; record that leading zero octets occur
        PlainSecretParams::Ed25519(k) => lz_stat(rep, "ed25519.secret(native)", lz_count(k.as_bytes())),
        PlainSecretParams::X25519(k) => lz_stat(rep, "x25519.secret(native)", lz_count(k.as_bytes())),
        PlainSecretParams::Ed448(k) => lz_stat(rep, "ed448.secret(native)", lz_count(k.as_bytes())),
        PlainSecretParams::X448(k) => lz_stat(rep, "x448.secret(native)", lz_count(k.as_bytes())),
        _ => {}
    }
    if matches!(plain, PlainSecretParams::Ed25519(_) | PlainSecretParams::X25519(_) | PlainSecretParams::Ed448(_) | PlainSecretParams::X448(_)) {
        // the property still says the material must survive: compare what comes back
        let same = match (&back, plain) {
            (Some(b), p) => b == p,
            _ => false,
        };
        rep.oracle("native_secret_survives_reimport", "PlainSecretParams::to_writer -> try_from_reader", same, "native secret differs after re-import".into());
    }
}

/// public material: the MPIs of the public key packet
pub fn public_fields(rep: &mut Report, alg: PublicKeyAlgorithm, pubp: &PublicParams) {
    let mut wire = Vec::new();
    if pubp.to_writer(&mut wire).is_err() {
        return;
    }
    let skip_oid = |b: &[u8]| -> usize { 1 + b[0] as usize };
    match pubp {
        PublicParams::RSA(_) => {
            let mut rest = &wire[..];
            for (name, nominal) in [("n", 256usize), ("e", 3)] {
                if let Some((m, r)) = split_mpi(rest) {
                    mpi_field(rep, &format!("rsa.public.{name}"), nominal, &m[2..], m);
                    rest = r;
                }
            }
        }
        PublicParams::DSA(_) => {
            let mut rest = &wire[..];
            let mut plen = 0;
            for name in ["p", "q", "g", "y"] {
                if let Some((m, r)) = split_mpi(rest) {
                    if name == "p" {
                        plen = m.len() - 2;
                    }
                    let nominal = if name == "q" { m.len() - 2 } else { plen };
                    mpi_field(rep, &format!("dsa.public.{name}"), nominal, &m[2..], m);
                    rest = r;
                }
            }
        }
        PublicParams::ECDSA(_) | PublicParams::ECDH(_) | PublicParams::EdDSALegacy(_) => {
            let off = skip_oid(&wire);
            if let Some((m, _)) = split_mpi(&wire[off..]) {
                let val = &m[2..];
                let legacy_ed = matches!(pubp, PublicParams::EdDSALegacy(_));
                let legacy_cv = matches!(pubp, PublicParams::ECDH(pgp::types::EcdhPublicParams::Curve25519Legacy { .. }));
                if legacy_ed || legacy_cv {
                    // 0x40 ‖ native point
                    let f = if legacy_ed { "ed25519legacy.public(0x40)" } else { "ecdh-curve25519legacy.public(0x40)" };
                    rep.case(format!("native_point pfx={} p={}", val[0], hx(&val[1..])), format!("ok:{}", hx(m)));
                    // what the real reader extracts (it must be the point)
                    let real = guarded(|| PublicParams::try_from_reader(alg, None, &wire[..]));
                    let ans = match real {
                        Ok(Ok(pp)) if &pp == pubp => format!("ok:{}:0", hx(&val[1..])),
                        _ => "err".into(),
                    };
                    rep.case(format!("mpi_dec how={} n=32 data={}", if legacy_ed { "eddsapt" } else { "ecdhpt" }, hx(m)), ans);
                    lz_stat(rep, f, lz_count(&val[1..]));
                } else {
                    // SEC1 uncompressed point 0x04 ‖ x ‖ y
                    mpi_field(rep, "sec1.public(0x04)", val.len(), val, m);
                    let half = (val.len() - 1) / 2;
                    lz_stat(rep, "sec1.public.x", lz_count(&val[1..1 + half]));
                }
            }
        }
        _ => {}
    }
}

/// signature halves of every self-signature
pub fn signature_fields(rep: &mut Report, label: &str, nominal: usize, sig: &Signature) {
    if let Some(SignatureBytes::Mpis(v)) = sig.signature() {
        for (i, m) in v.iter().enumerate() {
            if let Ok(wire) = m.to_bytes() {
                let name = if v.len() == 1 { "m".to_string() } else { ["r", "s"][i.min(1)].to_string() };
                mpi_field(rep, &format!("{label}.sig.{name}"), nominal, m.as_ref(), &wire);
            }
        }
    }
    if let Some(e) = sig.embedded_signature() {
        // the embedded back-signature is made by the subkey; its size class is reported separately
        if let Some(SignatureBytes::Mpis(v)) = e.signature() {
            for (i, m) in v.iter().enumerate() {
                if let Ok(wire) = m.to_bytes() {
                    let name = if v.len() == 1 { "m".to_string() } else { ["r", "s"][i.min(1)].to_string() };
                    mpi_field(rep, &format!("backsig.sig.{name}"), m.as_ref().len(), m.as_ref(), &wire);
                }
            }
        }
    }
}

fn sig_nominal(kt: Kt) -> usize {
    match kt.0 {
        RSA => 256,
        EDLEG => 32,
        ECDSA => match kt.1 { 3 => 48, 4 => 66, _ => 32 },
        DSA => if kt.1 == 1024 { 20 } else { 32 },
        _ => 0,
    }
}

pub fn field_cases(cfg: &Cfg, key: &SignedSecretKey, rep: &mut Report) {
    let pw = Password::from(cfg.pw.as_str());
    let alg = key.primary_key.algorithm();
    let _ = key.primary_key.unlock(&pw, |pubp, plain| {
        secret_fields(rep, alg, pubp, plain);
        public_fields(rep, alg, pubp);
        Ok(())
    });
    for sk in &key.secret_subkeys {
        let alg = sk.key.algorithm();
        let _ = sk.key.unlock(&pw, |pubp, plain| {
            secret_fields(rep, alg, pubp, plain);
            public_fields(rep, alg, pubp);
            Ok(())
        });
    }
    let label = cfg.kt.name();
    let nominal = sig_nominal(cfg.kt);
    for s in key.details.direct_signatures.iter().chain(key.details.users.iter().flat_map(|u| u.signatures.iter())).chain(key.secret_subkeys.iter().flat_map(|s| s.signatures.iter())) {
        signature_fields(rep, &label, nominal, s);
    }
}

// ---------------------------------------------------------------------------------------------
// correspondence: composition of verify_bindings over measured per-signature verdicts
// ---------------------------------------------------------------------------------------------

fn b(c: bool) -> char {
    if c { '1' } else { '0' }
}

/// (request arguments, real verdict public form, real verdict secret form, real verdict of
/// `to_public_key()`)
pub fn cert_view(k: &SignedSecretKey) -> (String, bool, bool, bool) {
    let pk = k.primary_key.public_key();
    let users = if k.details.users.is_empty() {
        "-".to_string()
    } else {
        k.details.users.iter().map(|u| {
            if u.signatures.is_empty() { "_".to_string() } else { u.signatures.iter().map(|s| b(s.verify_certification(pk, Tag::UserId, &u.id).is_ok())).collect::<String>() }
        }).collect::<Vec<_>>().join("|")
    };
    let verdicts = |v: &Vec<Signature>| if v.is_empty() { "-".to_string() } else { v.iter().map(|s| b(s.verify_key(pk).is_ok())).collect::<String>() };
    let subs = if k.secret_subkeys.is_empty() {
        "-".to_string()
    } else {
        k.secret_subkeys.iter().map(|s| {
            if s.signatures.is_empty() {
                "_".to_string()
            } else {
                s.signatures.iter().map(|sig| {
                    let emb = sig.embedded_signature();
                    let bind_type = matches!(sig.typ(), Some(pgp::packet::SignatureType::SubkeyBinding) | Some(pgp::packet::SignatureType::SubkeyRevocation));
                    format!("{}{}{}{}{}", b(sig.verify_subkey_binding(pk, s.key.public_key()).is_ok()), b(sig.key_flags().sign()), b(emb.is_some()),
                        b(emb.map(|e| e.verify_primary_key_binding(s.key.public_key(), pk).is_ok()).unwrap_or(false)), b(bind_type))
                }).collect::<Vec<_>>().join(",")
            }
        }).collect::<Vec<_>>().join("|")
    };
    let args = format!("users={users} direct={} revs={} subs={subs}", verdicts(&k.details.direct_signatures), verdicts(&k.details.revocation_signatures));
    // public form built field by field (`SignedPublicKey::new` would silently drop unsigned subkeys)
    let public = SignedPublicKey {
        primary_key: pk.clone(),
        details: k.details.clone(),
        public_subkeys: k.secret_subkeys.iter().map(|s| SignedPublicSubKey { key: s.key.public_key().clone(), signatures: s.signatures.clone() }).collect(),
    };
    (args, public.verify_bindings().is_ok(), k.verify_bindings().is_ok(), k.to_public_key().verify_bindings().is_ok())
}

/// a mutated copy of the certificate; `None` when the mutation does not apply to this shape
pub fn mutate(cfg: &Cfg, key: &SignedSecretKey, which: u64, seed: u64) -> Option<(&'static str, SignedSecretKey)> {
    let mut rng = ChaCha8Rng::seed_from_u64(seed ^ 0x3117);
    let pw = if cfg.locked { Password::from(cfg.pw.as_str()) } else { Password::empty() };
    let mut k = key.clone();
    let signing: Vec<usize> = cfg.subs.iter().enumerate().filter(|(_, s)| s.sign).map(|(i, _)| i).collect();
    let rebind = |k: &SignedSecretKey, i: usize, emb: Option<Signature>, rng: &mut ChaCha8Rng| -> Option<Signature> {
        let flags = k.secret_subkeys[i].signatures.first()?.key_flags();
        k.secret_subkeys[i].key.public_key().sign(rng, &k.primary_key, k.primary_key.public_key(), &pw, flags, emb).ok()
    };
    match which {
        1 => {
            // signing subkey bound WITHOUT the embedded back-signature
            let i = *signing.first()?;
            let sig = rebind(&k, i, None, &mut rng)?;
            k.secret_subkeys[i].signatures = vec![sig];
            Some(("no_backsig", k))
        }
        2 => {
            let i = cfg.subs.len().checked_sub(1)?;
            k.secret_subkeys[i].signatures.clear();
            Some(("unsigned_subkey", k))
        }
        3 => {
            k.details.users.first_mut()?.signatures.clear();
            Some(("unsigned_user", k))
        }
        4 => {
            if k.details.users.len() < 2 {
                return None;
            }
            let a = k.details.users[0].signatures.clone();
            k.details.users[0].signatures = k.details.users[1].signatures.clone();
            k.details.users[1].signatures = a;
            Some(("swapped_user_sigs", k))
        }
        5 => {
            let s = k.details.users.first()?.signatures.first()?.clone();
            k.details.direct_signatures.push(s);
            Some(("certification_as_direct_sig", k))
        }
        6 => {
            // back-signature of ANOTHER signing subkey embedded
            if signing.len() < 2 {
                return None;
            }
            let other = k.secret_subkeys[signing[1]].signatures.first()?.embedded_signature()?.clone();
            let sig = rebind(&k, signing[0], Some(other), &mut rng)?;
            k.secret_subkeys[signing[0]].signatures = vec![sig];
            Some(("foreign_backsig", k))
        }
        7 => {
            let i = cfg.subs.len().checked_sub(1)?;
            let s = k.secret_subkeys[i].signatures.first()?.clone();
            k.secret_subkeys[i].signatures.push(s);
            Some(("duplicate_binding", k))
        }
        8 => {
            if k.secret_subkeys.len() < 2 {
                return None;
            }
            let a = k.secret_subkeys[0].signatures.clone();
            k.secret_subkeys[0].signatures = k.secret_subkeys[1].signatures.clone();
            k.secret_subkeys[1].signatures = a;
            Some(("swapped_bindings", k))
        }
        9 => {
            // back-signature only in the unhashed area
            let i = *signing.first()?;
            let emb = k.secret_subkeys[i].signatures.first()?.embedded_signature()?.clone();
            let mut sig = rebind(&k, i, None, &mut rng)?;
            sig.unhashed_subpacket_push(pgp::packet::Subpacket::regular(SubpacketData::EmbeddedSignature(Box::new(emb))).ok()?).ok()?;
            k.secret_subkeys[i].signatures = vec![sig];
            Some(("backsig_unhashed", k))
        }
        10 => {
            // a User ID certification among the signatures of a subkey: `verify_bindings` refuses
            // it on both forms as they are; `to_public_key()` filters it out first
            let i = cfg.subs.len().checked_sub(1)?;
            let s = k.details.users.first()?.signatures.first()?.clone();
            k.secret_subkeys[i].signatures.push(s);
            Some(("certification_among_bindings", k))
        }
        _ => None,
    }
}

pub fn vb_cases(cfg: &Cfg, seed: u64, key: &SignedSecretKey, rep: &mut Report) {
    let mut emit = |tag: &str, k: &SignedSecretKey, rep: &mut Report| {
        if let Ok((args, p, s, tp)) = guarded(|| cert_view(k)) {
            rep.case(format!("vb_pub {args}"), format!("ok:{}", p as u8));
            rep.case(format!("vb_sec {args}"), format!("ok:{}", s as u8));
            rep.case(format!("vb_topub {args}"), format!("ok:{}", tp as u8));
            rep.stat(format!("vb:{tag}:pub={}:sec={}:to_public={}", p as u8, s as u8, tp as u8));
        }
    };
    emit("unmodified", key, rep);
    for w in [1 + seed % 10, 1 + (seed / 10) % 10] {
        if let Ok(Some((tag, k))) = guarded(|| mutate(cfg, key, w, seed)) {
            emit(tag, &k, rep);
        }
    }
}
