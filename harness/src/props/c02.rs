//! C02 — signature soundness: only the signed content under the signer's key verifies.
//!
//! What is generated.  For every signature kind {0x00, 0x01, 0x10–0x13, 0x18, 0x19, 0x1F, 0x20,
//! 0x28, 0x30} × key fixture {Ed25519Legacy v4, Ed25519 v4, Ed25519 v6, ECDSA P-256 v4, RSA-2048 v4,
//! Ed448 v6} × hash {SHA-256, SHA-512, SHA3-256 where the key allows it} a signature is produced
//! with the real API (`SignatureConfig::sign*`, `MessageBuilder`, `CleartextSignedMessage::sign`,
//! the key generator for certificates).  Then single-bit flips / byte substitutions / truncations /
//! insertions are applied to
//!   (a) the content (every position for ≤ 64 octets; for text also the line-ending variants
//!       that must still verify),
//!   (b) every field of the serialized signature packet — the field map is taken from the real
//!       parser (`write_len` of the parsed parts) and, as a correspondence case, from the Lean
//!       `Wire` model (`snd_fields`),
//!   (c) the verifying key (another key of the same algorithm, the same material under the other
//!       key version, the One-Pass header for inline signatures),
//! and every applicable entry point is run on the result: `Signature::verify`,
//! `DetachedSignature::verify`, `verify_certification`, `verify_third_party_certification`,
//! `SignedUser::verify_bindings`, `verify_subkey_binding`, `Signed{Public,Secret}SubKey::verify_bindings`,
//! `verify_primary_key_binding`, `verify_key`, `verify_key_third_party`, `Message::verify`,
//! `verify_read`, `verify_nested` (one-pass and prefixed, binary and after an armor round trip),
//! `CleartextSignedMessage::verify`, `Signed{Public,Secret}Key::verify_bindings`.
//!
//! Correspondence (`ctx.case`): the Lean model (`RpgpModel/Sound.lean`) is given the same mutated
//! packet body, the key as the guards see it, the subject, a hash table (cksum of pre-image →
//! digest, computed here with RustCrypto over `sigrec::rfc_preimage`, the RFC text typed in
//! independently of the model) and the signing log; it answers `ok` / `err:<guard>`.  The real
//! entry point's answer is its verdict, with the error message mapped to the guard that produced
//! it.
//!
//! Oracles (`ctx.oracle`, written from the property text only):
//!  * `original_verifies`   non-vacuity of the sweep: the unmutated object verifies everywhere
//!  * `mutation_rejected`   "changing any bit of the message, of the hashed subpacket area, type,
//!                          algorithms, salt or signature value, substituting another key, or
//!                          truncating/extending the message makes every verification entry point
//!                          return an error" — exceptions exactly: text-mode line endings,
//!                          unhashed area, MPI bit-count octets, packet framing, OPS issuer/nesting;
//!                          for certificates a signature packet the certificate parser discards
//!                          counts as not accepted (`dropped_by_parser`)
//!  * `eol_variant_verifies` "up to the documented text-mode line-ending equivalence"
//!  * `left16_alone_refuses` a wrong left-16 is refused even by a key that accepts everything
//!  * `ops_mismatch_rejected` a one-pass header that disagrees with its signature never verifies
//!  * `backsig_required`    signing-capable subkey without / with a foreign back-signature
//!  * `wrong_entry_point_refuses` a signature of one class through the verifier of another class
//!  * `entry_points_agree`  `verify_read`, `read_to_end`+`verify`, `verify_nested`, armored and
//!                          binary give the same verdict on the same message
//!
//! Parts: this file (single signatures of every kind), `c02/inline.rs` (signed messages),
//! `c02/text.rs` (line endings: documents x insert/remove CR, LF, CR LF, chunked delivery),
//! `c02/multi.rs` (messages with several signatures of mixed types / versions / layouts),
//! `c02/cleartext.rs` (cleartext signature framework), `c02/cert.rs` (certificates, bindings),
//! `c02/embedded.rs` (field sweep inside a back-signature embedded in the hashed / unhashed area).
use std::io::Read;

use pgp::armor::{self, BlockType};
use pgp::composed::{
    ArmorOptions, CleartextSignedMessage, Deserializable, DetachedSignature, KeyType, Message, MessageBuilder,
    SecretKeyParamsBuilder, SignedPublicKey, SignedPublicSubKey, SignedSecretKey, SignedSecretSubKey,
    SubkeyParamsBuilder, VerificationResult,
};
use pgp::crypto::ecc_curve::ECCCurve;
use pgp::crypto::hash::HashAlgorithm;
use pgp::crypto::public_key::PublicKeyAlgorithm;
use pgp::packet::{
    KeyFlags, Notation, Packet, PacketParser, PacketTrait, PubKeyInner, PublicKey, PublicSubkey, SecretKey, SecretSubkey,
    Signature, SignatureConfig, SignatureType, SignatureVersionSpecific, Subpacket, SubpacketData, UserId,
};
use pgp::ser::Serialize;
use pgp::types::{
    Fingerprint, KeyDetails, KeyId, KeyVersion, PacketHeaderVersion, Password, PublicParams, SignatureBytes,
    SigningKey, Tag, Timestamp, VerifyingKey,
};
use rand::{Rng, SeedableRng};
use rand_chacha::ChaCha8Rng;
use sha2::{Digest, Sha256};

use crate::ctx::{guarded, hx, Ctx};
use crate::frame::cksum;
use crate::sigrec::{self, SigFields, Subject, WKey};

mod cert;
mod cleartext;
mod embedded;
mod recut;
mod inline;
mod multi;
mod text;

// ------------------------------------------------------------------------------------------
// key wrappers: one type for primary and subkeys
// ------------------------------------------------------------------------------------------

#[derive(Debug, Clone)]
enum PubAny {
    P(PublicKey),
    S(PublicSubkey),
}

macro_rules! pub_each {
    ($s:expr, $k:ident => $e:expr) => {
        match $s {
            PubAny::P($k) => $e,
            PubAny::S($k) => $e,
        }
    };
}

impl KeyDetails for PubAny {
    fn version(&self) -> KeyVersion { pub_each!(self, k => k.version()) }
    fn legacy_key_id(&self) -> KeyId { pub_each!(self, k => k.legacy_key_id()) }
    fn fingerprint(&self) -> Fingerprint { pub_each!(self, k => k.fingerprint()) }
    fn algorithm(&self) -> PublicKeyAlgorithm { pub_each!(self, k => k.algorithm()) }
    fn created_at(&self) -> Timestamp { pub_each!(self, k => k.created_at()) }
    fn legacy_v3_expiration_days(&self) -> Option<u16> { pub_each!(self, k => k.legacy_v3_expiration_days()) }
    fn public_params(&self) -> &PublicParams { pub_each!(self, k => k.public_params()) }
}

impl VerifyingKey for PubAny {
    fn verify(&self, hash: HashAlgorithm, data: &[u8], sig: &SignatureBytes) -> pgp::errors::Result<()> {
        pub_each!(self, k => k.verify(hash, data, sig))
    }
}

impl Serialize for PubAny {
    fn to_writer<W: std::io::Write>(&self, w: &mut W) -> pgp::errors::Result<()> { pub_each!(self, k => k.to_writer(w)) }
    fn write_len(&self) -> usize { pub_each!(self, k => k.write_len()) }
}

/// the key handed to the entry points; `yes` = a primitive that accepts every signature
#[derive(Debug, Clone)]
struct VK {
    k: PubAny,
    yes: bool,
}

impl KeyDetails for VK {
    fn version(&self) -> KeyVersion { self.k.version() }
    fn legacy_key_id(&self) -> KeyId { self.k.legacy_key_id() }
    fn fingerprint(&self) -> Fingerprint { self.k.fingerprint() }
    fn algorithm(&self) -> PublicKeyAlgorithm { self.k.algorithm() }
    fn created_at(&self) -> Timestamp { self.k.created_at() }
    fn legacy_v3_expiration_days(&self) -> Option<u16> { self.k.legacy_v3_expiration_days() }
    fn public_params(&self) -> &PublicParams { self.k.public_params() }
}

impl VerifyingKey for VK {
    fn verify(&self, hash: HashAlgorithm, data: &[u8], sig: &SignatureBytes) -> pgp::errors::Result<()> {
        if self.yes { Ok(()) } else { self.k.verify(hash, data, sig) }
    }
}

impl Serialize for VK {
    fn to_writer<W: std::io::Write>(&self, w: &mut W) -> pgp::errors::Result<()> { self.k.to_writer(w) }
    fn write_len(&self) -> usize { self.k.write_len() }
}

#[derive(Debug, Clone)]
enum SecAny {
    P(SecretKey),
    S(SecretSubkey),
}

macro_rules! sec_each {
    ($s:expr, $k:ident => $e:expr) => {
        match $s {
            SecAny::P($k) => $e,
            SecAny::S($k) => $e,
        }
    };
}

impl KeyDetails for SecAny {
    fn version(&self) -> KeyVersion { sec_each!(self, k => k.version()) }
    fn legacy_key_id(&self) -> KeyId { sec_each!(self, k => k.legacy_key_id()) }
    fn fingerprint(&self) -> Fingerprint { sec_each!(self, k => k.fingerprint()) }
    fn algorithm(&self) -> PublicKeyAlgorithm { sec_each!(self, k => k.algorithm()) }
    fn created_at(&self) -> Timestamp { sec_each!(self, k => k.created_at()) }
    fn legacy_v3_expiration_days(&self) -> Option<u16> { sec_each!(self, k => k.legacy_v3_expiration_days()) }
    fn public_params(&self) -> &PublicParams { sec_each!(self, k => k.public_params()) }
}

impl SigningKey for SecAny {
    fn sign(&self, pw: &Password, hash: HashAlgorithm, data: &[u8]) -> pgp::errors::Result<SignatureBytes> {
        sec_each!(self, k => SigningKey::sign(k, pw, hash, data))
    }
    fn hash_alg(&self) -> HashAlgorithm { sec_each!(self, k => SigningKey::hash_alg(k)) }
}

fn kv_u8(v: KeyVersion) -> u8 { u8::from(v) }

fn body_of(k: &impl Serialize) -> Vec<u8> {
    let mut v = Vec::new();
    k.to_writer(&mut v).expect("serialize");
    v
}

/// identity of the public key material the primitive verifies under
fn km_of(k: &impl KeyDetails) -> Vec<u8> {
    let mut v = vec![u8::from(k.algorithm())];
    k.public_params().to_writer(&mut v).expect("params");
    Sha256::digest(&v)[..8].to_vec()
}

fn fp_with_version(k: &impl KeyDetails) -> Vec<u8> {
    let fp = k.fingerprint();
    let mut v = vec![fp.version().map(kv_u8).unwrap_or(0)];
    v.extend_from_slice(fp.as_bytes());
    v
}

/// `<p>v= <p>id= <p>fp= <p>m= <p>s=<wl>:<hex>`
fn kdesc(p: &str, k: &PubAny) -> String {
    format!(
        "{p}v={} {p}id={} {p}fp={} {p}m={} {p}s={}:{}",
        kv_u8(k.version()),
        hx(k.legacy_key_id().as_ref()),
        hx(&fp_with_version(k)),
        hx(&km_of(k)),
        k.write_len(),
        hx(&body_of(k))
    )
}

fn k1desc(name: &str, k: &PubAny) -> String {
    format!("{name}={}:{}:{}", kv_u8(k.version()), k.write_len(), hx(&body_of(k)))
}

fn wkey(k: &PubAny) -> WKey { WKey { body: body_of(k) } }

// ------------------------------------------------------------------------------------------
// fixtures
// ------------------------------------------------------------------------------------------

/// the first 320 octets of the two SHAttered PDFs (Stevens et al., 2017; public): different
/// documents with the same plain SHA-1 digest.  A signature over one must not verify for the other.
const SHATTERED_1: &str = "255044462d312e330a25e2e3cfd30a0a0a312030206f626a0a3c3c2f57696474682032203020522f4865696768742033203020522f547970652034203020522f537562747970652035203020522f46696c7465722036203020522f436f6c6f7253706163652037203020522f4c656e6774682038203020522f42697473506572436f6d706f6e656e7420383e3e0a73747265616d0affd8fffe00245348412d3120697320646561642121212121852fec092339759c39b1a1c63c4c97e1fffe017346dc9166b67e118f029ab621b2560ff9ca67cca8c7f85ba84c79030c2b3de218f86db3a90901d5df45c14f26fedfb3dc38e96ac22fe7bd728f0e45bce046d23c570feb141398bb552ef5a0a82be331fea48037b8b5d71f0e332edf93ac3500eb4ddc0decc1a864790c782c76215660dd309791d06bd0af3f98cda4bc4629b1";
const SHATTERED_2: &str = "255044462d312e330a25e2e3cfd30a0a0a312030206f626a0a3c3c2f57696474682032203020522f4865696768742033203020522f547970652034203020522f537562747970652035203020522f46696c7465722036203020522f436f6c6f7253706163652037203020522f4c656e6774682038203020522f42697473506572436f6d706f6e656e7420383e3e0a73747265616d0affd8fffe00245348412d3120697320646561642121212121852fec092339759c39b1a1c63c4c97e1fffe017f46dc93a6b67e013b029aaa1db2560b45ca67d688c7f84b8c4c791fe02b3df614f86db1690901c56b45c1530afedfb76038e972722fe7ad728f0e4904e046c230570fe9d41398abe12ef5bc942be33542a4802d98b5d70f2a332ec37fac3514e74ddc0f2cc1a874cd0c78305a21566461309789606bd0bf3f98cda8044629a1";

/// "changing any bit of the message ... makes every verification entry point return an error", in
/// the SHA-1 dimension: documents that collide under plain SHA-1 (oracle only)
fn sha1_collision_cases(ctx: &mut Ctx, fixes: &[Fix]) {
    use pgp::composed::{DetachedSignature, Message, MessageBuilder};
    let (Ok(d1), Ok(d2)) = (hex::decode(SHATTERED_1), hex::decode(SHATTERED_2)) else { return };
    let mut rng = ChaCha8Rng::seed_from_u64(0x5A1);
    for fix in fixes.iter().filter(|f| f.name.starts_with("rsa") || f.name.starts_with("dsa")) {
        let site = "SHA-1 signatures over documents that collide under plain SHA-1";
        for (a, b, which) in [(&d1, &d2, "1->2"), (&d2, &d1, "2->1")] {
            // detached
            let r = guarded(|| {
                let Ok(sig) = DetachedSignature::sign_binary_data(&mut rng, &fix.ssk.primary_key, &Password::empty(), HashAlgorithm::Sha1, &a[..]) else { return (false, false) };
                (sig.verify(&fix.ssk.to_public_key().primary_key, &a[..]).is_ok(), sig.verify(&fix.ssk.to_public_key().primary_key, &b[..]).is_ok())
            });
            ctx.oracle("mutation_rejected", site, &format!("{} detached {which}", fix.name), matches!(r, Ok((_, false))), &format!("(verifies for the signed document, verifies for the colliding one) = {r:?}"));
            // one-pass signed message with the literal data swapped
            let r = guarded(|| {
                let mut mb = MessageBuilder::from_bytes("", a.to_vec());
                mb.sign(&fix.ssk.primary_key, Password::empty(), HashAlgorithm::Sha1);
                let Ok(msg) = mb.to_vec(&mut rng) else { return false };
                let Some(pos) = msg.windows(a.len()).position(|w| w == &a[..]) else { return false };
                let mut swapped = msg.clone();
                swapped[pos..pos + b.len()].copy_from_slice(b);
                let Ok(mut m) = Message::from_bytes(&swapped[..]) else { return false };
                let mut out = Vec::new();
                if std::io::Read::read_to_end(&mut m, &mut out).is_err() {
                    return false;
                }
                m.verify(&fix.ssk.to_public_key().primary_key).is_ok()
            });
            ctx.oracle("mutation_rejected", site, &format!("{} one-pass, literal data swapped {which}", fix.name), r == Ok(false), &format!("verifies with the colliding literal data: {r:?}"));
            ctx.stat("sha1_collision");
        }
    }
}

struct Fix {
    name: &'static str,
    ssk: SignedSecretKey,
    prim_sec: SecAny,
    prim_pub: PubAny,
    sub_sec: SecAny,
    sub_pub: PubAny,
    hashes: Vec<HashAlgorithm>,
    /// 0 = full sweeps, 1 = reduced, 2 = few
    weight: u8,
}

fn gen_fixture(rng: &mut ChaCha8Rng, name: &'static str, version: KeyVersion, kt: KeyType, hashes: Vec<HashAlgorithm>, weight: u8) -> Fix {
    let params = SecretKeyParamsBuilder::default()
        .version(version)
        .key_type(kt.clone())
        .can_certify(true)
        .can_sign(true)
        .primary_user_id(format!("C02 {name} <{name}@example.org>"))
        .passphrase(None)
        .subkey(
            SubkeyParamsBuilder::default()
                .version(version)
                .key_type(kt)
                .can_sign(true)
                .passphrase(None)
                .build()
                .expect("subkey params"),
        )
        .build()
        .expect("key params");
    let ssk = params.generate(&mut *rng).expect("generate key");
    let prim_sec = SecAny::P(ssk.primary_key.clone());
    let prim_pub = PubAny::P(ssk.primary_key.public_key().clone());
    let sub_sec = SecAny::S(ssk.secret_subkeys[0].key.clone());
    let sub_pub = PubAny::S(ssk.secret_subkeys[0].key.public_key().clone());
    Fix { name, ssk, prim_sec, prim_pub, sub_sec, sub_pub, hashes, weight }
}

fn fixtures(ctx: &mut Ctx) -> Vec<Fix> {
    use HashAlgorithm::*;
    let mut rng = ChaCha8Rng::seed_from_u64(ctx.rng.gen());
    let thorough = ctx.thorough();
    let mut v = vec![
        gen_fixture(&mut rng, "ed25519legacy-v4", KeyVersion::V4, KeyType::Ed25519Legacy, vec![Sha256, Sha512], 0),
        gen_fixture(&mut rng, "ed25519-v6", KeyVersion::V6, KeyType::Ed25519, vec![Sha256, Sha512, Sha3_256], 0),
        gen_fixture(&mut rng, "ed25519-v4", KeyVersion::V4, KeyType::Ed25519, vec![Sha512], 1),
        gen_fixture(&mut rng, "ecdsa-p256-v4", KeyVersion::V4, KeyType::ECDSA(ECCCurve::P256), vec![Sha256], 1),
        gen_fixture(&mut rng, "ed448-v6", KeyVersion::V6, KeyType::Ed448, vec![Sha512], 2),
        gen_fixture(&mut rng, "rsa2048-v4", KeyVersion::V4, KeyType::Rsa(2048), vec![Sha256], 2),
        // the remaining signature algorithms (each has its own verify arm and its own digest fitting)
        gen_fixture(&mut rng, "dsa2048-v4", KeyVersion::V4, KeyType::Dsa(pgp::composed::DsaKeySize::B2048), vec![Sha256], 2),
        gen_fixture(&mut rng, "ecdsa-p384-v4", KeyVersion::V4, KeyType::ECDSA(ECCCurve::P384), vec![Sha384], 2),
        gen_fixture(&mut rng, "ecdsa-p521-v4", KeyVersion::V4, KeyType::ECDSA(ECCCurve::P521), vec![Sha512], 2),
        gen_fixture(&mut rng, "ecdsa-secp256k1-v4", KeyVersion::V4, KeyType::ECDSA(ECCCurve::Secp256k1), vec![Sha256], 2),
    ];
    if thorough {
        for f in v.iter_mut() {
            if f.weight > 0 {
                f.weight -= 1;
            }
        }
    }
    v
}

/// the same public key material under the other key version (None where the algorithm does not
/// exist for that version)
fn other_version_wrapper(k: &PubAny) -> Option<PubAny> {
    let other = if k.version() == KeyVersion::V6 { KeyVersion::V4 } else { KeyVersion::V6 };
    let inner = PubKeyInner::new(other, k.algorithm(), k.created_at(), None, k.public_params().clone()).ok()?;
    PublicKey::from_inner(inner).ok().map(PubAny::P)
}

/// the same key with its creation time one second later: another key body, the same material
fn created_plus_one(k: &PubAny) -> Option<PubAny> {
    let t = Timestamp::from_secs(k.created_at().as_secs().wrapping_add(1));
    let inner = PubKeyInner::new(k.version(), k.algorithm(), t, k.legacy_v3_expiration_days(), k.public_params().clone()).ok()?;
    match k {
        PubAny::P(_) => PublicKey::from_inner(inner).ok().map(PubAny::P),
        PubAny::S(_) => PublicSubkey::from_inner(inner).ok().map(PubAny::S),
    }
}

// ------------------------------------------------------------------------------------------
// subjects, production of signatures
// ------------------------------------------------------------------------------------------

#[derive(Debug, Clone)]
enum Subj {
    Doc(Vec<u8>),
    Cert { signee: PubAny, uid: UserId },
    /// primary, subkey
    Bind { primary: PubAny, sub: PubAny },
    Direct { key: PubAny },
}

impl Subj {
    fn rfc(&self) -> Subject {
        match self {
            Subj::Doc(d) => Subject::Doc(d.clone()),
            Subj::Cert { signee, uid } => Subject::Cert(wkey(signee), false, uid.id().to_vec()),
            Subj::Bind { primary, sub } => Subject::Bind(wkey(primary), wkey(sub)),
            Subj::Direct { key } => Subject::Direct(wkey(key)),
        }
    }
}

fn sp(d: SubpacketData) -> Subpacket { Subpacket::regular(d).expect("subpacket") }

/// hashed / unhashed areas: `rich` adds one subpacket of every shape the parser distinguishes
fn areas(signer: &impl KeyDetails, rich: bool, embedded: Option<Signature>, issuer: bool) -> (Vec<Subpacket>, Vec<Subpacket>) {
    let mut hashed = vec![sp(SubpacketData::SignatureCreationTime(Timestamp::from_secs(1_700_000_000)))];
    if issuer {
        hashed.push(sp(SubpacketData::IssuerFingerprint(signer.fingerprint())));
    }
    let mut unhashed = Vec::new();
    if issuer && signer.version() != KeyVersion::V6 {
        unhashed.push(sp(SubpacketData::IssuerKeyId(signer.legacy_key_id())));
    }
    if rich {
        hashed.push(sp(SubpacketData::Revocable(false)));
        hashed.push(sp(SubpacketData::ExportableCertification(true)));
        hashed.push(sp(SubpacketData::IsPrimary(false)));
        hashed.push(sp(SubpacketData::Notation(Notation { readable: true, name: "k@example.org".into(), value: "v1".into() })));
        hashed.push(sp(SubpacketData::Notation(Notation { readable: false, name: "b@example.org".into(), value: vec![0u8, 1, 2].into() })));
        hashed.push(sp(SubpacketData::KeyFlags(KeyFlags::default())));
        hashed.push(sp(SubpacketData::PolicyURI("https://example.org/p".to_string())));
        hashed.push(sp(SubpacketData::PreferredHashAlgorithms(smallvec::smallvec![HashAlgorithm::Sha512, HashAlgorithm::Sha256])));
        hashed.push(sp(SubpacketData::TrustSignature(1, 60)));
        hashed.push(sp(SubpacketData::SignersUserID("me@example.org".into())));
        unhashed.push(sp(SubpacketData::Notation(Notation { readable: true, name: "u@example.org".into(), value: "unhashed".into() })));
    }
    if let Some(e) = embedded {
        hashed.push(sp(SubpacketData::EmbeddedSignature(Box::new(e))));
    }
    (hashed, unhashed)
}

fn config_for(rng: &mut ChaCha8Rng, signer: &impl SigningKey, typ: SignatureType, hash: HashAlgorithm, rich: bool, embedded: Option<Signature>) -> Result<SignatureConfig, String> {
    config_for_issuer(rng, signer, typ, hash, rich, embedded, true)
}

#[allow(clippy::too_many_arguments)]
fn config_for_issuer(rng: &mut ChaCha8Rng, signer: &impl SigningKey, typ: SignatureType, hash: HashAlgorithm, rich: bool, embedded: Option<Signature>, issuer: bool) -> Result<SignatureConfig, String> {
    let mut cfg = match signer.version() {
        KeyVersion::V4 => SignatureConfig::v4(typ, signer.algorithm(), hash),
        KeyVersion::V6 => SignatureConfig::v6(&mut *rng, typ, signer.algorithm(), hash).map_err(|e| e.to_string())?,
        v => return Err(format!("key version {v:?}")),
    };
    let (h, u) = areas(signer, rich, embedded, issuer);
    cfg.hashed_subpackets = h;
    cfg.unhashed_subpackets = u;
    Ok(cfg)
}

/// produce a signature of `typ` over `subj` with the real API
fn produce(rng: &mut ChaCha8Rng, signer_sec: &SecAny, signer_pub: &PubAny, typ: SignatureType, hash: HashAlgorithm, subj: &Subj, rich: bool) -> Result<Signature, String> {
    produce_with(rng, signer_sec, signer_pub, typ, hash, subj, rich, None)
}

#[allow(clippy::too_many_arguments)]
fn produce_with(rng: &mut ChaCha8Rng, signer_sec: &SecAny, signer_pub: &PubAny, typ: SignatureType, hash: HashAlgorithm, subj: &Subj, rich: bool, embedded: Option<Signature>) -> Result<Signature, String> {
    produce_full(rng, signer_sec, signer_pub, typ, hash, subj, rich, embedded, true)
}

#[allow(clippy::too_many_arguments)]
fn produce_full(rng: &mut ChaCha8Rng, signer_sec: &SecAny, signer_pub: &PubAny, typ: SignatureType, hash: HashAlgorithm, subj: &Subj, rich: bool, embedded: Option<Signature>, issuer: bool) -> Result<Signature, String> {
    let cfg = config_for_issuer(rng, signer_sec, typ, hash, rich, embedded, issuer)?;
    let pw = Password::empty();
    let r = match subj {
        Subj::Doc(d) => cfg.sign(signer_sec, &pw, &d[..]),
        Subj::Cert { signee, uid } => cfg.sign_certification_third_party(signer_sec, &pw, signee, Tag::UserId, uid),
        Subj::Bind { primary, sub } => {
            if typ == SignatureType::KeyBinding {
                // signer = subkey, signee = primary
                cfg.sign_primary_key_binding(signer_sec, signer_pub, &pw, primary)
            } else {
                cfg.sign_subkey_binding(signer_sec, signer_pub, &pw, sub)
            }
        }
        Subj::Direct { key } => cfg.sign_key(signer_sec, &pw, key),
    };
    r.map_err(|e| e.to_string())
}

// ------------------------------------------------------------------------------------------
// parsing a (mutated) signature packet body with the real parser; the field map
// ------------------------------------------------------------------------------------------

fn parse_sig(body: &[u8]) -> Result<Signature, String> {
    let pkt = sigrec::packet5(2, body);
    let mut pp = PacketParser::new(&pkt[..]);
    match pp.next() {
        Some(Ok(Packet::Signature(s))) => {
            if pp.next().is_some() {
                return Err("trailing packet".into());
            }
            Ok(s)
        }
        Some(Ok(p)) => Err(format!("other packet {:?}", p.tag())),
        Some(Err(e)) => Err(e.to_string()),
        None => Err("no packet".into()),
    }
}

fn sv_len(s: &SignatureBytes) -> usize {
    match s {
        SignatureBytes::Mpis(ms) => ms.iter().map(|m| m.write_len()).sum(),
        SignatureBytes::Native(b) => b.len(),
    }
}

#[derive(Clone, Debug)]
struct Field {
    name: String,
    off: usize,
    len: usize,
}

/// field map of a signature packet body from the parsed packet (`write_len` of its parts)
fn field_map(sig: &Signature) -> Vec<Field> {
    let f = |name: &str, off: usize, len: usize| Field { name: name.to_string(), off, len };
    let Some(cfg) = sig.config() else {
        let n = body_of(sig).len();
        return vec![f("version", 0, 1), f("rest", 1, n.saturating_sub(1))];
    };
    let sv = sig.signature().map(sv_len).unwrap_or(0);
    match &cfg.version_specific {
        SignatureVersionSpecific::V2 { .. } | SignatureVersionSpecific::V3 { .. } => vec![
            f("version", 0, 1), f("hlen", 1, 1), f("type", 2, 1), f("created", 3, 4), f("issuer", 7, 8),
            f("pk", 15, 1), f("hash", 16, 1), f("left16", 17, 2), f("sigval", 19, sv),
        ],
        vs => {
            let v6 = matches!(vs, SignatureVersionSpecific::V6 { .. });
            let w = if v6 { 4 } else { 2 };
            let hl: usize = cfg.hashed_subpackets.iter().map(|s| s.write_len()).sum();
            let ul: usize = cfg.unhashed_subpackets.iter().map(|s| s.write_len()).sum();
            let o1 = 4 + w + hl;
            let o2 = o1 + w + ul;
            let mut v = vec![
                f("version", 0, 1), f("type", 1, 1), f("pk", 2, 1), f("hash", 3, 1), f("hashedlen", 4, w),
                f("hashed", 4 + w, hl), f("unhashedlen", o1, w), f("unhashed", o1 + w, ul), f("left16", o2, 2),
            ];
            let mut o3 = o2 + 2;
            if let SignatureVersionSpecific::V6 { salt } = vs {
                v.push(f("saltlen", o3, 1));
                v.push(f("salt", o3 + 1, salt.len()));
                o3 += 1 + salt.len();
            }
            v.push(f("sigval", o3, sv));
            v
        }
    }
}

fn show_fields(fs: &[Field]) -> String {
    fs.iter().map(|f| format!("{}@{}+{}", f.name, f.off, f.len)).collect::<Vec<_>>().join(",")
}

/// finer map used by the oracle only: which part of which field a body offset lies in
fn locate(sig: &Signature, fs: &[Field], off: usize) -> String {
    for f in fs {
        if off >= f.off && off < f.off + f.len {
            if f.name == "hashed" || f.name == "unhashed" {
                if let Some(cfg) = sig.config() {
                    let list = if f.name == "hashed" { &cfg.hashed_subpackets } else { &cfg.unhashed_subpackets };
                    let mut o = f.off;
                    for s in list {
                        let ll = s.len.write_len();
                        let wl = s.write_len();
                        if off < o + wl {
                            let t = s.typ().as_u8(false);
                            let part = if off < o + ll { "len" } else if off == o + ll { "typ" } else { "body" };
                            return format!("{}.sub{}.{}", f.name, t, part);
                        }
                        o += wl;
                    }
                }
            }
            if f.name == "sigval" {
                if let Some(SignatureBytes::Mpis(ms)) = sig.signature() {
                    let mut o = f.off;
                    for m in ms {
                        let wl = m.write_len();
                        if off < o + wl {
                            return if off < o + 2 { "sigval.mpibits".to_string() } else { "sigval.mpi".to_string() };
                        }
                        o += wl;
                    }
                }
                return "sigval.native".to_string();
            }
            return f.name.clone();
        }
    }
    "outside".to_string()
}

// ------------------------------------------------------------------------------------------
// mutations
// ------------------------------------------------------------------------------------------

/// where a mutation lies; octets appended after the last field are `after-sigval`
fn loc_of(sig: &Signature, fs: &[Field], m: &Mutn) -> String {
    let end = fs.iter().map(|f| f.off + f.len).max().unwrap_or(0);
    if m.desc.starts_with("ins@") && m.desc[4..].split('=').next().and_then(|x| x.parse::<usize>().ok()) == Some(end) {
        return "after-sigval".to_string();
    }
    locate(sig, fs, m.off)
}

#[derive(Clone, Debug)]
struct Mutn {
    /// what was done, replayable: `flip@<off>.<bit>`, `set@<off>=<hex>`, `del@<off>`, `ins@<off>=<hex>`, `trunc@<len>`
    desc: String,
    /// offset the mutation touches (for `locate`)
    off: usize,
    out: Vec<u8>,
}

fn flip(b: &[u8], off: usize, bit: u8) -> Mutn {
    let mut v = b.to_vec();
    v[off] ^= 1 << bit;
    Mutn { desc: format!("flip@{off}.{bit}"), off, out: v }
}

fn set(b: &[u8], off: usize, val: u8) -> Option<Mutn> {
    if b[off] == val {
        return None;
    }
    let mut v = b.to_vec();
    v[off] = val;
    Some(Mutn { desc: format!("set@{off}={val:02x}"), off, out: v })
}

fn del(b: &[u8], off: usize) -> Mutn {
    let mut v = b.to_vec();
    v.remove(off);
    Mutn { desc: format!("del@{off}"), off, out: v }
}

fn ins(b: &[u8], off: usize, val: u8) -> Mutn {
    let mut v = b.to_vec();
    v.insert(off, val);
    Mutn { desc: format!("ins@{off}={val:02x}"), off: off.min(b.len().saturating_sub(1)), out: v }
}

/// mutations of one byte range: `dense` = every bit of every octet; otherwise every bit of the
/// first two and last two octets and one random bit of each other octet; plus substitutions,
/// a deletion and an insertion at both ends
fn range_mutations(rng: &mut ChaCha8Rng, b: &[u8], off: usize, len: usize, dense: bool, out: &mut Vec<Mutn>) {
    if len == 0 {
        out.push(ins(b, off, 0x00));
        return;
    }
    for i in 0..len {
        let edge = i < 2 || i + 2 >= len;
        if dense || edge {
            for bit in 0..8 {
                out.push(flip(b, off + i, bit));
            }
        } else {
            out.push(flip(b, off + i, rng.gen_range(0..8)));
        }
    }
    for &i in &[0usize, len / 2, len - 1] {
        for val in [0x00u8, 0xFF, rng.gen()] {
            if let Some(m) = set(b, off + i, val) {
                out.push(m);
            }
        }
    }
    out.push(del(b, off));
    out.push(del(b, off + len - 1));
    out.push(ins(b, off, 0x00));
    out.push(ins(b, off + len, 0x01));
}

/// every mutation of a signature packet body, field by field
fn sig_mutations(rng: &mut ChaCha8Rng, body: &[u8], fs: &[Field], weight: u8) -> Vec<Mutn> {
    let mut out = Vec::new();
    for f in fs {
        let dense = f.len <= 8 || (weight == 0 && (f.len <= 80 || f.name == "hashed"));
        if weight >= 2 && f.len > 8 {
            // few: both ends and three random positions
            let mut local = Vec::new();
            range_mutations(rng, body, f.off, f.len.min(2), true, &mut local);
            for _ in 0..3 {
                local.push(flip(body, f.off + rng.gen_range(0..f.len), rng.gen_range(0..8)));
            }
            local.push(flip(body, f.off + f.len - 1, 0));
            out.extend(local);
        } else {
            range_mutations(rng, body, f.off, f.len, dense, &mut out);
        }
    }
    // structured changes of the signature VALUE: each MPI re-encoded (bit count corrected) with octets
    // put in front of it or behind it — a different integer (r + k*2^(8n), 256*r + c), which a verifier
    // that clamps or pads the scalar to the field size could mistake for the original
    for f in fs.iter().filter(|f| f.name == "sigval") {
        let field = &body[f.off..f.off + f.len];
        // split into MPIs; only if the field is exactly a sequence of MPIs
        let mut mpis: Vec<(usize, usize)> = Vec::new(); // (offset of the value octets in `field`, length)
        let mut pos = 0usize;
        let mut ok = true;
        while pos < field.len() {
            if pos + 2 > field.len() {
                ok = false;
                break;
            }
            let bits = u16::from_be_bytes([field[pos], field[pos + 1]]) as usize;
            let n = bits.div_ceil(8);
            if pos + 2 + n > field.len() {
                ok = false;
                break;
            }
            mpis.push((pos + 2, n));
            pos += 2 + n;
        }
        if !ok || mpis.is_empty() {
            continue;
        }
        for (mi, (voff, n)) in mpis.iter().enumerate() {
            let value = &field[*voff..*voff + *n];
            let mut variants: Vec<(String, Vec<u8>)> = Vec::new();
            for front in [vec![0x01u8], vec![0x80], vec![0x01, 0x00], vec![0x01, 0x00, 0x00, 0x00, 0x00]] {
                let mut v = front.clone();
                v.extend_from_slice(value);
                variants.push((format!("mpi{mi}:prepend={}", hx(&front)), v));
            }
            let mut v = value.to_vec();
            v.push(0x00);
            variants.push((format!("mpi{mi}:append=00"), v));
            for (what, v) in variants {
                let lead = v.first().copied().unwrap_or(0);
                let bits = if v.is_empty() { 0 } else { (v.len() - 1) * 8 + (8 - lead.leading_zeros() as usize) };
                let mut new_field = field[..*voff - 2].to_vec();
                new_field.extend_from_slice(&(bits as u16).to_be_bytes());
                new_field.extend_from_slice(&v);
                new_field.extend_from_slice(&field[*voff + *n..]);
                let mut o = body[..f.off].to_vec();
                o.extend_from_slice(&new_field);
                o.extend_from_slice(&body[f.off + f.len..]);
                out.push(Mutn { desc: what, off: f.off + *voff, out: o });
            }
        }
    }
    // truncations of the whole body at every field boundary and by one octet
    for f in fs {
        if f.off > 0 && f.off < body.len() {
            out.push(Mutn { desc: format!("trunc@{}", f.off), off: f.off, out: body[..f.off].to_vec() });
        }
    }
    if body.len() > 1 {
        out.push(Mutn { desc: format!("trunc@{}", body.len() - 1), off: body.len() - 1, out: body[..body.len() - 1].to_vec() });
    }
    out.push(ins(body, body.len(), 0x00));
    if weight >= 1 {
        // keep a deterministic subset: everything on small fields, every third mutation elsewhere
        let mut k = 0usize;
        out.retain(|m| {
            k += 1;
            m.desc.starts_with("trunc") || k % (if weight >= 2 { 4 } else { 2 }) == 0
        });
    }
    out
}

fn content_mutations(rng: &mut ChaCha8Rng, d: &[u8]) -> Vec<Mutn> {
    let mut out = Vec::new();
    if d.len() <= 64 {
        range_mutations(rng, d, 0, d.len(), true, &mut out);
        for i in 1..d.len() {
            out.push(del(d, i));
            out.push(ins(d, i, 0x0a));
        }
    } else {
        range_mutations(rng, d, 0, d.len(), false, &mut out);
    }
    out.push(Mutn { desc: "trunc@0".into(), off: 0, out: vec![] });
    out
}

/// line-ending variants of a text that have the same canonical form
fn eol_variants(d: &[u8]) -> Vec<Mutn> {
    let mut out = Vec::new();
    // every bare LF -> CR LF, every CR LF -> LF, and each single position
    let mut all_crlf = Vec::new();
    let mut all_lf = Vec::new();
    let mut i = 0;
    while i < d.len() {
        if d[i] == b'\r' && i + 1 < d.len() && d[i + 1] == b'\n' {
            all_crlf.extend_from_slice(b"\r\n");
            all_lf.push(b'\n');
            i += 2;
        } else if d[i] == b'\n' {
            all_crlf.extend_from_slice(b"\r\n");
            all_lf.push(b'\n');
            i += 1;
        } else {
            all_crlf.push(d[i]);
            all_lf.push(d[i]);
            i += 1;
        }
    }
    if all_crlf != d {
        out.push(Mutn { desc: "eol:allcrlf".into(), off: 0, out: all_crlf });
    }
    // `all_lf` keeps the canonical form only if no CR precedes the produced LF
    if all_lf != d && sigrec::rfc_canon_text(&all_lf) == sigrec::rfc_canon_text(d) {
        out.push(Mutn { desc: "eol:alllf".into(), off: 0, out: all_lf });
    }
    for (i, &b) in d.iter().enumerate() {
        if b == b'\n' && (i == 0 || d[i - 1] != b'\r') {
            let mut v = d.to_vec();
            v.insert(i, b'\r');
            out.push(Mutn { desc: format!("eol:crlf@{i}"), off: i, out: v });
        }
    }
    out
}

// ------------------------------------------------------------------------------------------
// error message -> guard class (the canonical answer of the implementation side)
// ------------------------------------------------------------------------------------------

fn classify(msg: &str) -> &'static str {
    let m = msg;
    if m.contains("invalid signed hash value") {
        "err:left16"
    } else if m.contains("signature version") && m.contains("nsupported") || m.contains("cannot verify unknown hash") {
        "err:unknown"
    } else if m.contains("Expected certification signature")
        || m.contains("Expected subkey binding")
        || m.contains("Expected primary key binding")
        || m.contains("Expected direct key signature")
        || m.contains("Expected a binary or text signature")
    {
        "err:typ"
    } else if m.contains("by a v6 key is not allowed") || m.contains("by a non-v6 key is not allowed") {
        "err:align"
    } else if m.contains("PQC signatures must use") || m.contains("Illegal hash_alg setting") {
        "err:strength"
    } else if m.contains("No matching issuer_key_id or issuer_fingerprint") {
        "err:issuer"
    } else if m.contains("Illegal salt length") && m.contains("found for") {
        // the packet parser's own check (signature/de.rs v6_parser)
        "err:parse"
    } else if m.contains("Illegal salt length") {
        "err:salt"
    } else if m.contains("Unknown critical subpacket") || m.contains("doesn't match signature version") {
        "err:area"
    } else if m.contains("cannot verify message before reading it to the end") || m.contains("cannot verify message before reading the final signature packet") {
        "err:noneslot"
    } else if m.contains("no signatures found") || m.contains("missing subkey bindings") {
        "err:nosig"
    } else if m.contains("missing embedded signature") {
        "err:nobacksig"
    } else if m.contains("No matching signature found") {
        "err:nonematch"
    } else if m.contains("Unsupported: hash algorithm") {
        "err:hashalg"
    } else if m.contains("Not yet implemented") || m.contains("failed to fill whole buffer") || m.contains("invalid tag for certification") || m.contains("key version") {
        "err:input"
    } else {
        "err:pk"
    }
}

fn answer(r: &Result<Result<(), pgp::errors::Error>, String>) -> String {
    match r {
        Ok(Ok(())) => "ok".to_string(),
        Ok(Err(e)) => classify(&e.to_string()).to_string(),
        Err(p) => format!("panic:{}", &p[..p.len().min(40)]),
    }
}

// ------------------------------------------------------------------------------------------
// tables for the model: hash table rows and signing log rows
// ------------------------------------------------------------------------------------------

fn sigval_bytes(s: &SignatureBytes) -> Vec<u8> {
    let mut v = Vec::new();
    match s {
        SignatureBytes::Mpis(ms) => {
            for m in ms {
                let b = m.as_ref();
                v.extend_from_slice(&(b.len() as u16).to_be_bytes());
                v.extend_from_slice(b);
            }
        }
        SignatureBytes::Native(b) => {
            v.extend_from_slice(&(b.len() as u16).to_be_bytes());
            v.extend_from_slice(b);
        }
    }
    v
}

#[derive(Default, Clone)]
struct Tables {
    ht: Vec<(String, Vec<u8>)>,
    lg: Vec<(Vec<u8>, Vec<u8>, String)>,
}

impl Tables {
    fn add_row(&mut self, fields: &SigFields, subj: &Subject) -> Option<Vec<u8>> {
        let p = sigrec::rfc_preimage(fields, subj);
        let d = sigrec::hash_with(fields.hash, &p)?;
        let ck = cksum(&p);
        if !self.ht.iter().any(|(c, _)| *c == ck) {
            self.ht.push((ck, d.clone()));
        }
        Some(d)
    }
    fn show(&self, yes: bool) -> String {
        let ht = if self.ht.is_empty() { "-".to_string() } else { self.ht.iter().map(|(c, d)| format!("{c}:{}", hex::encode(d))).collect::<Vec<_>>().join(",") };
        let lg = if yes {
            "yes".to_string()
        } else if self.lg.is_empty() {
            "-".to_string()
        } else {
            self.lg.iter().map(|(k, d, s)| format!("{}:{}:{s}", hex::encode(k), hex::encode(d))).collect::<Vec<_>>().join(",")
        };
        format!("ht={ht} lg={lg}")
    }
}

/// the honest log entry of an original signature: what its signer signed
fn log_original(t: &mut Tables, sig: &Signature, subj: &Subject, signer: &impl KeyDetails) -> Result<(), String> {
    let body = body_of(sig);
    let fields = sigrec::parse_sig_body(&body).ok_or("independent parser refuses the original")?;
    let d = t.add_row(&fields, subj).ok_or("hash")?;
    if d[..2] != fields.left16 {
        return Err(format!("left16 of the original {} is not the RFC digest's {}", hex::encode(fields.left16), hex::encode(&d[..2])));
    }
    let sv = sig.signature().ok_or("no signature value")?;
    t.lg.push((km_of(signer), d, cksum(&sigval_bytes(sv))));
    Ok(())
}

// ------------------------------------------------------------------------------------------
// running the entry points on one (signature, subject, key)
// ------------------------------------------------------------------------------------------

struct EpRun {
    /// `ep=` of the model request
    ep: &'static str,
    site: &'static str,
    ans: String,
    /// the subject arguments of the call, as the request line spells them
    args: String,
    /// what RFC 9580 5.2.4 says is hashed for these arguments
    rfc: Subject,
}

fn cert_args(signee: &PubAny, uid: &UserId) -> String {
    format!("{} tag=13 id={}:{}", k1desc("k1", signee), uid.write_len(), hx(&body_of(uid)))
}

fn run_eps(sig: &Signature, subj: &Subj, vk: &VK, all: bool) -> Vec<EpRun> {
    let mut out = Vec::new();
    let mut push = |ep: &'static str, site: &'static str, args: String, rfc: Subject, r: Result<Result<(), pgp::errors::Error>, String>| {
        out.push(EpRun { ep, site, ans: answer(&r), args, rfc });
    };
    match subj {
        Subj::Doc(d) => {
            let a = format!("data={}", hx(d));
            push("data", "Signature::verify", a.clone(), subj.rfc(), guarded(|| sig.verify(vk, &d[..])));
            if all {
                let ds = DetachedSignature::new(sig.clone());
                push("data", "DetachedSignature::verify", a, subj.rfc(), guarded(|| ds.verify(vk, d)));
            }
        }
        Subj::Cert { signee, uid } => {
            let a = cert_args(signee, uid);
            push("cert", "Signature::verify_third_party_certification", a.clone(), subj.rfc(), guarded(|| sig.verify_third_party_certification(signee, vk, Tag::UserId, uid)));
            if all {
                let su = uid.clone().into_signed(sig.clone());
                push("user", "SignedUser::verify_third_party", a.clone(), subj.rfc(), guarded(|| su.verify_third_party(signee, vk)));
                if body_of(signee) == body_of(&vk.k) {
                    push("cert", "Signature::verify_certification", a.clone(), subj.rfc(), guarded(|| sig.verify_certification(vk, Tag::UserId, uid)));
                    push("user", "SignedUser::verify_bindings", a, subj.rfc(), guarded(|| su.verify_bindings(vk)));
                }
            }
        }
        Subj::Bind { primary, sub } => {
            let typ = sig.typ();
            if typ == Some(SignatureType::KeyBinding) {
                // signer = subkey (vk), signee = primary
                push("primbind", "Signature::verify_primary_key_binding", k1desc("k1", primary), Subject::Bind(wkey(primary), wkey(&vk.k)), guarded(|| sig.verify_primary_key_binding(vk, primary)));
            } else {
                // signer = primary (vk), signee = subkey
                push("subbind", "Signature::verify_subkey_binding", k1desc("k1", sub), Subject::Bind(wkey(&vk.k), wkey(sub)), guarded(|| sig.verify_subkey_binding(vk, sub)));
            }
        }
        Subj::Direct { key } => {
            push("key", "Signature::verify_key_third_party", k1desc("k1", key), subj.rfc(), guarded(|| sig.verify_key_third_party(key, vk)));
            if all && body_of(key) == body_of(&vk.k) {
                push("key", "Signature::verify_key", k1desc("k1", key), subj.rfc(), guarded(|| sig.verify_key(vk)));
            }
        }
    }
    out
}

/// the entry point that is *not* the one for this signature's class must refuse (type guard)
fn run_wrong_eps(sig: &Signature, subj: &Subj, vk: &VK) -> Vec<EpRun> {
    let mut out = Vec::new();
    let mut push = |ep: &'static str, site: &'static str, args: String, rfc: Subject, r: Result<Result<(), pgp::errors::Error>, String>| {
        out.push(EpRun { ep, site, ans: answer(&r), args, rfc });
    };
    match subj {
        Subj::Doc(_) => {}
        Subj::Cert { signee, .. } => {
            push("key", "Signature::verify_key_third_party (on a certification)", k1desc("k1", signee), Subject::Direct(wkey(signee)), guarded(|| sig.verify_key_third_party(signee, vk)));
            push("subbind", "Signature::verify_subkey_binding (on a certification)", k1desc("k1", signee), Subject::Bind(wkey(&vk.k), wkey(signee)), guarded(|| sig.verify_subkey_binding(vk, signee)));
        }
        Subj::Bind { primary, sub } => {
            if sig.typ() == Some(SignatureType::KeyBinding) {
                push("subbind", "Signature::verify_subkey_binding (on a 0x19)", k1desc("k1", primary), Subject::Bind(wkey(&vk.k), wkey(primary)), guarded(|| sig.verify_subkey_binding(vk, primary)));
            } else {
                push("primbind", "Signature::verify_primary_key_binding (on a 0x18/0x28)", k1desc("k1", sub), Subject::Bind(wkey(sub), wkey(&vk.k)), guarded(|| sig.verify_primary_key_binding(vk, sub)));
            }
        }
        Subj::Direct { key } => {
            push("subbind", "Signature::verify_subkey_binding (on a direct-key signature)", k1desc("k1", key), Subject::Bind(wkey(&vk.k), wkey(key)), guarded(|| sig.verify_subkey_binding(vk, key)));
        }
    }
    out
}

/// hash-table rows for one call: the RFC digest of the call's subject under the fields of each
/// given packet body (the packet as received, and as rpgp writes it back)
fn tables_for(t0: &Tables, bodies: &[&[u8]], rfc: &Subject) -> Tables {
    let mut t = t0.clone();
    for b in bodies {
        if let Some(f) = sigrec::parse_sig_body(b) {
            t.add_row(&f, rfc);
            // rpgp hashes one octet of the data for the types it treats as standalone / timestamp
            if let (0x02 | 0x40, Subject::Doc(d)) = (f.typ, rfc) {
                if !d.is_empty() {
                    t.add_row(&f, &Subject::Doc(d[..1].to_vec()));
                }
            }
        }
    }
    t
}

/// the model request for one entry point
fn request(r: &EpRun, body: &[u8], vk: &VK, t: &Tables) -> String {
    format!("snd_verify ep={} sig={} {} {} {}", r.ep, hx(body), kdesc("k", &vk.k), r.args, t.show(vk.yes))
}

// ------------------------------------------------------------------------------------------
// the exception list of the oracle (written from the property text and the documented formats)
// ------------------------------------------------------------------------------------------

/// may a mutation located at `loc` of a signature packet leave the signature valid?
/// - unhashed area: not covered by the signature (RFC 9580 §5.2.3.1: "unhashed subpackets … not
///   protected"); its length field too when the change only re-partitions the same area
/// - MPI bit count: the bit-count octets of an MPI do not change the integer (RFC 9580 §3.2)
fn in_exception_list(loc: &str) -> bool {
    loc.starts_with("unhashed") || loc == "sigval.mpibits"
}

// ------------------------------------------------------------------------------------------
// part A: single signatures of every kind
// ------------------------------------------------------------------------------------------

struct Kind {
    typ: SignatureType,
    octet: u8,
}

fn kinds() -> Vec<Kind> {
    use SignatureType::*;
    vec![
        Kind { typ: Binary, octet: 0x00 },
        Kind { typ: Text, octet: 0x01 },
        Kind { typ: CertGeneric, octet: 0x10 },
        Kind { typ: CertPersona, octet: 0x11 },
        Kind { typ: CertCasual, octet: 0x12 },
        Kind { typ: CertPositive, octet: 0x13 },
        Kind { typ: SubkeyBinding, octet: 0x18 },
        Kind { typ: KeyBinding, octet: 0x19 },
        Kind { typ: Key, octet: 0x1F },
        Kind { typ: KeyRevocation, octet: 0x20 },
        Kind { typ: SubkeyRevocation, octet: 0x28 },
        Kind { typ: CertRevocation, octet: 0x30 },
    ]
}

const TEXTS: [&[u8]; 4] = [b"hello\nworld\r\nlast line\n", b"a\rb\n\nc", b"no newline at all", b"\n"];

fn hash_label(h: HashAlgorithm) -> &'static str {
    match h {
        HashAlgorithm::Sha256 => "sha256",
        HashAlgorithm::Sha512 => "sha512",
        HashAlgorithm::Sha3_256 => "sha3-256",
        _ => "other",
    }
}

struct Job<'a> {
    fix: &'a Fix,
    kind: &'a Kind,
    hash: HashAlgorithm,
    rich: bool,
}

fn subject_for(fix: &Fix, kind: &Kind, rng: &mut ChaCha8Rng, variant: usize) -> (Subj, bool) {
    // returns (subject, signer is the subkey)
    match kind.octet {
        0x00 => {
            let n = [0usize, 1, 17, 64, 200][variant % 5];
            (Subj::Doc(crate::gen::random_bytes(rng, n)), false)
        }
        0x01 => (Subj::Doc(TEXTS[variant % TEXTS.len()].to_vec()), false),
        0x10..=0x13 | 0x30 => {
            let uid = UserId::from_str(PacketHeaderVersion::New, format!("User {variant} <u{variant}@example.org>")).expect("uid");
            // self-certification for even variants, third-party (subkey's owner certified by the primary) for odd
            let signee = if variant % 2 == 0 { fix.prim_pub.clone() } else { fix.sub_pub.clone() };
            (Subj::Cert { signee, uid }, false)
        }
        0x18 | 0x28 => (Subj::Bind { primary: fix.prim_pub.clone(), sub: fix.sub_pub.clone() }, false),
        0x19 => (Subj::Bind { primary: fix.prim_pub.clone(), sub: fix.sub_pub.clone() }, true),
        _ => (Subj::Direct { key: fix.prim_pub.clone() }, false),
    }
}

fn part_single(ctx: &mut Ctx, fixes: &[Fix]) {
    let kinds = kinds();
    let mut rng = ChaCha8Rng::seed_from_u64(ctx.rng.gen());
    let mut variant = 0usize;
    let rounds = ctx.pick(1, 3);
    for round in 0..rounds {
    for fix in fixes {
        if round > 0 && fix.weight >= 2 {
            continue;
        }
        for kind in &kinds {
            for (hi, &hash) in fix.hashes.iter().enumerate() {
                // reduced fixtures: one hash per kind
                if fix.weight >= 1 && hi > 0 {
                    continue;
                }
                // full sweeps with the first hash; other hashes get the reduced sweep
                let weight = if hi == 0 { fix.weight } else { fix.weight.max(1) };
                variant += 1;
                let rich = variant % 3 == 0 || (fix.weight == 0 && hi == 0 && matches!(kind.octet, 0x00 | 0x13 | 0x18 | 0x1F));
                single_job(ctx, &mut rng, &Job { fix, kind, hash, rich }, variant, weight);
            }
        }
    }
    }
}

fn single_job(ctx: &mut Ctx, rng: &mut ChaCha8Rng, job: &Job, variant: usize, weight: u8) {
    let (subj, by_sub) = subject_for(job.fix, job.kind, rng, variant);
    let (ssec, spub) = if by_sub { (&job.fix.sub_sec, &job.fix.sub_pub) } else { (&job.fix.prim_sec, &job.fix.prim_pub) };
    let label = format!("{} typ={:#04x} {} rich={}", job.fix.name, job.kind.octet, hash_label(job.hash), job.rich);
    // a subkey binding carries the subkey's back-signature in its hashed area (every other variant)
    let embedded = if job.kind.octet == 0x18 && job.rich {
        produce(rng, &job.fix.sub_sec, &job.fix.sub_pub, SignatureType::KeyBinding, job.hash, &subj, false).ok()
    } else {
        None
    };
    let label = if embedded.is_some() {
        ctx.stat("signed:with_embedded_backsig_in_hashed_area");
        format!("{label} embedded-backsig")
    } else {
        label
    };
    // every fourth signature carries no issuer subpacket: a substituted key then reaches the primitive
    let with_issuer = variant % 4 != 1;
    let label = if with_issuer { label } else { format!("{label} no-issuer") };
    let sig = match produce_full(rng, ssec, spub, job.kind.typ, job.hash, &subj, job.rich, embedded, with_issuer) {
        Ok(s) => s,
        Err(e) => {
            if e.contains("too weak") || e.contains("not allowed") {
                ctx.stat("refused_config");
            } else {
                ctx.oracle("original_verifies", "SignatureConfig::sign*", &label, false, &format!("sign failed: {e}"));
            }
            return;
        }
    };
    ctx.stat(&format!("signed:{}:{:#04x}:{}", job.fix.name, job.kind.octet, hash_label(job.hash)));
    let body = body_of(&sig);
    let mut t0 = Tables::default();
    if let Err(e) = log_original(&mut t0, &sig, &subj.rfc(), spub) {
        ctx.oracle("original_verifies", "RFC 9580 5.2.4 digest of the original", &label, false, &e);
        return;
    }
    let vk = VK { k: spub.clone(), yes: false };

    // the field map: real parser vs Wire model
    let fs = field_map(&sig);
    ctx.case(format!("snd_fields sig={}", hx(&body)), format!("ok:{}", show_fields(&fs)));

    // --- the original through every entry point
    let reparsed = match parse_sig(&body) {
        Ok(s) => s,
        Err(e) => {
            ctx.oracle("original_verifies", "PacketParser (own output)", &label, false, &e);
            return;
        }
    };
    for r in run_eps(&reparsed, &subj, &vk, true) {
        ctx.oracle("original_verifies", r.site, &format!("{label} sig={}", hx(&body)), r.ans == "ok", &r.ans);
        ctx.case(request(&r, &body, &vk, &tables_for(&t0, &[&body], &r.rfc)), r.ans.clone());
    }
    for r in run_wrong_eps(&reparsed, &subj, &vk) {
        ctx.oracle("wrong_entry_point_refuses", r.site, &format!("{label} sig={}", hx(&body)), r.ans != "ok", &r.ans);
        ctx.case(request(&r, &body, &vk, &tables_for(&t0, &[&body], &r.rfc)), r.ans.clone());
    }

    // --- (b) every field of the signature packet
    let muts = sig_mutations(rng, &body, &fs, weight);
    for m in &muts {
        if m.out == body {
            continue;
        }
        let loc = loc_of(&sig, &fs, &m);
        let inp = format!("{label} {} [{}] sig={}", m.desc, loc, hx(&m.out));
        match parse_sig(&m.out) {
            Err(_) => {
                ctx.stat(&format!("sigmut:{}:parse_error", field_class(&loc)));
                let r0 = &run_eps(&reparsed, &subj, &vk, false)[0];
                ctx.case(request(r0, &m.out, &vk, &t0), "err:parse".to_string());
                // a packet the parser refuses is a rejection
                ctx.oracle("mutation_rejected", "PacketParser -> Signature", &inp, true, "parse error");
            }
            Ok(ms) => {
                // rows: the packet as received and as rpgp writes it back (the hashed area is hashed in that form)
                let back = body_of(&ms);
                let all = weight == 0 && matches!(field_class(&loc), "hashed" | "type" | "left16" | "salt");
                for r in run_eps(&ms, &subj, &vk, all) {
                    ctx.stat(&format!("sigmut:{}:{}", field_class(&loc), r.ans));
                    ctx.case(request(&r, &m.out, &vk, &tables_for(&t0, &[&m.out, &back], &r.rfc)), r.ans.clone());
                    let ok = r.ans != "ok" || in_exception_list(&loc);
                    ctx.oracle("mutation_rejected", r.site, &inp, ok, &format!("mutation in {loc} still verifies"));
                    if r.ans == "ok" {
                        ctx.stat(&format!("still_verifies:{loc}"));
                    }
                }
            }
        }
    }

    // --- left-16 against a key that accepts everything
    if let Some(f) = fs.iter().find(|f| f.name == "left16") {
        let yes = VK { k: spub.clone(), yes: true };
        for bit in [0u8, 7] {
            for i in 0..2 {
                let m = flip(&body, f.off + i, bit);
                if let Ok(ms) = parse_sig(&m.out) {
                    for r in run_eps(&ms, &subj, &yes, false) {
                        ctx.case(request(&r, &m.out, &yes, &tables_for(&t0, &[&m.out], &r.rfc)), r.ans.clone());
                        ctx.oracle("left16_alone_refuses", r.site, &format!("{label} {} sig={}", m.desc, hx(&m.out)), r.ans == "err:left16", &r.ans);
                    }
                }
            }
        }
        // and the accepting key on the untouched packet: the only thing between it and `ok` was left-16
        for r in run_eps(&reparsed, &subj, &yes, false) {
            ctx.case(request(&r, &body, &yes, &tables_for(&t0, &[&body], &r.rfc)), r.ans.clone());
        }
    }

    // --- (a) the content
    content_sweep(ctx, rng, &label, &reparsed, &body, &subj, &vk, &t0, weight);

    // --- (c) the verifying key
    let mut others: Vec<(&'static str, PubAny)> = Vec::new();
    others.push(("other key of the same algorithm", if by_sub { job.fix.prim_pub.clone() } else { job.fix.sub_pub.clone() }));
    if let Some(w) = other_version_wrapper(spub) {
        others.push(("same material, other key version", w));
    }
    for (what, k) in others {
        let ovk = VK { k, yes: false };
        // the subject stays what was signed; only the verifying key changes
        for r in run_eps(&reparsed, &subj, &ovk, false) {
            ctx.stat(&format!("keysub:{what}:{}", r.ans));
            ctx.case(request(&r, &body, &ovk, &tables_for(&t0, &[&body], &r.rfc)), r.ans.clone());
            ctx.oracle("mutation_rejected", r.site, &format!("{label} key=<{what}> sig={}", hx(&body)), r.ans != "ok", "another key verifies");
        }
    }
}

fn field_class(loc: &str) -> &'static str {
    for c in ["hashedlen", "hashed", "unhashedlen", "unhashed", "version", "type", "pk", "hash", "left16", "saltlen", "salt", "sigval.mpibits", "sigval", "created", "issuer", "hlen"] {
        if loc.starts_with(c) {
            return c;
        }
    }
    "other"
}

#[allow(clippy::too_many_arguments)]
fn content_sweep(ctx: &mut Ctx, rng: &mut ChaCha8Rng, label: &str, sig: &Signature, body: &[u8], subj: &Subj, vk: &VK, t0: &Tables, weight: u8) {
    let thin = |v: Vec<Mutn>| -> Vec<Mutn> {
        if weight == 0 { v } else { v.into_iter().enumerate().filter(|(i, _)| i % (if weight >= 2 { 9 } else { 3 }) == 0).map(|(_, m)| m).collect() }
    };
    let mut variants: Vec<(String, Subj, bool)> = Vec::new(); // (description, subject, must still verify)
    match subj {
        Subj::Doc(d) => {
            let text = sig.typ() == Some(SignatureType::Text);
            for m in thin(content_mutations(rng, d)) {
                let same = if text { sigrec::rfc_canon_text(&m.out) == sigrec::rfc_canon_text(d) } else { m.out == *d };
                variants.push((format!("data:{}", m.desc), Subj::Doc(m.out), same));
            }
            if text {
                for m in eol_variants(d) {
                    variants.push((format!("data:{}", m.desc), Subj::Doc(m.out), true));
                }
            }
        }
        Subj::Cert { signee, uid } => {
            let id = uid.id().to_vec();
            for m in thin(content_mutations(rng, &id)) {
                if let Ok(s) = std::str::from_utf8(&m.out) {
                    if let Ok(u2) = UserId::from_str(PacketHeaderVersion::New, s) {
                        variants.push((format!("uid:{}", m.desc), Subj::Cert { signee: signee.clone(), uid: u2 }, m.out == id));
                    }
                }
            }
        }
        _ => {}
    }
    for (desc, s2, must_verify) in variants {
        for r in run_eps(sig, &s2, vk, weight == 0) {
            let inp = format!("{label} {desc} content={} sig={}", content_hex(&s2), hx(body));
            ctx.case(request(&r, body, vk, &tables_for(t0, &[body], &r.rfc)), r.ans.clone());
            if must_verify {
                ctx.stat("content:equivalent");
                ctx.oracle("eol_variant_verifies", r.site, &inp, r.ans == "ok", &r.ans);
            } else {
                ctx.stat(&format!("content:{}", r.ans));
                ctx.oracle("mutation_rejected", r.site, &inp, r.ans != "ok", "changed content still verifies");
            }
        }
    }
    // substituted keys in the subject of certificate-forming kinds
    let mut swaps: Vec<(&'static str, Subj)> = match subj {
        Subj::Cert { signee, uid } => other_version_wrapper(signee).map(|w| ("signee under the other key version", Subj::Cert { signee: w, uid: uid.clone() })).into_iter().collect(),
        Subj::Bind { primary, sub } if sig.typ() == Some(SignatureType::KeyBinding) => vec![
            // the subkey is the verifying key of a 0x19; the primary is the second argument
            ("primary replaced by the subkey", Subj::Bind { primary: sub.clone(), sub: sub.clone() }),
        ],
        Subj::Bind { primary, sub } => vec![
            ("primary and subkey swapped", Subj::Bind { primary: sub.clone(), sub: primary.clone() }),
            ("subkey replaced by the primary", Subj::Bind { primary: primary.clone(), sub: primary.clone() }),
        ],
        Subj::Direct { key } => other_version_wrapper(key).map(|w| ("key under the other key version", Subj::Direct { key: w })).into_iter().collect(),
        Subj::Doc(_) => vec![],
    };
    // one field of a key body changed (creation time + 1 s): the certified / bound key is another key
    match subj {
        Subj::Cert { signee, uid } => {
            if let Some(k2) = created_plus_one(signee) {
                swaps.push(("signee with another creation time", Subj::Cert { signee: k2, uid: uid.clone() }));
            }
        }
        Subj::Bind { primary, sub } if sig.typ() == Some(SignatureType::KeyBinding) => {
            if let Some(k2) = created_plus_one(primary) {
                swaps.push(("primary with another creation time", Subj::Bind { primary: k2, sub: sub.clone() }));
            }
        }
        Subj::Bind { primary, sub } => {
            if let Some(k2) = created_plus_one(sub) {
                swaps.push(("subkey with another creation time", Subj::Bind { primary: primary.clone(), sub: k2 }));
            }
        }
        Subj::Direct { key } => {
            if let Some(k2) = created_plus_one(key) {
                swaps.push(("key with another creation time", Subj::Direct { key: k2 }));
            }
        }
        Subj::Doc(_) => {}
    }
    for (what, s2) in swaps {
        // the verifying key stays the signer, except where the entry point takes it from the subject
        let vk2 = match (&s2, sig.typ()) {
            (Subj::Bind { primary, .. }, Some(SignatureType::SubkeyBinding | SignatureType::SubkeyRevocation)) if what.starts_with("primary and") => VK { k: primary.clone(), yes: false },
            _ => vk.clone(),
        };
        for r in run_eps(sig, &s2, &vk2, false) {
            ctx.stat(&format!("subjectkey:{what}:{}", r.ans));
            ctx.case(request(&r, body, &vk2, &tables_for(t0, &[body], &r.rfc)), r.ans.clone());
            ctx.oracle("mutation_rejected", r.site, &format!("{label} subject=<{what}> sig={}", hx(body)), r.ans != "ok", "another key in the subject verifies");
        }
    }
}

fn content_hex(s: &Subj) -> String {
    match s {
        Subj::Doc(d) => hx(d),
        Subj::Cert { uid, .. } => hx(uid.id()),
        _ => "-".into(),
    }
}

pub fn run(ctx: &mut Ctx) {
    let fixes = fixtures(ctx);
    sha1_collision_cases(ctx, &fixes);
    for f in &fixes {
        ctx.stat(&format!("fixture:{}", f.name));
        let _ = &f.ssk;
    }
    part_single(ctx, &fixes);
    inline::run(ctx, &fixes);
    text::run(ctx, &fixes);
    multi::run_all(ctx, &fixes);
    multi::run_pairing(ctx, &fixes);
    cleartext::run(ctx, &fixes);
    cert::run(ctx, &fixes);
    embedded::run(ctx, &fixes);
    recut::run(ctx);
}

