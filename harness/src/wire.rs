//! Independent field-by-field encoder of RFC 9580 packet bodies (used by the C05 generators).
//! Written from the RFC's packet layouts only; it shares no code with rpgp or with the Lean model.
//! Every function takes the wire fields as they are to appear, so non-canonical and malformed
//! encodings can be produced on purpose.

/// bit length of a big-endian octet string (leading zero octets count as zero bits)
pub fn bit_len(v: &[u8]) -> usize {
    match v.iter().position(|&b| b != 0) {
        None => 0,
        Some(i) => (v.len() - i) * 8 - v[i].leading_zeros() as usize,
    }
}

/// MPI with an explicit (possibly wrong) bit count
pub fn mpi_raw(bits: u16, octets: &[u8]) -> Vec<u8> {
    let mut v = bits.to_be_bytes().to_vec();
    v.extend_from_slice(octets);
    v
}

/// canonical MPI of the value `octets` (RFC 9580 §3.2: no leading zero octets, exact bit count)
pub fn mpi(octets: &[u8]) -> Vec<u8> {
    let start = octets.iter().position(|&b| b != 0).unwrap_or(octets.len());
    let v = &octets[start..];
    mpi_raw(bit_len(v) as u16, v)
}

/// an MPI whose value has exactly `bits` bits (top bit set), filled from `fill`
pub fn mpi_of_bits(bits: usize, fill: u8) -> Vec<u8> {
    if bits == 0 {
        return mpi_raw(0, &[]);
    }
    let n = (bits + 7) / 8;
    let mut v = vec![fill | 1; n];
    let top = bits - (n - 1) * 8; // 1..=8
    v[0] = (1u8 << (top - 1)) | (fill & ((1u8 << (top - 1)).wrapping_sub(1)));
    mpi_raw(bits as u16, &v)
}

/// subpacket length in a chosen form (1, 2, 5 octets); RFC 9580 §5.2.3.7
pub fn sub_len(form: u8, n: usize) -> Option<Vec<u8>> {
    match form {
        1 if n < 192 => Some(vec![n as u8]),
        2 if (192..=16319).contains(&n) => Some(vec![((n - 192) / 256 + 192) as u8, ((n - 192) % 256) as u8]),
        5 if n < (1usize << 32) => {
            let mut v = vec![255u8];
            v.extend_from_slice(&(n as u32).to_be_bytes());
            Some(v)
        }
        _ => None,
    }
}

pub fn sub_len_min(n: usize) -> Vec<u8> {
    sub_len(1, n).or_else(|| sub_len(2, n)).or_else(|| sub_len(5, n)).expect("len")
}

/// one signature subpacket: length (of type octet + body) in `form`, type octet (critical bit
/// included by the caller), body
pub fn subpacket(form: u8, type_octet: u8, body: &[u8]) -> Option<Vec<u8>> {
    let mut v = sub_len(form, body.len() + 1)?;
    v.push(type_octet);
    v.extend_from_slice(body);
    Some(v)
}

pub fn subpacket_min(type_octet: u8, body: &[u8]) -> Vec<u8> {
    let mut v = sub_len_min(body.len() + 1);
    v.push(type_octet);
    v.extend_from_slice(body);
    v
}

/// v4 / v6 signature body; `tail` is the algorithm specific signature material
#[allow(clippy::too_many_arguments)]
pub fn sig_v4(version: u8, typ: u8, pk: u8, hash: u8, hashed: &[u8], unhashed: &[u8], left: [u8; 2], salt: Option<&[u8]>, tail: &[u8]) -> Vec<u8> {
    let mut v = vec![version, typ, pk, hash];
    if version == 6 {
        v.extend_from_slice(&(hashed.len() as u32).to_be_bytes());
    } else {
        v.extend_from_slice(&(hashed.len() as u16).to_be_bytes());
    }
    v.extend_from_slice(hashed);
    if version == 6 {
        v.extend_from_slice(&(unhashed.len() as u32).to_be_bytes());
    } else {
        v.extend_from_slice(&(unhashed.len() as u16).to_be_bytes());
    }
    v.extend_from_slice(unhashed);
    v.extend_from_slice(&left);
    if let Some(s) = salt {
        v.push(s.len() as u8);
        v.extend_from_slice(s);
    }
    v.extend_from_slice(tail);
    v
}

#[allow(clippy::too_many_arguments)]
pub fn sig_v3(version: u8, hashed_len: u8, typ: u8, created: [u8; 4], issuer: [u8; 8], pk: u8, hash: u8, left: [u8; 2], tail: &[u8]) -> Vec<u8> {
    let mut v = vec![version, hashed_len, typ];
    v.extend_from_slice(&created);
    v.extend_from_slice(&issuer);
    v.push(pk);
    v.push(hash);
    v.extend_from_slice(&left);
    v.extend_from_slice(tail);
    v
}

/// S2K specifier (RFC 9580 §3.7.1)
pub fn s2k(typ: u8, hash: u8, salt: &[u8], count: u8, argon: [u8; 3], unknown: &[u8]) -> Vec<u8> {
    match typ {
        0 => vec![0, hash],
        1 => {
            let mut v = vec![1, hash];
            v.extend_from_slice(salt);
            v
        }
        3 => {
            let mut v = vec![3, hash];
            v.extend_from_slice(salt);
            v.push(count);
            v
        }
        4 => {
            let mut v = vec![4];
            v.extend_from_slice(salt);
            v.extend_from_slice(&argon);
            v
        }
        t => {
            let mut v = vec![t];
            v.extend_from_slice(unknown);
            v
        }
    }
}

/// public part of a key packet; `material` is the algorithm specific part as it is to appear;
/// for v6 `pub_len` defaults to its length
pub fn key_public(version: u8, created: [u8; 4], exp_days: [u8; 2], alg: u8, material: &[u8], pub_len: Option<u32>) -> Vec<u8> {
    let mut v = vec![version];
    v.extend_from_slice(&created);
    if version == 2 || version == 3 {
        v.extend_from_slice(&exp_days);
    }
    v.push(alg);
    if version == 6 {
        v.extend_from_slice(&pub_len.unwrap_or(material.len() as u32).to_be_bytes());
    }
    v.extend_from_slice(material);
    v
}

/// secret part after the public part (RFC 9580 §5.5.3): usage octet, [v6: count], parameters, data
pub fn secret_section(v6: bool, usage: u8, params: &[u8], count_override: Option<u8>, data: &[u8]) -> Vec<u8> {
    let mut v = vec![usage];
    if v6 && usage != 0 {
        v.push(count_override.unwrap_or(params.len() as u8));
    }
    v.extend_from_slice(params);
    v.extend_from_slice(data);
    v
}

/// parameter fields for usage 253 (`aead = Some(mode)`) / 254 / 255
pub fn secret_params(v6: bool, usage: u8, sym: u8, aead: Option<u8>, s2k_bytes: &[u8], s2k_len_override: Option<u8>, iv: &[u8]) -> Vec<u8> {
    let mut v = vec![sym];
    if let Some(m) = aead {
        v.push(m);
    }
    if v6 && (usage == 253 || usage == 254) {
        v.push(s2k_len_override.unwrap_or(s2k_bytes.len() as u8));
    }
    v.extend_from_slice(s2k_bytes);
    v.extend_from_slice(iv);
    v
}

pub fn sum16(b: &[u8]) -> [u8; 2] {
    let s: u32 = b.iter().map(|&x| x as u32).sum::<u32>() % 65536;
    (s as u16).to_be_bytes()
}

pub fn pkesk_v3(key_id: [u8; 8], alg: u8, vals: &[u8]) -> Vec<u8> {
    let mut v = vec![3];
    v.extend_from_slice(&key_id);
    v.push(alg);
    v.extend_from_slice(vals);
    v
}

/// `fp`: (key version, fingerprint) or anonymous; `len_override` replaces the size octet
pub fn pkesk_v6(fp: Option<(u8, &[u8])>, len_override: Option<u8>, alg: u8, vals: &[u8]) -> Vec<u8> {
    let mut v = vec![6];
    match fp {
        None => v.push(len_override.unwrap_or(0)),
        Some((kv, f)) => {
            v.push(len_override.unwrap_or((f.len() + 1) as u8));
            v.push(kv);
            v.extend_from_slice(f);
        }
    }
    v.push(alg);
    v.extend_from_slice(vals);
    v
}

pub fn skesk_v4(sym: u8, s2k_bytes: &[u8], esk: &[u8]) -> Vec<u8> {
    let mut v = vec![4, sym];
    v.extend_from_slice(s2k_bytes);
    v.extend_from_slice(esk);
    v
}

pub fn skesk_v5(sym: u8, mode: u8, s2k_bytes: &[u8], iv: &[u8], esk: &[u8]) -> Vec<u8> {
    let mut v = vec![5, sym, mode];
    v.extend_from_slice(s2k_bytes);
    v.extend_from_slice(iv);
    v.extend_from_slice(esk);
    v
}

pub fn skesk_v6(count_override: Option<u8>, sym: u8, aead: u8, s2k_len_override: Option<u8>, s2k_bytes: &[u8], iv: &[u8], esk: &[u8]) -> Vec<u8> {
    let mut v = vec![6];
    v.push(count_override.unwrap_or((3 + s2k_bytes.len() + iv.len()) as u8));
    v.push(sym);
    v.push(aead);
    v.push(s2k_len_override.unwrap_or(s2k_bytes.len() as u8));
    v.extend_from_slice(s2k_bytes);
    v.extend_from_slice(iv);
    v.extend_from_slice(esk);
    v
}

pub fn ops_v3(typ: u8, hash: u8, pk: u8, key_id: [u8; 8], last: u8) -> Vec<u8> {
    let mut v = vec![3, typ, hash, pk];
    v.extend_from_slice(&key_id);
    v.push(last);
    v
}

pub fn ops_v6(typ: u8, hash: u8, pk: u8, salt: &[u8], salt_len_override: Option<u8>, fp: &[u8], last: u8) -> Vec<u8> {
    let mut v = vec![6, typ, hash, pk];
    v.push(salt_len_override.unwrap_or(salt.len() as u8));
    v.extend_from_slice(salt);
    v.extend_from_slice(fp);
    v.push(last);
    v
}

pub fn literal(mode: u8, name: &[u8], name_len_override: Option<u8>, created: [u8; 4], data: &[u8]) -> Vec<u8> {
    let mut v = vec![mode, name_len_override.unwrap_or(name.len() as u8)];
    v.extend_from_slice(name);
    v.extend_from_slice(&created);
    v.extend_from_slice(data);
    v
}

pub fn seipd_v2(sym: u8, aead: u8, chunk: u8, salt: &[u8], data: &[u8]) -> Vec<u8> {
    let mut v = vec![2, sym, aead, chunk];
    v.extend_from_slice(salt);
    v.extend_from_slice(data);
    v
}

/// new-format packet with the minimal length encoding (the canonical framing)
pub fn packet(tag: u8, body: &[u8]) -> Vec<u8> {
    let mut v = vec![0xC0 | tag];
    v.extend(crate::frame::new_len_min(body.len()));
    v.extend_from_slice(body);
    v
}

/// legacy-format packet with the minimal length type
pub fn packet_old(tag: u8, body: &[u8]) -> Vec<u8> {
    let lt = if body.len() < 256 { 0 } else if body.len() < 65536 { 1 } else { 2 };
    crate::frame::frame_fixed(false, tag, lt, body).expect("old frame")
}
