import RpgpProofs.E2ESize
import RpgpModel.E2EToy
/-! E2E, part 10: the toy primitives of `RpgpModel/E2EToy.lean` satisfy the laws, and the two concrete
configurations satisfy `WF` for every payload length up to 10⁶ (non-vacuity of the end-to-end theorems). -/
namespace Rpgp.E2E.Toy
open Rpgp Rpgp.E2E

theorem toy_crypto : CryptoLaws prims where
  cfb_dec_enc := by
    intro alg key iv x
    simp only [prims, sym, List.map_map]
    conv => rhs; rw [← List.map_id x]
    apply List.map_congr_left
    intro b _
    simp [Function.comp]
  cfb_online := by
    intro alg key iv
    exact ⟨by intro x; simp [prims, sym], by intro a b; simp [prims, sym]⟩
  sha1_len := by intro x; simp [prims, sym]
  aead_len := by intro s m k n ad p; simp [prims, sym]
  aead_open_seal := by
    intro s m k n ad p
    simp [prims, sym]
  aead_open_len := by
    intro s m k n ad c p h
    simp only [prims] at h
    split at h
    · have := Option.some.inj h
      rw [← this]
      simp only [List.length_take]
      omega
    · cases h

theorem toy_laws : Laws prims :=
  ⟨toy_crypto, by intro a x; rfl, by intro key d; simp [prims]⟩

/-- the toy public-key scheme is "raw decryption, then C18's plausibility tail" -/
theorem toy_pkLaw (j : Nat) : PkLaw prims j false :=
  pkLaw_of_raw prims j
    (fun vals => match vals with | .other (j' :: data) => if j' = j.toUInt8 then some data else none | _ => none)
    (by
      intro vals v6
      simp only [prims]
      split
      · rename_i j' data
        by_cases h : j' = j.toUInt8 <;> simp [h]
      · rename_i h
        split <;> simp_all)
    (by intro d v6; simp [prims])

theorem payload_length (n : Nat) : (payload n).length = n := by simp [payload]

theorem flatten_payload (n : Nat) : [payload n].flatten = payload n := by simp

theorem hash_length_le (alg : Nat) (x : Bytes) : (sym.hash alg x).length ≤ 25 := by
  simp only [sym, List.length_append, List.length_cons, List.length_take, List.length_replicate]; omega

theorem hash_take2 (alg : Nat) (x : Bytes) : ((sym.hash alg x).take 2).length = 2 := by
  simp [sym]

theorem beBytes_length (k n : Nat) : (beBytes k n).length = k := by
  induction k with
  | zero => rfl
  | succ k ih => simp [beBytes, ih]

/-- both toy signers: well-formed OPS / signature values, signature bodies of at most 100 octets -/
theorem signer_facts (typ : Byte) (s : Signer) (hs : s = s4 ∨ s = s6) (pre : Bytes) :
    (∀ isLast, Wire.OpsWF (opsPacket typ s isLast)) ∧
    (∀ emb, Wire.SigWF emb (mkSig prims typ s pre)) ∧
    ∀ b, Wire.sigSer (mkSig prims typ s pre) = some b → b.length ≤ 100 := by
  have hh := hash_length_le 8 pre
  have h2 := hash_take2 8 pre
  rcases hs with rfl | rfl
  · refine ⟨?_, ?_, ?_⟩
    · intro l; simp [opsPacket, s4, Wire.OpsWF]
    · intro emb
      simp only [mkSig, s4, prims, Wire.SigWF]
      refine ⟨by simp, by simp, h2, ?_, ?_⟩
      · simp [Wire.SigBytesWF, Wire.sigMpiCount]
      · simp [Wire.areaWriteLen]
    · intro b hb
      simp only [mkSig, s4, prims, Wire.sigSer, Wire.areaSer, Wire.areaWriteLen] at hb
      simp at hb
      rw [← hb]
      simp only [List.length_cons, List.length_append, Wire.sigBytesSer, Wire.areaLenOctets, beBytes_length,
        Bool.false_eq_true, if_false, List.length_take] at *
      omega
  · refine ⟨?_, ?_, ?_⟩
    · intro l; simp [opsPacket, s6, Wire.OpsWF]
    · intro emb
      simp only [mkSig, s6, prims, Wire.SigWF]
      refine ⟨by simp, by simp, h2, ?_, ?_⟩
      · simp [Wire.SigBytesWF, Wire.sigMpiCount]
      · simp [Wire.areaWriteLen, Wire.hashSaltLen]
    · intro b hb
      simp only [mkSig, s6, prims, Wire.sigSer, Wire.areaSer, Wire.areaWriteLen] at hb
      simp at hb
      rw [← hb]
      simp only [List.length_cons, List.length_append, Wire.sigBytesSer, Wire.areaLenOctets, beBytes_length,
        if_true, List.length_take, List.length_replicate] at *
      omega

theorem signedWF (c : Cfg) (n : Nat) (hn : n ≤ 1000000) (hk : c.k = 9) (hsig : c.signers = [s4, s6]) :
    SignedWF prims c [payload n] where
  k := by rw [hk]; decide
  litLen := by rw [flatten_payload, payload_length, litHdr_length]; omega
  ops := by
    intro s hs l
    rw [hsig] at hs
    simp only [List.mem_cons, List.not_mem_nil, or_false] at hs
    exact (signer_facts c.signTyp s hs []).1 l
  sig := by
    intro s hs pre _
    rw [hsig] at hs
    simp only [List.mem_cons, List.not_mem_nil, or_false] at hs
    obtain ⟨_, h2, h3⟩ := signer_facts c.signTyp s hs pre
    exact ⟨h2, fun b hb => by have := h3 b hb; omega⟩

/-- the signed stream of the toy configurations is small -/
theorem signed_small (c : Cfg) (n : Nat) (hn : n ≤ 1000000) (hk : c.k = 9) (hsig : c.signers = [s4, s6])
    (S : Bytes) (hS : signedStream prims c [payload n] = some S) : S.length ≤ 2000844 := by
  have := signedStream_length_le prims c [payload n] S (signedWF c n hn hk hsig) hS 100 (by
    intro s hs pre b _ hb
    rw [hsig] at hs
    simp only [List.mem_cons, List.not_mem_nil, or_false] at hs
    exact (signer_facts c.signTyp s hs pre).2.2 b hb)
  rw [hsig, flatten_payload, payload_length] at this
  simp only [List.length_cons, List.length_nil] at this
  omega

theorem inner_small (c : Cfg) (n : Nat) (hn : n ≤ 1000000) (hk : c.k = 9) (hsig : c.signers = [s4, s6])
    (S : Bytes) (hS : signedStream prims c [payload n] = some S) : (compressedLayer prims c S).length ≤ 4001698 := by
  have h := signed_small c n hn hk hsig S hS
  have := compressedLayer_length_le prims c S 2000844 (by intro a; exact h) h
  omega

theorem eskWF_common (e : Encryption) (hsym : e.container.sym = 7) (hsk : e.sessionKey = List.replicate 16 11)
    (hpw : e.passwords = [rcptP])
    (hv2 : ∀ sym aead cs salt, e.container = .v2 sym aead cs salt → aead = 2) : EskWF e where
  sym := by rw [hsym, hsk]; decide
  pw := by
    intro r hr
    rw [hpw] at hr
    simp only [List.mem_singleton] at hr
    subst hr
    refine ⟨by decide, ?_⟩
    intro sym aead cs salt hc
    have := hv2 sym aead cs salt hc
    subst this
    decide

theorem eskPktWF (e : Encryption) (hpw : e.passwords = [rcptP]) (hk : e.keys = [rcptK] ∨ e.keys = [{ rcptK with anonymous := true }])
    (hsk : e.sessionKey = List.replicate 16 11) (wfE : EskWF e) : EskPktWF prims e where
  pk := by
    intro r hr
    have hr' : r = rcptK ∨ r = { rcptK with anonymous := true } := by
      rcases hk with h | h <;> (rw [h] at hr; simp only [List.mem_singleton] at hr; simp [hr])
    cases hc : e.container with
    | v1 sym pre =>
      rcases hr' with rfl | rfl <;>
        simp [pkeskPacket, hc, pkVals, prims, Wire.PkeskWF, Wire.PkeskValsWF, rcptK, Ring.wildcardKeyId] <;> decide
    | v2 sym aead cs salt =>
      rcases hr' with rfl | rfl <;>
        simp [pkeskPacket, hc, pkVals, prims, Wire.PkeskWF, Wire.PkeskValsWF, rcptK, Wire.fpLenNew] <;> decide
  len := by
    intro tb htb b hb
    unfold eskBodies at htb
    rw [hpw] at htb
    rcases List.mem_append.mp htb with h | h
    · simp only [List.map_cons, List.map_nil, List.mem_singleton] at h
      subst h
      obtain ⟨hser, _, _⟩ := skeskBody_facts prims toy_crypto e rcptP b wfE (by rw [hpw]; simp) hb
      rw [Wire.skesk_len _ b hser]
      cases hc : e.container with
      | v1 sy pre =>
        simp only [skeskOf, hc, Wire.skeskWriteLen, rcptP, Wire.s2kWriteLen, prims, Toy.sym, List.length_map, List.length_cons, hsk,
          List.length_replicate, List.length_nil]
        omega
      | v2 sy aead cs salt =>
        simp only [skeskOf, hc, Wire.skeskWriteLen, rcptP, Wire.s2kWriteLen, prims, Toy.sym, List.length_append, hsk,
          List.length_replicate, List.length_cons, List.length_nil]
        omega
    · obtain ⟨r, hr, rfl⟩ := List.mem_map.mp h
      have hl := Wire.pkesk_len _ b hb
      rw [hl]
      have hr' : r = rcptK ∨ r = { rcptK with anonymous := true } := by
        rcases hk with h | h <;> (rw [h] at hr; simp only [List.mem_singleton] at hr; simp [hr])
      cases hc : e.container with
      | v1 sym pre =>
        rcases hr' with rfl | rfl <;>
          simp [pkeskPacket, hc, pkVals, prims, Wire.pkeskWriteLen, Wire.pkeskValsWriteLen, rcptK, Ring.prepareSessionKey, hsk,
            Ring.wildcardKeyId, Gen.wildcardKeyIdLen, be16, beBytes_length]
      | v2 sym aead cs salt =>
        rcases hr' with rfl | rfl <;>
          simp [pkeskPacket, hc, pkVals, prims, Wire.pkeskWriteLen, Wire.pkeskValsWriteLen, rcptK, Ring.prepareSessionKey, hsk,
            be16, beBytes_length]

/-- **configuration A** (2 signers v4 + v6, zip, SEIPDv2 with 64-octet chunks, password + key
recipient, armored, partial literal framing) meets `WF` for every payload length up to 10⁶ -/
theorem wf_A (n : Nat) (hn : n ≤ 1000000) : WF prims opts cfgA [payload n] where
  signed := signedWF cfgA n hn rfl rfl
  hashRead := by decide
  verifiers := by decide
  comp := by
    intro S hS a ha
    have : a = 1 := by simpa [cfgA] using ha.symm
    subst this
    have := signed_small cfgA n hn rfl rfl S hS
    exact ⟨by decide, by simp only [prims]; omega⟩
  enc := by
    intro S e hS he
    have : e = encV2 := by simpa [cfgA] using he.symm
    subst this
    have hin := inner_small cfgA n hn rfl rfl S hS
    have wfE : EskWF encV2 := eskWF_common encV2 rfl rfl rfl (by intro sy ae cs sa h; simp [encV2] at h; exact h.2.1.symm)
    refine ⟨?_, wfE, eskPktWF encV2 rfl (Or.inl rfl) rfl wfE⟩
    refine ⟨by decide, ?_, ?_, ?_⟩
    · rw [cipherText_v2_length prims toy_crypto encV2 7 2 0 (List.replicate 32 8) _ rfl]
      have e64 : 2 ^ (0 + 6) = 64 := by decide
      rw [e64]
      simp only [cfgOctets, encV2, List.length_append, List.length_cons, List.length_nil, List.length_replicate]
      omega
    · intro sy pre h; simp [encV2] at h
    · intro sy ae cs sa h
      simp only [encV2, Container.v2.injEq] at h
      obtain ⟨rfl, rfl, rfl, rfl⟩ := h
      decide

/-- **configuration B** (the same signers with text signatures, zip, SEIPDv1 / AES-128, password +
anonymous key recipient, fixed-length literal, binary output) meets `WF` likewise -/
theorem wf_B (n : Nat) (hn : n ≤ 1000000) : WF prims opts cfgB [payload n] where
  signed := signedWF cfgB n hn rfl rfl
  hashRead := by decide
  verifiers := by decide
  comp := by
    intro S hS a ha
    have : a = 1 := by simpa [cfgB, cfgA] using ha.symm
    subst this
    have := signed_small cfgB n hn rfl rfl S hS
    exact ⟨by decide, by simp only [prims]; omega⟩
  enc := by
    intro S e hS he
    have : e = encV1 := by simpa [cfgB, cfgA] using he.symm
    subst this
    have hin := inner_small cfgB n hn rfl rfl S hS
    have wfE : EskWF encV1 := eskWF_common encV1 rfl rfl rfl (by intro sy ae cs sa h; simp [encV1] at h)
    refine ⟨?_, wfE, eskPktWF encV1 rfl (Or.inr rfl) rfl wfE⟩
    refine ⟨by decide, ?_, ?_, ?_⟩
    · rw [cipherText_v1_length prims toy_crypto encV1 7 (List.replicate 16 3) _ rfl]
      simp only [cfgOctets, encV1, List.length_cons, List.length_nil, List.length_replicate]
      omega
    · intro sy pre h
      simp only [encV1, Container.v1.injEq] at h
      obtain ⟨rfl, rfl⟩ := h
      refine ⟨by decide, ?_⟩
      have : opts.maxV1 = 1073741824 := by decide
      rw [this]; omega
    · intro sy ae cs sa h; simp [encV1] at h

/-! ### the builder succeeds on the toy configurations -/

theorem signedStream_isSome (c : Cfg) (src : List Bytes) (hsig : c.signers = [s4, s6]) (ht : c.signTyp = 0 ∨ c.signTyp = 1) :
    (signedStream prims c src).isSome = true := by
  have hops : (opsBodies c).all Option.isSome = true := by
    simp [opsBodies, hsig, opsPacket, s4, s6, Wire.opsSer]
  have hsigs : (sigBodies prims c src).all Option.isSome = true := by
    rcases ht with h | h <;>
      simp [sigBodies, hsig, h, SV.signConfig, sigCfg, s4, s6, SV.signAligned, SV.dataSigType, Gen.sigTypeBinary, Gen.sigTypeText,
        mkSig, Wire.sigSer, Wire.areaSer, Wire.areaWriteLen]
  unfold signedStream
  rw [hops, hsigs]
  rfl

theorem eskBodies_isSome (e : Encryption) (he : e = encV1 ∨ e = encV2) :
    (eskBodies prims e).all (fun tb => tb.2.isSome) = true := by
  rcases he with rfl | rfl
  · simp [eskBodies, encV1, skeskBody, rcptP, specOfWire, Sym.Skesk.body4, Sym.Skesk.encryptAllowed, Sym.S2k.Spec.usesSalt,
      Sym.S2k.Spec.weakHash, Sym.S2k.Spec.hashAlg, Sym.S2k.derive, Sym.S2k.digestSize, bind, Option.bind, pkeskPacket, Wire.pkeskSer,
      pkVals, prims, Wire.pkeskValsSer, rcptK]
  · simp [eskBodies, encV2, skeskBody, rcptP, specOfWire, Sym.Skesk.body6, Sym.Skesk.encryptAllowed, Sym.S2k.Spec.usesSalt,
      Sym.S2k.Spec.weakHash, Sym.S2k.Spec.hashAlg, Sym.S2k.derive, Sym.S2k.digestSize, bind, Option.bind, pkeskPacket, Wire.pkeskSer,
      pkVals, prims, Wire.pkeskValsSer, rcptK]

theorem build_isSome (c : Cfg) (e : Encryption) (n : Nat) (hsig : c.signers = [s4, s6]) (ht : c.signTyp = 0 ∨ c.signTyp = 1)
    (hm : c.mode = 98) (he : c.encryption = some e) (he' : e = encV1 ∨ e = encV2) :
    (buildFull prims c [payload n]).isSome = true := by
  obtain ⟨S, hS⟩ := Option.isSome_iff_exists.mp (signedStream_isSome c [payload n] hsig ht)
  have h2 := eskBodies_isSome e he'
  have hok : srcOk prims c.mode [payload n] = true := by rw [hm]; simp [srcOk, Gen.e2eModeUtf8]
  have hk : sessionKeyOk e = true := by rcases he' with rfl | rfl <;> decide
  unfold buildFull buildBinary
  simp only [hok, hS, he, hk, h2, Bool.not_true, Bool.false_eq_true, if_false, if_true, Option.map_some, Option.isSome_some]
end Rpgp.E2E.Toy
