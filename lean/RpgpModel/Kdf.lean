import RpgpModel.S2k
/-!
# Kdf — ECDH KDF + AES key wrap with padding, X25519 / X448 HKDF key wrap, two-octet checksum

* `Ecdh.param`          `crypto/ecdh.rs  build_ecdh_param`
* `Ecdh.kdfInput/kek`   `crypto/ecdh.rs  kdf`
* `Ecdh.pad`            `crypto/ecdh.rs  pad`
* `Ecdh.unpad`          the PKCS5-style unpadding block of `derive_session_key`
* `Ecdh.wrap`           `crypto/ecdh.rs  encrypt` after the shared secret is known
* `X25519.ikm/kek/wrap` `crypto/x25519.rs  hkdf / encrypt`;  `X448.*` `crypto/x448.rs`
* `sum16`               `crypto/checksum.rs  SimpleChecksum` / `calculate_simple`
* `sessionKeyPlain`     `packet/public_key_encrypted_session_key.rs  prepare_session_key_for_encryption`
-/
namespace Rpgp.Sym
open Rpgp

/-- `checksum::SimpleChecksum`: sum of all octets `& 0xffff` -/
def sum16 (bs : Bytes) : Nat := bs.foldl (fun acc b => (acc + b.toNat) % (Gen.sum16Mask + 1)) 0

/-- `SimpleChecksum` fed in several `write` calls: each call adds the `u32` sum of the buffer -/
def sum16Chunks (chunks : List Bytes) : Nat :=
  chunks.foldl (fun acc c => (acc + (c.foldl (fun s b => s + b.toNat) 0)) % (Gen.sum16Mask + 1)) 0

/-- `prepare_session_key_for_encryption`: optional cipher octet (PKESK v3), session key, optional
two-octet checksum (all algorithms except X25519 / X448) -/
def sessionKeyPlain (alg : Option Nat) (sk : Bytes) (withChecksum : Bool) : Bytes :=
  (match alg with | some a => [a.toUInt8] | none => []) ++ sk ++
    (if withChecksum then be16 (sum16 sk) else [])

namespace Ecdh

/-- `build_ecdh_param(oid, alg_sym, hash, fingerprint)` -/
def param (oid : Bytes) (sym hash : Nat) (fp : Bytes) : Bytes :=
  [oid.length.toUInt8] ++ oid ++ [Gen.ecdhPkAlgo.toUInt8] ++
    [Gen.ecdhKdfParamsLen.toUInt8, Gen.ecdhKdfParamsReserved.toUInt8, hash.toUInt8, sym.toUInt8] ++
    Gen.anonSender.map Nat.toUInt8 ++ fp

/-- what `kdf` hashes: `00 00 00 01 ‖ x ‖ param` -/
def kdfInput (z par : Bytes) : Bytes := Gen.ecdhKdfCounter.map Nat.toUInt8 ++ z ++ par

/-- `kdf(hash, x, length, param)`: digest truncated to `length` (`None` = unknown hash) -/
def kdf (P : Prims) (hash : Nat) (z : Bytes) (len : Nat) (par : Bytes) : Option Bytes :=
  match S2k.digestSize hash with
  | none => none
  | some _ => some ((P.hash hash (kdfInput z par)).take len)

/-- `pad(plain)`: PKCS5-style, 1..8 octets, to the next multiple of 8 -/
def pad (plain : Bytes) : Bytes :=
  let len := plain.length
  let remainder := len % Gen.ecdhPadBlock
  let paddedLen := len + Gen.ecdhPadAdd - remainder
  plain ++ List.replicate (paddedLen - len) (paddedLen - len).toUInt8

/-- the unpadding block of `derive_session_key` applied to the unwrapped octets; `none` = `Err` -/
def unpad (d : Bytes) : Option Bytes :=
  let len := d.length
  if len % Gen.ecdhUnpadBlock ≠ 0 then none
  else if d = [] then none
  else
    let padv := (d.getLastD 0).toNat
    if padv = 0 ∨ padv > len then none
    else
      let unpaddedLen := len - padv
      if (d.drop unpaddedLen).any (fun b => b ≠ d.getLastD 0) then none
      else
        let out := d.take unpaddedLen
        if out = [] then none else some out

/-- AES key wrap accepts 128/192/256-bit keys only (`aes_kw::wrap`) -/
def kekOk (kek : Bytes) : Bool := kek.length = 16 || kek.length = 24 || kek.length = 32

/-- `ecdh::encrypt` refuses MD5, SHA-1 and RIPEMD-160 as KDF hash (`derive_session_key` does not) -/
def weakKdfHash (hash : Nat) : Bool := hash = 1 || hash = 2 || hash = 3

/-- `encrypt` once the shared secret `z` is known: `AESKW_{kdf(z, param)}(pad(plain))` -/
def wrap (P : Prims) (oid : Bytes) (hash sym : Nat) (fp z plain : Bytes) : Option Bytes := do
  if plain.length > Gen.ecdhMaxPlain then none
  if weakKdfHash hash then none
  let kek ← kdf P hash z (Gen.c12SymKeySize sym) (param oid sym hash fp)
  if !kekOk kek then none
  pure (P.kwrap kek (pad plain))

def kekPlan (hash : Nat) (z : Bytes) (len : Nat) (par : Bytes) : Option PExpr :=
  match S2k.digestSize hash with
  | none => none
  | some _ => some (.take len (.hash hash (.lit (kdfInput z par))))

/-- plan of `wrap` (`enc = true`: with the sender-side refusals of `ecdh::encrypt`; `false`: the
wrapped key `derive_session_key` is expected to open).  The interpreter reports a key-size error
of the key wrap itself. -/
def wrapPlan (enc : Bool) (oid : Bytes) (hash sym : Nat) (fp z plain : Bytes) : Option PExpr := do
  if enc && plain.length > Gen.ecdhMaxPlain then none
  if enc && weakKdfHash hash then none
  let kek ← kekPlan hash z (Gen.c12SymKeySize sym) (param oid sym hash fp)
  pure (.kw kek (.lit (pad plain)))

end Ecdh

namespace X25519

/-- HKDF input keying material: ephemeral public ‖ recipient public ‖ shared secret -/
def ikm (eph rcpt z : Bytes) : Bytes := eph ++ rcpt ++ z

/-- `INFO = b"OpenPGP X25519"` -/
def info : Bytes := beBytes Gen.x25519InfoLen Gen.x25519Info

/-- `x25519::hkdf`: HKDF-SHA256, no salt, 16 octets -/
def kek (P : Prims) (eph rcpt z : Bytes) : Bytes :=
  P.hkdf sha256Id [] (ikm eph rcpt z) info Gen.x25519OkmLen

/-- `x25519::encrypt` once the shared secret is known: `AESKW_kek(plain)` (no padding, no checksum) -/
def wrap (P : Prims) (eph rcpt z plain : Bytes) : Bytes := P.kwrap (kek P eph rcpt z) plain

def kekPlan (eph rcpt z : Bytes) : PExpr :=
  .hkdf sha256Id (.lit []) (.lit (ikm eph rcpt z)) (.lit info) Gen.x25519OkmLen

def wrapPlan (eph rcpt z plain : Bytes) : PExpr := .kw (kekPlan eph rcpt z) (.lit plain)

end X25519

namespace X448

/-- `INFO = b"OpenPGP X448"` -/
def info : Bytes := beBytes Gen.x448InfoLen Gen.x448Info

/-- `x448::hkdf`: HKDF-SHA512, no salt, 32 octets -/
def kek (P : Prims) (eph rcpt z : Bytes) : Bytes :=
  P.hkdf sha512Id [] (X25519.ikm eph rcpt z) info Gen.x448OkmLen

def wrap (P : Prims) (eph rcpt z plain : Bytes) : Bytes := P.kwrap (kek P eph rcpt z) plain

def kekPlan (eph rcpt z : Bytes) : PExpr :=
  .hkdf sha512Id (.lit []) (.lit (X25519.ikm eph rcpt z)) (.lit info) Gen.x448OkmLen

def wrapPlan (eph rcpt z plain : Bytes) : PExpr := .kw (kekPlan eph rcpt z) (.lit plain)

end X448
end Rpgp.Sym
