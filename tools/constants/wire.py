# ---- types/mpi.rs --------------------------------------------------------------------------
item("mpiMaxBits", "src/types/mpi.rs", r"const MAX_EXTERN_MPI_BITS: u16 = (\d+);", "mpi.rs MAX_EXTERN_MPI_BITS")
# ---- types/s2k.rs --------------------------------------------------------------------------
S2 = "src/types/s2k.rs"
item("s2kSaltLen", S2, r"1 => \{\s*let hash_alg = i\.read_u8\(\)\.map\(HashAlgorithm::from\)\?;\s*let salt = i\.read_arr::<(\d+)>\(\)\?;", "StringToKey::try_from_reader salted: salt size")
item("s2kIterSaltLen", S2, r"3 => \{\s*let hash_alg = i\.read_u8\(\)\.map\(HashAlgorithm::from\)\?;\s*let salt = i\.read_arr::<(\d+)>\(\)\?;", "StringToKey::try_from_reader iterated: salt size")
item("s2kArgonSaltLen", S2, r"4 => \{\s*let salt = i\.read_arr::<(\d+)>\(\)\?;", "StringToKey::try_from_reader argon2: salt size")
item("s2kLenSimple", S2, r"fn len\(&self\) -> Result<u8>.*?Self::Simple \{ \.\. \} => (\d+),", "StringToKey::len Simple")
item("s2kLenSalted", S2, r"fn len\(&self\) -> Result<u8>.*?Self::Salted \{ \.\. \} => (\d+),", "StringToKey::len Salted")
item("s2kLenIterated", S2, r"fn len\(&self\) -> Result<u8>.*?Self::IteratedAndSalted \{ \.\. \} => (\d+),", "StringToKey::len IteratedAndSalted")
item("s2kLenArgon2", S2, r"fn len\(&self\) -> Result<u8>.*?Self::Argon2 \{ \.\. \} => (\d+),", "StringToKey::len Argon2")
item("usageAead", S2, r"(\d+) => Self::Aead,", "S2kUsage::from: AEAD usage octet (reader)")
item("usageCfb", S2, r"(\d+) => Self::Cfb,", "S2kUsage::from: CFB usage octet (reader)")
item("usageMalleableCfb", S2, r"(\d+) => Self::MalleableCfb,", "S2kUsage::from: malleable CFB usage octet (reader)")
item("wrUsageAead", S2, r"S2kParams::Aead \{ \.\. \} => (\d+),", "From<&S2kParams> for u8: AEAD (writer)")
item("wrUsageCfb", S2, r"S2kParams::Cfb \{ \.\. \} => (\d+),", "From<&S2kParams> for u8: CFB (writer)")
item("wrUsageMalleableCfb", S2, r"S2kParams::MalleableCfb \{ \.\. \} => (\d+),", "From<&S2kParams> for u8: malleable CFB (writer)")
# ---- crypto/aead.rs ------------------------------------------------------------------------
AE = "src/crypto/aead.rs"
item("aeadNonceEax", AE, r"fn nonce_size.*?Self::Eax => (\d+),", "AeadAlgorithm::nonce_size Eax")
item("aeadNonceOcb", AE, r"fn nonce_size.*?Self::Ocb => (\d+),", "AeadAlgorithm::nonce_size Ocb")
item("aeadNonceGcm", AE, r"fn nonce_size.*?Self::Gcm => (\d+),", "AeadAlgorithm::nonce_size Gcm")
item("aeadIvEax", AE, r"fn iv_size.*?Self::Eax => (\d+),", "AeadAlgorithm::iv_size Eax")
item("aeadIvOcb", AE, r"fn iv_size.*?Self::Ocb => (\d+),", "AeadAlgorithm::iv_size Ocb")
item("aeadIvGcm", AE, r"fn iv_size.*?Self::Gcm => (\d+),", "AeadAlgorithm::iv_size Gcm")
item("chunkSizeMax", AE, r"C4MiB = (\d+),", "ChunkSize: largest admitted octet")
# ---- packet/signature/subpacket.rs ---------------------------------------------------------
SP = "src/packet/signature/subpacket.rs"
item("subLenOneMax", SP, r"fn try_from_reader.*?0\.\.=(\d+) => Self::One\(olen\)", "SubpacketLength::try_from_reader one-octet upper bound")
item("subLenTwoMin", SP, r"fn try_from_reader.*?(\d+)\.\.=(\d+) => \{\s*let a = i\.read_u8", "SubpacketLength::try_from_reader two-octet lower bound", group=1)
item("subLenTwoMax", SP, r"fn try_from_reader.*?(\d+)\.\.=(\d+) => \{\s*let a = i\.read_u8", "SubpacketLength::try_from_reader two-octet upper bound", group=2)
item("subEncOneMax", SP, r"fn encode.*?0\.\.=(\d+) => Self::One", "SubpacketLength::encode one-octet upper bound")
item("subEncTwoMax", SP, r"fn encode.*?\d+\.\.=(\d+) => Self::Two", "SubpacketLength::encode two-octet upper bound")
# ---- packet/signature/{de,ser}.rs ----------------------------------------------------------
item("sigV3HashedLen", "src/packet/signature/de.rs", r"i\.read_tag\(&\[(\d+)\]\)\?;", "v3_parser: length of hashed material (reader)")
item("wrSigV3HashedLen", "src/packet/signature/ser.rs", r"writer\.write_u8\((0x[0-9a-fA-F]+|\d+)\)\?; // 1-octet length of the following hashed material", "to_writer_v3: length of hashed material (writer)")
# (D5e: the fingerprint of a designated revoker is 20 octets for a v4 key, 32 for a v5 / v6 one; before
#  the repair the parser read 20 and write_len said 22 whatever was stored)
item("revKeyFpLenA", "src/packet/signature/de.rs",
     lambda t: (lambda m: int(m.group(1) or m.group(2)) if m else None)(re.search(r"fn revocation_key<B: BufRead>.*?(?:fp\.len\(\) == (\d+) \|\| fp\.len\(\) == \d+|read_arr::<(\d+)>\(\))", t, re.S)),
     "revocation_key: (first) accepted fingerprint length")
item("revKeyFpLenB", "src/packet/signature/de.rs",
     lambda t: (lambda m: int(m.group(1) or m.group(2)) if m else None)(re.search(r"fn revocation_key<B: BufRead>.*?(?:fp\.len\(\) == \d+ \|\| fp\.len\(\) == (\d+)|read_arr::<(\d+)>\(\))", t, re.S)),
     "revocation_key: (second) accepted fingerprint length")
flag("fixD5eRevKeyLenTruthful", "src/packet/signature/ser.rs", r"SubpacketData::RevocationKey\(rev_key\) => 2 \+ rev_key\.fingerprint\.len\(\),",
     "D5e repaired: write_len of a Revocation Key subpacket counts the fingerprint that is stored")
item("issuerLen", "src/packet/signature/ser.rs", r"SubpacketData::IssuerKeyId\(_\) => (\d+),", "SubpacketData::write_len IssuerKeyId")
# ---- misc ----------------------------------------------------------------------------------
item("mdcHashLen", "src/packet/mod_detection_code.rs", r"let hash = input\.read_arr::<(\d+)>\(\)\?;", "ModDetectionCode hash size")
item("rsaMaxKeySize", "src/crypto/rsa.rs", r'#\[cfg\(not\(feature = "large-rsa"\)\)\]\s*pub\(crate\) const MAX_KEY_SIZE: usize = (\d+);', "crypto/rsa.rs MAX_KEY_SIZE (default features)")
item("seipdSaltLen", "src/packet/sym_encrypted_protected_data.rs", r"let salt = data\.read_arr::<(\d+)>\(\)\?;", "SEIPD v2 salt size")
item("opsFpLen", "src/packet/one_pass_signature.rs", r"let fingerprint = i\.read_arr::<(\d+)>\(\)\?;", "OPS v6 fingerprint size")
item("opsOverhead", "src/packet/one_pass_signature.rs", r"const WRITE_LEN_OVERHEAD: usize = (\d+);", "OPS WRITE_LEN_OVERHEAD")
item("wireSkesk6FieldsMax", "src/packet/sym_key_encrypted_session_key.rs", r"3 \+ s2k\.write_len\(\) \+ iv\.len\(\) <= (\d+)", "SKESK v6 parser: largest admitted count of parameter octets")

# ---- v6 key packets: the octet count of the public key material is exact in both parsers (D15d) ----
flag("fixD15dV6PubLenExactBothParsers", "src/packet/public_key_parser.rs",
     r"let mut public = i\.read_take\(pub_len\);\s*let params = PublicParams::try_from_reader\(alg, Some\(pub_len\), &mut public\)\?;\s*ensure!\(\s*public\.limit\(\) == 0,",
     "D15d repaired (public parser): the public parameters of a v6 key packet must fill exactly the announced octet count")
flag("fixD15dV6PubLenExactSecretParser", "src/packet/secret_key_parser.rs",
     r"ensure!\(\s*public\.limit\(\) == 0,.*?let pub_len = i\.read_be_u32\(\)\?;\s*ensure!\(pub_len > 0, \"key length must not be 0\"\);",
     "D15d repaired (secret parser): a zero count is refused and the window must be used up, as in the public parser")
