import RpgpModel.Armor
import RpgpProofs.ArmorHeader
/-!
# Block-type names: `Display` then `armor_header_type` is the identity
-/
namespace Rpgp.Armor

/-! ## decimal numbers -/

def decStep (a : Nat) (d : Byte) : Nat := a * 10 + (d.toNat - 48)

theorem digit_props (m : Nat) (h : m < 10) :
    isDigit (48 + m).toUInt8 = true ∧ (48 + m).toUInt8.toNat - 48 = m ∧ (48 + m).toUInt8 ≠ COLON ∧ (48 + m).toUInt8 ≠ 45 := by
  have : m = 0 ∨ m = 1 ∨ m = 2 ∨ m = 3 ∨ m = 4 ∨ m = 5 ∨ m = 6 ∨ m = 7 ∨ m = 8 ∨ m = 9 := by omega
  rcases this with rfl | rfl | rfl | rfl | rfl | rfl | rfl | rfl | rfl | rfl <;> decide

theorem natToDecAux_succ (f n : Nat) (acc : Bytes) :
    natToDecAux (f + 1) n acc =
      if n < 10 then (48 + n % 10).toUInt8 :: acc else natToDecAux f (n / 10) ((48 + n % 10).toUInt8 :: acc) := rfl

/-- `natToDecAux` prepends a non-empty block of digits whose value is `n` -/
theorem natToDecAux_spec : ∀ (f n : Nat) (acc : Bytes), n < 10 ^ f → 0 < f →
    ∃ D, natToDecAux f n acc = D ++ acc ∧ D ≠ [] ∧ (∀ d ∈ D, isDigit d = true ∧ d ≠ COLON ∧ d ≠ 45) ∧
      ∀ a0 rest, (D ++ rest).foldl decStep a0 = rest.foldl decStep (a0 * 10 ^ D.length + n) := by
  intro f
  induction f with
  | zero => intro n acc _ h; omega
  | succ f ih =>
    intro n acc hn _
    have hd := digit_props (n % 10) (Nat.mod_lt _ (by omega))
    rw [natToDecAux_succ]
    generalize (48 + n % 10).toUInt8 = dg at hd ⊢
    by_cases h10 : n < 10
    · rw [if_pos h10]
      refine ⟨[dg], rfl, by simp, ?_, ?_⟩
      · intro d hdm; simp at hdm; subst hdm; exact ⟨hd.1, hd.2.2.1, hd.2.2.2⟩
      · intro a0 rest
        have : n % 10 = n := Nat.mod_eq_of_lt h10
        simp only [List.singleton_append, List.foldl_cons, decStep, hd.2.1, this, List.length_singleton, Nat.pow_one]
    · rw [if_neg h10]
      have hf : 0 < f := by
        cases f with
        | zero => simp at hn; omega
        | succ _ => omega
      have hn' : n / 10 < 10 ^ f := by
        rw [Nat.pow_succ] at hn
        exact Nat.div_lt_of_lt_mul (by omega)
      obtain ⟨D, hD, hne, hdig, hval⟩ := ih (n / 10) (dg :: acc) hn' hf
      refine ⟨D ++ [dg], by simp [hD], by simp, ?_, ?_⟩
      · intro d hdm
        simp only [List.mem_append, List.mem_singleton] at hdm
        rcases hdm with hdm | rfl
        · exact hdig d hdm
        · exact ⟨hd.1, hd.2.2.1, hd.2.2.2⟩
      · intro a0 rest
        have := hval a0 (dg :: rest)
        simp only [List.append_assoc, List.singleton_append]
        rw [this]
        simp only [List.foldl_cons, decStep, hd.2.1, List.length_append, List.length_singleton, Nat.pow_succ]
        congr 1
        have := Nat.div_add_mod n 10
        rw [Nat.add_mul, Nat.mul_assoc]
        omega

theorem natToDec_spec (n : Nat) :
    natToDec n ≠ [] ∧ (∀ d ∈ natToDec n, isDigit d = true ∧ d ≠ COLON ∧ d ≠ 45) ∧
      (natToDec n).foldl decStep 0 = n := by
  have hlt : n < 10 ^ (n + 1) := by
    have : n < 2 ^ n := Nat.lt_two_pow_self
    calc n < 2 ^ n := this
      _ ≤ 10 ^ n := Nat.pow_le_pow_left (by omega) n
      _ ≤ 10 ^ (n + 1) := Nat.pow_le_pow_right (by omega) (by omega)
  obtain ⟨D, hD, hne, hdig, hval⟩ := natToDecAux_spec (n + 1) n [] hlt (by omega)
  have e : natToDec n = D := by simp [natToDec, hD]
  rw [e]
  refine ⟨hne, hdig, ?_⟩
  have := hval 0 []
  simpa using this

theorem parseUsize_natToDec (n : Nat) (h : n < 18446744073709551616) : parseUsize (natToDec n) = some n := by
  have := (natToDec_spec n).2.2
  simp only [parseUsize]
  have e : (natToDec n).foldl (fun a d => a * 10 + (d.toNat - 48)) 0 = n := this
  rw [e]; simp [h]

theorem digit1_digits (ds : Bytes) (c : Byte) (r : Bytes) (hne : ds ≠ []) (hd : ∀ d ∈ ds, isDigit d = true)
    (hc : isDigit c = false) : digit1 (ds ++ c :: r) = .ok ds (c :: r) := by
  induction ds with
  | nil => exact absurd rfl hne
  | cons d ds' ih =>
    have hdd := hd d (by simp)
    cases ds' with
    | nil => simp [digit1, hdd, hc]
    | cons d' ds'' =>
      have := ih (by simp) (fun x hx => hd x (by simp [hx]))
      simp only [List.cons_append] at this ⊢
      rw [digit1]
      simp only [hdd, if_true, this]

/-! ## the type parser on written names -/

theorem parseType_typeName (t : BlockType) (r : Bytes) (ht : typeOk t = true) :
    parseType (typeName t ++ (DASH5 ++ r)) = .ok t (DASH5 ++ r) := by
  cases t with
  | multiPart x y =>
    simp only [typeOk, Bool.and_eq_true, decide_eq_true_eq] at ht
    obtain ⟨hx1, hx2, hx3⟩ := natToDec_spec x
    obtain ⟨hy1, hy2, hy3⟩ := natToDec_spec y
    have e : typeName (.multiPart x y) ++ (DASH5 ++ r) =
        asc "PGP MESSAGE, PART " ++ (natToDec x ++ SLASH :: (natToDec y ++ 45 :: ([45, 45, 45, 45] ++ r))) := by
      simp [typeName, DASH5]
    rw [e]
    have h1 : parseTypeTable typeTable1 (asc "PGP MESSAGE, PART " ++ (natToDec x ++ SLASH :: (natToDec y ++ 45 :: ([45, 45, 45, 45] ++ r)))) = .err := by
      rfl
    have hdx := digit1_digits (natToDec x) SLASH (natToDec y ++ 45 :: ([45, 45, 45, 45] ++ r)) hx1 (fun d hd => (hx2 d hd).1) (by decide)
    have hdy := digit1_digits (natToDec y) 45 ([45, 45, 45, 45] ++ r) hy1 (fun d hd => (hy2 d hd).1) (by decide)
    simp only [parseType, h1, PR.orElse, parseMultiPart, tagS_append, hdx, parseUsize_natToDec x ht.1, tagS, if_true,
      hdy, parseUsize_natToDec y ht.2]
    simp [DASH5]
  | cleartext => simp [typeOk] at ht
  | pubPkcs1 k => cases k <;> rfl
  | privPkcs1 k => cases k <;> rfl
  | publicKey => rfl
  | privateKey => rfl
  | message => rfl
  | signature => rfl
  | file => rfl
  | pubPkcs8 => rfl
  | pubOpenssh => rfl
  | privPkcs8 => rfl
  | privOpenssh => rfl

theorem typeName_noColon (t : BlockType) : ∀ b ∈ typeName t, b ≠ COLON := by
  cases t with
  | multiPart x y =>
    intro b hb
    simp only [typeName, List.mem_append, List.mem_singleton] at hb
    rcases hb with ((hb | hb) | hb) | hb
    · revert b; decide
    · exact ((natToDec_spec x).2.1 b hb).2.1
    · subst hb; decide
    · exact ((natToDec_spec y).2.1 b hb).2.1
  | pubPkcs1 k => cases k <;> decide
  | privPkcs1 k => cases k <;> decide
  | _ => decide

end Rpgp.Armor

namespace Rpgp.Armor

theorem pairLines_length_ge (nl : Bytes) (ps : List (Bytes × Bytes)) : ps.length ≤ (pairLines nl ps).length := by
  induction ps with
  | nil => simp
  | cons kv r ih => simp [pairLines] at ih ⊢; omega

theorem armorHeaderLine_ok (t : BlockType) (nl R : Bytes) (ht : typeOk t = true) (hnl : IsNl nl) :
    armorHeaderLine (DASH5 ++ (asc "BEGIN " ++ (typeName t ++ (DASH5 ++ (nl ++ R))))) = .ok t R := by
  have e1 : asc "-----BEGIN " = DASH5 ++ asc "BEGIN " := by decide
  have e : DASH5 ++ (asc "BEGIN " ++ (typeName t ++ (DASH5 ++ (nl ++ R)))) =
      asc "-----BEGIN " ++ (typeName t ++ (DASH5 ++ (nl ++ R))) := by rw [e1]; simp
  rw [e]
  simp only [armorHeaderLine, tagS_append, parseType_typeName t _ ht, lineEnding_nl nl R hnl]

/-- **the header stage on well-formed armor text**: leading text without dashes, LF or CRLF line
endings, a separator line of blanks and tabs, any admissible type and header map, followed by
anything at all (the header-line parser only ever looks at one line) -/
theorem headerParser_headText (lead nl ws : Bytes) (t : BlockType) (h : Headers) (X : Bytes)
    (hlead : ∀ b ∈ lead, b ≠ 45) (hnl : IsNl nl) (hws : ∀ b ∈ ws, b = SP ∨ b = TAB)
    (ht : typeOk t = true) (hh : WFHeaders h = true) :
    headerParser (headText lead nl ws t h ++ X) = .ok (t, h, !lead.isEmpty) X := by
  obtain ⟨hps, hne, hsorted⟩ := WFHeaders_pairs h hh
  have hcl : t ≠ .cleartext := by intro e; subst e; simp [typeOk] at ht
  have e : headText lead nl ws t h ++ X =
      lead ++ (DASH5 ++ (asc "BEGIN " ++ (typeName t ++ (DASH5 ++ (nl ++ (pairLines nl (pairsOf h) ++ (ws ++ nl ++ X))))))) := by
    simp [headText, List.append_assoc]
  rw [e]
  simp only [headerParser, splitOnSub_lead lead _ hlead, armorHeaderLine_ok t nl _ ht hnl]
  have hk := kvPairs_lines nl hnl (ws ++ nl ++ X) (kvPair_blank ws nl X hws hnl) (pairsOf h)
    (pairLines nl (pairsOf h) ++ (ws ++ nl ++ X)).length hps
    (by have := pairLines_length_ge nl (pairsOf h); simp only [List.length_append]; omega)
  have hins := foldl_insert_pairs h [] (by simpa using hsorted) hne
  simp only [armorHeaders, hcl, if_false, hk, hins, List.nil_append, space0_ws ws nl X hws hnl,
    lineEnding_nl nl X hnl]

end Rpgp.Armor
