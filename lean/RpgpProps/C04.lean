import RpgpProofs.Panics
/-!
# C04 — hostile input never panics: every processing entry point returns Ok or Err  (PARTIAL)

Property text: *no byte sequence presented to the library — including messages that are
cryptographically well-formed for a key or password the recipient holds but whose decrypted or
declared contents are attacker-chosen — makes parsing, dearmoring, decrypting, … panic, abort,
overflow the stack or loop forever; the call returns a value or an error.*

What is proved here: for each modelled decision / slicing region of `RpgpModel/Panics.lean`
(every Rust index, range, `copy_from_slice`, `expect`, `unreachable!`, unsigned subtraction and
checked arithmetic written as a checked operation) the theorem `region_total : ∀ input, region
input ≠ panic`, for ALL inputs.  Every model function is a total Lean function (structural
recursion on the input list / an explicit fuel that the code's own loop bound provides), which is
the "does not loop forever" half for the modelled loops.

Where the code as it stands violates the property the full statement is kept in a comment, the
provable `…_partial` theorem carries the explicit guard, the negation is proved on a concrete
witness, and the repaired form (`…Fixed`, the candidate patch) is proved total:

* D4a  `PlainSecretParams::decrypt` V3_4 arm indexes `decrypted_key[0]` on an empty RSA plaintext
* D4c1 `SymKeyEncryptedSessionKey::decrypt` V4 arm indexes `[0]` on an empty encrypted key
* D4c2 `EncryptedSecretParams::checksum` slices `len-2` / `len-20` on shorter data
* D4c3 `Base64Reader::read` writes `into[0]` for an empty output buffer
* D4f  `aes_kw::unwrap` computes `data.len() - 8` before any check (ECDH / X25519 / X448 PKESK
       whose wrapped key is shorter than 8 octets)  — new

NOT proved (carried only by the harness runs under `catch_unwind` + watchdog + child process):
third-party crates, stack depth, allocation, and all rpgp code outside the regions below.
-/
namespace Rpgp.C04
open Rpgp Rpgp.Panics Rpgp.Panics.Out
set_option linter.unusedSimpArgs false

/-! ## constants the safety arguments depend on (re-extracted from the source on every run) -/

/-- every cipher's key fits the 42-octet HKDF output together with the longest nonce prefix -/
theorem sym_key_sizes_le_32 : ∀ e ∈ Gen.symKeySizeTable, e.2 ≤ 32 := by decide
theorem aead_nonce_ge_counter : ∀ e ∈ Gen.aeadTable, Gen.aeadSetupNonceCounter ≤ e.2.1 := by decide
theorem aead_okm_fits : ∀ e ∈ Gen.aeadTable, 32 + (e.2.1 - Gen.aeadSetupNonceCounter) ≤ Gen.aeadSetupOkmLen := by decide
theorem aead_iv_is_nonce : ∀ e ∈ Gen.aeadTable, e.2.2.1 = e.2.1 := by decide
theorem partial_mask_lt_32 : Gen.rdPartialMask + 1 ≤ 32 := by decide
theorem mpi_bits_no_u16_overflow : Gen.mpiMaxBits + Gen.mpiRound < 65536 := by decide
theorem subpacket_two_octet_no_u16_overflow :
    (Gen.spTwoOctetMax - Gen.spTwoOctetSub) * 2 ^ Gen.spTwoOctetShift + Gen.spTwoOctetAdd + 255 < 65536 := by decide
theorem pkesk_v6_min_len_covers_checksum : Gen.pkeskV6CkLen ≤ Gen.pkeskV6MinLen := by decide
theorem argon2_m_enc_no_u32_overflow : 2 ^ Gen.argon2MaxMEnc < 4294967296 := by decide
theorem armor_checksum_fits_buffer : 3 * ((Gen.armorCrcChars + 3) / 4) < Gen.armorCrcBufLen := by decide
theorem aes_kw_iv_len_is_rfc : Gen.aesKwIvLen = 8 := by decide

/-! ## regions -/

theorem pkesk_v6_total (dk : Bytes) : pkeskDecodeV6 dk ≠ .panic := by
  unfold pkeskDecodeV6
  simp only [bind_ne_panic, ensure_ne_panic, ensure_eq_ok, sub_ne_panic, sub_eq_ok, slice_ne_panic,
    sliceFrom_ne_panic, expectLen_ne_panic, checksumSimple, pure_eq, Gen.pkeskV6MinLen, Gen.pkeskV6CkLen,
    decide_eq_true_eq, true_and, ne_eq, not_false_eq_true, implies_true, and_true, reduceCtorEq]
  intro _ h
  have h : 2 ≤ dk.length := by simpa using h
  refine ⟨h, ?_⟩
  rintro n ⟨_, rfl⟩
  refine ⟨by omega, ?_⟩
  intro key _
  refine ⟨by omega, ?_⟩
  intro ck hck
  have := sliceFrom_ok_length _ _ _ hck
  omega

theorem pkesk_v3_total_partial (dk : Bytes) (h : dk ≠ []) : pkeskDecodeV3 dk ≠ .panic := by
  unfold pkeskDecodeV3
  have hl : 0 < dk.length := List.length_pos_iff.mpr h
  simp only [bind_ne_panic, idx_ne_panic, ensure_ne_panic, ensure_eq_ok, slice_ne_panic,
    expectLen_ne_panic, checksumSimple, pure_eq, Gen.pkeskV3Overhead,
    true_and, ne_eq, not_false_eq_true, implies_true, and_true, reduceCtorEq, beq_iff_eq]
  refine ⟨hl, ?_⟩
  intro a _ _ _ _ hlen
  refine ⟨by omega, ?_⟩
  intro key _
  refine ⟨by omega, ?_⟩
  intro ck hck
  have := slice_ok_length _ _ _ _ hck
  omega

theorem skesk_v4_total_partial (dk : Bytes) (h : dk ≠ []) : skeskV4Decode dk ≠ .panic := by
  unfold skeskV4Decode
  have hl : 0 < dk.length := List.length_pos_iff.mpr h
  chk_simp
  refine ⟨hl, fun a _ => ⟨by omega, fun key _ => ?_⟩⟩
  split
  · simp
  · split <;> simp

theorem aead_decrypt_in_place_total (sym aead keyLen : Nat) (opened : Option Bytes)
    (hk : symKeySize sym ≤ keyLen) :
    aeadDecryptInPlace sym aead keyLen (aeadNonceSize aead) opened ≠ .panic := by
  unfold aeadDecryptInPlace
  simp only []
  split
  · simp
  · split
    · simp
    · chk_simp
      refine ⟨⟨Nat.zero_le _, hk⟩, fun _ _ _ => ?_⟩
      split <;> simp

theorem aes_kw_unwrap_total_partial (keyLen dataLen : Nat) (h : Gen.aesKwIvLen ≤ dataLen) :
    aesKwUnwrapLen keyLen dataLen ≠ .panic := by
  unfold aesKwUnwrapLen
  chk_simp
  refine ⟨h, fun _ _ => ?_⟩
  split
  · simp
  · split <;> simp

theorem aes_kw_unwrap_panics_when_short : aesKwUnwrapLen 16 7 = .panic := by decide

theorem aes_kw_unwrap_fixed_total (keyLen dataLen : Nat) : aesKwUnwrapLenFixed keyLen dataLen ≠ .panic := by
  unfold aesKwUnwrapLenFixed
  chk_simp
  intro _ h
  exact aes_kw_unwrap_total_partial _ _ h

theorem ecdh_unpad_total (padded : Bytes) : ecdhUnpad padded ≠ .panic := by
  unfold ecdhUnpad
  chk_simp
  intro _ _ _ hne
  cases hl : padded.getLast? with
  | none =>
    have : padded = [] := List.getLast?_eq_none_iff.mp hl
    simp [this] at hne
  | some p =>
    simp only [bind_ok]
    split
    · simp
    · rename_i hp
      chk_simp
      refine ⟨by omega, ?_⟩
      rintro n ⟨_, rfl⟩
      refine ⟨by omega, fun tail _ => ?_⟩
      split
      · simp
      · chk_simp

theorem ecdh_derive_total_partial (n kekLen : Nat) (u : Option Bytes) (h : Gen.aesKwIvLen ≤ n) :
    ecdhDerive n n kekLen u ≠ .panic := by
  unfold ecdhDerive
  chk_simp
  refine ⟨Nat.le_refl _, ?_⟩
  rintro off ⟨_, rfl⟩
  refine ⟨⟨by omega, Nat.le_refl _⟩, ?_⟩
  rintro dst ⟨_, rfl⟩
  refine ⟨by omega, fun _ _ => ⟨aes_kw_unwrap_total_partial _ _ h, fun _ _ => ?_⟩⟩
  cases u with
  | none => simp
  | some p => exact ecdh_unpad_total p

theorem ecdh_derive_panics_on_short_key : ecdhDerive 7 7 16 none = .panic := by decide

theorem ecdh_derive_panics_on_len_mismatch : ecdhDerive 8 16 16 none = .panic := by decide

theorem stream_decryptor_new_total (sym aead : Nat) : streamDecryptorNew sym aead ≠ .panic := by
  unfold streamDecryptorNew
  split
  · simp
  · rename_i n h
    exact aead_setup_total_of_tag sym aead n h

theorem stream_decryptor_prefix_panicked : streamDecryptorNewPreFix 9 0 = .panic := by decide

theorem seipd2_admit_total (sym aead cs keyLen : Nat) : seipd2Admit sym aead cs keyLen ≠ .panic := by
  unfold seipd2Admit
  chk_simp
  intro _ _ _ _
  exact stream_decryptor_new_total sym aead

theorem skesk_v6_total (sym aead : Nat) (o : Option Bytes) : skeskV6Decode sym aead o ≠ .panic := by
  unfold skeskV6Decode
  chk_simp
  rw [aeadIv_eq_nonce]
  have : symKeySize sym ≤ Gen.aeadSetupOkmLen := Nat.le_trans (symKeySize_le sym) (by decide)
  exact aead_decrypt_in_place_total _ _ _ _ this

theorem skesk_v5_total (sym aead keyLen : Nat) (o : Option Bytes) (h : symKeySize sym ≤ keyLen) :
    skeskV5Decode sym aead keyLen o ≠ .panic := by
  unfold skeskV5Decode
  chk_simp
  rw [aeadIv_eq_nonce]
  exact aead_decrypt_in_place_total _ _ _ _ h

theorem skesk_v5_short_key_panics : skeskV5Decode 9 2 16 none = .panic := by decide

theorem decode_new_len_total (inp : Bytes) : decodeNewLenC inp ≠ .panic := by
  unfold decodeNewLenC
  chk_simp
  rintro ⟨o, r⟩ _
  have ho : o.toNat < 256 := o.toNat_lt
  have e1 : Gen.rdOneOctetMax = 191 := rfl
  have e2 : Gen.rdTwoOctetMax = 223 := rfl
  have e3 : Gen.rdPartialMax = 254 := rfl
  have e4 : Gen.rdTwoOctetSub = 192 := rfl
  have e5 : 2 ^ Gen.rdTwoOctetShift = 256 := rfl
  have e6 : Gen.rdTwoOctetAdd = 192 := rfl
  have e7 : Gen.rdPartialMask + 1 = 32 := rfl
  simp only []
  by_cases h1 : o.toNat ≤ Gen.rdOneOctetMax
  · rw [if_pos h1]; simp
  · rw [if_neg h1]
    by_cases h2 : o.toNat ≤ Gen.rdTwoOctetMax
    · rw [if_pos h2]
      chk_simp
      rintro ⟨a, r'⟩ _
      have ha : a.toNat < 256 := a.toNat_lt
      refine ⟨by omega, ?_⟩
      intro d hd
      rw [hd.2, e5]
      refine ⟨by omega, ?_⟩
      intro s hs
      show s + a.toNat < 4294967296
      omega
    · rw [if_neg h2]
      by_cases h3 : o.toNat ≤ Gen.rdPartialMax
      · rw [if_pos h3]
        chk_simp
        rw [e7]; omega
      · rw [if_neg h3]
        chk_simp

theorem parse_header_total (inp : Bytes) : parseHeaderC inp ≠ .panic := by
  unfold parseHeaderC
  chk_simp
  rintro ⟨h, r⟩ _
  simp only []
  split
  · chk_simp
    exact decode_new_len_total r
  · split
    · have : h.toNat % 4 = 0 ∨ h.toNat % 4 = 1 ∨ h.toNat % 4 = 2 ∨ h.toNat % 4 = 3 := by omega
      rcases this with h0 | h0 | h0 | h0 <;> simp only [h0] <;> chk_simp
    · simp

theorem enc_secret_checksum_total_partial (usage : Nat) (data : Bytes)
    (h : encSecretChecksumLen usage ≤ data.length) : encSecretChecksum usage data ≠ .panic := by
  unfold encSecretChecksum
  chk_simp
  refine ⟨h, ?_⟩
  rintro off ⟨_, rfl⟩
  omega

theorem enc_secret_checksum_panics_when_short : encSecretChecksum 254 (List.replicate 19 0) = .panic := by decide

theorem enc_secret_checksum_panics_when_short2 : encSecretChecksum 255 [0] = .panic := by decide

theorem enc_secret_checksum_fixed_total (usage : Nat) (data : Bytes) :
    encSecretChecksumFixed usage data ≠ .panic := by
  unfold encSecretChecksumFixed
  chk_simp
  omega

theorem mpi_decode_total (inp : Bytes) : mpiDecode inp ≠ .panic := by
  unfold mpiDecode
  chk_simp
  rintro ⟨hd, r⟩ _
  have e1 : Gen.mpiMaxBits = 16384 := rfl
  have e2 : Gen.mpiRound = 7 := rfl
  simp only []
  by_cases h1 : beNat hd > Gen.mpiMaxBits
  · rw [if_pos h1]; simp
  · rw [if_neg h1]
    chk_simp
    omega

theorem subpacket_len_total (inp : Bytes) : subpacketLenC inp ≠ .panic := by
  unfold subpacketLenC
  chk_simp
  rintro ⟨o, r⟩ _
  have ho : o.toNat < 256 := o.toNat_lt
  have e1 : Gen.spOneOctetMax = 191 := rfl
  have e2 : Gen.spTwoOctetMax = 254 := rfl
  have e3 : Gen.spTwoOctetSub = 192 := rfl
  have e4 : 2 ^ Gen.spTwoOctetShift = 256 := rfl
  have e5 : Gen.spTwoOctetAdd = 192 := rfl
  have e6 : Gen.spTwoOctetShift = 8 := rfl
  simp only []
  by_cases h1 : o.toNat ≤ Gen.spOneOctetMax
  · rw [if_pos h1]; simp
  · rw [if_neg h1]
    by_cases h2 : o.toNat ≤ Gen.spTwoOctetMax
    · rw [if_pos h2]
      chk_simp
      rintro ⟨a, r'⟩ _
      have ha : a.toNat < 256 := a.toNat_lt
      refine ⟨by omega, ?_⟩
      intro d hd
      rw [hd.2, e4]
      have hm : (o.toNat - Gen.spTwoOctetSub) * 256 % 65536 = (o.toNat - Gen.spTwoOctetSub) * 256 :=
        Nat.mod_eq_of_lt (by omega)
      rw [hm]
      refine ⟨by omega, fun _ _ => ⟨by omega, ?_⟩⟩
      intro s hs
      show s + a.toNat < 65536
      omega
    · rw [if_neg h2]
      chk_simp

theorem subpacket_head_total (inp : Bytes) : subpacketHeadC inp ≠ .panic := by
  unfold subpacketHeadC
  chk_simp
  refine ⟨subpacket_len_total inp, ?_⟩
  rintro ⟨len, r⟩ _ _ hne
  simp only [bne_iff_ne, ne_eq] at hne
  rintro ⟨t, r'⟩ _
  omega

theorem argon2_admit_total (t p m ks : Nat) : argon2Admit t p m ks ≠ .panic := by
  unfold argon2Admit
  chk_simp
  intro _ _ _ hm
  have : Gen.argon2MaxMEnc = 31 := rfl
  exact pow_lt_of_le_31 m (by omega)

theorem argon2_admit_bounds (t p m ks : Nat) (h : argon2Admit t p m ks = .ok ()) :
    t ≤ 32 ∧ p ≤ 32 ∧ 2 ^ m ≤ 2097152 ∧ 1 ≤ t ∧ 1 ≤ p := by
  unfold argon2Admit at h
  simp only [bind_eq_ok, ensure_eq_ok, decide_eq_true_eq, pow2u32] at h
  obtain ⟨_, ⟨h1, h2⟩, _, _, mm, hmm, _, h3, h4⟩ := h
  have e1 : Gen.argon2MaxT = 32 := rfl
  have e2 : Gen.argon2MaxP = 32 := rfl
  have e3 : Gen.argon2MemLimitKib = 2097152 := rfl
  split at hmm
  · simp at hmm
    subst hmm
    refine ⟨by omega, by omega, by omega, ?_⟩
    omega
  · simp at hmm

theorem read_checksum_total (dec : Bytes) (h : dec.length < Gen.armorCrcBufLen) : readChecksum dec ≠ .panic := by
  unfold readChecksum
  chk_simp
  exact read_checksum_loop_total _ _ _ (by simp) (by simpa using h)

theorem read_checksum_panics_on_4 : readChecksum [1, 2, 3, 4] = .panic := by decide

theorem nr_cleanup_total (repl inBuf w : Bytes) (hW : 0 < inBuf.length) (hw : w.length ≤ inBuf.length) :
    nrCleanupC repl inBuf w ≠ .panic := by
  unfold nrCleanupC
  chk_simp
  refine ⟨hW, ?_⟩
  rintro li ⟨_, rfl⟩
  refine ⟨by omega, fun lastChar _ => ?_⟩
  rw [if_neg (by omega)]
  have hlen : (w ++ List.drop w.length inBuf).length = inBuf.length := by
    simp [List.length_append, List.length_drop]; omega
  chk_simp
  rw [hlen]
  refine ⟨by omega, fun lastNow hlast => ?_⟩
  rw [idx_eq_ok] at hlast
  split
  · rename_i hc
    chk_simp
    refine ⟨by omega, ?_⟩
    rintro e ⟨_, rfl⟩
    apply nr_tail_total
    · omega
    · omega
    · omega
    · intro _ h0
      -- in_buffer[0] = LF and in_buffer[W-1] = CR, so W ≥ 2
      by_cases h1 : inBuf.length = 1
      · exfalso
        have : inBuf.length - 1 = 0 := by omega
        rw [this, h0] at hlast
        have : LF = lastNow := by simpa using hlast
        rw [hc.2] at this
        exact absurd this (by decide)
      · omega
  · apply nr_tail_total
    · omega
    · omega
    · omega
    · intro h _; omega

theorem nr_cleanup_panics_on_empty_window : nrCleanupC [13, 10] [] [] = .panic := by decide

theorem lw_write_total (N : Nat) (lb : Bytes) (st : LwState) (input : Bytes)
    (hf : st.finished = false) (hlb : lb.length ≤ 2) (hinv : st.extra.length < N ∨ st.extra = []) :
    lwWrite N lb st input ≠ .panic := by
  have hinv' : st.extra.length < N ∨ st.extra.length = 0 := by
    rcases hinv with h | h
    · exact Or.inl h
    · exact Or.inr (by simp [h])
  unfold lwWrite
  simp only [hf]
  split
  · simp_all
  · split
    · simp
    · split
      · chk_simp
        refine ⟨⟨by omega, by omega⟩, ?_⟩
        rintro n ⟨_, rfl⟩
        omega
      · split
        · chk_simp
          have hm : min st.extra.length (N + 2) = st.extra.length := Nat.min_eq_left (by omega)
          rw [hm]
          refine ⟨by omega, ?_⟩
          rintro d ⟨_, rfl⟩
          refine ⟨by omega, ?_⟩
          rintro s ⟨_, rfl⟩
          refine ⟨by omega, fun _ _ => ⟨Nat.le_refl _, fun _ _ => ?_⟩⟩
          exact lw_fill_total _ _ _ _ _ _ hlb (by omega)
        · exact lw_fill_total _ _ _ _ _ _ hlb (Nat.zero_le _)

theorem lw_write_inv (N : Nat) (lb : Bytes) (st : LwState) (input : Bytes) (r : Nat × Bytes × LwState)
    (hinv : st.extra.length < N ∨ st.extra = [])
    (h : lwWrite N lb st input = .ok r) :
    (r.2.2.extra.length < N ∨ r.2.2.extra = []) ∧ r.2.2.finished = st.finished := by
  unfold lwWrite at h
  split at h
  · simp at h
  · split at h
    · simp at h; subst h; exact ⟨hinv, rfl⟩
    · simp only [] at h
      split at h
      · rename_i hlt
        obtain ⟨_, _, h⟩ := bind_ok_elim h
        obtain ⟨_, _, h⟩ := bind_ok_elim h
        simp at h; subst h
        simp
        exact Or.inl hlt
      · split at h
        · obtain ⟨_, _, h⟩ := bind_ok_elim h
          obtain ⟨_, _, h⟩ := bind_ok_elim h
          obtain ⟨_, _, h⟩ := bind_ok_elim h
          obtain ⟨_, _, h⟩ := bind_ok_elim h
          have := lw_fill_state _ _ _ _ _ _ _ h
          exact ⟨Or.inr this.1, this.2⟩
        · have := lw_fill_state _ _ _ _ _ _ _ h
          exact ⟨Or.inr this.1, this.2⟩

theorem lw_write_all_total (N : Nat) (lb : Bytes) (hlb : lb.length ≤ 2) :
    ∀ (fuel : Nat) (st : LwState) (input : Bytes), st.finished = false →
      (st.extra.length < N ∨ st.extra = []) → lwWriteAll N lb fuel st input ≠ .panic := by
  intro fuel
  induction fuel with
  | zero => intro st input _ _; simp [lwWriteAll]
  | succ f ih =>
    intro st input hf hinv
    unfold lwWriteAll
    split
    · simp
    · rw [bind_ne_panic]
      refine ⟨lw_write_total N lb st input hf hlb hinv, ?_⟩
      rintro ⟨n, e, st'⟩ hw
      have hi := lw_write_inv N lb st input _ hinv hw
      simp only []
      split
      · simp
      · rw [bind_ne_panic]
        refine ⟨ih st' _ (hi.2.trans hf) hi.1, ?_⟩
        intro _ _
        simp

theorem s2k_iter_tail_total (pwLen coded : Nat) : s2kIterTail pwLen coded ≠ .panic := by
  unfold s2kIterTail
  simp only []
  generalize hc1 : (if s2kDecodeCount coded < 8 + pwLen then 8 + pwLen else s2kDecodeCount coded) = c1
  have hge : 8 + pwLen ≤ c1 := by rw [← hc1]; split <;> omega
  have hr := s2kReduce_le (8 + pwLen) (by omega) c1 c1 (Nat.le_refl _)
  have h1 : s2kReduce (8 + pwLen) c1 c1 ≤ 8 + pwLen := by simpa using hr.1
  split
  · chk_simp
    omega
  · chk_simp
    refine ⟨by omega, ?_⟩
    rintro c ⟨_, rfl⟩
    omega

theorem s2k_rounds_total (dsz ksz pwLen : Nat) (coded : Option Nat) (hd : 0 < dsz) :
    ∀ (todo round : Nat), round + todo = (ksz + dsz - 1) / dsz → s2kRounds dsz ksz pwLen coded todo round ≠ .panic := by
  intro todo
  induction todo with
  | zero => intro round _; simp [s2kRounds]
  | succ t ih =>
    intro round hsum
    unfold s2kRounds
    simp only []
    generalize hR : (ksz + dsz - 1) / dsz = R at hsum ⊢
    have hdm := Nat.div_add_mod (ksz + dsz - 1) dsz
    have hml := Nat.mod_lt (ksz + dsz - 1) hd
    rw [hR] at hdm
    -- P = dsz * R
    have hP1 : dsz * R ≤ ksz + dsz - 1 := by omega
    have hP2 : ksz + dsz - 1 < dsz * R + dsz := by omega
    have hRpos : 1 ≤ R := by omega
    have hrd : round * dsz ≤ (R - 1) * dsz := Nat.mul_le_mul_right _ (by omega)
    have hR1 : (R - 1) * dsz + dsz = dsz * R := by
      have : R = (R - 1) + 1 := by omega
      conv => rhs; rw [this, Nat.mul_add, Nat.mul_one, Nat.mul_comm]
    chk_simp
    refine ⟨by omega, fun _ _ => ⟨?_, fun _ _ => ⟨hRpos, ?_⟩⟩⟩
    · unfold s2kRoundFeed
      cases coded with
      | none => simp
      | some c => exact s2k_iter_tail_total pwLen c
    · rintro last ⟨_, rfl⟩
      by_cases hl : round = R - 1
      · rw [if_pos hl]
        subst hl
        refine ⟨⟨by omega, Nat.le_refl _⟩, ?_⟩
        rintro n ⟨_, rfl⟩
        refine ⟨by omega, ?_⟩
        rintro d ⟨_, rfl⟩
        refine ⟨⟨Nat.zero_le _, by omega⟩, ?_⟩
        rintro h ⟨_, rfl⟩
        refine ⟨by omega, fun _ _ => ?_⟩
        exact ih _ (by omega)
      · rw [if_neg hl]
        have hr1 : (round + 1) * dsz ≤ (R - 1) * dsz := Nat.mul_le_mul_right _ (by omega)
        have hexp : (round + 1) * dsz = round * dsz + dsz := by rw [Nat.add_mul, Nat.one_mul]
        refine ⟨⟨by omega, by omega⟩, ?_⟩
        rintro n ⟨_, rfl⟩
        refine ⟨by omega, ?_⟩
        rintro d ⟨_, rfl⟩
        refine ⟨⟨Nat.zero_le _, by omega⟩, ?_⟩
        rintro h ⟨_, rfl⟩
        refine ⟨by omega, fun _ _ => ?_⟩
        exact ih _ (by omega)

theorem s2k_derive_hashed_total (dsz : Option Nat) (ksz pwLen : Nat) (coded : Option Nat) :
    s2kDeriveHashed dsz ksz pwLen coded ≠ .panic := by
  unfold s2kDeriveHashed
  split
  · simp
  · simp
  · rename_i d hd0
    exact s2k_rounds_total d ksz pwLen coded (by
      rcases Nat.eq_zero_or_pos d with h | h
      · exact absurd (by rw [h]) (hd0)
      · exact h) _ 0 (by simp)

theorem b64_read_total_partial (intoLen : Nat) (src : List Bytes) (h : 0 < intoLen) :
    b64Read intoLen src ≠ .panic := by
  unfold b64Read
  split
  · simp
  · simp
  · exact b64_loop_total intoLen _ _ _ 0 [] (by simp) (by simpa using h)

theorem b64_read_panics_on_empty_buffer : b64Read 0 [[65]] = .panic := by decide

theorem b64_read_fixed_total (intoLen : Nat) (src : List Bytes) : b64ReadFixed intoLen src ≠ .panic := by
  unfold b64ReadFixed
  split
  · simp
  · exact b64_read_total_partial _ _ (by omega)

theorem read_cleartext_body_total (text : Bytes) : readCleartextBody text ≠ .panic :=
  clear_body_loop_total _ _


/-- admission + first AEAD call of an SEIPDv2 container: every cipher / AEAD / chunk-size octet,
every session-key length, whatever the primitive answers -/
theorem seipd2_open_total (sym aead cs keyLen : Nat) (o : Option Bytes) :
    seipd2Open sym aead cs keyLen o ≠ .panic := by
  unfold seipd2Open
  rw [bind_ne_panic]
  refine ⟨seipd2_admit_total _ _ _ _, ?_⟩
  rintro ⟨ks, n⟩ h
  -- the admission returns (key size, nonce size) of the octets
  unfold seipd2Admit at h
  obtain ⟨_, _, h⟩ := (bind_eq_ok _ _ _).mp h
  obtain ⟨_, _, h⟩ := (bind_eq_ok _ _ _).mp h
  unfold streamDecryptorNew at h
  split at h
  · simp at h
  · unfold aeadSetup at h
    obtain ⟨_, _, h⟩ := (bind_eq_ok _ _ _).mp h
    obtain ⟨_, _, h⟩ := (bind_eq_ok _ _ _).mp h
    obtain ⟨_, _, h⟩ := (bind_eq_ok _ _ _).mp h
    obtain ⟨_, _, h⟩ := (bind_eq_ok _ _ _).mp h
    obtain ⟨_, _, h⟩ := (bind_eq_ok _ _ _).mp h
    obtain ⟨_, _, h⟩ := (bind_eq_ok _ _ _).mp h
    simp at h
    obtain ⟨rfl, rfl⟩ := h
    exact aead_decrypt_in_place_total _ _ _ _ (Nat.le_refl _)

/-! ## witnesses of the violations on the pinned tree, and the repaired forms -/

/-- FULL STATEMENT (false on the pinned tree): `∀ dk, pkeskDecodeV3 dk ≠ panic`.
D4a: an RSA PKESK whose PKCS#1 plaintext is empty panics at `decrypted_key[0]`. -/
theorem pkesk_v3_panics_on_empty : pkeskDecodeV3 [] = .panic := by decide

theorem pkesk_v3_fixed_total (dk : Bytes) : pkeskDecodeV3Fixed dk ≠ .panic := by
  unfold pkeskDecodeV3Fixed
  chk_simp
  intro _ h
  exact pkesk_v3_total_partial dk (by intro h'; simp [h'] at h)

theorem pkesk_x_total (v6 : Bool) (sym : Option Nat) (key : Bytes) : pkeskDecodeX v6 sym key ≠ .panic := by
  unfold pkeskDecodeX
  split <;> simp

/-- the decoded v3/v4 session key has exactly the cipher's key length (so the CFB key slicing
downstream is in range) -/
theorem pkesk_v3_key_len (dk : Bytes) (a : Nat) (k : Bytes) (h : pkeskDecodeV3 dk = .ok (.v34 a k)) :
    k.length = symKeySize a := by
  unfold pkeskDecodeV3 at h
  obtain ⟨b, _, h⟩ := (bind_eq_ok _ _ _).mp h
  obtain ⟨_, _, h⟩ := (bind_eq_ok _ _ _).mp h
  obtain ⟨_, hl, h⟩ := (bind_eq_ok _ _ _).mp h
  obtain ⟨key, hk, h⟩ := (bind_eq_ok _ _ _).mp h
  obtain ⟨ck, _, h⟩ := (bind_eq_ok _ _ _).mp h
  obtain ⟨_, _, h⟩ := (bind_eq_ok _ _ _).mp h
  obtain ⟨_, _, h⟩ := (bind_eq_ok _ _ _).mp h
  simp at h
  obtain ⟨rfl, rfl⟩ := h
  have := slice_ok_length _ _ _ _ hk
  omega

/-- FULL STATEMENT (false on the pinned tree): `∀ dk, skeskV4Decode dk ≠ panic` (D4c1). -/
theorem skesk_v4_panics_on_empty : skeskV4Decode [] = .panic := by decide

theorem skesk_v4_fixed_total (dk : Bytes) : skeskV4DecodeFixed dk ≠ .panic := by
  unfold skeskV4DecodeFixed
  chk_simp
  intro _ h
  exact skesk_v4_total_partial dk (by intro h'; simp [h'] at h)

/-- the pre-repair `new_rfc9580` panicked for *every* AEAD octet without a row in the table
(D4b, repaired in the tree: regression) and the repaired one does not -/
theorem stream_decryptor_prefix_panicked_all (sym aead : Nat) (h : aeadRow aead = none) :
    streamDecryptorNewPreFix sym aead = .panic := by
  unfold streamDecryptorNewPreFix aeadSetup
  have hn : aeadNonceSize aead = 0 := by simp [aeadNonceSize, h]
  have hk : symKeySize sym ≤ Gen.aeadSetupOkmLen := Nat.le_trans (symKeySize_le sym) (by decide)
  simp [hn, chkRange, copyLen, sub, hk, Gen.aeadSetupNonceCounter]

/-! ## `Dearmor::read` polled again after an error (D4g, new) -/

/-- FULL STATEMENT (false on the pinned tree): `∀ steps, dearmorCalls dearmorCall .header steps ≠ panic`.
Guarded form: as long as no step has failed the reader never panics. -/
theorem dearmor_calls_total_partial (steps : List (Bool × Bool)) (h : ∀ s ∈ steps, s.1 = true) :
    ∀ st, st ≠ .temp → dearmorCalls dearmorCall st steps ≠ .panic := by
  induction steps with
  | nil => intro st _; simp [dearmorCalls]
  | cons s rest ih =>
    intro st hst
    obtain ⟨o, m⟩ := s
    have ho : o = true := h (o, m) (by simp)
    subst ho
    have hr : ∀ s ∈ rest, s.1 = true := fun s hs => h s (by simp [hs])
    cases st <;> simp [dearmorCalls, dearmorCall] at hst ⊢
    · exact ih hr _ (by simp)
    · cases m <;> simp <;> exact ih hr _ (by simp)
    · exact ih hr _ (by simp)
    · exact ih hr _ (by simp)

/-- one failed step, then any further poll: `panic!("invalid state")` -/
theorem dearmor_panics_when_polled_after_error :
    dearmorCalls dearmorCall .header [(false, false), (true, false)] = .panic := by decide

theorem dearmor_calls_fixed_total (steps : List (Bool × Bool)) :
    ∀ st, dearmorCalls dearmorCallFixed st steps ≠ .panic := by
  induction steps with
  | nil => intro st; simp [dearmorCalls]
  | cons s rest ih =>
    intro st
    obtain ⟨o, m⟩ := s
    cases st <;> cases o <;> cases m <;> simp [dearmorCalls, dearmorCallFixed, dearmorCall] <;> exact ih _

/-! ## whole sessions, and agreement with the framing model of C17 -/

theorem lw_write_all_inv (N : Nat) (lb : Bytes) :
    ∀ (fuel : Nat) (st : LwState) (input : Bytes) (r : Bytes × LwState),
      (st.extra.length < N ∨ st.extra = []) → lwWriteAll N lb fuel st input = .ok r →
      (r.2.extra.length < N ∨ r.2.extra = []) ∧ r.2.finished = st.finished := by
  intro fuel
  induction fuel with
  | zero => intro st input r hinv h; simp [lwWriteAll] at h; subst h; exact ⟨hinv, rfl⟩
  | succ f ih =>
    intro st input r hinv h
    unfold lwWriteAll at h
    split at h
    · simp at h; subst h; exact ⟨hinv, rfl⟩
    · obtain ⟨⟨n, e, st'⟩, hw, h⟩ := (bind_eq_ok _ _ _).mp h
      have hi := lw_write_inv N lb st input _ hinv hw
      simp only [] at h
      split at h
      · simp at h
      · obtain ⟨⟨more, st''⟩, hrec, h⟩ := (bind_eq_ok _ _ _).mp h
        have := ih st' _ _ hi.1 hrec
        simp at h
        subst h
        exact ⟨this.1, this.2.trans hi.2⟩

theorem nr_blocks_total (repl : Bytes) (W : Nat) (hW : 0 < W) :
    ∀ (fuel : Nat) (inBuf inp : Bytes), inBuf.length = W → nrBlocksC repl W fuel inBuf inp ≠ .panic := by
  intro fuel
  induction fuel with
  | zero => intro _ _ _; simp [nrBlocksC]
  | succ f ih =>
    intro inBuf inp hb
    unfold nrBlocksC
    have hw : (inp.take W).length ≤ inBuf.length := by simp [List.length_take]; omega
    rw [bind_ne_panic]
    refine ⟨nr_cleanup_total repl inBuf _ (by omega) hw, ?_⟩
    rintro ⟨blk, b'⟩ hr
    have hl := nr_cleanup_buf_len repl inBuf _ hw _ hr
    simp only []
    split
    · simp
    · rw [bind_ne_panic]
      refine ⟨ih _ _ (by simpa [hb] using hl), ?_⟩
      intro _ _; simp

theorem normalized_read_total (repl inp : Bytes) :
    normalizedReadC repl Gen.normalizedReaderWindow inp ≠ .panic :=
  nr_blocks_total repl _ (by decide) _ _ _ (by simp)

theorem lw_session_total (N : Nat) (lb : Bytes) (hlb : lb.length ≤ 2) :
    ∀ (chunks : List Bytes) (st : LwState), st.finished = false → (st.extra.length < N ∨ st.extra = []) →
      lwSession N lb chunks st ≠ .panic := by
  intro chunks
  induction chunks with
  | nil => intro st _ _; simp [lwSession]
  | cons c cs ih =>
    intro st hf hinv
    unfold lwSession
    rw [bind_ne_panic]
    refine ⟨lw_write_all_total N lb hlb _ st c hf hinv, ?_⟩
    rintro ⟨e, st'⟩ hw
    have hi := lw_write_all_inv N lb _ st c _ hinv hw
    simp only []
    rw [bind_ne_panic]
    refine ⟨ih st' (hi.2.trans hf) hi.1, ?_⟩
    intro _ _; simp

theorem decode_new_len_agrees (inp : Bytes) (x : Len × Bytes) :
    decodeNewLenC inp = .ok x ↔ decodeNewLen inp = some x := by
  unfold decodeNewLenC decodeNewLen
  cases inp with
  | nil => simp [read1]
  | cons o r =>
    simp only [read1, bind_ok]
    have ho : o.toNat < 256 := o.toNat_lt
    have e4 : Gen.rdTwoOctetSub = 192 := rfl
    have e1 : Gen.rdOneOctetMax = 191 := rfl
    have e7 : Gen.rdPartialMask + 1 = 32 := rfl
    by_cases h1 : o.toNat ≤ Gen.rdOneOctetMax
    · simp [h1]
    · by_cases h2 : o.toNat ≤ Gen.rdTwoOctetMax
      · simp only [h1, h2, if_true, if_false]
        cases r with
        | nil => simp
        | cons a r' =>
          have ha : a.toNat < 256 := a.toNat_lt
          have hs : sub o.toNat Gen.rdTwoOctetSub = .ok (o.toNat - Gen.rdTwoOctetSub) := by
            unfold sub; rw [if_pos (by omega)]
          simp only [bind_ok, hs]
          have e5 : 2 ^ Gen.rdTwoOctetShift = 256 := rfl
          have e6 : Gen.rdTwoOctetAdd = 192 := rfl
          have ha1 : addW 4294967296 ((o.toNat - Gen.rdTwoOctetSub) * 2 ^ Gen.rdTwoOctetShift) Gen.rdTwoOctetAdd
              = .ok ((o.toNat - Gen.rdTwoOctetSub) * 2 ^ Gen.rdTwoOctetShift + Gen.rdTwoOctetAdd) := by
            unfold addW; rw [if_pos (by rw [e5]; omega)]
          simp only [ha1, bind_ok]
          have ha2 : addW 4294967296 ((o.toNat - Gen.rdTwoOctetSub) * 2 ^ Gen.rdTwoOctetShift + Gen.rdTwoOctetAdd) a.toNat
              = .ok ((o.toNat - Gen.rdTwoOctetSub) * 2 ^ Gen.rdTwoOctetShift + Gen.rdTwoOctetAdd + a.toNat) := by
            unfold addW; rw [if_pos (by rw [e5]; omega)]
          simp [ha2]
      · by_cases h3 : o.toNat ≤ Gen.rdPartialMax
        · simp only [h1, h2, h3, if_true, if_false]
          have : shl32 (o.toNat % (Gen.rdPartialMask + 1)) = .ok (2 ^ (o.toNat % (Gen.rdPartialMask + 1))) := by
            unfold shl32; rw [if_pos (by rw [e7]; omega)]
          simp [this]
        · simp only [h1, h2, h3, if_false]
          rw [readN4]
          match r with
          | [] => simp
          | [_] => simp
          | [_, _] => simp
          | [_, _, _] => simp
          | a :: b :: c :: d :: r' => simp

theorem parse_header_agrees (inp : Bytes) (x : Hdr × Bytes) :
    parseHeaderC inp = .ok x ↔ parseHeader inp = .ok x := by
  unfold parseHeaderC parseHeader
  cases inp with
  | nil => simp [read1]
  | cons h r =>
    simp only [read1, bind_ok]
    by_cases h3 : h.toNat / 64 = 3
    · simp only [h3, if_true]
      cases hd : decodeNewLen r with
      | none =>
        have : ∀ y, decodeNewLenC r ≠ .ok y := fun y hy => by
          rw [decode_new_len_agrees] at hy; rw [hd] at hy; cases hy
        cases hc : decodeNewLenC r with
        | ok y => exact absurd hc (this y)
        | err => simp
        | panic => simp
      | some y =>
        have := (decode_new_len_agrees r y).mpr hd
        obtain ⟨l, r'⟩ := y
        simp [this]
    · by_cases h2 : h.toNat / 64 = 2
      · simp only [h3, h2, if_true, if_false]
        have hm : h.toNat % 4 = 0 ∨ h.toNat % 4 = 1 ∨ h.toNat % 4 = 2 ∨ h.toNat % 4 = 3 := by omega
        rcases hm with hm | hm | hm | hm <;> simp only [hm]
        · rw [readN1]
          match r with
          | [] => simp
          | a :: r' => simp [beNat]
        · rw [readN2]
          match r with
          | [] => simp
          | [_] => simp
          | a :: b :: r' => simp
        · rw [readN4]
          match r with
          | [] => simp
          | [_] => simp
          | [_, _] => simp
          | [_, _, _] => simp
          | a :: b :: c :: d :: r' => simp
        · simp
      · simp [h3, h2]

/-! ## the tree being checked (`…Cur`): total once the repair is present, guarded otherwise -/

theorem pkesk_v3_cur_total (dk : Bytes) (h : Gen.fixD4a = 1 ∨ dk ≠ []) : pkeskDecodeV3Cur dk ≠ .panic := by
  unfold pkeskDecodeV3Cur
  split
  · exact pkesk_v3_fixed_total dk
  · rename_i hf
    exact pkesk_v3_total_partial dk (h.resolve_left hf)

/-- `derive_session_key` never hands an empty key on -/
theorem ecdh_unpad_nonempty (padded dk : Bytes) (hdk : ecdhUnpad padded = .ok dk) : dk ≠ [] := by
  unfold ecdhUnpad at hdk
  obtain ⟨_, _, hdk⟩ := (bind_eq_ok _ _ _).mp hdk
  obtain ⟨_, _, hdk⟩ := (bind_eq_ok _ _ _).mp hdk
  cases hl : padded.getLast? with
  | none => simp [hl] at hdk
  | some p =>
    simp only [hl, bind_ok] at hdk
    split at hdk
    · simp at hdk
    · obtain ⟨_, _, hdk⟩ := (bind_eq_ok _ _ _).mp hdk
      obtain ⟨_, _, hdk⟩ := (bind_eq_ok _ _ _).mp hdk
      split at hdk
      · simp at hdk
      · obtain ⟨_, he, hdk⟩ := (bind_eq_ok _ _ _).mp hdk
        simp only [pure_eq, Out.ok.injEq] at hdk
        subst hdk
        intro h0
        rw [ensure_eq_ok] at he
        simp [h0] at he

theorem pkesk_via_ecdh_cur_total (v6 : Bool) (padded : Bytes) : pkeskDecodeViaEcdhCur v6 padded ≠ .panic := by
  unfold pkeskDecodeViaEcdhCur
  rw [bind_ne_panic]
  refine ⟨ecdh_unpad_total padded, fun dk hdk => ?_⟩
  -- `ecdhUnpad` only returns non-empty keys
  have hne : dk ≠ [] := ecdh_unpad_nonempty padded dk hdk
  cases v6
  · simp only [Bool.false_eq_true, if_false]
    exact pkesk_v3_cur_total dk (Or.inr hne)
  · simp only [if_true]
    exact pkesk_v6_total dk

theorem skesk_v4_cur_total (dk : Bytes) (h : Gen.fixD4c1 = 1 ∨ dk ≠ []) : skeskV4DecodeCur dk ≠ .panic := by
  unfold skeskV4DecodeCur
  split
  · exact skesk_v4_fixed_total dk
  · rename_i hf
    exact skesk_v4_total_partial dk (h.resolve_left hf)

theorem enc_secret_checksum_cur_total (usage : Nat) (data : Bytes)
    (h : Gen.fixD4c2 = 1 ∨ encSecretChecksumLen usage ≤ data.length) : encSecretChecksumCur usage data ≠ .panic := by
  unfold encSecretChecksumCur
  split
  · exact enc_secret_checksum_fixed_total _ _
  · rename_i hf
    exact enc_secret_checksum_total_partial _ _ (h.resolve_left hf)

theorem b64_read_cur_total (intoLen : Nat) (src : List Bytes) (h : Gen.fixD4c3 = 1 ∨ 0 < intoLen) :
    b64ReadCur intoLen src ≠ .panic := by
  unfold b64ReadCur
  split
  · exact b64_read_fixed_total _ _
  · rename_i hf
    exact b64_read_total_partial _ _ (h.resolve_left hf)

theorem aes_kw_unwrap_cur_total (keyLen dataLen : Nat) (prim : Option Bytes)
    (h : Gen.fixD4f = 1 ∨ Gen.aesKwIvLen ≤ dataLen) : aesKwUnwrapCur keyLen dataLen prim ≠ .panic := by
  unfold aesKwUnwrapCur
  split
  · simp
  · rename_i hc
    have hd : Gen.aesKwIvLen ≤ dataLen := by
      rcases h with h | h
      · by_cases hlt : dataLen < Gen.aesKwIvLen
        · exact absurd ⟨h, hlt⟩ hc
        · omega
      · exact h
    unfold aesKwUnwrap
    rw [bind_ne_panic]
    refine ⟨aes_kw_unwrap_total_partial _ _ hd, fun _ _ => ?_⟩
    cases prim <;> simp

/-- the PKESK path (`encrypted_key_len = esk.len()`): any wrapped-key length -/
theorem ecdh_derive_cur_total (n kekLen : Nat) (u : Option Bytes) (h : Gen.fixD4f = 1 ∨ Gen.aesKwIvLen ≤ n) :
    ecdhDeriveCur n n kekLen u ≠ .panic := by
  unfold ecdhDeriveCur
  split
  · simp
  · split
    · simp
    · rename_i _ hc
      have hd : Gen.aesKwIvLen ≤ n := by
        rcases h with h | h
        · by_cases hlt : n < Gen.aesKwIvLen
          · exact absurd ⟨h, Nat.le_refl _, hlt⟩ hc
          · omega
        · exact h
      exact ecdh_derive_total_partial n kekLen u hd

/-- the public function with any caller-supplied length -/
theorem ecdh_derive_cur_total_any_len (ek n kekLen : Nat) (u : Option Bytes)
    (h1 : Gen.fixEcdhLen = 1) (h2 : Gen.fixD4f = 1) : ecdhDeriveCur ek n kekLen u ≠ .panic := by
  unfold ecdhDeriveCur
  split
  · simp
  · rename_i hc1
    have hle : n ≤ ek := by
      by_cases hlt : ek < n
      · exact absurd ⟨h1, hlt⟩ hc1
      · omega
    split
    · simp
    · rename_i hc2
      have hd : Gen.aesKwIvLen ≤ ek := by
        by_cases hlt : ek < Gen.aesKwIvLen
        · exact absurd ⟨h2, hle, hlt⟩ hc2
        · omega
      unfold ecdhDerive
      chk_simp
      refine ⟨hle, ?_⟩
      rintro off ⟨_, rfl⟩
      refine ⟨⟨by omega, Nat.le_refl _⟩, ?_⟩
      rintro dst ⟨_, rfl⟩
      refine ⟨by omega, fun _ _ => ⟨aes_kw_unwrap_total_partial _ _ hd, fun _ _ => ?_⟩⟩
      cases u with
      | none => simp
      | some p => exact ecdh_unpad_total p

theorem dearmor_calls_cur_total (steps : List (Bool × Bool)) (h : Gen.fixD4g = 1 ∨ ∀ s ∈ steps, s.1 = true) :
    dearmorCalls dearmorCallCur .header steps ≠ .panic := by
  have hfun : dearmorCallCur = if Gen.fixD4g = 1 then dearmorCallFixed else dearmorCall := by
    funext st a b; unfold dearmorCallCur; split <;> rfl
  rw [hfun]
  split
  · exact dearmor_calls_fixed_total steps _
  · rename_i hf
    exact dearmor_calls_total_partial steps (h.resolve_left hf) _ (by simp)

/-! ## every encrypted container × every session key (kind, algorithm octet, length) -/

theorem cfb_new_total (sym keyLen : Nat) : cfbNew sym keyLen ≠ .panic := by
  have hpre : cfbNewPreFix sym keyLen ≠ .panic := by unfold cfbNewPreFix; split <;> simp
  unfold cfbNew cfbNewFixed
  split
  · split
    · simp
    · exact hpre
  · exact hpre

theorem sed_admit_total (legacy : Bool) (sk : SkKind) (keyLen : Nat) : sedAdmit legacy sk keyLen ≠ .panic := by
  unfold sedAdmit
  split
  · simp
  · split
    · exact cfb_new_total _ _
    · simp

theorem seipd1_admit_total (sk : SkKind) (keyLen : Nat) : seipd1Admit sk keyLen ≠ .panic := by
  unfold seipd1Admit
  split
  · exact cfb_new_total _ _
  · simp

theorem seipd2_admit_sk_total (sym aead cs : Nat) (sk : SkKind) (keyLen : Nat) :
    seipd2AdmitSk sym aead cs sk keyLen ≠ .panic := by
  unfold seipd2AdmitSk
  split
  · exact seipd2_admit_total _ _ _ _
  · simp

/-- what an admitted GnuPG-AEAD key looks like: it has the cipher's key size, and the nonce is the
packet's IV size -/
theorem gnupg_admit_ok (optIn : Bool) (sym aead : Nat) (sk : SkKind) (keyLen k n : Nat)
    (h : gnupgAdmit optIn sym aead sk keyLen = .ok (k, n)) :
    k = symKeySize sym ∧ n = aeadIvSize aead := by
  unfold gnupgAdmit at h
  split at h
  · simp at h
  · obtain ⟨_, _, h⟩ := (bind_eq_ok _ _ _).mp h
    obtain ⟨_, hl, h⟩ := (bind_eq_ok _ _ _).mp h
    rw [ensure_eq_ok] at hl
    unfold gnupgNew at h
    split at h
    · simp at h
    · simp at h
      simp at hl
      omega

theorem gnupg_admit_total (optIn : Bool) (sym aead : Nat) (sk : SkKind) (keyLen : Nat) :
    gnupgAdmit optIn sym aead sk keyLen ≠ .panic := by
  unfold gnupgAdmit
  split
  · simp
  · rw [bind_ne_panic]
    constructor
    · unfold gnupgSkCheck; cases sk <;> simp
    · intro _ _
      chk_simp
      intro _ _
      unfold gnupgNew
      split <;> simp

/-- GnuPG AEAD (tag 20): opt-in or not, every cipher and AEAD octet, every kind and length of
session key, whatever the primitive answers -/
theorem gnupg_open_total (optIn : Bool) (sym aead : Nat) (sk : SkKind) (keyLen : Nat) (o : Option Bytes) :
    gnupgOpen optIn sym aead sk keyLen o ≠ .panic := by
  unfold gnupgOpen gnupgOpenWith
  rw [bind_ne_panic]
  refine ⟨gnupg_admit_total _ _ _ _ _, ?_⟩
  rintro ⟨k, n⟩ h
  obtain ⟨rfl, rfl⟩ := gnupg_admit_ok _ _ _ _ _ _ _ h
  simp only []
  rw [aeadIv_eq_nonce]
  exact aead_decrypt_in_place_total _ _ _ _ (Nat.le_refl _)

/-- regression witness: trusting the ESK layer for a v3/v4 key's length panics for AES-256 named
next to a 16-octet key (X25519 v3 PKESK) -/
theorem gnupg_open_trusting_esk_panics :
    gnupgOpenWith gnupgAdmitTrustingEsk true 9 2 (.v34 9) 16 none = .panic := by decide

/-! ## RSA signature value of any length against a modulus of any size -/

theorem rsa_verify_pad_total (keySize sigLen : Nat) : rsaVerifyPad keySize sigLen ≠ .panic := by
  unfold rsaVerifyPad
  split
  · chk_simp
    refine ⟨by omega, ?_⟩
    rintro d ⟨_, rfl⟩
    refine ⟨⟨by omega, Nat.le_refl _⟩, ?_⟩
    rintro dst ⟨_, rfl⟩
    omega
  · simp

theorem rsa_verify_total (keySize sigLen : Nat) (valid : Bool) : rsaVerify keySize sigLen valid ≠ .panic := by
  unfold rsaVerify
  rw [bind_ne_panic]
  exact ⟨rsa_verify_pad_total _ _, fun _ _ => ensure_ne_panic _⟩

/-- regression witness: unconditional padding panics for a value one octet longer than the modulus -/
theorem rsa_verify_pad_always_panics : rsaVerifyPadAlways 256 257 = .panic := by decide

/-- … and for every longer one -/
theorem rsa_verify_pad_always_panics_all (keySize sigLen : Nat) (h : keySize < sigLen) :
    rsaVerifyPadAlways keySize sigLen = .panic := by
  unfold rsaVerifyPadAlways
  have h0 : keySize - sigLen = 0 := by omega
  have h1 : ¬ (keySize = sigLen) := by omega
  simp [h0, chkRange, copyLen, h1]

/-! ## `LiteralDataReader` polled again after an error (D4h, repaired in the tree) -/

/-- guarded form for the pre-repair definition: as long as no fill has failed it never panics -/
theorem lit_calls_prefix_total_partial (steps : List (Bool × Bool × Bool)) (h : ∀ s ∈ steps, s.2.1 = true) :
    ∀ st, st ≠ .error → litCalls litFillInnerPreFix st steps ≠ .panic := by
  induction steps with
  | nil => intro st _; simp [litCalls]
  | cons s rest ih =>
    intro st hst
    obtain ⟨e, f, sh⟩ := s
    have hf : f = true := h (e, f, sh) (by simp)
    subst hf
    have hr : ∀ s ∈ rest, s.2.1 = true := fun s hs => h s (by simp [hs])
    cases st <;> cases e <;> cases sh <;>
      simp [litCalls, litFillInnerPreFix, litIsDone] at hst ⊢ <;> exact ih hr _ (by simp)

/-- regression witness (the replay `cb 64 62 00 00 00 00 00 'abcd'`: first read fails, second panics) -/
theorem lit_prefix_panics_when_polled_after_error :
    litCalls litFillInnerPreFix .body [(true, false, false), (true, true, false)] = .panic := by decide

/-- the repaired `fill_inner`: every sequence of calls, every outcome of every fill -/
theorem lit_calls_total (steps : List (Bool × Bool × Bool)) :
    ∀ st, litCalls litFillInner st steps ≠ .panic := by
  induction steps with
  | nil => intro st; simp [litCalls]
  | cons s rest ih =>
    intro st
    obtain ⟨e, f, sh⟩ := s
    cases st <;> cases e <;> cases f <;> cases sh <;>
      simp [litCalls, litFillInner, litFillInnerPreFix, litIsDone] <;> exact ih _

theorem lit_calls_cur_total (steps : List (Bool × Bool × Bool))
    (h : Gen.fixD4h = 1 ∨ ∀ s ∈ steps, s.2.1 = true) :
    litCalls litFillInnerCur .body steps ≠ .panic := by
  have hfun : litFillInnerCur = if Gen.fixD4h = 1 then litFillInner else litFillInnerPreFix := by
    funext st a b c; unfold litFillInnerCur; split <;> rfl
  rw [hfun]
  split
  · exact lit_calls_total steps _
  · rename_i hf
    exact lit_calls_prefix_total_partial steps (h.resolve_left hf) _ (by simp)

/-- the accessor still panics in the `Error` state (open finding D4i) -/
theorem lit_is_done_panics_in_error_state : litIsDone .error true = .panic := by decide

/-! ## signature values of any shape in front of the public-key primitive -/

theorem field_pad2_total (flen rLen sLen : Nat) : fieldPad2 flen rLen sLen ≠ .panic := by
  unfold fieldPad2
  chk_simp
  intro _ hr _ hs
  refine ⟨hr, ?_⟩
  rintro a ⟨_, rfl⟩
  refine ⟨⟨by omega, by omega⟩, ?_⟩
  rintro d ⟨_, rfl⟩
  refine ⟨by omega, fun _ _ => ⟨hs, ?_⟩⟩
  rintro b ⟨_, rfl⟩
  refine ⟨⟨by omega, Nat.le_refl _⟩, ?_⟩
  rintro d2 ⟨_, rfl⟩
  omega

/-- regression witness: without the length guards a 33-octet `r` against a 32-octet field panics -/
theorem field_pad2_unguarded_panics : fieldPad2Unguarded 32 33 32 = .panic := by decide

/-- every algorithm family, every representation, every number and length of MPIs / blob length -/
theorem sig_shape_total (alg : SigAlg) (unit : Nat) (native : Bool) (lens : List Nat) (valid : Bool) :
    sigShape alg unit native lens valid ≠ .panic := by
  unfold sigShape
  split
  · exact rsa_verify_total _ _ _
  · rw [bind_ne_panic]
    exact ⟨field_pad2_total _ _ _, fun _ _ => ensure_ne_panic _⟩
  · exact ensure_ne_panic _
  · chk_simp
  · simp

end Rpgp.C04
