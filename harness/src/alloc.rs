//! Counting global allocator (C19): when the flag is on, every allocation made by the process
//! (i.e. by rpgp and everything below it) is accounted for:
//!   total  = sum of the sizes of all `alloc`/`alloc_zeroed` calls plus the new size of every `realloc`
//!   peak   = high-water mark of (bytes allocated - bytes freed) since the flag was switched on;
//!            a `realloc` is charged as "old and new block live at the same time"
//!   count  = number of alloc/realloc calls
//!   events = sizes of the first `MAX_EVENTS` alloc (`a<n>`) / realloc (`r<n>`) calls, in order
//! With the flag off the allocator is `System` plus one relaxed atomic load.
//!
//! The harness is single-threaded while measuring (helper threads only exist to provide a chosen
//! stack size and are joined inside the measured region), so plain relaxed atomics are enough.

use std::alloc::{GlobalAlloc, Layout, System};
use std::sync::atomic::{AtomicBool, AtomicIsize, AtomicUsize, Ordering::Relaxed};
use std::time::{Duration, Instant};

pub struct Counting;

const MAX_EVENTS: usize = 64;

static ON: AtomicBool = AtomicBool::new(false);
static CUR: AtomicIsize = AtomicIsize::new(0);
static PEAK: AtomicIsize = AtomicIsize::new(0);
static TOTAL: AtomicUsize = AtomicUsize::new(0);
static COUNT: AtomicUsize = AtomicUsize::new(0);
static EVN: AtomicUsize = AtomicUsize::new(0);
#[allow(clippy::declare_interior_mutable_const)]
const Z: AtomicUsize = AtomicUsize::new(0);
static EV: [AtomicUsize; MAX_EVENTS] = [Z; MAX_EVENTS];

#[inline]
fn bump_peak(candidate: isize) {
    if candidate > PEAK.load(Relaxed) {
        PEAK.store(candidate, Relaxed);
    }
}

#[inline]
fn event(is_realloc: bool, size: usize) {
    let i = EVN.fetch_add(1, Relaxed);
    if i < MAX_EVENTS {
        EV[i].store((size << 1) | is_realloc as usize, Relaxed);
    }
}

unsafe impl GlobalAlloc for Counting {
    unsafe fn alloc(&self, l: Layout) -> *mut u8 {
        if ON.load(Relaxed) {
            TOTAL.fetch_add(l.size(), Relaxed);
            COUNT.fetch_add(1, Relaxed);
            let c = CUR.fetch_add(l.size() as isize, Relaxed) + l.size() as isize;
            bump_peak(c);
            event(false, l.size());
        }
        System.alloc(l)
    }
    unsafe fn alloc_zeroed(&self, l: Layout) -> *mut u8 {
        if ON.load(Relaxed) {
            TOTAL.fetch_add(l.size(), Relaxed);
            COUNT.fetch_add(1, Relaxed);
            let c = CUR.fetch_add(l.size() as isize, Relaxed) + l.size() as isize;
            bump_peak(c);
            event(false, l.size());
        }
        System.alloc_zeroed(l)
    }
    unsafe fn dealloc(&self, p: *mut u8, l: Layout) {
        if ON.load(Relaxed) {
            CUR.fetch_sub(l.size() as isize, Relaxed);
        }
        System.dealloc(p, l)
    }
    unsafe fn realloc(&self, p: *mut u8, l: Layout, new_size: usize) -> *mut u8 {
        if ON.load(Relaxed) {
            TOTAL.fetch_add(new_size, Relaxed);
            COUNT.fetch_add(1, Relaxed);
            let before = CUR.load(Relaxed);
            bump_peak(before + new_size as isize);
            CUR.store(before + new_size as isize - l.size() as isize, Relaxed);
            event(true, new_size);
        }
        System.realloc(p, l, new_size)
    }
}

/// CPU time consumed so far by the calling thread (`CLOCK_THREAD_CPUTIME_ID`): unlike the wall clock
/// it does not advance while the thread is descheduled, so measurements stay meaningful when the
/// machine is shared with other builds.  Falls back to zero if the clock is unavailable.
pub fn thread_cpu() -> Duration {
    #[repr(C)]
    struct Timespec {
        tv_sec: i64,
        tv_nsec: i64,
    }
    extern "C" {
        fn clock_gettime(clk: i32, ts: *mut Timespec) -> i32;
    }
    const CLOCK_THREAD_CPUTIME_ID: i32 = 3;
    let mut ts = Timespec { tv_sec: 0, tv_nsec: 0 };
    // SAFETY: plain libc call writing into a properly sized local
    let rc = unsafe { clock_gettime(CLOCK_THREAD_CPUTIME_ID, &mut ts) };
    if rc != 0 {
        return Duration::ZERO;
    }
    Duration::new(ts.tv_sec as u64, ts.tv_nsec as u32)
}

#[derive(Debug, Clone, Default)]
pub struct Stats {
    pub peak: usize,
    pub total: usize,
    pub count: usize,
    /// time the measured call took: CPU time of the calling thread (user + system); the wall clock
    /// reading is kept in `wall` (if the CPU clock is unavailable, `time` = `wall`)
    pub time: Duration,
    pub wall: Duration,
    /// (is_realloc, size) of the first allocation calls
    pub events: Vec<(bool, usize)>,
}

impl Stats {
    /// `a1024,r2048,...`
    pub fn events_string(&self) -> String {
        if self.events.is_empty() {
            return "-".into();
        }
        self.events.iter().map(|(r, n)| format!("{}{}", if *r { 'r' } else { 'a' }, n)).collect::<Vec<_>>().join(",")
    }
}

/// Run `f` with the counters on; returns its value and what was counted.
pub fn measure<T>(f: impl FnOnce() -> T) -> (T, Stats) {
    CUR.store(0, Relaxed);
    PEAK.store(0, Relaxed);
    TOTAL.store(0, Relaxed);
    COUNT.store(0, Relaxed);
    EVN.store(0, Relaxed);
    let t0 = Instant::now();
    let c0 = thread_cpu();
    ON.store(true, Relaxed);
    let v = f();
    ON.store(false, Relaxed);
    let c1 = thread_cpu();
    let wall = t0.elapsed();
    let time = if c1 > c0 || (c1 == c0 && c0 != Duration::ZERO) { c1 - c0 } else { wall };
    let n = EVN.load(Relaxed).min(MAX_EVENTS);
    let events = (0..n)
        .map(|i| {
            let e = EV[i].load(Relaxed);
            (e & 1 == 1, e >> 1)
        })
        .collect();
    let peak = PEAK.load(Relaxed).max(0) as usize;
    (v, Stats { peak, total: TOTAL.load(Relaxed), count: COUNT.load(Relaxed), time, wall, events })
}
