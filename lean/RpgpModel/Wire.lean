import RpgpModel.Framing
/-!
# Wire — packet bodies: an independent RFC 9580 encoder / parser pair and `writeLen`

Every `…Parse` is a transcription of the `try_from_reader` named in its doc comment, every
`…Ser` / `…WriteLen` of the matching `Serialize::{to_writer, write_len}` — *as the code is*,
including where it is lossy or wrong (the `C05` property file states which).

Conventions
* one-octet ids are `Byte`s (the Rust enums are lossless `FromPrimitive` with a catch-all);
* fixed-size blobs (key ids, salts, time stamps, fingerprints, IVs) are `Bytes` whose length is
  fixed by the parser and required by the `…WF` predicates;
* lengths that the wire format derives (area lengths, `pub_len`, S2K lengths, header lengths) are
  not stored: the serialiser recomputes them, exactly like the code does;
* parsers are `Bytes → Option (value × rest)` for self-delimiting fields and
  `Bytes → Option value` for packet bodies (a body that is not consumed to the end is an error:
  `Packet::from_reader` "failed to consume data");
* algorithm-specific material that rpgp hands to third-party crates for validation (DSA, ECC
  points, RSA secret parts) is outside the model: `keyAlgModelled` says which public-key
  algorithm ids of key packets the model decides; all other ids are answered `unmodelled`.

Numeric thresholds come from `Gen` (re-extracted from the source on every run).
-/
namespace Rpgp.Wire
open Rpgp

/-! ## primitive readers (`parsing_reader.rs  BufReadParsing`) -/

/-- `take_bytes(n)` / `read_arr::<n>()`: exactly `n` octets or an error -/
def take (n : Nat) (b : Bytes) : Option (Bytes × Bytes) :=
  if b.length < n then none else some (b.take n, b.drop n)

/-- `read_u8` -/
def u8 : Bytes → Option (Byte × Bytes)
  | [] => none
  | x :: r => some (x, r)

/-! ## MPI (`types/mpi.rs`) -/

/-- `strip_leading_zeros` -/
def stripZeros : Bytes → Bytes
  | [] => []
  | x :: r => if x = 0 then stripZeros r else x :: r

/-- `8 - leading_zeros(x)` -/
def byteBits (x : Byte) : Nat :=
  if 128 ≤ x.toNat then 8 else if 64 ≤ x.toNat then 7 else if 32 ≤ x.toNat then 6
  else if 16 ≤ x.toNat then 5 else if 8 ≤ x.toNat then 4 else if 4 ≤ x.toNat then 3
  else if 2 ≤ x.toNat then 2 else if 1 ≤ x.toNat then 1 else 0

/-- `bit_size` -/
def bitLen : Bytes → Nat
  | [] => 0
  | x :: r => r.length * 8 + byteBits x

/-- `Mpi::try_from_reader`: two-octet bit count (≤ `MAX_EXTERN_MPI_BITS`), `(bits+7)/8` octets,
leading zero octets stripped -/
def mpiParse (b : Bytes) : Option (Bytes × Bytes) :=
  match take 2 b with
  | none => none
  | some (h, r) =>
    if Gen.mpiMaxBits < beNat h then none
    else
      match take ((beNat h + 7) / 8) r with
      | none => none
      | some (raw, r') => some (stripZeros raw, r')

/-- `Mpi::to_writer`: bit count of the stored octets (cast to `u16`), then the octets -/
def mpiSer (m : Bytes) : Bytes := be16 (bitLen m) ++ m

/-- `Mpi::write_len` -/
def mpiWriteLen (m : Bytes) : Nat := 2 + m.length

/-- value that `Mpi` can hold after parsing: no leading zero octet, at most 16384 bits -/
def MpiWF (m : Bytes) : Prop := stripZeros m = m ∧ bitLen m ≤ Gen.mpiMaxBits

instance (m : Bytes) : Decidable (MpiWF m) := by unfold MpiWF; exact inferInstance

/-- `n` MPIs in sequence -/
def mpisParse : Nat → Bytes → Option (List Bytes × Bytes)
  | 0, b => some ([], b)
  | n + 1, b =>
    match mpiParse b with
    | none => none
    | some (m, r) =>
      match mpisParse n r with
      | none => none
      | some (ms, r') => some (m :: ms, r')

def mpisSer (ms : List Bytes) : Bytes := (ms.map mpiSer).flatten
def mpisWriteLen (ms : List Bytes) : Nat := (ms.map mpiWriteLen).sum

/-! ## S2K specifier (`types/s2k.rs  StringToKey`) -/

inductive S2k where
  | simple (hash : Byte)
  | salted (hash : Byte) (salt : Bytes)
  | iterated (hash : Byte) (salt : Bytes) (count : Byte)
  | argon2 (salt : Bytes) (t p m : Byte)
  /-- `Reserved` (2), `Private` (100..110), `Other`: the type octet and the rest of the input -/
  | other (typ : Byte) (unknown : Bytes)
deriving DecidableEq, Repr

/-- `StringToKey::try_from_reader` (unknown types swallow the rest of the reader) -/
def s2kParse (b : Bytes) : Option (S2k × Bytes) :=
  match u8 b with
  | none => none
  | some (t, r) =>
    if t.toNat = 0 then
      match u8 r with
      | some (h, r1) => some (.simple h, r1)
      | none => none
    else if t.toNat = 1 then
      match u8 r with
      | some (h, r1) =>
        match take Gen.s2kSaltLen r1 with
        | some (s, r2) => some (.salted h s, r2)
        | none => none
      | none => none
    else if t.toNat = 3 then
      match u8 r with
      | some (h, r1) =>
        match take Gen.s2kSaltLen r1 with
        | some (s, r2) =>
          match u8 r2 with
          | some (c, r3) => some (.iterated h s c, r3)
          | none => none
        | none => none
      | none => none
    else if t.toNat = 4 then
      match take Gen.s2kArgonSaltLen r with
      | some (s, r1) =>
        match r1 with
        | t' :: p :: m :: r2 => some (.argon2 s t' p m, r2)
        | _ => none
      | none => none
    else some (.other t r, [])

/-- `StringToKey::to_writer` -/
def s2kSer : S2k → Bytes
  | .simple h => [0, h]
  | .salted h s => [1, h] ++ s
  | .iterated h s c => [3, h] ++ s ++ [c]
  | .argon2 s t p m => 4 :: s ++ [t, p, m]
  | .other t u => t :: u

/-- `StringToKey::write_len` -/
def s2kWriteLen : S2k → Nat
  | .simple _ => 2
  | .salted _ s => 2 + s.length
  | .iterated _ s _ => 2 + s.length + 1
  | .argon2 s _ _ _ => 1 + s.length + 3
  | .other _ u => 1 + u.length

/-- `StringToKey::len` (the v6 length octet; not implemented for unknown types) -/
def s2kLen : S2k → Option Nat
  | .simple _ => some Gen.s2kLenSimple
  | .salted _ _ => some Gen.s2kLenSalted
  | .iterated _ _ _ => some Gen.s2kLenIterated
  | .argon2 _ _ _ _ => some Gen.s2kLenArgon2
  | .other _ _ => none

def S2kWF : S2k → Prop
  | .simple _ => True
  | .salted _ s => s.length = Gen.s2kSaltLen
  | .iterated _ s _ => s.length = Gen.s2kSaltLen
  | .argon2 s _ _ _ => s.length = Gen.s2kArgonSaltLen
  | .other t _ => t.toNat ≠ 0 ∧ t.toNat ≠ 1 ∧ t.toNat ≠ 3 ∧ t.toNat ≠ 4

instance (s : S2k) : Decidable (S2kWF s) := by cases s <;> unfold S2kWF <;> exact inferInstance

/-- unknown specifier type (it swallows whatever follows it) -/
def S2k.isOther : S2k → Bool
  | .other _ _ => true
  | _ => false

/-! ## algorithm tables used by the layouts -/

/-- `SymmetricKeyAlgorithm::block_size` -/
def symBlockSize (a : Byte) : Nat :=
  if a.toNat = 1 ∨ a.toNat = 2 ∨ a.toNat = 3 ∨ a.toNat = 4 then 8
  else if 7 ≤ a.toNat ∧ a.toNat ≤ 13 then 16
  else 0

/-- `SymmetricKeyAlgorithm::key_size` -/
def symKeySize (a : Byte) : Nat :=
  match a.toNat with
  | 1 => 16 | 2 => 24 | 3 => 16 | 4 => 16
  | 7 => 16 | 8 => 24 | 9 => 32 | 10 => 32
  | 11 => 16 | 12 => 24 | 13 => 32
  | _ => 0

/-- `AeadAlgorithm::nonce_size` / `iv_size` -/
def aeadNonceSize (a : Byte) : Nat :=
  if a.toNat = 1 then Gen.aeadNonceEax else if a.toNat = 2 then Gen.aeadNonceOcb
  else if a.toNat = 3 then Gen.aeadNonceGcm else 0

/-- `AeadAlgorithm::tag_size` (`None` for unknown ids) -/
def aeadKnown (a : Byte) : Bool := a.toNat = 1 || a.toNat = 2 || a.toNat = 3

/-- `HashAlgorithm::salt_len` -/
def hashSaltLen (h : Byte) : Option Nat :=
  match h.toNat with
  | 8 => some 16 | 9 => some 24 | 10 => some 32 | 11 => some 16 | 12 => some 16 | 14 => some 32
  | _ => none

/-! ## secret-key S2K section (`types/params/secret.rs parse_secret_fields`,
`types/params/encrypted_secret.rs  to_writer / write_len`) -/

inductive S2kParams where
  | unprotected
  | legacyCfb (sym : Byte) (iv : Bytes)
  | aead (sym mode : Byte) (s2k : S2k) (nonce : Bytes)
  | cfb (sym : Byte) (s2k : S2k) (iv : Bytes)
  | malleableCfb (sym : Byte) (s2k : S2k) (iv : Bytes)
deriving DecidableEq, Repr

/-- the secret part of a key packet: protection parameters and the (encrypted, or for usage 0
plain) key material, which the model keeps opaque -/
structure Secret where
  params : S2kParams
  data : Bytes
deriving DecidableEq, Repr

/-- `impl From<&S2kParams> for u8` -/
def usageOctet : S2kParams → Byte
  | .unprotected => 0
  | .legacyCfb sym _ => sym
  | .aead .. => 253
  | .cfb .. => 254
  | .malleableCfb .. => 255

/-- S2K specifier inside the secret section: in v6 preceded by its length octet, which must agree
with `StringToKey::len` (an error for unknown specifier types) -/
def s2kInSecret (v6 : Bool) (b : Bytes) : Option (S2k × Bytes) :=
  if v6 then
    match u8 b with
    | none => none
    | some (l, r) =>
      match s2kParse r with
      | none => none
      | some (s, r') =>
        match s2kLen s with
        | none => none
        | some n => if n = l.toNat then some (s, r') else none
  else s2kParse b

/-- v6: one-octet count of the following parameter fields — read, must be non-zero, otherwise
ignored ("TODO: use s2k_len" in the source) -/
def secretCount (v6 : Bool) (r : Bytes) : Option Bytes :=
  if v6 then
    match u8 r with
    | none => none
    | some (l, r') => if l.toNat = 0 then none else some r'
  else some r

/-- the `match s2k_usage` of `parse_secret_fields` for a non-zero usage octet `u`, then `i.rest()`.
Usage octet 255 yields `S2kParams::MalleableCfb` (D5b is fixed). -/
def secretProtected (v6 : Bool) (u : Byte) (r : Bytes) : Option Secret :=
  if u.toNat = Gen.usageAead then
    match r with
    | sym :: mode :: r1 =>
      match s2kInSecret v6 r1 with
      | none => none
      | some (s, r2) =>
        match take (aeadNonceSize mode) r2 with
        | none => none
        | some (nonce, r3) => some ⟨.aead sym mode s nonce, r3⟩
    | _ => none
  else if u.toNat = Gen.usageCfb then
    match u8 r with
    | none => none
    | some (sym, r1) =>
      match s2kInSecret v6 r1 with
      | none => none
      | some (s, r2) =>
        match take (symBlockSize sym) r2 with
        | none => none
        | some (iv, r3) => some ⟨.cfb sym s iv, r3⟩
  else if u.toNat = Gen.usageMalleableCfb then
    match u8 r with
    | none => none
    | some (sym, r1) =>
      match s2kParse r1 with
      | none => none
      | some (s, r2) =>
        match take (symBlockSize sym) r2 with
        | none => none
        | some (iv, r3) => some ⟨.malleableCfb sym s iv, r3⟩
  else
    match take (symBlockSize u) r with
    | none => none
    | some (iv, r1) => some ⟨.legacyCfb u iv, r1⟩

/-- `parse_secret_fields` up to (excluding) the key material, then `i.rest()`. -/
def secretParse (v6 : Bool) (b : Bytes) : Option Secret :=
  match u8 b with
  | none => none
  | some (u, r) =>
    if u.toNat = 0 then some ⟨.unprotected, r⟩
    else
      match secretCount v6 r with
      | none => none
      | some r' => secretProtected v6 u r'

/-- the parameter fields between the usage octet (and, in v6, the count octet) and the key
material: `EncryptedSecretParams::to_writer`'s `s2k_params` buffer.  `none` where `to_writer`
fails (`s2k.len()?` on an unknown specifier in v6). -/
def secretFields (v6 : Bool) : S2kParams → Option Bytes
  | .unprotected => some []
  | .legacyCfb _ iv => some iv
  | .aead sym mode s nonce =>
    if v6 then (s2kLen s).map fun l => [sym, mode, l.toUInt8] ++ s2kSer s ++ nonce
    else some ([sym, mode] ++ s2kSer s ++ nonce)
  | .cfb sym s iv =>
    if v6 then (s2kLen s).map fun l => [sym, l.toUInt8] ++ s2kSer s ++ iv
    else some (sym :: s2kSer s ++ iv)
  | .malleableCfb sym s iv => some (sym :: s2kSer s ++ iv)

/-- `SecretParams::to_writer` -/
def secretSer (v6 : Bool) (s : Secret) : Option Bytes :=
  match s.params with
  | .unprotected => some (0 :: s.data)
  | p =>
    match secretFields v6 p with
    | none => none
    | some f =>
      if v6 then
        if f.length ≤ 255 then some (usageOctet p :: f.length.toUInt8 :: f ++ s.data) else none
      else some (usageOctet p :: f ++ s.data)

/-- `SecretParams::write_len` -/
def secretWriteLen (v6 : Bool) (s : Secret) : Nat :=
  match s.params with
  | .unprotected => 1 + s.data.length
  | .legacyCfb _ iv => 1 + iv.length + (if v6 then 1 else 0) + s.data.length
  | .aead _ _ k nonce =>
    1 + 2 + (if v6 then 1 else 0) + s2kWriteLen k + nonce.length + (if v6 then 1 else 0) + s.data.length
  | .cfb _ k iv =>
    1 + 1 + (if v6 then 1 else 0) + s2kWriteLen k + iv.length + (if v6 then 1 else 0) + s.data.length
  | .malleableCfb _ k iv =>
    1 + 1 + s2kWriteLen k + iv.length + (if v6 then 1 else 0) + s.data.length

/-- `SecretParams::from_slice`: version 6 keys may only use usage 0, 253, 254 — checked on the
*mapped* parameters -/
def secretParseChecked (v6 : Bool) (b : Bytes) : Option Secret :=
  match secretParse v6 b with
  | none => none
  | some s =>
    if v6 then
      let u := (usageOctet s.params).toNat
      if u = 0 ∨ u = Gen.usageAead ∨ u = Gen.usageCfb then some s else none
    else some s

/-- what the parser can return and the writer can write back identically (an unknown S2K specifier
type swallows the rest of the packet, so nothing may follow it) -/
def SecretWF (v6 : Bool) (s : Secret) : Prop :=
  match s.params with
  | .unprotected => True
  | .legacyCfb sym iv =>
    v6 = false ∧ 1 ≤ sym.toNat ∧ sym.toNat < Gen.usageAead ∧ iv.length = symBlockSize sym
  | .aead _ mode k nonce =>
    S2kWF k ∧ nonce.length = aeadNonceSize mode ∧ (v6 = true → (s2kLen k).isSome) ∧
      (k.isOther = true → nonce = [] ∧ s.data = [])
  | .cfb sym k iv =>
    S2kWF k ∧ iv.length = symBlockSize sym ∧ (v6 = true → (s2kLen k).isSome) ∧
      (k.isOther = true → iv = [] ∧ s.data = [])
  | .malleableCfb sym k iv =>
    -- usage 255 is not allowed in a version 6 key (`SecretParams::from_slice`)
    v6 = false ∧ S2kWF k ∧ iv.length = symBlockSize sym ∧ (k.isOther = true → iv = [] ∧ s.data = [])

/-! ## public-key material (`types/params/public.rs` and `public/{rsa,elgamal,x25519}.rs`) -/

inductive PubParams where
  /-- `PublicParams::Unknown`: v4 the rest of the packet, v6 exactly `pub_len` octets -/
  | unknown (data : Bytes)
  | rsa (n e : Bytes)
  | elgamal (p g y : Bytes)
  | x25519 (key : Bytes)
  /-- trust mode only (API-built objects, known to be valid): material of an algorithm whose
  validation rpgp delegates to a third-party crate, delimited structurally and kept opaque -/
  | blob (data : Bytes)
deriving DecidableEq, Repr

/-- public-key algorithm ids of *key packets* that the model decides -/
def keyAlgModelled (alg : Byte) : Bool :=
  let a := alg.toNat
  !(a = 17 || a = 18 || a = 19 || a = 22 || a = 26 || a = 27 || a = 28)

/-- `rsa::RsaPublicKey::new_with_max_size(n, e, MAX_KEY_SIZE)` (rsa 0.9 `check_public_with_max_size`) -/
def rsaAdmit (n e : Bytes) : Bool :=
  let nv := beNat n
  let ev := beNat e
  decide (bitLen n ≤ Gen.rsaMaxKeySize) && decide (e.length ≤ 8) && decide (ev < nv) && decide (nv % 2 = 1) &&
    decide (ev % 2 = 1) && decide (2 ≤ ev) && decide (ev ≤ 8589934591)

/-- octets an MPI occupies on the wire (no validation) -/
def mpiExtent (b : Bytes) : Option Nat :=
  match take 2 b with
  | some (h, _) => some (2 + (beNat h + 7) / 8)
  | none => none

/-- `n` MPIs starting at offset `off` -/
def mpisExtent : Nat → Nat → Bytes → Option Nat
  | 0, off, _ => some off
  | n + 1, off, b =>
    match mpiExtent (b.drop off) with
    | some e => mpisExtent n (off + e) b
    | none => none

/-- one length octet and that many octets, at offset `off` -/
def lvExtent (off : Nat) (b : Bytes) : Option Nat :=
  match b.drop off with
  | l :: _ => some (off + 1 + l.toNat)
  | [] => none

/-- wire extent of the public material of the algorithms the model does not validate
(DSA: 4 MPIs; ECDSA / EdDSALegacy: OID, MPI; ECDH: OID, MPI, KDF parameters; Ed25519, X448,
Ed448: fixed size) -/
def blobExtent (alg : Byte) (b : Bytes) : Option Nat :=
  let a := alg.toNat
  if a = 17 then mpisExtent 4 0 b
  else if a = 19 ∨ a = 22 then (lvExtent 0 b).bind fun o => mpisExtent 1 o b
  else if a = 18 then ((lvExtent 0 b).bind fun o => mpisExtent 1 o b).bind fun o => lvExtent o b
  else if a = 27 then some 32
  else if a = 26 then some 56
  else if a = 28 then some 57
  else none

/-- `PublicParams::try_from_reader(alg, len, i)` on the modelled algorithms; with `trust` the
others are delimited by `blobExtent` and kept opaque -/
def pubParamsParse (trust : Bool) (alg : Byte) (len : Option Nat) (b : Bytes) : Option (PubParams × Bytes) :=
  let a := alg.toNat
  if !keyAlgModelled alg then
    if trust then
      match blobExtent alg b with
      | some n =>
        match take n b with
        | some (d, r) => some (.blob d, r)
        | none => none
      | none => none
    else none
  else if a = 1 ∨ a = 2 ∨ a = 3 then
    match mpisParse 2 b with
    | some ([n, e], r) => if rsaAdmit n e then some (.rsa n e, r) else none
    | _ => none
  else if a = 16 ∨ a = 20 then
    match mpisParse 3 b with
    | some ([p, g, y], r) => some (.elgamal p g y, r)
    | _ => none
  else if a = 25 then
    match take 32 b with
    | some (k, r) => some (.x25519 k, r)
    | none => none
  else
    match len with
    | some n =>
      match take n b with
      | some (d, r) => some (.unknown d, r)
      | none => none
    | none => some (.unknown b, [])

def pubParamsSer : PubParams → Bytes
  | .unknown d => d
  | .rsa n e => mpiSer n ++ mpiSer e
  | .elgamal p g y => mpiSer p ++ mpiSer g ++ mpiSer y
  | .x25519 k => k
  | .blob d => d

def pubParamsWriteLen : PubParams → Nat
  | .unknown d => d.length
  | .rsa n e => mpiWriteLen n + mpiWriteLen e
  | .elgamal p g y => mpiWriteLen p + mpiWriteLen g + mpiWriteLen y
  | .x25519 _ => 32
  | .blob d => d.length

/-- which constructor an algorithm id selects -/
def pubParamsFor (alg : Byte) : PubParams → Prop
  | .unknown _ =>
    let a := alg.toNat
    keyAlgModelled alg = true ∧ ¬ (a = 1 ∨ a = 2 ∨ a = 3) ∧ ¬ (a = 16 ∨ a = 20) ∧ a ≠ 25
  | .rsa n e => (alg.toNat = 1 ∨ alg.toNat = 2 ∨ alg.toNat = 3) ∧ MpiWF n ∧ MpiWF e ∧ rsaAdmit n e = true
  | .elgamal p g y => (alg.toNat = 16 ∨ alg.toNat = 20) ∧ MpiWF p ∧ MpiWF g ∧ MpiWF y
  | .x25519 k => alg.toNat = 25 ∧ k.length = 32
  | .blob _ => False   -- opaque material is outside the theorems (correspondence only)

/-- public part of a key packet (`packet/key/public.rs PubKeyInner`) -/
structure PubKey where
  version : Byte
  created : Bytes
  /-- v2/v3 only: validity period in days (two octets); empty otherwise -/
  expDays : Bytes
  alg : Byte
  params : PubParams
deriving DecidableEq, Repr

def isV3 (v : Byte) : Bool := v.toNat = 2 || v.toNat = 3
def isV6 (v : Byte) : Bool := v.toNat = 6

/-- `public_key_parser::parse` / `secret_key_parser::parse` up to the public parameters, and
`PubKeyInner::new`'s admission rules.  `secret = true` is the secret-key variant.  Before repair
D15d (`pubLenExact = false`, kept for the regression witness) the two parsers differed: the v6
`pub_len = 0` check exists only in the public parser, and only the secret parser insists that
the public parameters use the whole `pub_len` window (`read_take`); in a public key packet what
the parameters leave unread stays in the stream and is caught by the packet-level "not fully
consumed" check.  The window is `min(pub_len, available)` octets: `read_take` does not fail on a
short stream. -/
def pubLenExact : Bool :=
  Gen.fixD15dV6PubLenExactBothParsers = 1 && Gen.fixD15dV6PubLenExactSecretParser = 1

def pubKeyParseWith (exact trust secret : Bool) (b : Bytes) : Option (PubKey × Bytes) :=
  match u8 b with
  | none => none
  | some (v, r) =>
    if isV3 v then
      match take 4 r with
      | none => none
      | some (created, r1) =>
        match take 2 r1 with
        | none => none
        | some (exp, r2) =>
          match u8 r2 with
          | none => none
          | some (alg, r3) =>
            -- PubKeyInner::new: v2/v3 keys are RSA only
            if alg.toNat = 1 ∨ alg.toNat = 2 ∨ alg.toNat = 3 then
              match pubParamsParse trust alg none r3 with
              | none => none
              | some (pp, r4) => some (⟨v, created, exp, alg, pp⟩, r4)
            else none
    else if v.toNat = 4 then
      match take 4 r with
      | none => none
      | some (created, r1) =>
        match u8 r1 with
        | none => none
        | some (alg, r2) =>
          match pubParamsParse trust alg none r2 with
          | none => none
          | some (pp, r3) => some (⟨v, created, [], alg, pp⟩, r3)
    else if v.toNat = 6 then
      match take 4 r with
      | none => none
      | some (created, r1) =>
        match u8 r1 with
        | none => none
        | some (alg, r2) =>
          match take 4 r2 with
          | none => none
          | some (l, r3) =>
            let n := beNat l
            if exact then
              -- repaired (D15d): both parsers refuse a zero count and want the parameters to fill
              -- exactly the announced window (`Take::limit() == 0`: `n` octets were there and were read)
              if n = 0 then none
              else
                match pubParamsParse trust alg (some n) (r3.take n) with
                | none => none
                | some (pp, wrest) =>
                  if wrest.isEmpty && decide (n ≤ r3.length) then some (⟨v, created, [], alg, pp⟩, r3.drop n) else none
            else if !secret && n = 0 then none
            else
              match pubParamsParse trust alg (some n) (r3.take n) with
              | none => none
              | some (pp, wrest) =>
                if secret then
                  if wrest.isEmpty then some (⟨v, created, [], alg, pp⟩, r3.drop n) else none
                else some (⟨v, created, [], alg, pp⟩, wrest ++ r3.drop n)
    else none

/-- the parsers as the tree has them (the translator reports whether both are exact) -/
def pubKeyParse (trust secret : Bool) (b : Bytes) : Option (PubKey × Bytes) :=
  pubKeyParseWith pubLenExact trust secret b

/-- `PubKeyInner::to_writer` -/
def pubKeySer (k : PubKey) : Bytes :=
  if isV3 k.version then k.version :: k.created ++ k.expDays ++ [k.alg] ++ pubParamsSer k.params
  else if isV6 k.version then
    k.version :: k.created ++ [k.alg] ++ be32 (pubParamsWriteLen k.params) ++ pubParamsSer k.params
  else k.version :: k.created ++ [k.alg] ++ pubParamsSer k.params

/-- `PubKeyInner::write_len` -/
def pubKeyWriteLen (k : PubKey) : Nat :=
  if isV3 k.version then 1 + 4 + 2 + 1 + pubParamsWriteLen k.params
  else if isV6 k.version then 1 + 4 + 1 + 4 + pubParamsWriteLen k.params
  else 1 + 4 + 1 + pubParamsWriteLen k.params

def PubKeyWF (secret : Bool) (k : PubKey) : Prop :=
  k.created.length = 4 ∧ pubParamsFor k.alg k.params ∧
  ((isV3 k.version = true ∧ k.expDays.length = 2 ∧ (k.alg.toNat = 1 ∨ k.alg.toNat = 2 ∨ k.alg.toNat = 3)) ∨
   (k.version.toNat = 4 ∧ k.expDays = []) ∨
   (k.version.toNat = 6 ∧ k.expDays = [] ∧ pubParamsWriteLen k.params < 4294967296 ∧
      ((secret = false ∨ pubLenExact = true) → pubParamsWriteLen k.params ≠ 0)))

/-! ## signature subpackets (`packet/signature/{subpacket,de,ser}.rs`) -/

/-- `SubpacketLength::try_from_reader`: (form, length) with form 1 / 2 / 5 octets -/
def subLenParse : Bytes → Option (Nat × Nat × Bytes)
  | [] => none
  | o :: r =>
    if o.toNat ≤ Gen.subLenOneMax then some (1, o.toNat, r)
    else if o.toNat ≤ Gen.subLenTwoMax then
      match r with
      | a :: r' => some (2, (o.toNat - 192) * 256 + 192 + a.toNat, r')
      | [] => none
    else
      match take 4 r with
      | some (l, r') => some (5, beNat l, r')
      | none => none

/-- `SubpacketLength::to_writer` (the form is kept as stored) -/
def subLenSer (form len : Nat) : Bytes :=
  if form = 1 then [len.toUInt8]
  else if form = 2 then [((len - 192) / 256 + 192).toUInt8, ((len - 192) % 256).toUInt8]
  else 255 :: be32 len

/-- `SubpacketLength::write_len` -/
def subLenWriteLen (form : Nat) : Nat := if form = 1 then 1 else if form = 2 then 2 else 5

/-- `SubpacketLength::encode` (used by `Subpacket::regular` / `critical`) -/
def subLenEncodeForm (len : Nat) : Nat :=
  if len ≤ Gen.subEncOneMax then 1 else if len ≤ Gen.subEncTwoMax then 2 else 5

def SubLenWF (form len : Nat) : Prop :=
  (form = 1 ∧ len ≤ 191) ∨ (form = 2 ∧ 192 ≤ len ∧ len ≤ 16319) ∨ (form = 5 ∧ len < 4294967296)

instance (f l : Nat) : Decidable (SubLenWF f l) := by unfold SubLenWF; exact inferInstance

structure Subpacket where
  /-- 1, 2 or 5: octets of the length field, kept as parsed -/
  form : Nat
  /-- declared length (type octet + data) -/
  len : Nat
  critical : Bool
  /-- subpacket type id without the critical bit -/
  typ : Byte
  /-- the data as rpgp would write it back -/
  body : Bytes
deriving DecidableEq, Repr

/-! ### UTF-8 (`str::from_utf8`) -/

def isCont (b : Byte) : Bool := 128 ≤ b.toNat && b.toNat ≤ 191

/-- strict UTF-8 validity (no overlong forms, no surrogates, ≤ U+10FFFF); returns the number of
scalar values -/
def utf8Count : Bytes → Option Nat
  | [] => some 0
  | a :: r =>
    if a.toNat < 128 then (utf8Count r).map (· + 1)
    else if 194 ≤ a.toNat ∧ a.toNat ≤ 223 then
      match r with
      | b :: r' => if isCont b then (utf8Count r').map (· + 1) else none
      | _ => none
    else if 224 ≤ a.toNat ∧ a.toNat ≤ 239 then
      match r with
      | b :: c :: r' =>
        let lo := if a.toNat = 224 then 160 else 128
        let hi := if a.toNat = 237 then 159 else 191
        if lo ≤ b.toNat ∧ b.toNat ≤ hi ∧ isCont c then (utf8Count r').map (· + 1) else none
      | _ => none
    else if 240 ≤ a.toNat ∧ a.toNat ≤ 244 then
      match r with
      | b :: c :: d :: r' =>
        let lo := if a.toNat = 240 then 144 else 128
        let hi := if a.toNat = 244 then 143 else 191
        if lo ≤ b.toNat ∧ b.toNat ≤ hi ∧ isCont c ∧ isCont d then (utf8Count r').map (· + 1) else none
      | _ => none
    else none

/-! ### per-type data: `de.rs  subpacket()` followed by `ser.rs  SubpacketData::to_writer`

`norm typ raw = some body`: the data `raw` of a subpacket of type `typ` is accepted and rpgp
writes it back as `body`; `none`: the subpacket (hence the signature) is rejected.
`emb` is the same function for embedded signature packets (type 32), supplied by the caller so
that the nesting is tied with fuel (`sigNorm`). -/

def boolOctet (b : Byte) : Byte := if b.toNat = 1 then 1 else 0

def fpLenOfVersion (v : Byte) : Option Nat :=
  if v.toNat = 4 then some 20 else if v.toNat = 5 ∨ v.toNat = 6 then some 32 else none

/-- the shapes of subpacket data that `de.rs` distinguishes -/
inductive SubKind where
  /-- exactly `n` octets, kept as they are (times, key id, trust) -/
  | fixed (n : Nat)
  /-- one octet, read as `== 1` -/
  | bool
  /-- revocation key: class (0x80 / 0xC0), algorithm, fingerprint of 20 (v4) or 32 (v5 / v6) octets -/
  | revKey
  | notationData
  /-- preferred key server, policy URI: UTF-8 -/
  | utf8
  /-- at least `n` octets (revocation reason, signature target) -/
  | atLeast (n : Nat)
  | embedded
  /-- issuer / intended-recipient fingerprint: key version 4, 5, 6 and 20 / 32 / 32 octets -/
  | fingerprint
  /-- preferred AEAD ciphersuites: pairs -/
  | even
  /-- lists, strings, key flags, features, experimental and unknown types: any octets -/
  | any
deriving DecidableEq, Repr

/-- `SubpacketType::from_u8` followed by the `match typ` of `subpacket()` -/
def subKind (typ : Byte) : SubKind :=
  let t := typ.toNat
  if t = 2 ∨ t = 3 ∨ t = 9 then .fixed 4
  else if t = 4 ∨ t = 7 ∨ t = 25 then .bool
  else if t = 5 then .fixed 2
  else if t = 12 then .revKey
  else if t = 16 then .fixed 8
  else if t = 20 then .notationData
  else if t = 24 ∨ t = 26 then .utf8
  else if t = 29 then .atLeast 1
  else if t = 31 then .atLeast 2
  else if t = 32 then .embedded
  else if t = 33 ∨ t = 35 then .fingerprint
  else if t = 39 then .even
  else .any

def normKind (emb : Bytes → Option Bytes) (k : SubKind) (raw : Bytes) : Option Bytes :=
  match k with
  | .fixed n => if raw.length = n then some raw else none
  | .bool =>
    match raw with
    | [b] => some [boolOctet b]
    | _ => none
  | .revKey =>
    match raw with
    | c :: _ =>
      if (c.toNat = 128 ∨ c.toNat = 192) ∧
          (raw.length = 2 + Gen.revKeyFpLenA ∨ raw.length = 2 + Gen.revKeyFpLenB) then some raw else none
    | [] => none
  | .notationData =>
    match raw with
    | f :: z1 :: z2 :: z3 :: n1 :: n2 :: v1 :: v2 :: rest =>
      if z1.toNat = 0 ∧ z2.toNat = 0 ∧ z3.toNat = 0 ∧ rest.length = beNat [n1, n2] + beNat [v1, v2] then
        some ((if f.toNat = 128 then 128 else 0) :: z1 :: z2 :: z3 :: n1 :: n2 :: v1 :: v2 :: rest)
      else none
    | _ => none
  | .utf8 =>
    match utf8Count raw with
    | some _ => some raw
    | none => none
  | .atLeast n => if n ≤ raw.length then some raw else none
  | .embedded =>
    -- parsed, and `subpacket()` insists that what would be written back has the declared length
    -- (so trailing octets and shortened MPIs are rejected)
    match emb raw with
    | some out => if out.length = raw.length then some out else none
    | none => none
  | .fingerprint =>
    match raw with
    | v :: fp =>
      match fpLenOfVersion v with
      | some n => if fp.length = n then some raw else none
      | none => none
    | [] => none
  | .even => if raw.length % 2 = 0 then some raw else none
  | .any => some raw

def subNorm (emb : Bytes → Option Bytes) (typ : Byte) (raw : Bytes) : Option Bytes :=
  normKind emb (subKind typ) raw

/-- `SubpacketData::write_len` as a function of the written data: its length, for every type
(key flags keep all their octets and bits; N4 and N6 are fixed) -/
def subDataWriteLen (_typ : Byte) (body : Bytes) : Nat := body.length

/-- one subpacket: `subpackets()` loop body + `subpacket()` -/
def subParse (emb : Bytes → Option Bytes) (b : Bytes) : Option (Subpacket × Bytes) :=
  match subLenParse b with
  | none => none
  | some (form, len, r) =>
    if len = 0 then none
    else
      match u8 r with
      | none => none
      | some (t, r1) =>
        match take (len - 1) r1 with
        | none => none
        | some (raw, r2) =>
          match subNorm emb (t.toNat % 128).toUInt8 raw with
          | none => none
          | some body => some (⟨form, len, decide (128 ≤ t.toNat), (t.toNat % 128).toUInt8, body⟩, r2)

/-- `impl Serialize for Subpacket`: `none` when `ensure_eq!(len, data.write_len() + 1)` fails -/
def subSer (s : Subpacket) : Option Bytes :=
  if s.len = subDataWriteLen s.typ s.body + 1 then
    some (subLenSer s.form s.len ++ [(s.typ.toNat + (if s.critical then 128 else 0)).toUInt8] ++ s.body)
  else none

/-- `Subpacket::write_len` -/
def subWriteLen (s : Subpacket) : Nat := s.len + subLenWriteLen s.form

/-- a subpacket area: `subpackets()`; `fuel` bounds the number of subpackets -/
def areaParse (emb : Bytes → Option Bytes) : Nat → Bytes → Option (List Subpacket)
  | 0, b => if b.isEmpty then some [] else none
  | fuel + 1, b =>
    if b.isEmpty then some []
    else
      match subParse emb b with
      | none => none
      | some (s, r) =>
        match areaParse emb fuel r with
        | none => none
        | some ss => some (s :: ss)

def areaSer : List Subpacket → Option Bytes
  | [] => some []
  | s :: ss =>
    match subSer s, areaSer ss with
    | some a, some b => some (a ++ b)
    | _, _ => none

def areaWriteLen (ss : List Subpacket) : Nat := (ss.map subWriteLen).sum

/-- the *hashed* area of a v4 / v6 signature: `subpackets()` followed by
`ensure_hashed_area_canonical` (`signature/de.rs`): the parsed subpackets must write back to exactly
the octets that were read — the digest covers that re-serialisation (`hash_signature_data`), so an
area the parser would normalise (boolean octet other than 0/1, notation flag octet, MPI bit
counts of an embedded signature) is refused.  Embedded signatures go through the same parser
(`emb`), so the requirement holds at every nesting level. -/
def areaParseCanon (emb : Bytes → Option Bytes) (raw : Bytes) : Option (List Subpacket) :=
  match areaParse emb (raw.length + 1) raw with
  | none => none
  | some hs => if areaSer hs = some raw then some hs else none

/-- the hashed-area octets of a v4 / v6 signature packet body, as received -/
def rawHashedArea (body : Bytes) : Bytes :=
  match body with
  | v :: _ :: _ :: _ :: r =>
    let w := if v.toNat = 6 then 4 else 2
    (r.drop w).take (beNat (r.take w))
  | _ => []

/-- a subpacket as the parser returns it / `Subpacket::regular` builds it (except that `regular`
always picks the minimal form) -/
def SubWF (emb : Bytes → Option Bytes) (s : Subpacket) : Prop :=
  SubLenWF s.form s.len ∧ s.len = s.body.length + 1 ∧ s.typ.toNat < 128 ∧
    subNorm emb s.typ s.body = some s.body ∧ subDataWriteLen s.typ s.body = s.body.length

/-! ## signature packet body (`packet/signature/{de,ser}.rs`) -/

inductive SigBytes where
  | mpis (ms : List Bytes)
  | native (b : Bytes)
deriving DecidableEq, Repr

/-- number of MPIs of `actual_signature` per public-key algorithm id; `none`: native / error -/
def sigMpiCount (pk : Byte) : Option Nat :=
  let a := pk.toNat
  if a = 1 ∨ a = 3 then some 1
  else if a = 17 ∨ a = 19 ∨ a = 22 ∨ a = 20 then some 2
  else if 100 ≤ a ∧ a ≤ 110 then some 1
  else none

/-- `actual_signature` on a body tail (must be the rest of the packet) -/
def sigBytesParse (pk : Byte) (b : Bytes) : Option SigBytes :=
  match sigMpiCount pk with
  | some n =>
    match mpisParse n b with
    | some (ms, r) => if r.isEmpty then some (.mpis ms) else none
    | none => none
  | none =>
    if pk.toNat = 16 then none
    else if pk.toNat = 27 then
      match take 64 b with
      | some (s, r) => if r.isEmpty then some (.native s) else none
      | none => none
    else some (.native b)

def sigBytesSer : SigBytes → Bytes
  | .mpis ms => mpisSer ms
  | .native b => b

def sigBytesWriteLen : SigBytes → Nat
  | .mpis ms => mpisWriteLen ms
  | .native b => b.length

inductive Sig where
  /-- v2 / v3 -/
  | v3 (ver typ : Byte) (created issuer : Bytes) (pk hash : Byte) (left : Bytes) (sig : SigBytes)
  /-- v4 (`v6 = false`, no salt) / v6 -/
  | v4 (v6 : Bool) (typ pk hash : Byte) (hashed unhashed : List Subpacket) (left salt : Bytes) (sig : SigBytes)
  /-- any other version: version octet and the rest -/
  | unknown (ver : Byte) (data : Bytes)
deriving Repr

def areaLenOctets (v6 : Bool) : Nat := if v6 then 4 else 2

/-- `Signature::try_from_reader` on a whole body -/
def sigParse (emb : Bytes → Option Bytes) (b : Bytes) : Option Sig :=
  match u8 b with
  | none => none
  | some (v, r) =>
    if v.toNat = 2 ∨ v.toNat = 3 then
      match r with
      | five :: typ :: r1 =>
        if five.toNat ≠ Gen.sigV3HashedLen then none
        else
          match take 4 r1 with
          | none => none
          | some (created, r2) =>
            match take 8 r2 with
            | none => none
            | some (issuer, r3) =>
              match r3 with
              | pk :: hash :: l1 :: l2 :: r4 =>
                match sigBytesParse pk r4 with
                | some sb => some (.v3 v typ created issuer pk hash [l1, l2] sb)
                | none => none
              | _ => none
      | _ => none
    else if v.toNat = 4 ∨ v.toNat = 6 then
      let v6 := decide (v.toNat = 6)
      match r with
      | typ :: pk :: hash :: r1 =>
        match take (areaLenOctets v6) r1 with
        | none => none
        | some (hl, r2) =>
          match take (beNat hl) r2 with
          | none => none
          | some (harea, r3) =>
            match areaParseCanon emb harea with
            | none => none
            | some hashed =>
              match take (areaLenOctets v6) r3 with
              | none => none
              | some (ul, r4) =>
                match take (beNat ul) r4 with
                | none => none
                | some (uarea, r5) =>
                  match areaParse emb (uarea.length + 1) uarea with
                  | none => none
                  | some unhashed =>
                    match take 2 r5 with
                    | none => none
                    | some (left, r6) =>
                      if v6 then
                        match u8 r6 with
                        | none => none
                        | some (sl, r7) =>
                          match take sl.toNat r7 with
                          | none => none
                          | some (salt, r8) =>
                            if hashSaltLen hash = some salt.length then
                              match sigBytesParse pk r8 with
                              | some sb => some (.v4 true typ pk hash hashed unhashed left salt sb)
                              | none => none
                            else none
                      else
                        match sigBytesParse pk r6 with
                        | some sb => some (.v4 false typ pk hash hashed unhashed left [] sb)
                        | none => none
      | _ => none
    else some (.unknown v r)

/-- `impl Serialize for Signature::to_writer`; `none` where it returns an error -/
def sigSer : Sig → Option Bytes
  | .v3 ver typ created issuer pk hash left sb =>
    some (ver :: 5 :: typ :: created ++ issuer ++ [pk, hash] ++ left ++ sigBytesSer sb)
  | .v4 v6 typ pk hash hashed unhashed left salt sb =>
    match areaSer hashed, areaSer unhashed with
    | some h, some u =>
      let lim := if v6 then 4294967296 else 65536
      if areaWriteLen hashed < lim ∧ areaWriteLen unhashed < lim ∧ salt.length < 256 then
        some ((if v6 then 6 else 4) :: typ :: pk :: hash ::
          beBytes (areaLenOctets v6) (areaWriteLen hashed) ++ h ++
          beBytes (areaLenOctets v6) (areaWriteLen unhashed) ++ u ++ left ++
          (if v6 then salt.length.toUInt8 :: salt else []) ++ sigBytesSer sb)
      else none
    | _, _ => none
  | .unknown ver data => some (ver :: data)

/-- `Signature::write_len` -/
def sigWriteLen : Sig → Nat
  | .v3 _ _ created issuer _ _ left sb => 1 + (2 + created.length + issuer.length + 2) + left.length + sigBytesWriteLen sb
  | .v4 v6 _ _ _ hashed unhashed left salt sb =>
    1 + (3 + areaLenOctets v6 + areaWriteLen hashed + areaLenOctets v6 + areaWriteLen unhashed) + left.length +
      (if v6 then 1 + salt.length else 0) + sigBytesWriteLen sb
  | .unknown _ data => 1 + data.length

/-- embedded-signature normaliser with nesting bounded by `fuel` (each level is strictly inside
the previous one, so `fuel = input length` is enough) -/
def sigNorm : Nat → Bytes → Option Bytes
  | 0, _ => none
  | fuel + 1, b =>
    match sigParse (sigNorm fuel) b with
    | none => none
    | some s => sigSer s

/-- the embedded-signature normaliser the packet parser uses: `embedded_sig` refuses to descend
once `depth = MAX_EMBEDDED_SIGNATURE_DEPTH` (signature/de.rs), i.e. a top-level signature may
carry at most that many levels of embedded signatures; `sigNorm n` accepts exactly `n` levels.
(`fuel = input length` also bounds the nesting, each level being strictly inside the previous.) -/
def embFor (b : Bytes) : Bytes → Option Bytes := sigNorm (min b.length Gen.maxEmbeddedSignatureDepth)

def SigBytesWF (pk : Byte) : SigBytes → Prop
  | .mpis ms => sigMpiCount pk = some ms.length ∧ ∀ m ∈ ms, MpiWF m
  | .native b => sigMpiCount pk = none ∧ pk.toNat ≠ 16 ∧ (pk.toNat = 27 → b.length = 64)

def SigWF (emb : Bytes → Option Bytes) : Sig → Prop
  | .v3 ver _ created issuer pk _ left sb =>
    (ver.toNat = 2 ∨ ver.toNat = 3) ∧ created.length = 4 ∧ issuer.length = 8 ∧ left.length = 2 ∧ SigBytesWF pk sb
  | .v4 v6 _ pk hash hashed unhashed left salt sb =>
    (∀ s ∈ hashed, SubWF emb s) ∧ (∀ s ∈ unhashed, SubWF emb s) ∧ left.length = 2 ∧ SigBytesWF pk sb ∧
    (if v6 then hashSaltLen hash = some salt.length ∧ areaWriteLen hashed < 4294967296 ∧ areaWriteLen unhashed < 4294967296
     else salt = [] ∧ areaWriteLen hashed < 65536 ∧ areaWriteLen unhashed < 65536)
  | .unknown ver _ => ver.toNat ≠ 2 ∧ ver.toNat ≠ 3 ∧ ver.toNat ≠ 4 ∧ ver.toNat ≠ 6

/-! ## session-key packets -/

inductive PkeskVals where
  | rsa (m : Bytes)
  | elgamal (a b : Bytes)
  | ecdh (point esk : Bytes)
  /-- X25519 (`wide = false`, 32-octet ephemeral) / X448 (`wide = true`, 56 octets) -/
  | xdh (wide : Bool) (eph : Bytes) (sym : Option Byte) (esk : Bytes)
  | other (key : Bytes)
deriving DecidableEq, Repr

inductive PkAlgClass where
  | rsa | elgamal | rest | ecdh | x25519 | x448 | unsupported
deriving DecidableEq, Repr

/-- the `match alg` of `PkeskBytes::try_from_reader` (crate built without `draft-pqc`) -/
def pkeskAlgClass (alg : Byte) : PkAlgClass :=
  let a := alg.toNat
  if a = 1 ∨ a = 2 ∨ a = 3 then .rsa
  else if a = 16 ∨ a = 20 then .elgamal
  else if a = 19 ∨ a = 17 ∨ a = 21 then .rest
  else if a = 18 then .ecdh
  else if a = 25 then .x25519
  else if a = 26 then .x448
  else if a = 22 ∨ a = 27 ∨ a = 28 ∨ (100 ≤ a ∧ a ≤ 110) then .unsupported
  else .rest

def xdhParse (wide v3 : Bool) (b : Bytes) : Option (PkeskVals × Bytes) :=
  match take (if wide then 56 else 32) b with
  | none => none
  | some (eph, r) =>
    match u8 r with
    | none => none
    | some (l, r1) =>
      if l.toNat = 0 then none
      else if v3 then
        match u8 r1 with
        | none => none
        | some (sym, r2) =>
          match take (l.toNat - 1) r2 with
          | none => none
          | some (esk, r3) => some (.xdh wide eph (some sym) esk, r3)
      else
        match take l.toNat r1 with
        | none => none
        | some (esk, r2) => some (.xdh wide eph none esk, r2)

/-- `PkeskBytes::try_from_reader(alg, version, i)` -/
def pkeskValsParse (alg : Byte) (v3 : Bool) (b : Bytes) : Option (PkeskVals × Bytes) :=
  match pkeskAlgClass alg with
  | .rsa =>
    match mpiParse b with
    | some (m, r) => some (.rsa m, r)
    | none => none
  | .elgamal =>
    match mpisParse 2 b with
    | some ([x, y], r) => some (.elgamal x y, r)
    | _ => none
  | .rest => some (.other b, [])
  | .ecdh =>
    match mpiParse b with
    | none => none
    | some (pt, r) =>
      match u8 r with
      | none => none
      | some (l, r1) =>
        match take l.toNat r1 with
        | none => none
        | some (esk, r2) => some (.ecdh pt esk, r2)
  | .x25519 => xdhParse false v3 b
  | .x448 => xdhParse true v3 b
  | .unsupported => none

/-- `impl Serialize for PkeskBytes`; `none` where a length does not fit its octet -/
def pkeskValsSer : PkeskVals → Option Bytes
  | .rsa m => some (mpiSer m)
  | .elgamal a b => some (mpiSer a ++ mpiSer b)
  | .ecdh pt esk => if esk.length < 256 then some (mpiSer pt ++ esk.length.toUInt8 :: esk) else none
  | .xdh _ eph (some sym) esk =>
    if esk.length + 1 < 256 then some (eph ++ (esk.length + 1).toUInt8 :: sym :: esk) else none
  | .xdh _ eph none esk => if esk.length < 256 then some (eph ++ esk.length.toUInt8 :: esk) else none
  | .other k => some k

def pkeskValsWriteLen : PkeskVals → Nat
  | .rsa m => mpiWriteLen m
  | .elgamal a b => mpiWriteLen a + mpiWriteLen b
  | .ecdh pt esk => mpiWriteLen pt + 1 + esk.length
  | .xdh _ eph (some _) esk => eph.length + 2 + esk.length
  | .xdh _ eph none esk => eph.length + 1 + esk.length
  | .other k => k.length

/-- fingerprint length that `Fingerprint::new(version, _)` insists on -/
def fpLenNew (v : Byte) : Option Nat :=
  if v.toNat = 2 ∨ v.toNat = 3 then some 16 else if v.toNat = 4 then some 20
  else if v.toNat = 5 ∨ v.toNat = 6 then some 32 else none

inductive Pkesk where
  | v3 (id : Bytes) (alg : Byte) (vals : PkeskVals)
  | v6 (fp : Option (Byte × Bytes)) (alg : Byte) (vals : PkeskVals)
  | other (ver : Byte) (data : Bytes)
deriving DecidableEq, Repr

/-- `PublicKeyEncryptedSessionKey::try_from_reader` on a whole body -/
def pkeskParse (b : Bytes) : Option Pkesk :=
  match u8 b with
  | none => none
  | some (v, r) =>
    if v.toNat = 3 then
      match take 8 r with
      | none => none
      | some (id, r1) =>
        match u8 r1 with
        | none => none
        | some (alg, r2) =>
          match pkeskValsParse alg true r2 with
          | some (vals, r3) => if r3.isEmpty then some (.v3 id alg vals) else none
          | none => none
    else if v.toNat = 6 then
      match u8 r with
      | none => none
      | some (l, r1) =>
        let fpr : Option (Option (Byte × Bytes) × Bytes) :=
          if l.toNat = 0 then some (none, r1)
          else
            match u8 r1 with
            | none => none
            | some (kv, r2) =>
              match take (l.toNat - 1) r2 with
              | none => none
              | some (fp, r3) => if fpLenNew kv = some fp.length then some (some (kv, fp), r3) else none
        match fpr with
        | none => none
        | some (fp, r4) =>
          match u8 r4 with
          | none => none
          | some (alg, r5) =>
            match pkeskValsParse alg false r5 with
            | some (vals, r6) => if r6.isEmpty then some (.v6 fp alg vals) else none
            | none => none
    else some (.other v r)

/-- `impl Serialize for PublicKeyEncryptedSessionKey` -/
def pkeskSer : Pkesk → Option Bytes
  | .v3 id alg vals => (pkeskValsSer vals).map fun v => 3 :: id ++ alg :: v
  | .v6 none alg vals => (pkeskValsSer vals).map fun v => 6 :: 0 :: alg :: v
  | .v6 (some (kv, fp)) alg vals =>
    (pkeskValsSer vals).map fun v => 6 :: (fp.length + 1).toUInt8 :: kv :: fp ++ alg :: v
  | .other ver data => some (ver :: data)

def pkeskWriteLen : Pkesk → Nat
  | .v3 id _ vals => 1 + id.length + 1 + pkeskValsWriteLen vals
  | .v6 none _ vals => 1 + 1 + 1 + pkeskValsWriteLen vals
  | .v6 (some (_, fp)) _ vals => 1 + 1 + 1 + fp.length + 1 + pkeskValsWriteLen vals
  | .other _ data => 1 + data.length

def PkeskValsWF (alg : Byte) (v3 : Bool) : PkeskVals → Prop
  | .rsa m => pkeskAlgClass alg = .rsa ∧ MpiWF m
  | .elgamal a b => pkeskAlgClass alg = .elgamal ∧ MpiWF a ∧ MpiWF b
  | .ecdh pt esk => pkeskAlgClass alg = .ecdh ∧ MpiWF pt ∧ esk.length < 256
  | .xdh wide eph sym esk =>
    pkeskAlgClass alg = (if wide then .x448 else .x25519) ∧ eph.length = (if wide then 56 else 32) ∧
      sym.isSome = v3 ∧ (if v3 then esk.length + 1 < 256 else (0 < esk.length ∧ esk.length < 256))
  | .other _ => pkeskAlgClass alg = .rest

/-- values the parser returns -/
def PkeskWF : Pkesk → Prop
  | .v3 id alg vals => id.length = 8 ∧ PkeskValsWF alg true vals
  | .v6 none alg vals => PkeskValsWF alg false vals
  | .v6 (some (kv, f)) alg vals => fpLenNew kv = some f.length ∧ PkeskValsWF alg false vals
  | .other ver _ => ver.toNat ≠ 3 ∧ ver.toNat ≠ 6

inductive Skesk where
  | v4 (sym : Byte) (s2k : S2k) (esk : Bytes)
  | v5 (sym : Byte) (s2k : S2k) (iv esk : Bytes)
  | v6 (sym aead : Byte) (s2k : S2k) (iv esk : Bytes)
  | other (ver : Byte) (data : Bytes)
deriving DecidableEq, Repr

/-- `SymKeyEncryptedSessionKey::try_from_reader` on a whole body -/
def skeskParse (b : Bytes) : Option Skesk :=
  match u8 b with
  | none => none
  | some (v, r) =>
    if v.toNat = 4 then
      match u8 r with
      | none => none
      | some (sym, r1) =>
        match s2kParse r1 with
        | none => none
        | some (s, r2) => some (.v4 sym s r2)
    else if v.toNat = 5 then
      match r with
      | sym :: mode :: r1 =>
        if mode.toNat ≠ 2 then none
        else
          match s2kParse r1 with
          | none => none
          | some (s, r2) =>
            match take (aeadNonceSize 2) r2 with
            | none => none
            | some (iv, r3) =>
              match take (symKeySize sym + 16) r3 with
              | none => none
              | some (esk, r4) => if r4.isEmpty then some (.v5 sym s iv esk) else none
      | _ => none
    else if v.toNat = 6 then
      match r with
      | _count :: sym :: aead :: sl :: r1 =>
        -- the S2K specifier is read through a `Take` of `sl` octets of the same reader: what it
        -- does not consume stays in the stream
        match s2kParse (r1.take sl.toNat) with
        | none => none
        | some (s, wrest) =>
          match take (aeadNonceSize aead) (wrest ++ r1.drop sl.toNat) with
          | none => none
          | some (iv, esk) =>
            -- what `to_writer` puts into the count octet must fit it (N7 fixed)
            if Gen.wireSkesk6FieldsMax < 3 + s2kWriteLen s + iv.length then none
            else if !aeadKnown aead then none
            else if esk.length < 16 then none
            else some (.v6 sym aead s iv esk)
      | _ => none
    else some (.other v r)

/-- `impl Serialize for SymKeyEncryptedSessionKey` -/
def skeskSer : Skesk → Option Bytes
  | .v4 sym s esk => some (4 :: sym :: s2kSer s ++ esk)
  | .v5 sym s iv esk => some (5 :: sym :: 2 :: s2kSer s ++ iv ++ esk)
  | .v6 sym aead s iv esk =>
    if 3 + s2kWriteLen s + iv.length < 256 then
      some (6 :: (3 + s2kWriteLen s + iv.length).toUInt8 :: sym :: aead :: (s2kWriteLen s).toUInt8 ::
        s2kSer s ++ iv ++ esk)
    else none
  | .other ver data => some (ver :: data)

def skeskWriteLen : Skesk → Nat
  | .v4 _ s esk => 2 + s2kWriteLen s + esk.length
  | .v5 _ s iv esk => 3 + s2kWriteLen s + iv.length + esk.length
  | .v6 _ _ s iv esk => 3 + s2kWriteLen s + 1 + iv.length + 1 + esk.length
  | .other _ data => 1 + data.length

def SkeskWF : Skesk → Prop
  | .v4 _ s esk => S2kWF s ∧ (s.isOther = true → esk = [])
  | .v5 sym s iv esk => S2kWF s ∧ s.isOther = false ∧ iv.length = aeadNonceSize 2 ∧ esk.length = symKeySize sym + 16
  | .v6 _ aead s iv esk =>
    S2kWF s ∧ aeadKnown aead = true ∧ iv.length = aeadNonceSize aead ∧ 16 ≤ esk.length ∧
      3 + s2kWriteLen s + iv.length < 256
  | .other ver _ => ver.toNat ≠ 4 ∧ ver.toNat ≠ 5 ∧ ver.toNat ≠ 6

/-! ## one-pass signature (`packet/one_pass_signature.rs`) -/

inductive Ops where
  | v3 (typ hash pk : Byte) (keyId : Bytes) (last : Byte)
  | v6 (typ hash pk : Byte) (salt fp : Bytes) (last : Byte)
  | unknown (ver typ hash pk : Byte) (data : Bytes) (last : Byte)
deriving DecidableEq, Repr

def splitLast : Bytes → Option (Bytes × Byte)
  | [] => none
  | [x] => some ([], x)
  | x :: r =>
    match splitLast r with
    | some (i, l) => some (x :: i, l)
    | none => none

def opsParse (b : Bytes) : Option Ops :=
  match b with
  | v :: typ :: hash :: pk :: r =>
    if v.toNat = 3 then
      match take 8 r with
      | some (id, [last]) => some (.v3 typ hash pk id last)
      | _ => none
    else if v.toNat = 6 then
      match u8 r with
      | none => none
      | some (sl, r1) =>
        match take sl.toNat r1 with
        | none => none
        | some (salt, r2) =>
          match take 32 r2 with
          | some (fp, [last]) => some (.v6 typ hash pk salt fp last)
          | _ => none
    else
      match splitLast r with
      | some (d, last) => some (.unknown v typ hash pk d last)
      | none => none
  | _ => none

def opsSer : Ops → Option Bytes
  | .v3 typ hash pk id last => some (3 :: typ :: hash :: pk :: id ++ [last])
  | .v6 typ hash pk salt fp last =>
    if salt.length < 256 then some (6 :: typ :: hash :: pk :: salt.length.toUInt8 :: salt ++ fp ++ [last]) else none
  | .unknown v typ hash pk d last => some (v :: typ :: hash :: pk :: d ++ [last])

def opsWriteLen : Ops → Nat
  | .v3 _ _ _ id _ => 5 + id.length
  | .v6 _ _ _ salt fp _ => 5 + (1 + salt.length + fp.length)
  | .unknown _ _ _ _ d _ => 5 + d.length

def OpsWF : Ops → Prop
  | .v3 _ _ _ id _ => id.length = 8
  | .v6 _ _ _ salt fp _ => salt.length < 256 ∧ fp.length = 32
  | .unknown ver .. => ver.toNat ≠ 3 ∧ ver.toNat ≠ 6

/-! ## data packets and the small ones -/

structure Literal where
  mode : Byte
  name : Bytes
  created : Bytes
  data : Bytes
deriving DecidableEq, Repr

def literalParse (b : Bytes) : Option Literal :=
  match b with
  | mode :: nl :: r =>
    match take nl.toNat r with
    | none => none
    | some (name, r1) =>
      match take 4 r1 with
      | none => none
      | some (created, data) => some ⟨mode, name, created, data⟩
  | _ => none

def literalSer (l : Literal) : Option Bytes :=
  if l.name.length < 256 then some (l.mode :: l.name.length.toUInt8 :: l.name ++ l.created ++ l.data) else none

def literalWriteLen (l : Literal) : Nat := 2 + l.name.length + l.created.length + l.data.length

def LiteralWF (l : Literal) : Prop := l.name.length < 256 ∧ l.created.length = 4

inductive Seipd where
  | v1 (data : Bytes)
  | v2 (sym aead chunk : Byte) (salt data : Bytes)
deriving DecidableEq, Repr

def seipdParse (b : Bytes) : Option Seipd :=
  match b with
  | v :: r =>
    if v.toNat = 1 then some (.v1 r)
    else if v.toNat = 2 then
      match r with
      | sym :: aead :: chunk :: r1 =>
        if Gen.chunkSizeMax < chunk.toNat then none
        else
          match take 32 r1 with
          | some (salt, data) => some (.v2 sym aead chunk salt data)
          | none => none
      | _ => none
    else none
  | [] => none

def seipdSer : Seipd → Bytes
  | .v1 d => 1 :: d
  | .v2 sym aead chunk salt d => 2 :: sym :: aead :: chunk :: salt ++ d

def seipdWriteLen : Seipd → Nat
  | .v1 d => 1 + d.length
  | .v2 _ _ _ salt d => 4 + salt.length + d.length

def SeipdWF : Seipd → Prop
  | .v1 _ => True
  | .v2 _ _ chunk salt _ => chunk.toNat ≤ Gen.chunkSizeMax ∧ salt.length = 32

/-! ## packets -/

inductive Body where
  | sig (s : Sig)
  | ops (o : Ops)
  | pkesk (p : Pkesk)
  | skesk (s : Skesk)
  | pubKey (k : PubKey)
  | secKey (k : PubKey) (s : Secret)
  | literal (l : Literal)
  | seipd (s : Seipd)
  | compressed (alg : Byte) (data : Bytes)
  | marker
  | trust
  /-- `UserId`, `Padding`, `SymEncryptedData`: the body as it is -/
  | raw (data : Bytes)
  | mdc (hash : Bytes)
deriving Repr

inductive TagClass where
  | sig | ops | pkesk | skesk | pubKey | secKey | literal | seipd | compressed | marker | trust | raw | mdc
  /-- user attribute (17), GnuPG AEAD (20): parsed by rpgp, not modelled -/
  | unmodelled
  /-- reserved / unassigned / experimental ids: `Packet::from_reader` returns an error -/
  | invalid
deriving DecidableEq, Repr

/-- `Packet::from_reader`'s `match packet_header.tag()` -/
def tagClass (tag : Nat) : TagClass :=
  match tag with
  | 1 => .pkesk | 2 => .sig | 3 => .skesk | 4 => .ops
  | 5 => .secKey | 6 => .pubKey | 7 => .secKey | 14 => .pubKey
  | 8 => .compressed | 9 => .raw | 10 => .marker | 11 => .literal | 12 => .trust | 13 => .raw
  | 17 => .unmodelled | 18 => .seipd | 19 => .mdc | 20 => .unmodelled | 21 => .raw
  | _ => .invalid

inductive PErr where
  /-- `PacketParser` yields `None` -/
  | eof
  /-- `Some(Err(_))` -/
  | bad
  | unmodelled
deriving DecidableEq, Repr

/-- `checksum::SimpleChecksum`: sum of the octets modulo 65536, big endian -/
def sum16 (b : Bytes) : Bytes := be16 ((b.foldl (fun acc x => acc + x.toNat) 0) % 65536)

/-- unprotected key material (usage octet 0): `PlainSecretParams::try_from_reader` followed by
`PlainSecretParams::to_writer`, for the algorithms the model decides.  v3/v4 material carries a
two-octet checksum (over the stored octets; before the repair of D8e over the *re-serialised*
material) and must be consumed completely; what is written back is the library's own encoding; v6
material has neither (and what follows it is ignored, the reader being a slice).
`none` = rejected, `some none` = not modelled (RSA / opaque material without `trust`). -/
def plainNorm (trust : Bool) (ver : Byte) (pp : PubParams) (d : Bytes) : Option (Option Bytes) :=
  let old := isV3 ver || ver.toNat = 4
  let finish (raw rest : Bytes) : Option (Option Bytes) :=
    if old then
      -- the octets as stored (D8e repaired: the checksum covers these, not the re-serialisation)
      let stored := d.take (d.length - rest.length)
      match take 2 rest with
      | some (ck, r) =>
        if ck = sum16 (if Gen.fixD8eChecksumOverStoredOctets = 1 then stored else raw) ∧ r.isEmpty
        then some (some (raw ++ sum16 raw)) else none
      | none => none
    else some (some raw)
  match pp with
  | .unknown _ => if old then none else some (some d)
  | .x25519 _ =>
    match take 32 d with
    | some (k, r) => finish k r
    | none => none
  | .elgamal _ _ _ =>
    match mpiParse d with
    | some (x, r) => finish (mpiSer x) r
    | none => none
  | .rsa _ _ => if trust then some (some d) else some none
  | .blob _ => if trust then some (some d) else some none

/-- secret key packet body: public part, then the secret section on the rest -/
def secKeyParse (trust : Bool) (b : Bytes) : Except PErr (PubKey × Secret) :=
  match pubKeyParse trust true b with
  | none => .error .bad
  | some (k, r) =>
    match secretParseChecked (isV6 k.version) r with
    | none => .error .bad
    | some s =>
      match s.params with
      | .unprotected =>
        match plainNorm trust k.version k.params s.data with
        | none => .error .bad
        | some none => .error .unmodelled
        | some (some d) => .ok (k, ⟨.unprotected, d⟩)
      | _ => .ok (k, s)

def optB (o : Option Body) : Except PErr Body :=
  match o with
  | some b => .ok b
  | none => .error .bad

/-- body parser per tag class (the whole body must be consumed) -/
def bodyParse (trust : Bool) (c : TagClass) (b : Bytes) : Except PErr Body :=
  match c with
  | .sig => optB ((sigParse (embFor b) b).map .sig)
  | .ops => optB ((opsParse b).map .ops)
  | .pkesk => optB ((pkeskParse b).map .pkesk)
  | .skesk => optB ((skeskParse b).map .skesk)
  | .pubKey =>
    match pubKeyParse trust false b with
    | some (k, r) => if r.isEmpty then .ok (.pubKey k) else .error .bad
    | none => .error .bad
  | .secKey =>
    match secKeyParse trust b with
    | .ok ks => .ok (.secKey ks.1 ks.2)
    | .error e => .error e
  | .literal => optB ((literalParse b).map .literal)
  | .seipd => optB ((seipdParse b).map .seipd)
  | .compressed =>
    match b with
    | a :: d => .ok (.compressed a d)
    | [] => .error .bad
  | .marker => if b = [80, 71, 80] then .ok .marker else .error .bad
  | .trust => .ok .trust
  | .raw => .ok (.raw b)
  | .mdc => if b.length = Gen.mdcHashLen then .ok (.mdc b) else .error .bad
  | .unmodelled => .error .unmodelled
  | .invalid => .error .bad

/-- `Serialize::to_writer` of the packet body; `none` = the writer returns an error -/
def bodySer : Body → Option Bytes
  | .sig s => sigSer s
  | .ops o => opsSer o
  | .pkesk p => pkeskSer p
  | .skesk s => skeskSer s
  | .pubKey k => some (pubKeySer k)
  | .secKey k s => (secretSer (isV6 k.version) s).map fun t => pubKeySer k ++ t
  | .literal l => literalSer l
  | .seipd s => some (seipdSer s)
  | .compressed a d => some (a :: d)
  | .marker => some [80, 71, 80]
  | .trust => some []
  | .raw d => some d
  | .mdc h => some h

/-- `Serialize::write_len` of the packet body -/
def bodyWriteLen : Body → Nat
  | .sig s => sigWriteLen s
  | .ops o => opsWriteLen o
  | .pkesk p => pkeskWriteLen p
  | .skesk s => skeskWriteLen s
  | .pubKey k => pubKeyWriteLen k
  | .secKey k s => pubKeyWriteLen k + secretWriteLen (isV6 k.version) s
  | .literal l => literalWriteLen l
  | .seipd s => seipdWriteLen s
  | .compressed _ d => 1 + d.length
  | .marker => 3
  | .trust => 0
  | .raw d => d.length
  | .mdc h => h.length

def bodyClass : Body → TagClass
  | .sig _ => .sig | .ops _ => .ops | .pkesk _ => .pkesk | .skesk _ => .skesk
  | .pubKey _ => .pubKey | .secKey _ _ => .secKey | .literal _ => .literal | .seipd _ => .seipd
  | .compressed _ _ => .compressed | .marker => .marker | .trust => .trust | .raw _ => .raw
  | .mdc _ => .mdc

/-- well-formed packet bodies: what the parser returns and the writer writes back identically.
`emb` is the embedded-signature normaliser in force (`embFor` of the body's serialisation). -/
def BodyWF (trust : Bool) (emb : Bytes → Option Bytes) : Body → Prop
  | .sig s => SigWF emb s
  | .ops o => OpsWF o
  | .pkesk p => PkeskWF p
  | .skesk s => SkeskWF s
  | .pubKey k => PubKeyWF false k
  | .secKey k s =>
    PubKeyWF true k ∧ SecretWF (isV6 k.version) s ∧
      (k.version.toNat ≠ 6 → ∀ d, k.params ≠ .unknown d) ∧
      (s.params = .unprotected → plainNorm trust k.version k.params s.data = some (some s.data))
  | .literal l => LiteralWF l
  | .seipd s => SeipdWF s
  | .compressed _ _ => True
  | .marker => True
  | .trust => True
  | .raw _ => True
  | .mdc h => h.length = Gen.mdcHashLen

structure Packet where
  hdr : Hdr
  body : Body
deriving Repr

/-- is the algorithm of a key packet body inside the model? (octet 5 in v4/v6; v2/v3 keys of any non-RSA algorithm are rejected by `PubKeyInner::new`) -/
def keyBodyModelled (b : Bytes) : Bool :=
  match b with
  | v :: r =>
    if v.toNat = 4 ∨ v.toNat = 6 then
      match r.drop 4 with
      | a :: _ => keyAlgModelled a
      | [] => true
    else true
  | [] => true

/-- `PacketParser::next`: header, body (all framings of C17), typed body -/
def packetParse (trust : Bool) (inp : Bytes) : Except PErr (Packet × Bytes) :=
  match deframe inp with
  | .error .eof => .error .eof
  | .error .bad => .error .bad
  | .ok (h, b, rest) =>
    let c := tagClass h.tag
    if !trust ∧ (c = .pubKey ∨ c = .secKey) ∧ keyBodyModelled b = false then .error .unmodelled
    else
      match bodyParse trust c b with
      | .ok body => .ok (⟨h, body⟩, rest)
      | .error e => .error e

/-- header length as `PacketHeaderVersion::header_len` computes it (tag octet included) -/
def headerLenFn (newFormat : Bool) (n : Nat) : Nat :=
  if newFormat then (if n < Gen.hlNewOneOctetLimit then 2 else if n < Gen.hlNewTwoOctetLimit then 3 else 6)
  else (if n < Gen.hlOldOneOctetLimit then 2 else if n < Gen.hlOldTwoOctetLimit then 3 else 5)

/-- `PacketHeader::write_len` of the *stored* header (no longer used by `write_len_with_header`) -/
def hdrWriteLen (h : Hdr) : Nat :=
  match h.len with
  | .fixed n =>
    if h.newFormat then
      1 + (if n < Gen.phwNewOneOctetLimit then 1 else if n < Gen.phwNewTwoOctetLimit then 2 else 5)
    else
      -- (a header made by `from_parts`: its length type is `old_fixed_type n`, and `write_len`
      --  follows the length type stored in the header octet)
      (if n < Gen.oftOneOctetLimit then Gen.phwOldType0Len
       else if n < Gen.oftTwoOctetLimit then Gen.phwOldType1Len else Gen.phwOldType2Len)
  | .part _ => 2
  | .indet => 1

/-- `PacketTrait::to_writer_with_header`: for `Fixed` *and* `Partial` stored lengths
(`maybe_len()` is `Some` for both) a fresh fixed-length header is derived from `write_len()`;
an indeterminate-length header is written back as it was. -/
def packetSer (p : Packet) : Option Bytes :=
  match bodySer p.body with
  | none => none
  | some b =>
    match p.hdr.len with
    | .indet => some ((128 + p.hdr.tag * 4 + 3).toUInt8 :: b)
    | _ =>
      if bodyWriteLen p.body < 4294967296 then
        some (writeHeader p.hdr.newFormat p.hdr.tag (bodyWriteLen p.body) ++ b)
      else none

/-- `PacketTrait::write_len_with_header` = `Packet::write_len`: the header length is derived from
`write_len()`, mirroring `to_writer_with_header` (D5c / N1 are fixed) -/
def packetWriteLen (p : Packet) : Nat :=
  match p.hdr.len with
  | .indet => 1 + bodyWriteLen p.body
  | _ => headerLenFn p.hdr.newFormat (bodyWriteLen p.body) + bodyWriteLen p.body

/-! ## API mutations -/

/-- `Signature::unhashed_subpacket_insert(index, subpacket)`: the stored packet length is
increased by the subpacket's `write_len` -/
def sigInsertUnhashed (p : Packet) (idx : Nat) (sp : Subpacket) : Option Packet :=
  match p.body, p.hdr.len with
  | .sig (.v4 v6 typ pk hash hashed unhashed left salt sb), .fixed n =>
    if idx ≤ unhashed.length then
      some ⟨{ p.hdr with len := .fixed (n + subWriteLen sp) },
        .sig (.v4 v6 typ pk hash hashed (unhashed.take idx ++ sp :: unhashed.drop idx) left salt sb)⟩
    else none
  | _, _ => none

/-- `Signature::unhashed_subpacket_remove(index)` -/
def sigRemoveUnhashed (p : Packet) (idx : Nat) : Option Packet :=
  match p.body, p.hdr.len with
  | .sig (.v4 v6 typ pk hash hashed unhashed left salt sb), .fixed n =>
    match unhashed[idx]? with
    | some sp =>
      some ⟨{ p.hdr with len := .fixed (n - subWriteLen sp) },
        .sig (.v4 v6 typ pk hash hashed (unhashed.eraseIdx idx) left salt sb)⟩
    | none => none
  | _, _ => none

/-- `SecretKey::set_password_with_s2k` / `remove_password`: the secret section is replaced, the
stored packet header is left as it was (harmless: `write_len_with_header` no longer reads it) -/
def keyReplaceSecret (p : Packet) (s : Secret) : Option Packet :=
  match p.body with
  | .secKey k _ => some ⟨p.hdr, .secKey k s⟩
  | _ => none

/-! ## composite: a certificate as its packet sequence -/

/-- `SignedPublicKey::to_writer` & co.: the packets one after another, each with its header -/
def certSer : List Packet → Option Bytes
  | [] => some []
  | p :: ps =>
    match packetSer p, certSer ps with
    | some a, some b => some (a ++ b)
    | _, _ => none

/-- `SignedPublicKey::write_len` / `SignedKeyDetails::write_len` (D5a, N5 fixed):
`header_len(write_len) + write_len` per key / subkey / signature -/
def certWriteLenFixed (ps : List Packet) : Nat :=
  (ps.map fun p => headerLenFn p.hdr.newFormat (bodyWriteLen p.body) + bodyWriteLen p.body).sum

end Rpgp.Wire
