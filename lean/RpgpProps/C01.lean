import RpgpProofs.Message
import RpgpProofs.Seipd1
import RpgpProofs.E2E
import RpgpProofs.E2ELiteral
import RpgpProofs.E2EToy
import RpgpProps.C06
import RpgpProps.C09
/-!
# C01 — message round trip: what the builder emits, the reader returns unchanged

Model: `RpgpModel/Message.lean` (layer composition), `Framing.lean`, `Seipd.lean`.
The theorem is the composition of the layer round trips (C17 `emit_deframe`, C03
`seipd2_roundtrip`, signature pairing) for **every** payload, every number of signers, every
literal framing (fixed or partial 2^k), optional compression, optional SEIPDv2 encryption with any
chunk size, every builder chunk size 2^9..2^30.

Hypotheses are the correctness laws of the primitives (`decompress ∘ compress = id`,
`open ∘ seal = id`, `verify (sign d) d`), and explicit size bounds (< 2³² octets per packet, as the
wire format requires).
-/
namespace Rpgp.C01
open Rpgp

/-- well-formedness of a configuration/payload pair: chunk exponents in range, header fits the
first chunk, every packet below the 2³² limit of the wire format -/
structure WF (P : MsgPrims) (c : MsgCfg) (payload : Bytes) : Prop where
  k : 9 ≤ c.k ∧ c.k ≤ 30
  lit : ∀ k, c.lit = .part k → 9 ≤ k ∧ k ≤ 30 ∧ c.litHdr.length ≤ 2 ^ k
  litLen : c.litHdr.length + payload.length < 4294967296
  ops : ∀ i ∈ c.signers, (P.opsBody i).length < 4294967296
  sig : ∀ i ∈ c.signers, (P.sigBody i (P.preimage i payload)).length < 4294967296
  comp : ∀ a, c.compression = some a → a < 256 ∧
    1 + (P.compress a (signedStream P c payload)).length < 4294967296
  enc : ∀ co info cs, c.encryption = some (co, info, cs) → 0 < cs ∧ co.length ≤ 2 ^ c.k ∧
    co.length + (seipd2Encrypt P.aead info cs (compressedLayer P c (signedStream P c payload))).length < 4294967296

/-- **Message round trip.** Reading what the builder wrote returns exactly the payload, and every
embedded signature verifies under its signer's key — for every payload length, including those on
or next to partial-body, AEAD-chunk and internal-buffer boundaries (they are all just lengths). -/
theorem message_roundtrip (P : MsgPrims) (LS : SigLaws P) (LC : CompLaws P) (LA : AeadLaws P.aead 16)
    (c : MsgCfg) (payload : Bytes) (wf : WF P c payload) :
    readMsg P c (buildMsg P c payload) =
      some { payload := payload, verified := List.replicate c.signers.length true } := by
  unfold readMsg buildMsg
  rw [readEncrypted_layer P LA c _ wf.k wf.enc]
  simp only
  rw [readCompressed_layer P LC c _ wf.k wf.comp]
  simp only
  exact readSigned_signedStream P LS c payload wf.lit wf.litLen wf.ops wf.sig

/-- the signed level alone (no compression, no encryption): OPS i is paired with signature n-1-i
and each pair verifies -/
theorem signed_stream_pairing (P : MsgPrims) (L : SigLaws P) (c : MsgCfg) (payload : Bytes)
    (hk : ∀ k, c.lit = .part k → 9 ≤ k ∧ k ≤ 30 ∧ c.litHdr.length ≤ 2 ^ k)
    (hlen : c.litHdr.length + payload.length < 4294967296)
    (hops : ∀ i ∈ c.signers, (P.opsBody i).length < 4294967296)
    (hsig : ∀ i ∈ c.signers, (P.sigBody i (P.preimage i payload)).length < 4294967296) :
    readSigned P c.litHdr.length c.signers (signedStream P c payload) =
      some { payload := payload, verified := List.replicate c.signers.length true } :=
  readSigned_signedStream P L c payload hk hlen hops hsig

/-- SEIPDv1 layer (on the CFB-decrypted stream): the default reader returns the plaintext of what
the encryptor laid out, for every length within the configured limit -/
theorem seipd1_layer_roundtrip (sha1 : Bytes → Bytes) (hs : ∀ x, (sha1 x).length = 20)
    (bs max : Nat) (pre pt : Bytes) (hp : pre.length = bs + 2) (hmax : pt.length + 22 ≤ max) :
    seipd1CheckFirst sha1 bs max (seipd1Plain sha1 pre pt) = some pt :=
  seipd1CheckFirst_roundtrip sha1 hs bs max pre pt hp hmax

/-- SEIPDv2 layer: decrypt ∘ encrypt = id at the extracted tag size and window factor -/
theorem seipd2_layer_roundtrip (A : Aead) (L : AeadLaws A 16) (info : Bytes) (cs : Nat) (hcs : 0 < cs) (pt : Bytes) :
    seipd2Decrypt A info cs (seipd2Encrypt A info cs pt) = (pt, true) :=
  seipd2Decrypt_encrypt A L info cs hcs pt

/-! ## non-vacuity: a concrete configuration meets `WF` and the laws -/

def toyPrims : MsgPrims where
  compress := fun _ x => x
  decompress := fun _ x => some x
  aead := { aeadEnc := fun _ _ p => p ++ List.replicate 16 0,
            aeadDec := fun _ _ c => if 16 ≤ c.length then some (c.take (c.length - 16)) else none }
  preimage := fun i d => i.toUInt8 :: d
  opsBody := fun i => [3, 0, 8, 22, i.toUInt8]
  sigBody := fun i d => i.toUInt8 :: d
  sigOk := fun i d s => s == i.toUInt8 :: d

example : SigLaws toyPrims := ⟨by intro i d; simp [toyPrims]⟩
example : CompLaws toyPrims := ⟨by intro a x; rfl⟩


/-! # End to end (layer `Rpgp.E2E`, `RpgpModel/E2E.lean`)

`buildFull cfg src` = `armor? ( SKESK.. ‖ PKESK.. ‖ SEIPD(v1|v2) ( compressed? ( OPS.. ‖ literal ‖ SIG.. ) ) )`,
`readFull secret msg` = `dearmor? → split ESKs → session key from ONE secret → decrypt → decompress →
literal, pair and verify signatures` — every step being the model another property is about (C05 wire
layouts, C06/C11 digests, C10 armor, C12 session-key packets and encryptors, C15 ESK filter, C17
framing, C03 decryptors, C18 session-key search).  The theorems quantify over every payload (all
lengths), every read schedule `src` of the builder's source, every chunk exponent 9..30, fixed or
partial literal framing, any number of signers (v4 / v6, binary / text), optional compression with
any algorithm octet, SEIPDv1 with any cipher octet / SEIPDv2 with any cipher, AEAD and chunk octet,
any numbers of password and key recipients (anonymous or not), armor with / without checksum, and
every way `chunks` of handing the message to the reader. -/
open Rpgp.E2E

/-! ## constants of the composition: RFC values, writer and reader sites agree -/

/-- packet type IDs of RFC 9580 §5 as the `Tag` enum has them -/
theorem e2e_tags_rfc :
    Gen.e2eTagPkesk = 1 ∧ Gen.e2eTagSignature = 2 ∧ Gen.e2eTagSkesk = 3 ∧ Gen.e2eTagOps = 4 ∧
    Gen.e2eTagCompressed = 8 ∧ Gen.e2eTagLiteral = 11 ∧ Gen.e2eTagSeipd = 18 := by decide

/-- … and they are the ones the sibling layers extracted at their own sites -/
theorem e2e_tags_agree_with_layers : Gen.e2eTagSeipd = Gen.tagSeipd ∧ Gen.e2eTagSkesk = Gen.tagSkesk := by decide

/-- SEIPD version octets: `Config::to_writer` and `Config::try_from_reader` agree, salt is 32 octets -/
theorem e2e_seipd_version_sites_agree :
    Gen.e2eSeipdV1Octet = Gen.e2eSeipdV1OctetRd ∧ Gen.e2eSeipdV2Octet = Gen.e2eSeipdV2OctetRd ∧
    Gen.e2eSeipdV1Octet = 1 ∧ Gen.e2eSeipdV2Octet = 2 ∧ Gen.e2eSeipdSaltLenRd = 32 := by decide

/-- literal mode octets `b` / `u`; four-octet date; every data tag may carry partial lengths -/
theorem e2e_literal_constants :
    Gen.e2eModeBinary = 0x62 ∧ Gen.e2eModeUtf8 = 0x75 ∧ Gen.e2eLitTimestampLen = 32 ∧
    partialAllowed Gen.e2eTagLiteral = true ∧ partialAllowed Gen.e2eTagCompressed = true ∧
    partialAllowed Gen.e2eTagSeipd = true := by decide

/-- the facts about the literal level the theorems below state are still what the source says: the
literal header is written with an empty name and zero date, a `Utf8` source is checked on write and
not on read, and the smallest chunk the builder accepts is the reader's minimum first partial length.
(Two further translator items, `e2eSignLenUnknown` and `e2eSkesksBeforePkesks`, record that the
containers are always partial and that SKESKs precede PKESKs; the property does not depend on either —
the reader accepts both framings and any ESK order — so they are evidence, not obligations.) -/
theorem e2e_builder_shape :
    Gen.e2eLitHeaderNameEmpty = 1 ∧ Gen.e2eUtf8CheckedOnWrite = 1 ∧ Gen.e2eUtf8CheckedOnRead = 0 ∧
    Gen.e2eBuilderMinChunk = Gen.rdFirstPartialMin ∧ Gen.e2eBuilderMinChunk = 2 ^ 9 := by decide

/-! ## 1. the round trip -/

/-- **End-to-end round trip, guarded form.**  For every configuration and payload, every intended
recipient secret presented alone (a password of the message; an unlocked secret key holding a
recipient component; anything for an unencrypted message) and every chunking of the message:
`readFull` returns the payload, the literal header the builder wrote and `verified = replicate n true`.
Hypotheses: primitive correctness laws `Laws`, the size / range conditions `WF`, and the guard
`NoForeignOpen` (the presented secret opens no ESK of the message to a *different* session key). -/
theorem e2e_roundtrip_partial (P : Prims) (L : Laws P) (o : ReadOpts) (c : Cfg) (src : List Bytes)
    (wf : E2E.WF P o c src) (m : Bytes) (hb : buildFull P c src = some m)
    (secret : Secret) (hint : Intended P c secret) (hrob : NoForeignOpen P c secret)
    (chunks : List Bytes) (hflat : chunks.flatten = m) :
    readFull P o secret c.armor.isSome chunks = some (expected c src) :=
  roundtrip_guarded P L o c src wf m hb secret hint hrob chunks hflat

/-
FULL STATEMENT (primitive *correctness* laws only, no guard): FALSE of the code as it stands for one
class of inputs — SEIPDv1 messages with two or more SKESK v4 packets read with one of the passwords
(known finding D18b, `C18.password_alone_false_positive_witness`, replayed by `harness/src/props/c01.rs`
corpus entry 357): SKESK v4 has no integrity, the plausibility check accepts ≈ 1 foreign packet in 50,
and `find_session_key` then reports `inconsistent session keys detected`.
-/
/-- **End-to-end round trip.**  As above, with the guard discharged from *robustness laws of the
primitives* (`RobustLaws`): a PKESK does not decrypt under another key, an AEAD box opens only to what
was sealed, and — the one law real CFB does not give, see D18b — an SKESK v4 body does not decrypt
plausibly under another password.  Every other hypothesis is a correctness law or a size bound. -/
theorem e2e_roundtrip (P : Prims) (L : Laws P) (R : RobustLaws P) (o : ReadOpts) (c : Cfg) (src : List Bytes)
    (wf : E2E.WF P o c src) (m : Bytes) (hb : buildFull P c src = some m)
    (hpk : ∀ e, c.encryption = some e → ∀ r ∈ e.keys, PkLaw P r.key r.isX)
    (secret : Secret) (hint : Intended P c secret)
    (chunks : List Bytes) (hflat : chunks.flatten = m) :
    readFull P o secret c.armor.isSome chunks = some (expected c src) := by
  obtain ⟨b, hbin, _⟩ := buildFull_some_inv P c src m hb
  obtain ⟨_, S, hS, _⟩ := buildBinary_some_inv P c src b hbin
  refine roundtrip_guarded P L o c src wf m hb secret hint ?_ chunks hflat
  cases secret with
  | none => trivial
  | key K => exact noForeignOpen_key P R.pk_foreign o c src wf S hS K hpk
  | password pw =>
    intro e he
    cases hv : e.container.isV2 with
    | true =>
      exact noForeignOpen_password_v2 P R.aead_committing c pw (fun e' he' => (wf.enc S e' hS he').2.1)
        (fun e' he' => by rw [he] at he'; cases he'; exact hv) e he
    | false =>
      exact noForeignOpen_password_v1 P L.crypto R.skesk4_committing c pw (fun e' he' => (wf.enc S e' hS he').2.1)
        (fun e' he' => by rw [he] at he'; cases he'; exact hv) e he

/-- the same without the law CFB does not provide, for everything D18b does not touch: key recipients
(any container), password recipients of SEIPDv2 messages, and a SEIPDv1 message with a single
password.  The guard is decidable on the configuration and the kind of secret. -/
theorem e2e_roundtrip_no_d18b_partial (P : Prims) (L : Laws P)
    (Rpk : ∀ p j d v6, p ≠ j → P.pkDec p (P.pkEnc j d v6) v6 = none)
    (Raead : ∀ s m k k' n ad pt x, P.aeadOpen s m k' n ad (P.sym.aead s m k n ad pt) = some x → x = pt)
    (o : ReadOpts) (c : Cfg) (src : List Bytes)
    (wf : E2E.WF P o c src) (m : Bytes) (hb : buildFull P c src = some m)
    (hpk : ∀ e, c.encryption = some e → ∀ r ∈ e.keys, PkLaw P r.key r.isX)
    (secret : Secret) (hint : Intended P c secret)
    (hguard : ∀ pw, secret = .password pw → ∀ e, c.encryption = some e →
      e.container.isV2 = true ∨ e.passwords.length ≤ 1)
    (chunks : List Bytes) (hflat : chunks.flatten = m) :
    readFull P o secret c.armor.isSome chunks = some (expected c src) := by
  obtain ⟨b, hbin, _⟩ := buildFull_some_inv P c src m hb
  obtain ⟨_, S, hS, hcase⟩ := buildBinary_some_inv P c src b hbin
  refine roundtrip_guarded P L o c src wf m hb secret hint ?_ chunks hflat
  cases hint with
  | unencrypted _ henc =>
    cases secret with
    | none => trivial
    | password pw => intro e he; rw [henc] at he; cases he
    | key K => intro e he; rw [henc] at he; cases he
  | key e r K he hr hK hver hlaw => exact noForeignOpen_key P Rpk o c src wf S hS K hpk
  | password e r he hr =>
    intro e' he'
    have : e' = e := by rw [he] at he'; exact (Option.some.inj he').symm
    subst this
    rcases hguard r.pw rfl e' he with hv | hone
    · exact noForeignOpen_password_v2 P Raead c r.pw (fun e'' he'' => (wf.enc S e'' hS he'').2.1)
        (fun e'' he'' => by rw [he] at he''; cases he''; exact hv) e' he
    · -- a single SKESK: the only packet the password is tried on is its own
      exact noForeignOpen_single_password P L o c src wf b hbin e' he r hr hone e' he

/-! ## 2. corollaries -/

/-- **unencrypted messages** (signed and/or compressed or neither): nothing needs to be presented -/
theorem e2e_roundtrip_unencrypted (P : Prims) (L : Laws P) (o : ReadOpts) (c : Cfg) (src : List Bytes)
    (wf : E2E.WF P o c src) (m : Bytes) (hb : buildFull P c src = some m) (henc : c.encryption = none)
    (secret : Secret) (chunks : List Bytes) (hflat : chunks.flatten = m) :
    readFull P o secret c.armor.isSome chunks = some (expected c src) := by
  refine roundtrip_guarded P L o c src wf m hb secret (.unencrypted secret henc) ?_ chunks hflat
  cases secret with
  | none => trivial
  | password pw => intro e he; rw [henc] at he; cases he
  | key K => intro e he; rw [henc] at he; cases he

/-- **signed only**: `OPS₁..OPSₙ literal SIGₙ..SIG₁`, no compression, no encryption, no armor: every
signature verifies under its signer's key -/
theorem e2e_roundtrip_signed_only (P : Prims) (L : Laws P) (o : ReadOpts) (c : Cfg) (src : List Bytes)
    (wf : E2E.WF P o c src) (m : Bytes) (hb : buildFull P c src = some m)
    (henc : c.encryption = none) (_hcomp : c.compression = none) (harm : c.armor = none) :
    readFull P o .none false [m] =
      some { payload := src.flatten, litMeta := ⟨c.mode, [], [0, 0, 0, 0]⟩,
             verified := List.replicate c.signers.length true } := by
  have := e2e_roundtrip_unencrypted P L o c src wf m hb henc .none [m] (by simp)
  rw [harm] at this
  exact this

/-- **literal only**: no signer, no compression, no encryption — the payload and its header -/
theorem e2e_roundtrip_literal_only (P : Prims) (L : Laws P) (o : ReadOpts) (c : Cfg) (src : List Bytes)
    (wf : E2E.WF P o c src) (m : Bytes) (hb : buildFull P c src = some m)
    (hsig : c.signers = []) (henc : c.encryption = none) (hcomp : c.compression = none) (harm : c.armor = none) :
    readFull P o .none false [m] =
      some { payload := src.flatten, litMeta := ⟨c.mode, [], [0, 0, 0, 0]⟩, verified := [] } := by
  have := e2e_roundtrip_signed_only P L o c src wf m hb henc hcomp harm
  rw [hsig] at this
  exact this

/-! ## 3. schedules -/

/-- **reader side**: however the source hands the message to the reader (armored: any cuts, inside the
BEGIN line, the base64, the checksum, the footer — C10 `schedule_independent_no_headers`; binary: the
packet parser pulls bytes as it needs them), the result is that of the one-view read.  No hypothesis
on the primitives at all. -/
theorem e2e_schedule_independent (P : Prims) (o : ReadOpts) (secret : Secret) (c : Cfg) (src : List Bytes)
    (m : Bytes) (hb : buildFull P c src = some m) (chunks : List Bytes) (hflat : chunks.flatten = m) :
    readFull P o secret c.armor.isSome chunks = readFull P o secret c.armor.isSome [m] := by
  obtain ⟨b, _, hm⟩ := buildFull_some_inv P c src m hb
  rw [readFull_chunks P o secret c m b hm chunks hflat, readFull_chunks P o secret c m b hm [m] (by simp)]

/-- **builder side**: the message depends on the payload only, not on how the source delivers it:
every signer's hasher (C06 `sign_chunk_indep`) and the `Utf8` literal check (C09
`utf8_check_chunk_independent`, C14 `crlfCheck_iff`) are schedule independent -/
theorem e2e_source_schedule_independent (P : Prims) (LV : VutLaws P.vut) (hnil : P.vut [] = 0)
    (c : Cfg) (src src' : List Bytes) (h : src.flatten = src'.flatten) :
    buildFull P c src = buildFull P c src' := by
  have hok : srcOk P c.mode src = srcOk P c.mode src' := by
    unfold srcOk
    by_cases hm : c.mode.toNat = Gen.e2eModeUtf8
    · simp only [hm, if_true]
      have h1 : utf8CheckChunks P.vut [] src = utf8CheckChunks P.vut [] src' := by
        rw [Bool.eq_iff_iff, C09.utf8_check_chunk_independent P.vut LV hnil, C09.utf8_check_chunk_independent P.vut LV hnil, h]
      have h2 : crlfCheck src = crlfCheck src' := by
        rw [Bool.eq_iff_iff, crlfCheck_iff, crlfCheck_iff, h]
      rw [h1, h2]
    · simp only [hm, if_false]
  have hsig : sigBodies P c src = sigBodies P c src' := by
    unfold sigBodies
    apply List.map_congr_left
    intro s _
    rw [C06.sign_chunk_indep s.keyVer (sigCfg c.signTyp s) src src' h]
  have hS : E2E.signedStream P c src = E2E.signedStream P c src' := by
    unfold E2E.signedStream
    rw [hsig, h]
  unfold buildFull buildBinary
  rw [hok, hS]

/-! ## 4. the signature part is not an opaque parameter -/

/-- **what is hashed, both sides.**  For every signer of the builder and any reads `src` of the
source: (i) its hasher was fed exactly the C06 / RFC 9580 §5.2.4 pre-image
`salt ‖ data ‖ ver typ pk hash len(area) area ‖ ver FF len32` with `data` = the payload for a binary
signature and `canon payload` for a text signature; (ii) the reader's hash slot — created from the
*parsed* OPS packet (salt, text mode) and finished with the fields of the *parsed* signature packet,
over reads of any size `B` — is the same byte string; (iii) a v6 pre-image starts with the salt, a v4
one with the data. -/
theorem e2e_preimage_instantiated (P : Prims) (c : Cfg) (src : List Bytes) (sg : Signer) (isLast : Bool)
    (B : Nat) (hB : 0 < B) (pre : Bytes)
    (h : SV.signConfig sg.keyVer (sigCfg c.signTyp sg) src = some pre) :
    pre = SV.preimage (sigCfg c.signTyp sg) (SV.dataHashed (sigCfg c.signTyp sg).textMode src.flatten) ∧
    ((opsOfWire (opsPacket c.signTyp sg isLast)).bind fun so =>
      (cfgOfSig (mkSig P c.signTyp sg pre)).bind fun t => SV.verifyInlineOps B so t.1 src.flatten) = some pre ∧
    (c.signTyp.toNat = Gen.sigTypeBinary → SV.dataHashed (sigCfg c.signTyp sg).textMode src.flatten = src.flatten) ∧
    (c.signTyp.toNat = Gen.sigTypeText → SV.dataHashed (sigCfg c.signTyp sg).textMode src.flatten = canon src.flatten) ∧
    (sg.keyVer = 6 → pre = sg.salt ++ SV.dataHashed (sigCfg c.signTyp sg).textMode src.flatten ++ SV.sigTail (sigCfg c.signTyp sg)) ∧
    (sg.keyVer = 4 → pre = SV.dataHashed (sigCfg c.signTyp sg).textMode src.flatten ++ SV.sigTail (sigCfg c.signTyp sg)) := by
  obtain ⟨hal, _, hp⟩ := signConfig_some_inv _ _ _ _ h
  have hv : sg.keyVer = 4 ∨ sg.keyVer = 6 := SV.signAligned_wfver _ _ hal
  have hwf : SV.WFCfg (sigCfg c.signTyp sg) := by
    unfold SV.WFCfg sigCfg
    rcases hv with h | h <;> simp [h]
  refine ⟨hp, ?_, ?_, ?_, ?_, ?_⟩
  · rw [opsOfWire_opsPacket, cfgOfSig_mkSig P c.signTyp sg pre hv]
    simp only [Option.bind_some]
    rw [SV.verifyInlineOps_eq B hB _ hwf, hp]
  · intro hb
    have : (sigCfg c.signTyp sg).textMode = false := by
      simp only [SV.SigCfg.textMode, sigCfg, hb]; decide
    simp [this, SV.dataHashed]
  · intro ht
    have : (sigCfg c.signTyp sg).textMode = true := by
      simp only [SV.SigCfg.textMode, sigCfg, ht]; decide
    simp [this, SV.dataHashed]
  · intro h6
    rw [hp]; simp [SV.preimage, sigCfg, h6]
  · intro h4
    rw [hp]; simp [SV.preimage, sigCfg, h4]

/-- … in the vocabulary of C06: the builder side (`signBuilder`, any source chunking) and the reader
side (`verifyInlineOps`, any read size) compute one function of the payload -/
theorem e2e_preimage_is_c06 (c : Cfg) (src : List Bytes) (sg : Signer) (B : Nat) (hB : 0 < B) (pre : Bytes)
    (h : SV.signConfig sg.keyVer (sigCfg c.signTyp sg) src = some pre) :
    (SV.signBuilder [(sg.keyVer, sigCfg c.signTyp sg)] src).head? = some (some pre) ∧
    SV.verifyInlineOps B (SV.opsOf (sigCfg c.signTyp sg)) (sigCfg c.signTyp sg) src.flatten = some pre := by
  obtain ⟨hal, hty, hp⟩ := signConfig_some_inv _ _ _ _ h
  have hv : sg.keyVer = 4 ∨ sg.keyVer = 6 := SV.signAligned_wfver _ _ hal
  have hwf : SV.WFCfg (sigCfg c.signTyp sg) := by
    unfold SV.WFCfg sigCfg
    rcases hv with h | h <;> simp [h]
  have := C06.inline_preimage_is_one_function B hB sg.keyVer (sigCfg c.signTyp sg) hwf hal hty src src.flatten rfl
  rw [hp]; exact this

/-- the layer theorem `message_roundtrip` with its `preimage` parameter instantiated by the C06
function (`salt ‖ dataHashed ‖ fields ‖ trailer` of per-signer configurations `cfgs`) -/
theorem message_roundtrip_preimage_instantiated (base : MsgPrims) (cfgs : Nat → SV.SigCfg)
    (LS : SigLaws { base with preimage := fun i d => SV.preimage (cfgs i) (SV.dataHashed (cfgs i).textMode d) })
    (LC : CompLaws { base with preimage := fun i d => SV.preimage (cfgs i) (SV.dataHashed (cfgs i).textMode d) })
    (LA : AeadLaws base.aead 16) (c : MsgCfg) (payload : Bytes)
    (wf : WF { base with preimage := fun i d => SV.preimage (cfgs i) (SV.dataHashed (cfgs i).textMode d) } c payload) :
    readMsg { base with preimage := fun i d => SV.preimage (cfgs i) (SV.dataHashed (cfgs i).textMode d) } c
        (buildMsg { base with preimage := fun i d => SV.preimage (cfgs i) (SV.dataHashed (cfgs i).textMode d) } c payload) =
      some { payload := payload, verified := List.replicate c.signers.length true } :=
  message_roundtrip _ LS LC LA c payload wf

/-! ## 5. literal metadata -/

/-- what comes back for a message of the builder: the mode octet it was given, the (empty) file name
and the zero date `LiteralDataHeader::new` writes — the name handed to `from_bytes` / `from_reader` /
`from_file` is dropped by the builder (`_name` is unused), which the property ("what the builder emits
comes back") does not forbid -/
theorem e2e_literal_metadata (c : Cfg) (src : List Bytes) :
    (expected c src).litMeta = ⟨c.mode, [], [0, 0, 0, 0]⟩ ∧ (expected c src).payload = src.flatten := ⟨rfl, rfl⟩

/-- the reader itself returns *any* literal header unchanged — every mode octet, every file name of
0..255 octets, every date — together with the body, for every body length (model-written packet) -/
theorem e2e_reader_returns_any_literal_header (P : Prims) (o : ReadOpts) (mode : Byte) (name created data : Bytes)
    (hn : name.length < 256) (hc : created.length = 4) (hl : 2 + name.length + 4 + data.length < 4294967296) :
    E2E.readSigned P o (fixedPkt Gen.e2eTagLiteral (mode :: name.length.toUInt8 :: name ++ created ++ data)) =
      some { payload := data, litMeta := ⟨mode, name, created⟩, verified := o.verifiers.map fun _ => false } :=
  readSigned_literal_any P o mode name created data hn hc hl

/-- **`Utf8` literals, builder side**: the source of a `u` literal is read through
`CrLfCheckReader<Utf8CheckReader<_>>`; whatever the read schedule, the builder emits a message iff
… only if the whole payload is valid UTF-8 *and* every LF is preceded by CR; otherwise it refuses -/
theorem e2e_utf8_builder_refuses (P : Prims) (LV : VutLaws P.vut) (hnil : P.vut [] = 0) (c : Cfg)
    (hm : c.mode.toNat = Gen.e2eModeUtf8) (src : List Bytes)
    (hbad : ¬ (P.vut src.flatten = src.flatten.length ∧ canon src.flatten = src.flatten)) :
    buildFull P c src = none := by
  apply buildFull_none_of_srcOk_false
  cases h : srcOk P c.mode src with
  | false => rfl
  | true => exact absurd ((srcOk_utf8_iff P LV hnil c.mode hm src).mp h) hbad

/-- … and a message the builder did emit for a `u` literal carries valid UTF-8 with CR LF line ends -/
theorem e2e_utf8_emitted_is_valid (P : Prims) (LV : VutLaws P.vut) (hnil : P.vut [] = 0) (c : Cfg)
    (hm : c.mode.toNat = Gen.e2eModeUtf8) (src : List Bytes) (m : Bytes) (hb : buildFull P c src = some m) :
    P.vut src.flatten = src.flatten.length ∧ canon src.flatten = src.flatten := by
  obtain ⟨b, hbin, _⟩ := buildFull_some_inv P c src m hb
  obtain ⟨hok, _⟩ := buildBinary_some_inv P c src b hbin
  exact (srcOk_utf8_iff P LV hnil c.mode hm src).mp hok

/-- every other mode (`b`, `t`, `m`, unknown octets) is passed through unchecked -/
theorem e2e_other_modes_unchecked (P : Prims) (mode : Byte) (hm : mode.toNat ≠ Gen.e2eModeUtf8) (src : List Bytes) :
    srcOk P mode src = true := srcOk_other P mode hm src

/-- **`Utf8` literals, reader side — what the code does**: `LiteralDataReader` does *not* check.  A
`u` literal whose body is the single octet FF (not UTF-8) is returned as it is, with mode `u`
(`Gen.e2eUtf8CheckedOnRead = 0`, `e2e_builder_shape`; the same packet through the real reader is a
correspondence case of `harness/src/props/c01.rs`).  So "refused on both sides" holds on the writing
side only; on the reading side the check is left to `LiteralData::try_into_string` / the caller. -/
theorem e2e_utf8_reader_does_not_check (P : Prims) (o : ReadOpts) :
    E2E.readSigned P o (fixedPkt Gen.e2eTagLiteral (0x75 :: (0 : Nat).toUInt8 :: [] ++ [0, 0, 0, 0] ++ [0xFF])) =
      some { payload := [0xFF], litMeta := ⟨0x75, [], [0, 0, 0, 0]⟩, verified := o.verifiers.map fun _ => false } ∧
    utf8ValidUpTo [0xFF] = 0 :=
  ⟨readSigned_literal_any P o 0x75 [] [0, 0, 0, 0] [0xFF] (by decide) rfl (by decide), by decide⟩

/-! ## 6. non-vacuity: toy primitives satisfying the laws, two concrete configurations

`RpgpModel/E2EToy.lean`: configuration A = 2 signers (v4 + v6), zip, SEIPDv2 / OCB with 64-octet
chunks, one password + one key recipient, armored with checksum, partial literal framing (chunk 512);
configuration B = the same signers with text signatures, SEIPDv1 / AES-128, password + anonymous key
recipient, fixed-length literal, binary.  The hypotheses of the theorems above are met for *every*
payload length up to 10⁶ (so in particular on every internal boundary), the builder succeeds, and the
conclusions hold; the driver op `e2e_toy` additionally *executes* `readFull ∘ buildFull` on them. -/

/-- the toy primitives satisfy every correctness law the theorems assume -/
theorem toy_prims_satisfy_laws : Laws Toy.prims ∧ ∀ j, PkLaw Toy.prims j false :=
  ⟨Toy.toy_laws, Toy.toy_pkLaw⟩

/-- the presented toy secrets open nothing else (one SKESK; the signing primary of the presented
key does not decrypt the PKESK) -/
theorem toy_key_opens_nothing_else (e : Encryption) (hk : e.keys = [Toy.rcptK] ∨ e.keys = [{ Toy.rcptK with anonymous := true }])
    (hsym : e.container.sym = 7) (hsk : e.sessionKey = List.replicate 16 11) :
    ∀ c' ∈ Toy.keyK.comps, ∀ p, c'.secret = .plain p → ∀ r' ∈ e.keys, ∀ k,
      Toy.prims.pkDec p (pkVals Toy.prims e r') e.container.isV2 = some k → k = sessionKeyOf e := by
  intro c' hc' p hp r' hr' k hkk
  have hr'' : r'.key = 3 ∧ r'.isX = false := by
    rcases hk with h | h <;> (rw [h] at hr'; simp only [List.mem_singleton] at hr'; subst hr'; exact ⟨rfl, rfl⟩)
  have hp' : p = 99 ∨ p = 3 := by
    simp only [Ring.SecKey.comps, Toy.keyK, List.mem_cons, List.not_mem_nil, or_false] at hc'
    rcases hc' with rfl | rfl
    · left; simpa using hp.symm
    · right; simpa using hp.symm
  rcases hp' with rfl | rfl
  · exfalso
    cases hc : e.container <;> simp [pkVals, hc, hr''.1, Toy.prims] at hkk
  · have hlaw := Toy.toy_pkLaw 3
    cases hc : e.container with
    | v1 sy pre =>
      simp only [hc, Container.sym] at hsym
      subst hsym
      simp only [pkVals, hc, hr''.1, hr''.2, Container.isV2] at hkk
      rw [hlaw.1 7 e.sessionKey (by decide) (by decide) (by rw [hsk]; decide)] at hkk
      simp only [sessionKeyOf, hc]
      exact (Option.some.inj hkk).symm
    | v2 sy ae cs sa =>
      simp only [pkVals, hc, hr''.1, hr''.2, Container.isV2] at hkk
      rw [hlaw.2] at hkk
      simp only [sessionKeyOf, hc]
      exact (Option.some.inj hkk).symm

/-- **configuration A**, password recipient: for every payload length ≤ 10⁶ and every two-way cut of
the armored text, the builder emits a message and the reader returns payload, header and two valid
signatures -/
theorem e2e_nonvacuous_A_password (n : Nat) (hn : n ≤ 1000000) (cut : Nat) :
    ∃ m, buildFull Toy.prims Toy.cfgA [Toy.payload n] = some m ∧
      readFull Toy.prims Toy.opts (.password Toy.rcptP.pw) true [m.take cut, m.drop cut] =
        some { payload := Toy.payload n, litMeta := ⟨0x62, [], [0, 0, 0, 0]⟩, verified := [true, true] } := by
  obtain ⟨m, hm⟩ := Option.isSome_iff_exists.mp (Toy.build_isSome Toy.cfgA Toy.encV2 n rfl (Or.inl rfl) rfl rfl (Or.inr rfl))
  refine ⟨m, hm, ?_⟩
  obtain ⟨b, hbin, _⟩ := buildFull_some_inv Toy.prims Toy.cfgA [Toy.payload n] m hm
  have hr : Toy.rcptP ∈ Toy.encV2.passwords := by simp [Toy.encV2]
  have := e2e_roundtrip_partial Toy.prims Toy.toy_laws Toy.opts Toy.cfgA [Toy.payload n] (Toy.wf_A n hn) m hm
    (.password Toy.rcptP.pw) (.password Toy.encV2 Toy.rcptP rfl hr)
    (noForeignOpen_single_password Toy.prims Toy.toy_laws Toy.opts Toy.cfgA _ (Toy.wf_A n hn) b hbin Toy.encV2 rfl Toy.rcptP hr (by decide))
    [m.take cut, m.drop cut] (by simp)
  simpa [expected, Toy.cfgA, Toy.flatten_payload, (by decide : be32 0 = [0, 0, 0, 0])] using this

/-- **configuration A**, key recipient (a `SignedSecretKey` with a signing primary and the encryption
subkey) -/
theorem e2e_nonvacuous_A_key (n : Nat) (hn : n ≤ 1000000) :
    ∃ m, buildFull Toy.prims Toy.cfgA [Toy.payload n] = some m ∧
      readFull Toy.prims Toy.opts (.key Toy.keyK) true [m] =
        some { payload := Toy.payload n, litMeta := ⟨0x62, [], [0, 0, 0, 0]⟩, verified := [true, true] } := by
  obtain ⟨m, hm⟩ := Option.isSome_iff_exists.mp (Toy.build_isSome Toy.cfgA Toy.encV2 n rfl (Or.inl rfl) rfl rfl (Or.inr rfl))
  refine ⟨m, hm, ?_⟩
  have hr : Toy.rcptK ∈ Toy.encV2.keys := by simp [Toy.encV2]
  have hK : HoldsKey Toy.keyK Toy.rcptK := ⟨⟨Toy.rcptK.ident, .plain 3⟩, by simp [Ring.SecKey.comps, Toy.keyK], rfl, rfl⟩
  have := e2e_roundtrip_partial Toy.prims Toy.toy_laws Toy.opts Toy.cfgA [Toy.payload n] (Toy.wf_A n hn) m hm
    (.key Toy.keyK) (.key Toy.encV2 Toy.rcptK Toy.keyK rfl hr hK (by decide) (Toy.toy_pkLaw 3))
    (by
      intro e he
      have : e = Toy.encV2 := by simpa [Toy.cfgA] using he.symm
      subst this
      exact toy_key_opens_nothing_else Toy.encV2 (Or.inl rfl) rfl rfl)
    [m] (by simp)
  simpa [expected, Toy.cfgA, Toy.flatten_payload, (by decide : be32 0 = [0, 0, 0, 0])] using this

/-- **configuration B** (SEIPDv1, text signatures, fixed-length literal, anonymous key recipient) -/
theorem e2e_nonvacuous_B (n : Nat) (hn : n ≤ 1000000) :
    ∃ m, buildFull Toy.prims Toy.cfgB [Toy.payload n] = some m ∧
      readFull Toy.prims Toy.opts (.password Toy.rcptP.pw) false [m] =
        some { payload := Toy.payload n, litMeta := ⟨0x62, [], [0, 0, 0, 0]⟩, verified := [true, true] } ∧
      readFull Toy.prims Toy.opts (.key Toy.keyK) false [m] =
        some { payload := Toy.payload n, litMeta := ⟨0x62, [], [0, 0, 0, 0]⟩, verified := [true, true] } := by
  obtain ⟨m, hm⟩ := Option.isSome_iff_exists.mp (Toy.build_isSome Toy.cfgB Toy.encV1 n rfl (Or.inr rfl) rfl rfl (Or.inl rfl))
  refine ⟨m, hm, ?_, ?_⟩
  · obtain ⟨b, hbin, _⟩ := buildFull_some_inv Toy.prims Toy.cfgB [Toy.payload n] m hm
    have hr : Toy.rcptP ∈ Toy.encV1.passwords := by simp [Toy.encV1]
    have := e2e_roundtrip_partial Toy.prims Toy.toy_laws Toy.opts Toy.cfgB [Toy.payload n] (Toy.wf_B n hn) m hm
      (.password Toy.rcptP.pw) (.password Toy.encV1 Toy.rcptP rfl hr)
      (noForeignOpen_single_password Toy.prims Toy.toy_laws Toy.opts Toy.cfgB _ (Toy.wf_B n hn) b hbin Toy.encV1 rfl Toy.rcptP hr (by decide))
      [m] (by simp)
    simpa [expected, Toy.cfgB, Toy.cfgA, Toy.flatten_payload, (by decide : be32 0 = [0, 0, 0, 0])] using this
  · have hr : ({ Toy.rcptK with anonymous := true } : KeyRcpt) ∈ Toy.encV1.keys := by simp [Toy.encV1]
    have hK : HoldsKey Toy.keyK { Toy.rcptK with anonymous := true } :=
      ⟨⟨Toy.rcptK.ident, .plain 3⟩, by simp [Ring.SecKey.comps, Toy.keyK], rfl, rfl⟩
    have := e2e_roundtrip_partial Toy.prims Toy.toy_laws Toy.opts Toy.cfgB [Toy.payload n] (Toy.wf_B n hn) m hm
      (.key Toy.keyK) (.key Toy.encV1 _ Toy.keyK rfl hr hK (by decide) (Toy.toy_pkLaw 3))
      (by
        intro e he
        have : e = Toy.encV1 := by simpa [Toy.cfgB, Toy.cfgA] using he.symm
        subst this
        exact toy_key_opens_nothing_else Toy.encV1 (Or.inr rfl) rfl rfl)
      [m] (by simp)
    simpa [expected, Toy.cfgB, Toy.cfgA, Toy.flatten_payload, (by decide : be32 0 = [0, 0, 0, 0])] using this

/-- the D18b shape on the toy primitives: the guard of `e2e_roundtrip_partial` FAILS for the legitimate
second password of a SEIPDv1 message with two SKESK v4 — it "opens" the other recipient's packet to a
plausible key (cipher 11, 16 octets) different from the session key; `e2e_toy cfg=D` in the
correspondence run shows `readFull` rejecting it -/
theorem e2e_d18b_guard_fails_on_toy :
    ∃ e, Toy.cfgD.encryption = some e ∧ Toy.rcptP ∈ e.passwords ∧
      ¬ NoForeignOpen Toy.prims Toy.cfgD (.password Toy.rcptP.pw) := by
  refine ⟨_, rfl, by simp, ?_⟩
  intro h
  have := h _ rfl Toy.rcptQ (by simp)
    (.v3_4 11 [15, 15, 15, 15, 15, 15, 15, 15, 15, 15, 15, 15, 15, 15, 15, 15]) (by decide +kernel)
  revert this
  decide

end Rpgp.C01
