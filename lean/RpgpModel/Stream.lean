import RpgpModel.Bytes
/-!
# Stream — sources, read schedules, `fill_buffer`, buffered producers

A fault-free *source* is a list of non-empty chunks: the i-th underlying `read` call can
deliver at most the rest of the current chunk, so a source *is* a read schedule.
`flatten` is the byte string it carries.  After the list is exhausted the source
returns 0 bytes (EOF) forever, as `std::io::Read` implementations do.

Sources with faults are lists of events (`Ev.data`/`Ev.err`).
-/
namespace Rpgp

/-- One `Read::read(buf)` call with `buf.len() = n` on a chunked source. -/
def srcRead : List Bytes → Nat → Bytes × List Bytes
  | [], _ => ([], [])
  | c :: cs, n =>
    if c.length ≤ n then (c, cs) else (c.take n, c.drop n :: cs)

/-- `util::fill_buffer(source, buffer[..n])`: loop `read` until `n` bytes or a 0-byte read.
`fuel` bounds the number of `read` calls (each call on a non-empty chunk list makes progress). -/
def fillBuffer : Nat → List Bytes → Nat → Bytes × List Bytes
  | 0, src, _ => ([], src)
  | fuel + 1, src, n =>
    if n = 0 then ([], src) else
    let (got, src') := srcRead src n
    if got.isEmpty then ([], src')
    else
      let (more, src'') := fillBuffer fuel src' (n - got.length)
      (got ++ more, src'')

/-- A consumer's view of a *buffered producer*: the component refills its internal buffer
with the next block when (and only when) the buffer is empty, and hands out
`min(request, available)`.  `blocks` are the successive refills; after the last one the
component is in its terminal state and returns 0.  This is the shape of every
`Read` implementation in rpgp that owns a `BytesMut` buffer. -/
def bpRead : Bytes → List Bytes → Nat → Bytes × Bytes × List Bytes
  | [], [], _ => ([], [], [])
  | [], b :: bs, n => (b.take n, b.drop n, bs)
  | buf, bs, n => (buf.take n, buf.drop n, bs)

/-- Drain with the request sizes `reqs` (all positive), stopping at the first 0-byte read,
as `read_to_end`, a fixed-size `read` loop or a `BufRead` loop do. Returns what the consumer
obtained and whether it saw EOF (a 0-byte read) within the schedule. -/
def bpDrain : Bytes → List Bytes → List Nat → Bytes × Bool
  | _, _, [] => ([], false)
  | buf, bs, n :: reqs =>
    let (got, buf', bs') := bpRead buf bs n
    if got.isEmpty then ([], true)
    else
      let (rest, eof) := bpDrain buf' bs' reqs
      (got ++ rest, eof)

/-- events of a source that can fail -/
inductive Ev where
  | data (bs : Bytes)
  | err
deriving Repr, DecidableEq

end Rpgp

namespace Rpgp

/-! ## sources that can fail -/

/-- result of one `read` on a faulty source -/
inductive RdRes where
  | bytes (bs : Bytes)     -- `Ok(n)`, n = bs.length (0 = EOF)
  | fail                   -- `Err(_)`
deriving Repr, DecidableEq

/-- one `read(buf)` with `buf.len() = n` on an event source: data events behave like chunks,
an `err` event makes this call fail and is consumed (one-shot fault) -/
def evRead : List Ev → Nat → RdRes × List Ev
  | [], _ => (.bytes [], [])
  | .err :: es, _ => (.fail, es)
  | .data c :: es, n =>
    if c.length ≤ n then (.bytes c, es) else (.bytes (c.take n), .data (c.drop n) :: es)

/-- `util::fill_buffer` over a faulty source: `none` = the error was propagated (`?`) -/
def fillBufferEv : Nat → List Ev → Nat → Option (Bytes × List Ev)
  | 0, src, _ => some ([], src)
  | fuel + 1, src, n =>
    if n = 0 then some ([], src) else
    match evRead src n with
    | (.fail, _) => none
    | (.bytes got, src') =>
      if got.isEmpty then some ([], src')
      else
        match fillBufferEv fuel src' (n - got.length) with
        | none => none
        | some (more, src'') => some (got ++ more, src'')

/-- bytes carried by the events before the first `err` -/
def evPrefix : List Ev → Bytes
  | [] => []
  | .err :: _ => []
  | .data c :: es => c ++ evPrefix es

def evHasErr : List Ev → Bool
  | [] => false
  | .err :: _ => true
  | .data _ :: es => evHasErr es

/-- a buffered producer whose refills may fail: the consumer drains until a 0-byte read or an
error; returns (bytes obtained, `some true` = clean EOF, `some false` = error, `none` = the request
schedule ended first) -/
def bpDrainF : Bytes → List (Option Bytes) → List Nat → Bytes × Option Bool
  | _, _, [] => ([], none)
  | [], [], _ :: _ => ([], some true)
  | [], none :: _, _ :: _ => ([], some false)
  | [], some b :: bs, n :: reqs =>
    if (b.take n).isEmpty then ([], some true)
    else
      let (rest, st) := bpDrainF (b.drop n) bs reqs
      (b.take n ++ rest, st)
  | x :: buf, bs, n :: reqs =>
    if ((x :: buf).take n).isEmpty then ([], some true)
    else
      let (rest, st) := bpDrainF ((x :: buf).drop n) bs reqs
      ((x :: buf).take n ++ rest, st)

/-- the layout the CFB `StreamEncryptor` hands out as successive blocks (`crypto/sym/encryptor.rs`
state machine Prefix → Data → Mdc → Done): the prefix, the plaintext in `B`-byte buffers, the MDC.
(Encryption is a stream operation applied position-wise and does not change the block sizes.) -/
def cfbEncBlocks (B : Nat) (pre pt mdc : Bytes) : List Bytes :=
  [pre] ++ (if B = 0 then [] else
    (List.range ((pt.length + B - 1) / B)).map fun i => (pt.drop (i * B)).take B) ++ [mdc]

end Rpgp
