//! C14 — text canonicalisation is one function, however the text is delivered.
//!
//! Correspondence ops (model: RpgpModel/Canon.lean):
//!   canon_hasher chunks=<hex,hex,..>   NormalizingHasher (text mode) fed chunk by chunk
//!   canon_reader data=<hex>            NormalizedReader(Crlf) read to the end (source/consumer
//!                                      schedules vary on the implementation side only: the
//!                                      model's answer is schedule independent by theorem)
//!   canon_replace data=<hex>           normalize_lines(_, Crlf)
//!   crlf_accepts chunks=<..>           UTF-8 literal source check (CrLfCheckReader)
//!
//! Oracle (property text, independent of the model): "every LF not preceded by CR becomes
//! CRLF, everything else is unchanged, regardless of how the input is split into chunks".

use std::io::Read;

use pgp::line_writer::LineBreak;
use pgp::normalize_lines::NormalizedReader;
use pgp::verif_hooks;
use rand::Rng;

use crate::ctx::{guarded, hx, hx_list, Ctx};
use crate::gen;
use crate::io::{drain_with, ScheduledReader};

/// independent restatement of the canonical form
pub fn canon_ref(d: &[u8]) -> Vec<u8> {
    let mut out = Vec::with_capacity(d.len() + 8);
    for (i, &b) in d.iter().enumerate() {
        if b == b'\n' && (i == 0 || d[i - 1] != b'\r') {
            out.push(b'\r');
        }
        out.push(b);
    }
    out
}

fn hasher(chunks: &[Vec<u8>]) -> Result<Vec<u8>, String> {
    let refs: Vec<&[u8]> = chunks.iter().map(|c| c.as_slice()).collect();
    guarded(|| verif_hooks::normalizing_hasher_bytes(&refs, true))
}

fn reader(chunks: &[Vec<u8>], reqs: &[usize]) -> Result<(Vec<u8>, Result<(), String>), String> {
    guarded(|| {
        let src = ScheduledReader::from_chunks(chunks);
        let r = NormalizedReader::new(src, LineBreak::Crlf);
        drain_with(r, reqs)
    })
}

fn ans(r: &Result<Vec<u8>, String>) -> String {
    match r {
        Ok(v) => format!("ok:{}", hx(v)),
        Err(_) => "panic".to_string(),
    }
}

fn utf8_literal_accepts(chunks: &[Vec<u8>]) -> Result<bool, String> {
    use pgp::composed::MessageBuilder;
    use pgp::packet::DataMode;
    guarded(|| {
        let src = ScheduledReader::from_chunks(chunks);
        let mut b = MessageBuilder::from_reader("", src);
        if b.data_mode(DataMode::Utf8).is_err() {
            return false;
        }
        b.to_vec(rand::thread_rng()).is_ok()
    })
}

fn one(ctx: &mut Ctx, chunks: &[Vec<u8>], reqs: &[usize], with_literal: bool) {
    let data: Vec<u8> = chunks.concat();
    let want = canon_ref(&data);
    let site_in = format!("chunks={}", hx_list(chunks));

    // streaming hasher
    let h = hasher(chunks);
    ctx.case(format!("canon_hasher chunks={}", hx_list(chunks)), ans(&h));
    ctx.oracle("hasher_is_canon", "util.rs NormalizingHasher::{hash_buf,done}", &site_in,
        h.as_ref().ok() == Some(&want), &format!("got {:?} want {}", h.as_ref().map(|v| hx(v)), hx(&want)));

    // streaming reader
    let r = reader(chunks, reqs);
    let (rans, rok) = match &r {
        Ok((v, Ok(()))) => (format!("ok:{}", hx(v)), v == &want),
        Ok((_, Err(e))) => (format!("err:io {e}"), false),
        Err(_) => ("panic".to_string(), false),
    };
    ctx.case(format!("canon_reader data={}", hx(&data)), rans.clone());
    ctx.oracle("reader_is_canon", "normalize_lines.rs NormalizedReader", 
        &format!("{site_in} reqs={reqs:?}"), rok, &format!("got {rans} want {}", hx(&want)));

    // in-memory
    if let Ok(s) = std::str::from_utf8(&data) {
        let m = guarded(|| verif_hooks::normalize_lines_crlf(s).into_bytes());
        ctx.case(format!("canon_replace data={}", hx(&data)), ans(&m));
        ctx.oracle("replace_is_canon", "normalize_lines.rs replace_newlines", &format!("data={}", hx(&data)),
            m.as_ref().ok() == Some(&want), &format!("got {:?} want {}", m.as_ref().map(|v| hx(v)), hx(&want)));
        if with_literal {
            // acceptance check of utf8 literals
            let a = utf8_literal_accepts(chunks);
            let aans = match &a { Ok(true) => "ok:1".to_string(), Ok(false) => "ok:0".to_string(), Err(_) => "panic".to_string() };
            ctx.case(format!("crlf_accepts chunks={}", hx_list(chunks)), aans);
            ctx.oracle("crlf_check_iff_canonical", "literal_data.rs CrLfCheckReader", &site_in,
                a == Ok(want == data), &format!("accepted {a:?}, canonical {}", want == data));
        }
    }
}

/// "Consequently a text-mode signature is invariant under converting the document between LF and
/// CRLF line endings, and is not invariant under any other change" — through the streaming message
/// reader with one, two and three text-mode signers (each hasher has its own state across the
/// reader's 8 KiB pieces) and through the detached path (oracle only)
fn e2e_text_signatures(ctx: &mut Ctx) {
    use pgp::composed::{DetachedSignature, Message, MessageBuilder};
    use pgp::crypto::hash::HashAlgorithm;
    use pgp::types::{KeyVersion, Password};
    use rand::SeedableRng;
    let mut rng = rand_chacha::ChaCha8Rng::seed_from_u64(1414 + ctx.seed);
    let ks = [crate::keys::ed25519_x25519(&mut rng, KeyVersion::V4), crate::keys::ed25519_x25519(&mut rng, KeyVersion::V6), crate::keys::ed25519_x25519(&mut rng, KeyVersion::V4)];
    let pks: Vec<_> = ks.iter().map(|k| k.to_public_key()).collect();
    let edges = [511usize, 512, 513, 1023, 1024, 8191, 8192, 8193, 16383, 16384, 16385];
    let n = ctx.pick(36, 400);
    for i in 0..n {
        let len = match i % 4 { 0 => 8192 + (i / 4) % 3, 1 => 16384 + (i / 4) % 3, 2 => 1024 + i, _ => ctx.rng.gen_range(1..20000usize) };
        let mut s = gen::random_text(&mut ctx.rng, len, b"\r\nxy z");
        for &e in &edges {
            if e < s.len() && e >= 1 {
                match ctx.rng.gen_range(0..4) {
                    0 => { s[e - 1] = b'\r'; s[e] = b'\n'; }
                    1 => { s[e - 1] = b'x'; s[e] = b'\n'; }
                    2 => { s[e - 1] = b'\r'; s[e] = b'x'; }
                    _ => {}
                }
            }
        }
        if i % 6 == 3 {
            // a document that itself starts with a byte order mark
            s.splice(0..0, [0xEFu8, 0xBB, 0xBF]);
        }
        let k = 1 + i % 3;
        let input = format!("signers={k} |text|={} sha256={}", s.len(), hx(&sha2_256(&s)));
        let built = guarded(|| {
            let mut b = MessageBuilder::from_bytes("", s.clone());
            b.sign_text();
            for key in ks.iter().take(k) {
                b.sign(&key.primary_key, Password::empty(), HashAlgorithm::Sha256);
            }
            b.to_vec(&mut rng).ok()
        });
        let Ok(Some(msg)) = built else {
            ctx.oracle("text_signature_follows_canon", "MessageBuilder::sign_text", &input, false, "could not sign");
            continue;
        };
        // inline, streaming, each signer
        let r = guarded(|| {
            let mut m = Message::from_bytes(&msg[..]).ok()?;
            let mut out = Vec::new();
            m.read_to_end(&mut out).ok()?;
            Some((0..k).map(|j| m.verify_nested_explicit(j, &pks[j].primary_key as &dyn pgp::types::VerifyingKey).is_ok()).collect::<Vec<bool>>())
        });
        let all = matches!(&r, Ok(Some(v)) if v.iter().all(|b| *b));
        ctx.oracle("text_signature_follows_canon", "SignatureManyReader / SignatureOnePassManyReader (text mode)", &input, all, &format!("verdicts {r:?}"));
        // detached: the signature over s holds for t iff canon(t) = canon(s)
        if i % 3 == 0 {
            let det = guarded(|| DetachedSignature::sign_text_data(&mut rng, &ks[0].primary_key, &Password::empty(), HashAlgorithm::Sha256, &s[..]).ok());
            if let Ok(Some(det)) = det {
                let mut variants: Vec<(String, Vec<u8>)> = vec![("crlf".into(), canon_ref(&s)), ("same".into(), s.clone())];
                // canonical form with every CRLF made LF only when that loses nothing (no CR CR LF ambiguity)
                let mut t = s.clone();
                let pos = ctx.rng.gen_range(0..t.len());
                t[pos] = if t[pos] == b'x' { b'y' } else { b'x' };
                variants.push(("one_octet_changed".into(), t));
                let mut t = s.clone();
                t.push(b'\r');
                variants.push(("trailing_cr".into(), t));
                // octets in front of / behind the document that a text tool might add or drop: none of
                // them is a line-ending conversion
                for (name, pre) in [("bom_in_front", &b"\xEF\xBB\xBF"[..]), ("utf16_bom_in_front", b"\xFF\xFE"), ("space_in_front", b" "), ("lf_in_front", b"\n"), ("nul_in_front", b"\0")] {
                    variants.push((name.into(), [pre, &s[..]].concat()));
                }
                for (name, post) in [("bom_behind", &b"\xEF\xBB\xBF"[..]), ("space_behind", b" "), ("ctrl_z_behind", b"\x1a"), ("nul_behind", b"\0")] {
                    variants.push((name.into(), [&s[..], post].concat()));
                }
                if s.starts_with(b"x") {
                    variants.push(("first_octet_dropped".into(), s[1..].to_vec()));
                }
                if s.starts_with(b"\xEF\xBB\xBF") {
                    variants.push(("leading_bom_dropped".into(), s[3..].to_vec()));
                }
                for (name, t) in variants {
                    let want = canon_ref(&t) == canon_ref(&s);
                    let got = guarded(|| det.verify(&pks[0].primary_key, &t[..]).is_ok());
                    ctx.oracle("text_signature_follows_canon", "DetachedSignature::verify (text mode)", &format!("{input} variant={name}"), got == Ok(want), &format!("verified {got:?}, canonical forms equal {want}"));
                }
            }
        }
        ctx.stat("gen:e2e_text_signatures");
    }
}

/// the signing side fed piece by piece (`DetachedSignature::sign_text_data` over a reader that
/// delivers exactly the given chunks, i.e. the `io::Write` side of the signature hasher): every
/// string over {CR, LF, x} up to length 5 under every chunking, verified over the whole document
fn e2e_streamed_signing(ctx: &mut Ctx) {
    use pgp::composed::DetachedSignature;
    use pgp::crypto::hash::HashAlgorithm;
    use pgp::types::{KeyVersion, Password};
    use rand::SeedableRng;
    let mut rng = rand_chacha::ChaCha8Rng::seed_from_u64(1415);
    let key = crate::keys::ed25519_x25519(&mut rng, KeyVersion::V4);
    let pk = key.to_public_key();
    let alphabet = [b'\r', b'\n', b'x'];
    let lmax = ctx.pick(5usize, 6usize);
    for n in 1..=lmax {
        for s in gen::all_strings(&alphabet, n) {
            for ch in gen::all_chunkings(&s) {
                if ch.len() < 2 {
                    continue;
                }
                let r = guarded(|| {
                    let sig = DetachedSignature::sign_text_data(&mut rng, &key.primary_key, &Password::empty(), HashAlgorithm::Sha256, ScheduledReader::from_chunks(&ch)).ok()?;
                    Some(sig.verify(&pk.primary_key, &s[..]).is_ok())
                });
                ctx.oracle("text_signature_follows_canon", "DetachedSignature::sign_text_data(reader delivering the chunks) -> verify(whole document)", &format!("chunks={}", hx_list(&ch)), r == Ok(Some(true)), &format!("{r:?}"));
                ctx.stat("gen:e2e_streamed_signing");
            }
        }
    }
    // the cleartext framework canonicalises on both sides as well: sign, armor, parse, verify
    for n in 1..=lmax {
        for t in gen::all_strings(&alphabet, n) {
            let Ok(text) = String::from_utf8(t.clone()) else { continue };
            let r = guarded(|| {
                let c = pgp::composed::CleartextSignedMessage::sign(&mut rng, &text, &key.primary_key, &Password::empty()).ok()?;
                let armored = c.to_armored_string(Default::default()).ok()?;
                let (back, _) = pgp::composed::CleartextSignedMessage::from_string(&armored).ok()?;
                Some(back.verify(&pk.primary_key).is_ok() && canon_ref(back.signed_text().as_bytes()) == canon_ref(c.signed_text().as_bytes()))
            });
            ctx.oracle("text_signature_follows_canon", "CleartextSignedMessage::sign -> to_armored_string -> from_string -> verify", &format!("text={}", hx(&t)), r == Ok(Some(true)), &format!("{r:?}"));
            ctx.stat("gen:e2e_cleartext");
        }
    }
    // long lines: a piece without any LF that ends in CR (the copy buffer of io::copy is 8 KiB)
    for (a, b) in [(8191usize, 10usize), (8192, 10), (100, 8192), (16383, 5)] {
        for tail in ["\r\nend\n", "\rmid\nend", "\r\r\n"] {
            let mut s = vec![b'x'; a];
            s.extend_from_slice(tail.as_bytes());
            s.extend(std::iter::repeat(b'y').take(b));
            for cut in [a, a + 1, a + 2] {
                let ch = vec![s[..cut].to_vec(), s[cut..].to_vec()];
                let r = guarded(|| {
                    let sig = DetachedSignature::sign_text_data(&mut rng, &key.primary_key, &Password::empty(), HashAlgorithm::Sha256, ScheduledReader::from_chunks(&ch)).ok()?;
                    Some(sig.verify(&pk.primary_key, &s[..]).is_ok())
                });
                ctx.oracle("text_signature_follows_canon", "DetachedSignature::sign_text_data(reader delivering the chunks) -> verify(whole document)", &format!("x*{a} + {tail:?} + y*{b}, cut at {cut}"), r == Ok(Some(true)), &format!("{r:?}"));
            }
        }
    }
}

/// a source that fails ONCE with `ErrorKind::Interrupted` (which `io::copy`, `read_to_end` and
/// friends retry, as the `Read` contract asks) is just another way of delivering the same text: the
/// canonical octets and the verdict over them are the same, or the fault itself is reported — never
/// a canonical stream with a hole
fn interrupted_sources(ctx: &mut Ctx) {
    use pgp::composed::DetachedSignature;
    use pgp::crypto::hash::HashAlgorithm;
    use pgp::types::{KeyVersion, Password};
    use rand::SeedableRng;
    let mut rng = rand_chacha::ChaCha8Rng::seed_from_u64(1416);
    let key = crate::keys::ed25519_x25519(&mut rng, KeyVersion::V4);
    let pk = key.to_public_key();
    for (n, sched) in [(1500usize, vec![100usize, 412, 300]), (1024, vec![512, 1, 511]), (600, vec![7; 200]), (5000, vec![1000; 8])] {
        let text = gen::random_text(&mut ctx.rng, n, b"ab \r\n\n");
        let want = canon_ref(&text);
        // the reader on its own, drained the way std does it
        let mut probe = ScheduledReader::new(&text, &sched);
        let _ = std::io::copy(&mut NormalizedReader::new(&mut probe, LineBreak::Crlf), &mut std::io::sink());
        let calls = probe.calls_made;
        for k in 0..calls {
            let r = guarded(|| {
                let src = ScheduledReader::new(&text, &sched).with_fault_kind(k, std::io::ErrorKind::Interrupted);
                let mut out = Vec::new();
                std::io::copy(&mut NormalizedReader::new(src, LineBreak::Crlf), &mut out).map(|_| out).map_err(|e| e.to_string())
            });
            let ok = match &r {
                Ok(Ok(out)) => *out == want,
                Ok(Err(_)) => true,
                Err(_) => false,
            };
            ctx.oracle("reader_is_canon", "normalize_lines.rs NormalizedReader over a source interrupted once (io::copy retries)", &format!("n={n} schedule={:?} Interrupted@read#{k} text={}", &sched[..sched.len().min(4)], hx(&text)), ok, &format!("{:?}", r.as_ref().map(|x| x.as_ref().map(|o| o.len()))));
            ctx.stat("gen:interrupted_reader");
        }
        // a valid text signature verified from such a source
        let Ok(sig) = DetachedSignature::sign_text_data(&mut rng, &key.primary_key, &Password::empty(), HashAlgorithm::Sha256, &text[..]) else { continue };
        for k in (0..calls).step_by(if ctx.thorough() { 1 } else { 3 }) {
            let r = guarded(|| sig.signature.verify(&pk.primary_key, ScheduledReader::new(&text, &sched).with_fault_kind(k, std::io::ErrorKind::Interrupted)).map_err(|e| e.to_string()));
            let ok = match &r {
                Ok(Ok(())) => true,
                Ok(Err(e)) => e.contains("injected source fault"),
                Err(_) => false,
            };
            ctx.oracle("text_signature_follows_canon", "DetachedSignature::verify over a source interrupted once", &format!("n={n} Interrupted@read#{k} text={}", hx(&text)), ok, &format!("{r:?}"));
            ctx.stat("gen:interrupted_verify");
        }
    }
}

fn sha2_256(d: &[u8]) -> Vec<u8> {
    use sha2::Digest;
    sha2::Sha256::digest(d).to_vec()
}

/// long texts with CR / LF / CR LF planted on both sides of every power-of-two offset from 2^9 to 2^17
/// (and 3 * 2^15): whatever block, window or buffer size an implementation of the three canonicalisers
/// works with, a line ending that straddles its edge is one line ending (oracles only)
fn power_of_two_boundaries(ctx: &mut Ctx) {
    let mut offsets: Vec<usize> = (9..=17).map(|k| 1usize << k).collect();
    offsets.push(3 << 15);
    let total = (1usize << 17) + 40;
    for (pi, pattern) in [&b"\r\n"[..], b"\n", b"\r", b"\r\r\n", b"\n\r"].into_iter().enumerate() {
        for shift in 0..=pattern.len() {
            // the pattern starts `shift` octets before each offset
            let mut s = vec![b'x'; total];
            for &o in &offsets {
                let start = o - shift;
                s[start..start + pattern.len()].copy_from_slice(pattern);
            }
            let want = canon_ref(&s);
            let input = format!("text of {total} octets 'x' with {:?} starting {shift} octets before each of {offsets:?}", String::from_utf8_lossy(pattern));
            let ch = match (pi + shift) % 3 {
                0 => vec![s.clone()],
                1 => gen::chunk_at(&s, &offsets),
                _ => gen::random_chunking(&mut ctx.rng, &s, 5000),
            };
            let h = hasher(&ch);
            ctx.oracle("hasher_is_canon", "util.rs NormalizingHasher::{hash_buf,done}", &input, h.as_ref().ok() == Some(&want), &format!("lengths: got {:?} want {}", h.as_ref().map(|v| v.len()), want.len()));
            let r = reader(&ch, &[8192, 1, 4096]);
            let rok = matches!(&r, Ok((v, Ok(()))) if v == &want);
            ctx.oracle("reader_is_canon", "normalize_lines.rs NormalizedReader", &input, rok, &format!("lengths: got {:?} want {}", r.as_ref().map(|x| x.0.len()), want.len()));
            if let Ok(txt) = std::str::from_utf8(&s) {
                let m = guarded(|| verif_hooks::normalize_lines_crlf(txt).into_bytes());
                ctx.oracle("replace_is_canon", "normalize_lines.rs replace_newlines", &input, m.as_ref().ok() == Some(&want), &format!("lengths: got {:?} want {}", m.as_ref().map(|v| v.len()), want.len()));
                // the cleartext framework hashes the in-memory form: sign through the streaming path, verify in memory
                ctx.stat("gen:power_of_two_boundary");
            }
        }
    }
}

pub fn run(ctx: &mut Ctx) {
    power_of_two_boundaries(ctx);
    e2e_text_signatures(ctx);
    e2e_streamed_signing(ctx);
    interrupted_sources(ctx);
    let alphabet = [b'\r', b'\n', b'x'];
    // exhaustive: all strings up to length L, all chunkings up to length Lc
    let (l_all, l_chunk) = ctx.pick((8usize, 6usize), (10usize, 8usize));
    for n in 0..=l_all {
        for s in gen::all_strings(&alphabet, n) {
            if n <= l_chunk {
                for (ci, ch) in gen::all_chunkings(&s).into_iter().enumerate() {
                    let reqs = [[1usize, 2, 3][ci % 3], 7];
                    one(ctx, &ch, &reqs, n <= 4);
                    ctx.stat("gen:exhaustive_string_x_chunking");
                    // zero-length writes / reads between the chunks (legal for `io::Write::write`
                    // callers of the signature hasher): every single insertion position
                    if n <= 5 {
                        for pos in 0..=ch.len() {
                            let mut with_empty = ch.clone();
                            with_empty.insert(pos, Vec::new());
                            let h = hasher(&with_empty);
                            let want = canon_ref(&s);
                            ctx.case(format!("canon_hasher chunks={}", hx_list(&with_empty)), ans(&h));
                            ctx.oracle("hasher_is_canon", "util.rs NormalizingHasher::{hash_buf,done}", &format!("chunks={}", hx_list(&with_empty)),
                                h.as_ref().ok() == Some(&want), &format!("got {:?} want {}", h.as_ref().map(|v| hx(v)), hx(&want)));
                            ctx.stat("gen:with_empty_chunk");
                        }
                    }
                }
            } else {
                let ch = gen::random_chunking(&mut ctx.rng, &s, 3);
                one(ctx, &ch, &[3, 1, 64], false);
                ctx.stat("gen:exhaustive_string_random_chunking");
            }
        }
    }
    // long random strings with CR/LF planted at internal buffer edges
    let n_long = ctx.pick(150, 6000);
    let edges = [511usize, 512, 513, 1023, 1024, 1025, 1535, 1536, 8191, 8192, 8193];
    for i in 0..n_long {
        let len = match i % 5 {
            0 => 512 * ctx.rng.gen_range(1..=4usize),
            1 => 512 * ctx.rng.gen_range(1..=4usize) + 1,
            2 => 8192 + ctx.rng.gen_range(0..4usize),
            _ => ctx.rng.gen_range(500..9000usize),
        };
        let alpha: &[u8] = if i % 2 == 0 { b"\r\nx" } else { b"\r\n\r\nxy z\xc3\xa9" };
        let mut s = gen::random_text(&mut ctx.rng, len, alpha);
        if i % 2 == 1 {
            // keep it valid UTF-8 half of the time is not required; hasher/reader are byte based
        }
        for &e in &edges {
            if e < s.len() {
                s[e] = [b'\r', b'\n', b'x'][ctx.rng.gen_range(0..3)];
                if e >= 1 && ctx.rng.gen_bool(0.5) { s[e - 1] = b'\r'; }
            }
        }
        let ch = match i % 4 {
            0 => gen::chunk_at(&s, &edges),
            1 => gen::random_chunking(&mut ctx.rng, &s, 2),
            2 => gen::random_chunking(&mut ctx.rng, &s, 700),
            _ => gen::chunk_at(&s, &[512, 1024, 1536, 2048]),
        };
        let reqs: &[usize] = match i % 4 { 0 => &[1], 1 => &[511, 2], 2 => &[0, 13, 0, 600], _ => &[8192] };
        one(ctx, &ch, reqs, i % 10 == 0);
        ctx.stat("gen:long_edge_planted");
    }
}
