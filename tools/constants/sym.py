# Constants of the symmetric / KDF constructions (C12): one item per *use site*.
# exec'd by tools/extract_constants.py with `item`, `derived`, `re` in scope.

def _bytes_be(s):
    return int.from_bytes(s.encode("utf-8"), "big")

def _bin(s):
    return int(s.replace("_", ""), 2)

# ---- types/s2k.rs -----------------------------------------------------------------------------
S2K = "src/types/s2k.rs"
item("s2kExpbias", S2K, r"const EXPBIAS: u32 = (\d+);", "s2k.rs EXPBIAS")
item("s2kDefaultCount", S2K, r"const DEFAULT_ITER_SALTED_COUNT: u8 = (\d+);", "s2k.rs DEFAULT_ITER_SALTED_COUNT")
item("argon2MemLimitKib", S2K, r"const ARGON2_MEMORY_LIMIT_KIB: u32 = ([^;]+);", "s2k.rs ARGON2_MEMORY_LIMIT_KIB")
item("s2kCountBase", S2K, r"fn decode_count.*?\(\((\d+)u32 \+ u32::from\(coded_count & (\d+)\)\)", "decode_count: base 16", group=1)
item("s2kCountMask", S2K, r"fn decode_count.*?\(\((\d+)u32 \+ u32::from\(coded_count & (\d+)\)\)", "decode_count: mantissa mask 15", group=2)
item("s2kCountShift", S2K, r"fn decode_count.*?<< \(u32::from\(coded_count >> (\d+)\) \+ EXPBIAS\)", "decode_count: exponent shift 4")
item("argon2MaxT", S2K, r"\*t <= (\d+) && \*p <= (\d+)", "derive_key Argon2: t limit", group=1)
item("argon2MaxP", S2K, r"\*t <= (\d+) && \*p <= (\d+)", "derive_key Argon2: p limit", group=2)
item("argon2MaxMEnc", S2K, r"\*m_enc >= min_m && \*m_enc <= (\d+)", "derive_key Argon2: encoded m upper bound")
item("s2kIdSimple", S2K, r"pub fn id\(&self\).*?Self::Simple \{ \.\. \} => (\d+)", "StringToKey::id Simple")
item("s2kIdSalted", S2K, r"pub fn id\(&self\).*?Self::Salted \{ \.\. \} => (\d+)", "StringToKey::id Salted")
item("s2kIdIterated", S2K, r"pub fn id\(&self\).*?Self::IteratedAndSalted \{ \.\. \} => (\d+)", "StringToKey::id IteratedAndSalted")
item("s2kIdArgon2", S2K, r"pub fn id\(&self\).*?Self::Argon2 \{ \.\. \} => (\d+)", "StringToKey::id Argon2")
item("s2kRdSimple", S2K, r"match typ \{\s*(\d+) => \{\s*let hash_alg = i\.read_u8\(\)\.map\(HashAlgorithm::from\)\?;\s*Ok\(StringToKey::Simple", "try_from_reader: type octet of Simple")
item("s2kRdArgon2", S2K, r"(\d+) => \{\s*let salt = i\.read_arr::<16>\(\)\?;", "try_from_reader: type octet of Argon2")
item("s2kRdIterated", S2K, r"(\d+) => \{\s*let hash_alg = i\.read_u8\(\)\.map\(HashAlgorithm::from\)\?;\s*let salt = i\.read_arr::<8>\(\)\?;\s*let count", "try_from_reader: type octet of IteratedAndSalted")
item("s2kSaltLen", S2K, r"Salted \{\s*hash_alg: HashAlgorithm,\s*#\[debug[^\]]*\]\s*salt: \[u8; (\d+)\]", "StringToKey::Salted salt length")
item("s2kArgonSaltLen", S2K, r"Argon2 \{\s*#\[debug[^\]]*\]\s*salt: \[u8; (\d+)\]", "StringToKey::Argon2 salt length")
item("s2kLenSimple", S2K, r"fn len\(&self\).*?Self::Simple \{ \.\. \} => (\d+)", "StringToKey::len Simple")
item("s2kLenSalted", S2K, r"fn len\(&self\).*?Self::Salted \{ \.\. \} => (\d+)", "StringToKey::len Salted")
item("s2kLenIterated", S2K, r"fn len\(&self\).*?Self::IteratedAndSalted \{ \.\. \} => (\d+)", "StringToKey::len IteratedAndSalted")
item("s2kLenArgon2", S2K, r"fn len\(&self\).*?Self::Argon2 \{ \.\. \} => (\d+)", "StringToKey::len Argon2")
item("s2kUsageAead", S2K, r"S2kParams::Aead \{ \.\. \} => (\d+)", "S2kParams -> usage octet AEAD")
item("s2kUsageCfb", S2K, r"S2kParams::Cfb \{ \.\. \} => (\d+)", "S2kParams -> usage octet CFB")

# ---- types/packet.rs : tags -------------------------------------------------------------------
TP = "src/types/packet.rs"
item("tagEncodeBits", TP, r"pub fn encode\(self\) -> u8 \{\s*0b([01_]+) \| u8::from\(self\)", "Tag::encode high bits", raw=_bin)
item("tagSkesk", TP, r"SymKeyEncryptedSessionKey = (\d+),", "Tag::SymKeyEncryptedSessionKey")
item("tagSecretKey", TP, r"SecretKey = (\d+),", "Tag::SecretKey")
item("tagSecretSubkey", TP, r"SecretSubkey = (\d+),", "Tag::SecretSubkey")
item("tagSeipd", TP, r"SymEncryptedProtectedData = (\d+),", "Tag::SymEncryptedProtectedData")

# ---- crypto/aead.rs ---------------------------------------------------------------------------
AE = "src/crypto/aead.rs"
item("aeadIdEax", AE, r"Eax = (\d+),", "AeadAlgorithm::Eax id")
item("aeadIdOcb", AE, r"Ocb = (\d+),", "AeadAlgorithm::Ocb id")
item("aeadIdGcm", AE, r"Gcm = (\d+),", "AeadAlgorithm::Gcm id")
for nm in ("Eax", "Ocb", "Gcm"):
    item("aeadNonce" + nm, AE, r"pub fn nonce_size.*?Self::%s => (\d+)" % nm, "AeadAlgorithm::nonce_size " + nm)
    item("aeadIv" + nm, AE, r"pub fn iv_size.*?Self::%s => (\d+)" % nm, "AeadAlgorithm::iv_size " + nm)
    item("aeadTag" + nm, AE, r"pub fn tag_size.*?Self::%s => Some\((\d+)\)" % nm, "AeadAlgorithm::tag_size " + nm)
item("seipd2OkmLen", AE, r"fn aead_setup_rfc9580.*?let mut okm = Zeroizing::new\(\[0u8; (\d+)\]\)", "aead_setup_rfc9580 HKDF output length")
item("seipd2InfoVersion", AE, r"fn aead_setup_rfc9580.*?0x([0-9a-fA-F]+),\s*// version", "aead_setup_rfc9580 info version octet", raw=lambda s: int(s, 16))
item("seipd2NonceCounterLen", AE, r"let raw_iv_len = aead\.nonce_size\(\) - (\d+);", "aead_setup_rfc9580: octets of the nonce taken by the chunk index")
item("chunkSizeShiftBias", AE, r"1u32 << \(\(self as u32\) \+ (\d+)\)", "ChunkSize::as_byte_size exponent bias")
item("chunkSizeMin", AE, r"C64B = (\d+),", "ChunkSize smallest octet")
item("chunkSizeMax", AE, r"C4MiB = (\d+),", "ChunkSize largest octet")
AEE = "src/crypto/aead/encryptor.rs"
item("aeadEncCounterLen", AEE, r"let l = self\.nonce\.len\(\) - (\d+);", "aead StreamEncryptor: index octets in the nonce")
AED = "src/crypto/aead/decryptor.rs"
item("aeadDecTagSize", AED, r"const AEAD_TAG_SIZE: usize = (\d+);", "aead/decryptor.rs AEAD_TAG_SIZE")
item("aeadDecCounterLen", AED, r"ModeData::Rfc9580 \{ ref mut nonce, \.\. \} => \{\s*let l = nonce\.len\(\) - (\d+);", "aead StreamDecryptor: index octets in the nonce")

# ---- crypto/sym.rs and sym/{encryptor,decryptor}.rs -------------------------------------------------
SY = "src/crypto/sym.rs"
ALGS = [("IDEA", 1), ("TripleDES", 2), ("CAST5", 3), ("Blowfish", 4), ("AES128", 7), ("AES192", 8), ("AES256", 9),
        ("Twofish", 10), ("Camellia128", 11), ("Camellia192", 12), ("Camellia256", 13)]
for nm, _id in ALGS:
    item("symId" + nm, SY, r"pub enum SymmetricKeyAlgorithm \{.*?\b%s = (\d+)," % nm, "SymmetricKeyAlgorithm::%s id" % nm)
    item("symBlock" + nm, SY, r"pub fn block_size\(self\).*?SymmetricKeyAlgorithm::%s => (\d+)," % nm, "block_size " + nm)
    item("symKey" + nm, SY, r"pub const fn key_size\(self\).*?SymmetricKeyAlgorithm::%s => (\d+)," % nm, "key_size " + nm)
item("epMdcLen", SY, r"pub fn encrypt_protected.*?let mdc_len = (\d+);", "encrypt_protected mdc_len")
item("epPrefixExtra", SY, r"pub fn encrypt_protected.*?let prefix_len = bs \+ (\d+);", "encrypt_protected prefix_len = bs + 2")
item("epMdcTag", SY, r"pub fn encrypt_protected.*?\[prefix_len \+ plaintext_len\] = 0x([0-9A-Fa-f]+);", "encrypt_protected MDC tag octet", raw=lambda s: int(s, 16))
item("epMdcLenOctet", SY, r"pub fn encrypt_protected.*?\[prefix_len \+ plaintext_len \+ 1\] = 0x([0-9A-Fa-f]+);", "encrypt_protected MDC length octet", raw=lambda s: int(s, 16))
item("epRepeatBack", SY, r"pub fn encrypt_protected.*?ciphertext\[bs\] = ciphertext\[bs - (\d+)\];", "encrypt_protected quick-check source offset")
item("epOverheadQuick", SY, r"pub fn encrypted_protected_overhead.*?self\.block_size\(\) \+\s*// 2 bytes[^\n]*\n\s*(\d+) \+", "encrypted_protected_overhead quick check octets")
item("epOverheadMdc", SY, r"pub fn encrypted_protected_overhead.*?// MDC[^\n]*\n\s*(\d+)\s*\}", "encrypted_protected_overhead MDC octets")
SE = "src/crypto/sym/encryptor.rs"
item("seMdcTag", SE, r"let mdc_header = \[0x([0-9A-Fa-f]+), 0x([0-9A-Fa-f]+)\];", "sym StreamEncryptor MDC tag octet", group=1, raw=lambda s: int(s, 16))
item("seMdcLenOctet", SE, r"let mdc_header = \[0x([0-9A-Fa-f]+), 0x([0-9A-Fa-f]+)\];", "sym StreamEncryptor MDC length octet", group=2, raw=lambda s: int(s, 16))
item("seMdcLen", SE, r"let mut mdc = BytesMut::zeroed\((\d+)\);", "sym StreamEncryptor MDC total length")
item("sePrefixExtra", SE, r"let mut prefix = vec!\[0u8; bs \+ (\d+)\];", "sym StreamEncryptor prefix = bs + 2")
item("seBufferSize", SE, r"fn buffer_size\(\) -> usize \{\s*([^}]+?)\s*\}", "sym StreamEncryptor buffer size")
SD = "src/crypto/sym/decryptor.rs"
item("sdMdcLen", SD, r"const MDC_LEN: usize = (\d+);", "sym/decryptor.rs MDC_LEN")
item("sdBufferSize", SD, r"const BUFFER_SIZE: usize = ([^;]+);", "sym/decryptor.rs BUFFER_SIZE")
item("sdMdcTag", SD, r"msg_mdc\[0\]\.ct_eq\(&0x([0-9A-Fa-f]+)\)", "sym StreamDecryptor expected MDC tag octet", raw=lambda s: int(s, 16))
item("sdMdcLenOctet", SD, r"msg_mdc\[1\]\.ct_eq\(&0x([0-9A-Fa-f]+)\)", "sym StreamDecryptor expected MDC length octet", raw=lambda s: int(s, 16))
item("sdPrefixExtra", SD, r"let prefix_len = bs \+ (\d+);", "sym StreamDecryptor prefix = bs + 2")

# ---- packet/sym_key_encrypted_session_key.rs --------------------------------------------------
SK = "src/packet/sym_key_encrypted_session_key.rs"
item("skesk6DecInfoVersion", SK, r"pub fn decrypt\(.*?Self::V6 \{.*?0x([0-9A-Fa-f]+),\s*// version", "SKESK v6 decrypt: info version octet", raw=lambda s: int(s, 16))
item("skesk6EncInfoVersion", SK, r"pub fn encrypt_v6.*?0x([0-9A-Fa-f]+),\s*// version", "SKESK v6 encrypt: info version octet", raw=lambda s: int(s, 16))
item("skesk6DecOkmLen", SK, r"pub fn decrypt\(.*?Self::V6 \{.*?let mut okm = \[0u8; (\d+)\];", "SKESK v6 decrypt: HKDF output length")
item("skesk6EncOkmLen", SK, r"pub fn encrypt_v6.*?let mut okm = \[0u8; (\d+)\];", "SKESK v6 encrypt: HKDF output length")
item("skesk4WrVersion", SK, r"SymKeyEncryptedSessionKey::V4 \{\s*packet_header: _,\s*sym_algorithm,\s*s2k,\s*encrypted_key,\s*\} => \{\s*writer\.write_u8\(0x([0-9A-Fa-f]+)\)", "SKESK v4 to_writer version octet", raw=lambda s: int(s, 16))
item("skesk6WrVersionOctet", SK, r"writer\.write_u8\(0x([0-9A-Fa-f]+)\)\?;\s*let s2k_len = s2k\.write_len\(\);", "SKESK v6 to_writer version octet", raw=lambda s: int(s, 16))
item("skesk6CountFixed", SK, r"let first_len = ((?:1 \+ )+)s2k_len \+ aead\.iv\(\)\.len\(\);", "SKESK v6 to_writer: fixed part of the field-count octet", raw=lambda s: s.count("1"))

# ---- types/params/plain_secret.rs -------------------------------------------------------------
PS = "src/types/params/plain_secret.rs"
item("secAeadOkmLen", PS, r"fn s2k_usage_aead.*?let mut okm = \[0u8; (\d+)\];", "s2k_usage_aead HKDF output length")
item("secAeadTypeBits", PS, r"let type_id = u8::from\(secret_tag\) \| 0x([0-9A-Fa-f]+);", "s2k_usage_aead packet type id high bits", raw=lambda s: int(s, 16))

# ---- crypto/ecdh.rs ---------------------------------------------------------------------------
EC = "src/crypto/ecdh.rs"
_anon = r"const ANON_SENDER: \[u8; 20\] = \[\s*" + r",\s*".join([r"0x([0-9A-Fa-f]{2})"] * 20)
for i in range(20):
    item("anonSender%d" % i, EC, _anon, "ecdh.rs ANON_SENDER[%d]" % i, group=i + 1, raw=lambda s: int(s, 16))
item("ecdhKdfParamsLen", EC, r"0x([0-9A-Fa-f]+), // length of the following fields", "build_ecdh_param: KDF params length octet", raw=lambda s: int(s, 16))
item("ecdhKdfParamsReserved", EC, r"0x([0-9A-Fa-f]+), // reserved for future extensions", "build_ecdh_param: reserved octet", raw=lambda s: int(s, 16))
item("ecdhPkAlgo", "src/crypto/public_key.rs", r"ECDH = (\d+),", "PublicKeyAlgorithm::ECDH id")
for i in range(4):
    item("ecdhKdfCounter%d" % i, EC, r"pub fn kdf\(.*?let prefix = vec!\[(\d+), (\d+), (\d+), (\d+)\];", "ecdh kdf counter prefix octet %d" % i, group=i + 1)
item("ecdhPadBlock", EC, r"let remainder = len % (\d+);", "ecdh pad: block size in remainder")
item("ecdhPadAdd", EC, r"let padded_len = len \+ (\d+) - remainder;", "ecdh pad: block size added")
item("ecdhUnpadBlock", EC, r"let block_size = (\d+);", "ecdh derive_session_key: unpad block size")
item("ecdhMaxPlain", EC, r"pub fn encrypt<R: CryptoRng \+ Rng>\(.*?const MAX_SIZE: usize = (\d+);", "ecdh::encrypt MAX_SIZE")
item("aesKwIvLen", "src/crypto/aes_kw.rs", r"const IV_LEN: usize = (\d+);", "aes_kw.rs IV_LEN")

# ---- crypto/x25519.rs, x448.rs ---------------------------------------------------------------
X2 = "src/crypto/x25519.rs"
item("x25519OkmLen", X2, r"pub fn hkdf\(.*?let mut okm = Zeroizing::new\(\[0u8; (\d+)\]\);", "x25519::hkdf output length")
item("x25519Info", X2, r'const INFO: &\[u8\] = b"([^"]+)";', "x25519::hkdf INFO as a big-endian number", raw=_bytes_be)
item("x25519InfoLen", X2, r'const INFO: &\[u8\] = b"([^"]+)";', "x25519::hkdf INFO length", raw=len)
item("x25519KeyLen", X2, r"pub const KEY_LEN: usize = (\d+);", "x25519 KEY_LEN")
X4 = "src/crypto/x448.rs"
item("x448OkmLen", X4, r"pub fn hkdf\(.*?let mut okm = Zeroizing::new\(\[0u8; (\d+)\]\);", "x448::hkdf output length")
item("x448Info", X4, r'const INFO: &\[u8\] = b"([^"]+)";', "x448::hkdf INFO as a big-endian number", raw=_bytes_be)
item("x448InfoLen", X4, r'const INFO: &\[u8\] = b"([^"]+)";', "x448::hkdf INFO length", raw=len)
item("x448UsesSha512", X4, r"HkdfExtract::<Sha(\d+)>::new\(None\)", "x448::hkdf hash (SHA-512)")
item("x25519UsesSha256", X2, r"HkdfExtract::<Sha(\d+)>::new\(None\)", "x25519::hkdf hash (SHA-256)")

# ---- crypto/checksum.rs -----------------------------------------------------------------------
item("sum16Mask", "src/crypto/checksum.rs", r"\(u32::from\(self\.0\) \+ new_sum\) & 0x([0-9A-Fa-f]+)\)", "SimpleChecksum mask", raw=lambda s: int(s, 16))

derived("""
/-- `ecdh.rs ANON_SENDER` -/
def anonSender : List Nat := [anonSender0, anonSender1, anonSender2, anonSender3, anonSender4, anonSender5,
  anonSender6, anonSender7, anonSender8, anonSender9, anonSender10, anonSender11, anonSender12, anonSender13,
  anonSender14, anonSender15, anonSender16, anonSender17, anonSender18, anonSender19]

/-- `ecdh::kdf` counter prefix -/
def ecdhKdfCounter : List Nat := [ecdhKdfCounter0, ecdhKdfCounter1, ecdhKdfCounter2, ecdhKdfCounter3]

/-- `SymmetricKeyAlgorithm::block_size` (0 = not a cipher rpgp can run) -/
def symBlockSize (id : Nat) : Nat :=
  if id = symIdIDEA then symBlockIDEA else if id = symIdTripleDES then symBlockTripleDES
  else if id = symIdCAST5 then symBlockCAST5 else if id = symIdBlowfish then symBlockBlowfish
  else if id = symIdAES128 then symBlockAES128 else if id = symIdAES192 then symBlockAES192
  else if id = symIdAES256 then symBlockAES256 else if id = symIdTwofish then symBlockTwofish
  else if id = symIdCamellia128 then symBlockCamellia128 else if id = symIdCamellia192 then symBlockCamellia192
  else if id = symIdCamellia256 then symBlockCamellia256 else 0

/-- `SymmetricKeyAlgorithm::key_size` -/
def c12SymKeySize (id : Nat) : Nat :=
  if id = symIdIDEA then symKeyIDEA else if id = symIdTripleDES then symKeyTripleDES
  else if id = symIdCAST5 then symKeyCAST5 else if id = symIdBlowfish then symKeyBlowfish
  else if id = symIdAES128 then symKeyAES128 else if id = symIdAES192 then symKeyAES192
  else if id = symIdAES256 then symKeyAES256 else if id = symIdTwofish then symKeyTwofish
  else if id = symIdCamellia128 then symKeyCamellia128 else if id = symIdCamellia192 then symKeyCamellia192
  else if id = symIdCamellia256 then symKeyCamellia256 else 0

/-- `AeadAlgorithm::nonce_size` (0 = unknown mode) -/
def aeadNonceSize (id : Nat) : Nat :=
  if id = aeadIdEax then aeadNonceEax else if id = aeadIdOcb then aeadNonceOcb
  else if id = aeadIdGcm then aeadNonceGcm else 0

/-- `AeadAlgorithm::iv_size` -/
def aeadIvSize (id : Nat) : Nat :=
  if id = aeadIdEax then aeadIvEax else if id = aeadIdOcb then aeadIvOcb
  else if id = aeadIdGcm then aeadIvGcm else 0

/-- `AeadAlgorithm::tag_size` -/
def c12AeadTagSize (id : Nat) : Option Nat :=
  if id = aeadIdEax then some aeadTagEax else if id = aeadIdOcb then some aeadTagOcb
  else if id = aeadIdGcm then some aeadTagGcm else none
""")
