# ---- signature pre-image constants (C11 / C02) -------------------------------------------
# one item per *use site*: the signing side (config.rs) and the verifying side (types.rs) each
# carry their own copy of the user-id / attribute prefix octets, the key framing lives in
# types.rs serialize_for_hashing and (a second copy) in key/public.rs imprint.
ST = "src/packet/signature/types.rs"
SC = "src/packet/signature/config.rs"
HA = "src/crypto/hash.rs"
PK = "src/packet/key/public.rs"

SFH = r"fn serialize_for_hashing.*?"
item("sdSfhLegacyPrefix", ST, SFH + r"KeyVersion::V2 \| KeyVersion::V3 \| KeyVersion::V4 => \{.*?writer\.write_u8\((0x[0-9A-Fa-f]+)\)", "serialize_for_hashing: prefix octet for v2/v3/v4 keys")
item("sdSfhLegacyLenBits", ST, SFH + r"KeyVersion::V2 \| KeyVersion::V3 \| KeyVersion::V4 => \{.*?writer\.write_u(\d+)::<BigEndian>\(key_len", "serialize_for_hashing: length width (bits) for v2/v3/v4 keys")
item("sdSfhV6Prefix", ST, SFH + r"KeyVersion::V6 => \{.*?writer\.write_u8\((0x[0-9A-Fa-f]+)\)", "serialize_for_hashing: prefix octet for v6 keys")
item("sdSfhV6LenBits", ST, SFH + r"KeyVersion::V6 => \{.*?writer\.write_u(\d+)::<BigEndian>\(key_len", "serialize_for_hashing: length width (bits) for v6 keys")

item("sdSignUidPrefix", SC, r"fn sign_certification_third_party.*?Tag::UserId => (0x[0-9A-Fa-f]+)", "sign_certification_third_party: user-id prefix octet")
item("sdSignAttrPrefix", SC, r"fn sign_certification_third_party.*?Tag::UserAttribute => (0x[0-9A-Fa-f]+)", "sign_certification_third_party: user-attribute prefix octet")
item("sdSignIdLenBits", SC, r"fn sign_certification_third_party.*?BigEndian::write_u(\d+)\(&mut prefix_buf\[1\.\.\]", "sign_certification_third_party: id length width (bits)")
item("sdVerUidPrefix", ST, r"fn verify_third_party_certification.*?Tag::UserId => (0x[0-9A-Fa-f]+)", "verify_third_party_certification: user-id prefix octet")
item("sdVerAttrPrefix", ST, r"fn verify_third_party_certification.*?Tag::UserAttribute => (0x[0-9A-Fa-f]+)", "verify_third_party_certification: user-attribute prefix octet")
item("sdVerIdLenBits", ST, r"fn verify_third_party_certification.*?BigEndian::write_u(\d+)\(&mut prefix_buf\[1\.\.\]", "verify_third_party_certification: id length width (bits)")

item("sdTrailerMarker", SC, r"pub fn trailer.*?vec!\[self\.version\(\)\.into\(\), (0x[0-9A-Fa-f]+), 0, 0, 0, 0\]", "trailer: marker octet after the version")
item("sdTrailerLenBits", SC, r"pub fn trailer.*?BigEndian::write_u(\d+)\(&mut trailer\[2\.\.\]", "trailer: length width (bits)")
item("sdHsdV4AreaLenBits", SC, r"SignatureVersion::V4 \{\s*res\.extend\(u(\d+)::try_from\(hashed_subpackets\.len\(\)\)", "hash_signature_data: hashed-area length width for v4 (bits)")
item("sdHsdV6AreaLenBits", SC, r"SignatureVersion::V6 \{\s*res\.extend\(u(\d+)::try_from\(hashed_subpackets\.len\(\)\)", "hash_signature_data: hashed-area length width for v6 (bits)")
item("sdHsdV3Len", SC, r"pub fn hash_signature_data.*?let mut buf = \[0u8; (\d+)\];", "hash_signature_data: v2/v3 hashed material (type + creation time) octets")

item("sdSigVerV3", ST, r"pub enum SignatureVersion \{.*?V3 = (\d+),", "SignatureVersion::V3 octet")
item("sdSigVerV4", ST, r"pub enum SignatureVersion \{.*?V4 = (\d+),", "SignatureVersion::V4 octet")
item("sdSigVerV6", ST, r"pub enum SignatureVersion \{.*?V6 = (\d+),", "SignatureVersion::V6 octet")

for _n, _v in [("Binary", "Binary"), ("Text", "Text"), ("CertGeneric", "CertGeneric"), ("CertPersona", "CertPersona"),
               ("CertCasual", "CertCasual"), ("CertPositive", "CertPositive"), ("SubkeyBinding", "SubkeyBinding"),
               ("KeyBinding", "KeyBinding"), ("Key", "Key"), ("KeyRevocation", "KeyRevocation"),
               ("SubkeyRevocation", "SubkeyRevocation"), ("CertRevocation", "CertRevocation"),
               ("Standalone", "Standalone"), ("Timestamp", "Timestamp")]:
    item("sdSigType" + _n, ST, r"pub enum SignatureType \{.*?\b" + _v + r" = (0x[0-9A-Fa-f]+),", "SignatureType::" + _v + " octet")

for _n in ["Sha256", "Sha384", "Sha512", "Sha224", "Sha3_256", "Sha3_512"]:
    _l = _n.replace("_", "")
    item("sdHashId" + _l, HA, r"pub enum HashAlgorithm \{.*?\b" + _n + r" = (\d+),", "HashAlgorithm::" + _n + " octet")
    item("sdSaltLen" + _l, HA, r"fn salt_len.*?Self::" + _n + r" => Some\((\d+)\)", "HashAlgorithm::salt_len for " + _n)

item("sdImprintV4Prefix", PK, r"KeyVersion::V4 => \{\s*hasher\.update\(\[(0x[0-9A-Fa-f]+)\]\)", "PubKeyInner::imprint: v4 prefix octet")
item("sdImprintV6Prefix", PK, r"// a\.1\) 0x9B \(1 octet\)\s*hasher\.update\(\[(0x[0-9A-Fa-f]+)\]\)", "PubKeyInner::imprint: v6 prefix octet")

derived("""
/-- `HashAlgorithm::salt_len` as a table on the algorithm octet (hash.rs) -/
def sdSaltLenOf (h : Nat) : Option Nat :=
  if h = sdHashIdSha224 then some sdSaltLenSha224
  else if h = sdHashIdSha256 then some sdSaltLenSha256
  else if h = sdHashIdSha384 then some sdSaltLenSha384
  else if h = sdHashIdSha512 then some sdSaltLenSha512
  else if h = sdHashIdSha3256 then some sdSaltLenSha3256
  else if h = sdHashIdSha3512 then some sdSaltLenSha3512
  else none

/-- octet widths of the length fields -/
def sdSfhLegacyLenOctets : Nat := sdSfhLegacyLenBits / 8
def sdSfhV6LenOctets : Nat := sdSfhV6LenBits / 8
def sdSignIdLenOctets : Nat := sdSignIdLenBits / 8
def sdVerIdLenOctets : Nat := sdVerIdLenBits / 8
def sdTrailerLenOctets : Nat := sdTrailerLenBits / 8
def sdHsdV4AreaLenOctets : Nat := sdHsdV4AreaLenBits / 8
def sdHsdV6AreaLenOctets : Nat := sdHsdV6AreaLenBits / 8
""")
