#!/usr/bin/env python3
"""Translator: re-extract, from /repo's current working tree, the numeric constants and small
tables the Lean theorems are parametric in, and write lean/RpgpModel/Gen/Constants.lean.

Deliberately shallow (regular expressions over named items, no control flow).  One Lean
definition per *use site*, so that a writer/reader disagreement is visible to the theorems
that relate them.  If an item can no longer be located its previous value is kept and the
item is reported as `not re-extracted` (the correspondence check is then what ties it).
"""
import json
import os
import re
import sys

REPO = os.environ.get("VERIF_REPO", "/repo")
OUT = os.path.join(os.path.dirname(os.path.abspath(__file__)), "..", "lean", "RpgpModel", "Gen", "Constants.lean")


def read(path):
    try:
        with open(os.path.join(REPO, path), encoding="utf-8") as f:
            return f.read()
    except OSError:
        return None


def ev(expr):
    """evaluate a small Rust integer expression"""
    e = expr.strip().replace("_", "")
    e = re.sub(r"(\d+)(usize|u32|u64|u8|u16|i32)", r"\1", e)
    e = re.sub(r"0x([0-9a-fA-F]+)", lambda m: str(int(m.group(1), 16)), e)
    if not re.fullmatch(r"[0-9+\-*/() <]+", e):
        raise ValueError(expr)
    return int(eval(e.replace("/", "//"), {"__builtins__": {}}))


# (lean name, file, regex with one group (or callable on text), doc)
ITEMS = []


def item(name, path, regex, doc, post=None, flags=re.S, group=1):
    ITEMS.append((name, path, regex, doc, post, flags, group))


# ---- normalize_lines.rs -------------------------------------------------------------------
item("normalizedReaderBufSize", "src/normalize_lines.rs", r"const BUF_SIZE: usize = ([^;]+);",
     "normalize_lines.rs BUF_SIZE")
item("normalizedReaderWindowDiv", "src/normalize_lines.rs", r"in_buffer: \[u8; BUF_SIZE / (\d+)\]",
     "normalize_lines.rs in_buffer: [u8; BUF_SIZE / k]")


# ---- types/packet.rs : PacketLength ------------------------------------------------------
TP = "src/types/packet.rs"
item("felOneOctetLimit", TP, r"fn fixed_encoding_len.*?if len < (\d+)", "PacketLength::fixed_encoding_len first threshold")
item("felTwoOctetLimit", TP, r"fn fixed_encoding_len.*?else if len < (\d+)", "PacketLength::fixed_encoding_len second threshold")
item("rdOneOctetMax", TP, r"0\.\.=(\d+) => PacketLength::Fixed\(olen", "try_from_reader: one-octet range upper bound")
item("rdTwoOctetMin", TP, r"(\d+)\.\.=(\d+) => \{\s*let a = r\.read_u8", "try_from_reader: two-octet range lower bound", group=1)
item("rdTwoOctetMax", TP, r"(\d+)\.\.=(\d+) => \{\s*let a = r\.read_u8", "try_from_reader: two-octet range upper bound", group=2)
item("rdTwoOctetSub", TP, r"\(\(olen as u32 - (\d+)\) << (\d+)\) \+ (\d+) \+ a as u32", "try_from_reader: two-octet decode, subtracted", group=1)
item("rdTwoOctetShift", TP, r"\(\(olen as u32 - (\d+)\) << (\d+)\) \+ (\d+) \+ a as u32", "try_from_reader: two-octet decode, shift", group=2)
item("rdTwoOctetAdd", TP, r"\(\(olen as u32 - (\d+)\) << (\d+)\) \+ (\d+) \+ a as u32", "try_from_reader: two-octet decode, added", group=3)
item("rdPartialMin", TP, r"(\d+)\.\.=(\d+) => PacketLength::Partial", "try_from_reader: partial range lower bound", group=1)
item("rdPartialMax", TP, r"(\d+)\.\.=(\d+) => PacketLength::Partial", "try_from_reader: partial range upper bound", group=2)
item("rdPartialMask", TP, r"PacketLength::Partial\(1 << \(olen as usize & (0x[0-9A-Fa-f]+|\d+)\)\)", "try_from_reader: partial exponent mask")
item("rdFiveOctetMarker", TP, r"(\d+) => \{\s*let len = r\.read_be_u32", "try_from_reader: five-octet marker")
item("wrNewOneOctetLimit", TP, r"fn to_writer_new.*?if \*len < (\d+)", "to_writer_new first threshold")
item("wrNewTwoOctetLimit", TP, r"fn to_writer_new.*?else if \*len < (\d+)", "to_writer_new second threshold")
item("wrPartialBase", TP, r"let n = \((\d+) \+ n\) as u8", "to_writer_new partial base octet")
item("whOldOneOctetLimit", TP, r"fn write_header.*?PacketHeaderVersion::Old => \{\s*if len < (\d+)", "write_header Old first threshold")
item("whOldTwoOctetLimit", TP, r"fn write_header.*?PacketHeaderVersion::Old => \{\s*if len < \d+ \{.*?\} else if len < (\d+)", "write_header Old second threshold")
item("whNewOneOctetLimit", TP, r"fn write_header.*?PacketHeaderVersion::New => \{.*?if len < (\d+)", "write_header New first threshold")
item("whNewTwoOctetLimit", TP, r"fn write_header.*?PacketHeaderVersion::New => \{.*?if len < \d+ \{.*?\} else if len < (\d+)", "write_header New second threshold")
item("hlOldOneOctetLimit", TP, r"fn header_len.*?PacketHeaderVersion::Old => \{\s*if len < (\d+)", "header_len Old first threshold")
item("hlOldTwoOctetLimit", TP, r"fn header_len.*?PacketHeaderVersion::Old => \{\s*if len < \d+ \{.*?\} else if len < (\d+)", "header_len Old second threshold")
item("hlNewOneOctetLimit", TP, r"fn header_len.*?PacketHeaderVersion::New => \{\s*if len < (\d+)", "header_len New first threshold")
item("hlNewTwoOctetLimit", TP, r"fn header_len.*?PacketHeaderVersion::New => \{\s*if len < \d+ \{.*?\} else if len < (\d+)", "header_len New second threshold")
# ---- packet/header.rs --------------------------------------------------------------------
PH = "src/packet/header.rs"
item("maxPartialLenLog2", PH, r"const MAX_PARTIAL_LEN: u32 = 2u32\.pow\((\d+)\)", "header.rs MAX_PARTIAL_LEN = 2^k")
item("phwNewOneOctetLimit", PH, r"fn write_len.*?Self::New \{.*?if \*len < (\d+)", "PacketHeader::write_len New first threshold")
item("phwNewTwoOctetLimit", PH, r"fn write_len.*?Self::New \{.*?else if \*len < (\d+)", "PacketHeader::write_len New second threshold")
item("phwOldOneOctetLimit", PH, r"fn write_len.*?Self::Old \{.*?if \*len < (\d+)", "PacketHeader::write_len Old first threshold")
item("phwOldTwoOctetLimit", PH, r"fn write_len.*?Self::Old \{.*?else if \*len < (\d+)", "PacketHeader::write_len Old second threshold")
item("phtOldOneOctetLimit", PH, r"fn to_writer.*?Self::Old \{ header, length \}.*?if \*len < (\d+)", "PacketHeader::to_writer Old first threshold")
item("phtOldTwoOctetLimit", PH, r"fn to_writer.*?Self::Old \{ header, length \}.*?else if \*len < (\d+)", "PacketHeader::to_writer Old second threshold")
# ---- reader/packet_body.rs ---------------------------------------------------------------
PB = "src/composed/message/reader/packet_body.rs"
item("rdFirstPartialMin", PB, r"if len < (\d+) \{\s*#\[cfg\(feature = \"malformed-artifact-compat\"\)\]", "PacketBodyReader::new minimum first partial length")
item("packetBodyBufferSize", PB, r"const BUFFER_SIZE: usize = ([^;]+);", "packet_body.rs BUFFER_SIZE")
# ---- builder / generators ----------------------------------------------------------------
item("litPartialMinChunk", "src/packet/literal_data.rs", r"impl<R: io::Read> LiteralDataPartialGenerator<R> \{.*?ensure!\(chunk_size >= (\d+)", "LiteralDataPartialGenerator::new minimum chunk size")
item("cmpPartialMinChunk", "src/packet/compressed_data.rs", r"ensure!\(chunk_size >= (\d+)", "CompressedDataPartialGenerator::new minimum chunk size")


def extract():
    prev = {}
    try:
        for m in re.finditer(r"^def (\w+) : Nat := (\d+)", open(OUT).read(), re.M):
            prev[m.group(1)] = int(m.group(2))
    except OSError:
        pass
    vals, status = {}, {}
    for name, path, regex, doc, post, flags, group in ITEMS:
        text = read(path)
        v = None
        if text is not None:
            m = re.search(regex, text, flags)
            if m:
                try:
                    v = ev(m.group(group))
                    if post:
                        v = post(v)
                except Exception:
                    v = None
        if v is None:
            status[name] = "not re-extracted"
            if name in prev:
                vals[name] = prev[name]
        else:
            status[name] = "ok"
            vals[name] = v
    return vals, status


DERIVED = """
/-- window of `NormalizedReader` (`in_buffer` length) -/
def normalizedReaderWindow : Nat := normalizedReaderBufSize / normalizedReaderWindowDiv
"""


def main():
    vals, status = extract()
    lines = ["/-! GENERATED by /verif/tools/extract_constants.py from /repo — do not edit. -/",
             "namespace Rpgp.Gen", ""]
    docs = {n: d for n, _, _, d, *_ in ITEMS}
    for name in [n for n, *_ in ITEMS]:
        if name in vals:
            lines.append(f"/-- {docs[name]} -/")
            lines.append(f"def {name} : Nat := {vals[name]}")
    lines.append(DERIVED)
    lines.append("end Rpgp.Gen")
    text = "\n".join(lines) + "\n"
    old = None
    try:
        old = open(OUT).read()
    except OSError:
        pass
    if old != text:
        os.makedirs(os.path.dirname(OUT), exist_ok=True)
        with open(OUT, "w") as f:
            f.write(text)
    json.dump({"values": vals, "status": status, "changed": old != text}, sys.stdout)


if __name__ == "__main__":
    main()
