import RpgpModel.Ring
/-!
# Proof helpers for C18 (`RpgpModel/Ring.lean`)

`find_ok` / `find_inconsistent`: outside the explicit-session-key shortcut, `findSessionKey` is
"collect `foundKeys` (PKESK × keys, then SKESK × passwords, then explicit keys), fail iff two of
them differ, otherwise return the first".  Everything else is about which keys are collected.
-/
namespace Rpgp.Ring
open Rpgp

variable {PLAIN ENC PW CT SCT : Type}

/-! ## what the phases collect -/

/-- session keys pushed by the PKESK phase -/
def pkFound (P : Prims PLAIN ENC PW CT SCT) (kpws : List PW) (keys : List (SecKey PLAIN ENC))
    (pk : List (Pkesk CT)) : List SessionKey :=
  pk.flatMap fun e => keys.flatMap fun k => (tryKey P kpws e k).2

/-- is this SKESK skipped (`v5` without `gnupg_aead`) -/
def skSkip (ga : Bool) (ver : Nat) : Bool := !ga && ver == Gen.skeskVersionB

/-- what the presented message passwords obtain from one SKESK: with `abort_early` the key of the
first password that opens it, without `abort_early` the keys of all passwords that open it -/
def skOpen (P : Prims PLAIN ENC PW CT SCT) (ae : Bool) (mpws : List PW) (ct : SCT) : List SessionKey :=
  if ae then (mpws.findSome? (P.skDec ct)).toList else mpws.filterMap (P.skDec ct)

/-- session keys pushed by the SKESK phase -/
def skFound (P : Prims PLAIN ENC PW CT SCT) (ga ae : Bool) (mpws : List PW) (sk : List (Nat × SCT)) :
    List SessionKey :=
  sk.flatMap fun e => if skSkip ga e.1 then [] else skOpen P ae mpws e.2

/-- everything that is compared, in choice order -/
def foundKeys (P : Prims PLAIN ENC PW CT SCT) (ring : Ring PLAIN ENC PW) (ae : Bool) (pk : List (Pkesk CT))
    (sk : List (Nat × SCT)) : List SessionKey :=
  pkFound P ring.keyPasswords ring.secretKeys pk ++
    (skFound P ring.gnupgAead ae ring.messagePasswords sk ++ ring.sessionKeys)

theorem pkeskPhase_found (P : Prims PLAIN ENC PW CT SCT) (kpws : List PW) (keys : List (SecKey PLAIN ENC))
    (es : List (Pkesk CT)) (res : List InnerRes) (found : List SessionKey) :
    (pkeskPhase P kpws keys es res found).2 = found ++ pkFound P kpws keys es := by
  induction es generalizing res found with
  | nil => simp [pkeskPhase, pkFound]
  | cons e es ih =>
    simp only [pkeskPhase]
    rw [ih]
    simp [pkFound, List.flatMap_map, List.append_assoc]

theorem skeskTry_found (P : Prims PLAIN ENC PW CT SCT) (ae : Bool) (ct : SCT) (mpws : List PW) (i : Nat)
    (res : List InnerRes) : (skeskTry P ae ct mpws i res).2 = skOpen P ae mpws ct := by
  induction mpws generalizing i res with
  | nil => cases ae <;> simp [skeskTry, skOpen]
  | cons pw rest ih =>
    unfold skeskTry
    cases h : P.skDec ct pw with
    | none =>
      simp only [ih]
      cases ae <;> simp [skOpen, List.findSome?_cons, List.filterMap_cons, h]
    | some k =>
      cases ae with
      | true => simp [skOpen, List.findSome?_cons, h]
      | false =>
        simp only [Bool.false_eq_true, if_false, ih]
        simp [skOpen, List.filterMap_cons, h]

theorem skeskPhase_found (P : Prims PLAIN ENC PW CT SCT) (ga ae : Bool) (mpws : List PW)
    (es : List (Nat × SCT)) (res : List InnerRes) (found : List SessionKey) :
    (skeskPhase P ga ae mpws es res found).2 = found ++ skFound P ga ae mpws es := by
  induction es generalizing res found with
  | nil => simp [skeskPhase, skFound]
  | cons e es ih =>
    obtain ⟨ver, ct⟩ := e
    simp only [skeskPhase]
    cases hs : (!ga && ver == Gen.skeskVersionB) with
    | true =>
      have hk : skSkip ga ver = true := hs
      simp only [if_true]
      rw [ih]
      simp [skFound, hk]
    | false =>
      have hk : skSkip ga ver = false := hs
      simp only [Bool.false_eq_true, if_false]
      rw [ih]
      simp [skFound, hk, skeskTry_found, List.append_assoc]

/-! ## consistency = all collected keys are equal -/

/-- all elements equal the first -/
def allEq : List SessionKey → Bool
  | [] => true
  | k :: rest => rest.all (fun k' => k' = k)

theorem allEq_iff (l : List SessionKey) : allEq l = true ↔ ∀ a ∈ l, ∀ b ∈ l, a = b := by
  cases l with
  | nil => simp [allEq]
  | cons k rest =>
    simp only [allEq, List.all_eq_true, decide_eq_true_eq, List.mem_cons]
    constructor
    · intro h a ha b hb
      have ha' : a = k := by rcases ha with rfl | ha; rfl; exact h a ha
      have hb' : b = k := by rcases hb with rfl | hb; rfl; exact h b hb
      rw [ha', hb']
    · intro h x hx
      exact h x (Or.inr hx) k (Or.inl rfl)

theorem allEq_false_of_ne {l : List SessionKey} {a b : SessionKey} (ha : a ∈ l) (hb : b ∈ l) (h : a ≠ b) :
    allEq l = false := by
  cases hq : allEq l with
  | false => rfl
  | true => exact absurd ((allEq_iff l).1 hq a ha b hb) h

theorem groupConsistent_fst (l : List SessionKey) : (groupConsistent l).1 = allEq l := by
  cases l <;> simp [groupConsistent, allEq]

theorem groupConsistent_snd (l : List SessionKey) : (groupConsistent l).2 = l.head? := by
  cases l <;> simp [groupConsistent]

/-- the three per-group checks plus the comparison of the representatives = all equal -/
theorem consistency_eq (l1 l2 l3 : List SessionKey) :
    ((groupConsistent l3).1 && (groupConsistent l2).1 && (groupConsistent l1).1 &&
      crossConsistent ((groupConsistent l1).2.toList ++ (groupConsistent l2).2.toList ++ (groupConsistent l3).2.toList))
      = allEq (l1 ++ (l2 ++ l3)) := by
  rw [Bool.eq_iff_iff, allEq_iff]
  simp only [groupConsistent_fst, groupConsistent_snd, Bool.and_eq_true, allEq_iff]
  constructor
  · rintro ⟨⟨⟨h3, h2⟩, h1⟩, hc⟩
    -- every element equals the head of its group; heads are pairwise equal
    have key : ∀ x ∈ l1.head?.toList ++ l2.head?.toList ++ l3.head?.toList,
        ∀ y ∈ l1.head?.toList ++ l2.head?.toList ++ l3.head?.toList, x = y := by
      intro x hx y hy
      generalize l1.head?.toList ++ l2.head?.toList ++ l3.head?.toList = c at hc hx hy
      cases c with
      | nil => cases hx
      | cons f rest =>
        simp only [crossConsistent, Bool.not_eq_true', List.any_eq_false, decide_eq_true_eq,
          Classical.not_not, ne_eq] at hc
        have hxf : x = f := by
          rcases List.mem_cons.1 hx with rfl | h
          · rfl
          · exact hc x h
        have hyf : y = f := by
          rcases List.mem_cons.1 hy with rfl | h
          · rfl
          · exact hc y h
        rw [hxf, hyf]
    have rep : ∀ (l : List SessionKey), (∀ a ∈ l, ∀ b ∈ l, a = b) → ∀ a ∈ l, ∃ h, l.head? = some h ∧ a = h := by
      intro l hl a ha
      cases l with
      | nil => cases ha
      | cons h t => exact ⟨h, rfl, hl a ha h (List.mem_cons_self ..)⟩
    intro a ha b hb
    have cls : ∀ x, x ∈ l1 ++ (l2 ++ l3) →
        ∃ h, h ∈ l1.head?.toList ++ l2.head?.toList ++ l3.head?.toList ∧ x = h := by
      intro x hx
      simp only [List.mem_append] at hx
      rcases hx with hx | hx | hx
      · obtain ⟨h, hh, e⟩ := rep l1 h1 x hx
        exact ⟨h, by simp [hh], e⟩
      · obtain ⟨h, hh, e⟩ := rep l2 h2 x hx
        exact ⟨h, by simp [hh], e⟩
      · obtain ⟨h, hh, e⟩ := rep l3 h3 x hx
        exact ⟨h, by simp [hh], e⟩
    obtain ⟨ha', hma, ea⟩ := cls a ha
    obtain ⟨hb', hmb, eb⟩ := cls b hb
    rw [ea, eb]
    exact key _ hma _ hmb
  · intro h
    have sub : ∀ x, x ∈ l1.head?.toList ++ l2.head?.toList ++ l3.head?.toList → x ∈ l1 ++ (l2 ++ l3) := by
      intro x hx
      simp only [List.mem_append, Option.mem_toList] at hx ⊢
      rcases hx with (hx | hx) | hx
      · exact Or.inl (List.mem_of_mem_head? hx)
      · exact Or.inr (Or.inl (List.mem_of_mem_head? hx))
      · exact Or.inr (Or.inr (List.mem_of_mem_head? hx))
    refine ⟨⟨⟨?_, ?_⟩, ?_⟩, ?_⟩
    · intro a ha b hb
      exact h a (by simp [ha]) b (by simp [hb])
    · intro a ha b hb
      exact h a (by simp [ha]) b (by simp [hb])
    · intro a ha b hb
      exact h a (by simp [ha]) b (by simp [hb])
    · generalize hc : l1.head?.toList ++ l2.head?.toList ++ l3.head?.toList = c at sub
      cases c with
      | nil => rfl
      | cons f rest =>
        simp only [crossConsistent, Bool.not_eq_true', List.any_eq_false, decide_eq_true_eq,
          Classical.not_not, ne_eq]
        intro x hx
        exact h x (sub x (List.mem_cons_of_mem _ hx)) f (sub f (List.mem_cons_self ..))


/-! ## `findSessionKey` outside the shortcut -/

theorem head?_pick (l1 l2 l3 : List SessionKey) :
    (match l1.head?, l2.head?, l3.head? with
      | some k, _, _ => some k
      | none, some k, _ => some k
      | none, none, some k => some k
      | none, none, none => none) = (l1 ++ (l2 ++ l3)).head? := by
  cases l1 <;> cases l2 <;> cases l3 <;> simp

/-- the search proper is reached unless `abort_early` is set and an explicit session key is present -/
def NoShortcut (ring : Ring PLAIN ENC PW) (abortEarly : Bool) : Prop :=
  abortEarly = false ∨ ring.sessionKeys = []

theorem find_shortcut (P : Prims PLAIN ENC PW CT SCT) (ring : Ring PLAIN ENC PW) (esks : List (Esk CT SCT))
    (sk : SessionKey) (rest : List SessionKey) (h : ring.sessionKeys = sk :: rest) :
    ∃ rr, findSessionKey P ring esks true = .ok (some sk, rr) := by
  simp [findSessionKey, h]

theorem find_group_error (P : Prims PLAIN ENC PW CT SCT) (ring : Ring PLAIN ENC PW) (esks : List (Esk CT SCT))
    (ae : Bool) (hn : NoShortcut ring ae) (e : FindErr) (hg : groupEsks esks = .error e) :
    findSessionKey P ring esks ae = .error e := by
  unfold findSessionKey
  rcases hn with rfl | hs
  · simp [hg]
  · cases ae <;> simp [hs, hg]

/-- core of `findSessionKey` once grouping succeeded -/
theorem find_core (P : Prims PLAIN ENC PW CT SCT) (ring : Ring PLAIN ENC PW) (esks : List (Esk CT SCT))
    (ae : Bool) (hn : NoShortcut ring ae) (pk : List (Pkesk CT)) (sk : List (Nat × SCT))
    (hg : groupEsks esks = .ok (pk, sk)) :
    (allEq (foundKeys P ring ae pk sk) = false → findSessionKey P ring esks ae = .error .inconsistent) ∧
    (allEq (foundKeys P ring ae pk sk) = true →
      ∃ rr, findSessionKey P ring esks ae = .ok ((foundKeys P ring ae pk sk).head?, rr)) := by
  have body : ∀ (ae' : Bool) (_ : ae' = false ∨ ring.sessionKeys = []),
      (allEq (foundKeys P ring ae' pk sk) = false → findSessionKey P ring esks ae' = .error .inconsistent) ∧
      (allEq (foundKeys P ring ae' pk sk) = true →
        ∃ rr, findSessionKey P ring esks ae' = .ok ((foundKeys P ring ae' pk sk).head?, rr)) := by
    intro ae' hn'
    have hpk := pkeskPhase_found P ring.keyPasswords ring.secretKeys pk
      (List.replicate ring.secretKeys.length InnerRes.unchecked) []
    have hsk := skeskPhase_found P ring.gnupgAead ae' ring.messagePasswords sk
      (List.replicate ring.messagePasswords.length InnerRes.unchecked) []
    simp only [List.nil_append] at hpk hsk
    have hcons := consistency_eq (pkFound P ring.keyPasswords ring.secretKeys pk)
      (skFound P ring.gnupgAead ae' ring.messagePasswords sk) ring.sessionKeys
    have hpick := head?_pick (pkFound P ring.keyPasswords ring.secretKeys pk)
      (skFound P ring.gnupgAead ae' ring.messagePasswords sk) ring.sessionKeys
    have unf : findSessionKey P ring esks ae' = findCore P ring ae' pk sk := by
      unfold findSessionKey
      rcases hn' with rfl | hs
      · simp only [hg]
      · cases ae' <;> simp only [hs, hg]
    rw [unf]
    unfold findCore
    simp only [hpk, hsk]
    simp only [hcons]
    simp only [groupConsistent_snd]
    unfold foundKeys
    constructor
    · intro hf
      simp [hf]
    · intro ht
      simp only [ht, Bool.not_true, Bool.false_eq_true, if_false]
      rw [← hpick]
      refine ⟨⟨(pkeskPhase P ring.keyPasswords ring.secretKeys pk
          (List.replicate ring.secretKeys.length InnerRes.unchecked) []).1,
        (skeskPhase P ring.gnupgAead ae' ring.messagePasswords sk
          (List.replicate ring.messagePasswords.length InnerRes.unchecked) []).1,
        List.replicate ring.sessionKeys.length InnerRes.unchecked⟩, ?_⟩
      cases (pkFound P ring.keyPasswords ring.secretKeys pk).head? <;>
        cases (skFound P ring.gnupgAead ae' ring.messagePasswords sk).head? <;>
          cases ring.sessionKeys.head? <;> rfl
  exact body ae hn


/-! ## what one key contributes for one PKESK -/

/-- the plain secret parameters `p` can be obtained from component `c` with the presented key
passwords (`c` is not locked, or one of the passwords unlocks it) -/
def Reach (P : Prims PLAIN ENC PW CT SCT) (kpws : List PW) (c : Comp PLAIN ENC) (p : PLAIN) : Prop :=
  c.secret = .plain p ∨ ∃ e pw, pw ∈ kpws ∧ c.secret = .encrypted e ∧ P.unlock e pw = some p

theorem tryLocked_spec (P : Prims PLAIN ENC PW CT SCT) (c : Comp PLAIN ENC) (ct : CT) (v6 : Bool)
    (kpws : List PW) (res : InnerRes) (hres : res ≠ .ok) :
    ((tryLocked P c ct v6 kpws res).1 = .ok ↔ ∃ k, (tryLocked P c ct v6 kpws res).2 = some k) ∧
    (∀ k, (tryLocked P c ct v6 kpws res).2 = some k → ∃ p, Reach P kpws c p ∧ P.pkDec p ct v6 = some k) := by
  induction kpws generalizing res with
  | nil => simp [tryLocked, hres]
  | cons pw rest ih =>
    unfold tryLocked
    cases hs : c.secret with
    | plain p =>
      cases hd : P.pkDec p ct v6 with
      | none => simp [decryptWith, hs, hd]
      | some k =>
        simp only [decryptWith, hs, hd]
        refine ⟨by simp, ?_⟩
        intro k' hk'
        cases hk'
        exact ⟨p, Or.inl hs, hd⟩
    | encrypted e =>
      cases hu : P.unlock e pw with
      | none =>
        have := ih .invalidPassword (by decide)
        simp only [decryptWith, hs, hu]
        refine ⟨this.1, ?_⟩
        intro k hk
        obtain ⟨p, hreach, hd⟩ := this.2 k hk
        refine ⟨p, ?_, hd⟩
        rcases hreach with h | ⟨e', pw', hm, he, hup⟩
        · rw [hs] at h; cases h
        · exact Or.inr ⟨e', pw', List.mem_cons_of_mem _ hm, he, hup⟩
      | some p =>
        cases hd : P.pkDec p ct v6 with
        | none => simp [decryptWith, hs, hu, hd]
        | some k =>
          simp only [decryptWith, hs, hu, hd]
          refine ⟨by simp, ?_⟩
          intro k' hk'
          cases hk'
          exact ⟨p, Or.inr ⟨e, pw, List.mem_cons_self .., hs, hu⟩, hd⟩

theorem tryDecrypt_ok_iff (P : Prims PLAIN ENC PW CT SCT) (kpws : List PW) (c : Comp PLAIN ENC) (ct : CT)
    (v6 : Bool) : (tryDecrypt P kpws c ct v6).1 = .ok ↔ ∃ k, (tryDecrypt P kpws c ct v6).2 = some k := by
  unfold tryDecrypt
  cases hl : c.secret.isLocked with
  | true => simpa using (tryLocked_spec P c ct v6 kpws .unchecked (by decide)).1
  | false =>
    simp only [Bool.false_eq_true, if_false]
    cases decryptWith P c none ct v6 <;> simp

theorem tryDecrypt_sound (P : Prims PLAIN ENC PW CT SCT) (kpws : List PW) (c : Comp PLAIN ENC) (ct : CT)
    (v6 : Bool) (k : SessionKey) (h : (tryDecrypt P kpws c ct v6).2 = some k) :
    ∃ p, Reach P kpws c p ∧ P.pkDec p ct v6 = some k := by
  unfold tryDecrypt at h
  cases hl : c.secret.isLocked with
  | true =>
    simp only [hl, if_true] at h
    exact (tryLocked_spec P c ct v6 kpws .unchecked (by decide)).2 k h
  | false =>
    simp only [hl, Bool.false_eq_true, if_false] at h
    cases hs : c.secret with
    | encrypted e => simp [Secret.isLocked, hs] at hl
    | plain p =>
      cases hd : P.pkDec p ct v6 with
      | none => simp [decryptWith, hs, hd] at h
      | some k' =>
        simp only [decryptWith, hs, hd, Option.some.injEq] at h
        exact ⟨p, Or.inl hs, by rw [hd, h]⟩

/-- the keys a component can contribute: matching identity, reachable secret, successful decryption -/
def CompYields (P : Prims PLAIN ENC PW CT SCT) (kpws : List PW) (e : Pkesk CT) (c : Comp PLAIN ENC)
    (k : SessionKey) : Prop :=
  ∃ ct v6 p, e.payload = some (ct, v6) ∧ e.matchIdentity c.ident = true ∧ Reach P kpws c p ∧
    P.pkDec p ct v6 = some k

theorem subkeyLoop_spec (P : Prims PLAIN ENC PW CT SCT) (kpws : List PW) (e : Pkesk CT) (ct : CT) (v6 : Bool)
    (hp : e.payload = some (ct, v6)) (subs : List (Comp PLAIN ENC)) (r : InnerRes) (f : List SessionKey)
    (hinv : r = .ok → f ≠ []) :
    ∃ ext, (subkeyLoop P kpws e ct v6 subs r f).2 = f ++ ext ∧
      (∀ k ∈ ext, ∃ c ∈ subs, CompYields P kpws e c k) ∧
      ((subkeyLoop P kpws e ct v6 subs r f).1 = .ok → (subkeyLoop P kpws e ct v6 subs r f).2 ≠ []) := by
  induction subs generalizing r f with
  | nil => exact ⟨[], by simp [subkeyLoop], by simp, by simpa [subkeyLoop] using hinv⟩
  | cons s rest ih =>
    unfold subkeyLoop
    by_cases hr : r = .ok
    · simp only [hr, if_true]
      exact ⟨[], by simp, by simp, fun _ => hinv hr⟩
    · simp only [hr, if_false]
      by_cases hm : e.matchIdentity s.ident = true
      · simp only [hm, if_true]
        have hinv' : (tryDecrypt P kpws s ct v6).1 = .ok → f ++ (tryDecrypt P kpws s ct v6).2.toList ≠ [] := by
          intro hok
          obtain ⟨k, hk⟩ := (tryDecrypt_ok_iff P kpws s ct v6).1 hok
          simp [hk]
        obtain ⟨ext, he, hs, hok⟩ := ih (tryDecrypt P kpws s ct v6).1 (f ++ (tryDecrypt P kpws s ct v6).2.toList) hinv'
        refine ⟨(tryDecrypt P kpws s ct v6).2.toList ++ ext, by rw [he, List.append_assoc], ?_, hok⟩
        intro k hk
        rcases List.mem_append.1 hk with hk | hk
        · have hk' : (tryDecrypt P kpws s ct v6).2 = some k := by simpa using hk
          obtain ⟨p, hreach, hd⟩ := tryDecrypt_sound P kpws s ct v6 k hk'
          exact ⟨s, List.mem_cons_self .., ct, v6, p, hp, hm, hreach, hd⟩
        · obtain ⟨c, hc, hy⟩ := hs k hk
          exact ⟨c, List.mem_cons_of_mem _ hc, hy⟩
      · simp only [hm, if_false]
        obtain ⟨ext, he, hs, hok⟩ := ih r f hinv
        refine ⟨ext, he, ?_, hok⟩
        intro k hk
        obtain ⟨c, hc, hy⟩ := hs k hk
        exact ⟨c, List.mem_cons_of_mem _ hc, hy⟩

/-- every session key a key pushes for an ESK comes from one of its components that matches the
recipient field, whose secret is reachable with the presented key passwords, and that decrypts it -/
theorem tryKey_sound (P : Prims PLAIN ENC PW CT SCT) (kpws : List PW) (e : Pkesk CT) (K : SecKey PLAIN ENC)
    (k : SessionKey) (h : k ∈ (tryKey P kpws e K).2) : ∃ c ∈ K.comps, CompYields P kpws e c k := by
  unfold tryKey at h
  cases hp : e.payload with
  | none => simp [hp] at h
  | some cv =>
    obtain ⟨ct, v6⟩ := cv
    simp only [hp] at h
    by_cases hm : e.matchIdentity K.primary.ident = true
    · simp only [hm, if_true] at h
      have hinv : (tryDecrypt P kpws K.primary ct v6).1 = .ok → (tryDecrypt P kpws K.primary ct v6).2.toList ≠ [] := by
        intro hok
        obtain ⟨k', hk'⟩ := (tryDecrypt_ok_iff P kpws K.primary ct v6).1 hok
        simp [hk']
      obtain ⟨ext, he, hs, _⟩ := subkeyLoop_spec P kpws e ct v6 hp K.subkeys _ _ hinv
      rw [he] at h
      rcases List.mem_append.1 h with h | h
      · have hk' : (tryDecrypt P kpws K.primary ct v6).2 = some k := by simpa using h
        obtain ⟨p, hreach, hd⟩ := tryDecrypt_sound P kpws K.primary ct v6 k hk'
        exact ⟨K.primary, List.mem_cons_self .., ct, v6, p, hp, hm, hreach, hd⟩
      · obtain ⟨c, hc, hy⟩ := hs k h
        exact ⟨c, List.mem_cons_of_mem _ hc, hy⟩
    · simp only [hm, Bool.false_eq_true, if_false] at h
      obtain ⟨ext, he, hs, _⟩ := subkeyLoop_spec P kpws e ct v6 hp K.subkeys .noMatch [] (by simp)
      rw [he] at h
      simp only [List.nil_append] at h
      obtain ⟨c, hc, hy⟩ := hs k h
      exact ⟨c, List.mem_cons_of_mem _ hc, hy⟩


/-! ## when a key does contribute -/

theorem tryDecrypt_unlocked (P : Prims PLAIN ENC PW CT SCT) (kpws : List PW) (c : Comp PLAIN ENC) (ct : CT)
    (v6 : Bool) (p : PLAIN) (hs : c.secret = .plain p) :
    (tryDecrypt P kpws c ct v6).2 = P.pkDec p ct v6 := by
  unfold tryDecrypt
  simp only [hs, Secret.isLocked, Bool.false_eq_true, if_false, decryptWith]
  cases P.pkDec p ct v6 <;> rfl

theorem tryLocked_opens (P : Prims PLAIN ENC PW CT SCT) (c : Comp PLAIN ENC) (ct : CT) (v6 : Bool) (e : ENC)
    (hs : c.secret = .encrypted e) (sk : SessionKey) (kpws : List PW) (res : InnerRes)
    (hex : ∃ pw ∈ kpws, (P.unlock e pw).isSome = true)
    (hall : ∀ pw ∈ kpws, ∀ p, P.unlock e pw = some p → P.pkDec p ct v6 = some sk) :
    (tryLocked P c ct v6 kpws res).2 = some sk := by
  induction kpws generalizing res with
  | nil => obtain ⟨pw, hm, _⟩ := hex; cases hm
  | cons pw rest ih =>
    unfold tryLocked
    cases hu : P.unlock e pw with
    | some p =>
      have := hall pw (List.mem_cons_self ..) p hu
      simp [decryptWith, hs, hu, this]
    | none =>
      simp only [decryptWith, hs, hu]
      apply ih
      · obtain ⟨pw', hm, hsome⟩ := hex
        rcases List.mem_cons.1 hm with rfl | hm
        · simp [hu] at hsome
        · exact ⟨pw', hm, hsome⟩
      · intro pw' hm
        exact hall pw' (List.mem_cons_of_mem _ hm)

/-- a locked component opens the ESK to `sk` when some presented key password unlocks it and the
unlocked secret — whichever password produced it — decrypts the ESK to `sk` -/
theorem tryDecrypt_locked (P : Prims PLAIN ENC PW CT SCT) (kpws : List PW) (c : Comp PLAIN ENC) (ct : CT)
    (v6 : Bool) (e : ENC) (hs : c.secret = .encrypted e) (sk : SessionKey)
    (hex : ∃ pw ∈ kpws, (P.unlock e pw).isSome = true)
    (hall : ∀ pw ∈ kpws, ∀ p, P.unlock e pw = some p → P.pkDec p ct v6 = some sk) :
    (tryDecrypt P kpws c ct v6).2 = some sk := by
  unfold tryDecrypt
  simp only [hs, Secret.isLocked, if_true]
  exact tryLocked_opens P c ct v6 e hs sk kpws .unchecked hex hall

theorem subkeyLoop_reaches (P : Prims PLAIN ENC PW CT SCT) (kpws : List PW) (e : Pkesk CT) (ct : CT) (v6 : Bool)
    (hp : e.payload = some (ct, v6)) (c : Comp PLAIN ENC) (sk : SessionKey)
    (hm : e.matchIdentity c.ident = true) (ho : (tryDecrypt P kpws c ct v6).2 = some sk)
    (subs : List (Comp PLAIN ENC)) (hc : c ∈ subs) (r : InnerRes) (f : List SessionKey)
    (hinv : r = .ok → f ≠ []) : (subkeyLoop P kpws e ct v6 subs r f).2 ≠ [] := by
  induction subs generalizing r f with
  | nil => cases hc
  | cons s rest ih =>
    by_cases hr : r = .ok
    · unfold subkeyLoop
      simp only [hr, if_true]
      exact hinv hr
    · have hinv' : (tryDecrypt P kpws s ct v6).1 = .ok → f ++ (tryDecrypt P kpws s ct v6).2.toList ≠ [] := by
        intro hok
        obtain ⟨k, hk⟩ := (tryDecrypt_ok_iff P kpws s ct v6).1 hok
        simp [hk]
      rcases List.mem_cons.1 hc with rfl | hc'
      · unfold subkeyLoop
        simp only [hr, if_false, hm, if_true]
        obtain ⟨ext, he, _, _⟩ := subkeyLoop_spec P kpws e ct v6 hp rest (tryDecrypt P kpws c ct v6).1
          (f ++ (tryDecrypt P kpws c ct v6).2.toList) hinv'
        rw [he, ho]
        simp
      · unfold subkeyLoop
        simp only [hr, if_false]
        by_cases hms : e.matchIdentity s.ident = true
        · simp only [hms, if_true]
          exact ih hc' _ _ hinv'
        · simp only [hms, Bool.false_eq_true, if_false]
          exact ih hc' r f hinv

/-- a component whose identity matches the recipient field and that opens the ESK makes the key
contribute at least one session key -/
theorem tryKey_nonempty (P : Prims PLAIN ENC PW CT SCT) (kpws : List PW) (e : Pkesk CT) (K : SecKey PLAIN ENC)
    (ct : CT) (v6 : Bool) (hp : e.payload = some (ct, v6)) (c : Comp PLAIN ENC) (hc : c ∈ K.comps)
    (hm : e.matchIdentity c.ident = true) (sk : SessionKey) (ho : (tryDecrypt P kpws c ct v6).2 = some sk) :
    (tryKey P kpws e K).2 ≠ [] := by
  unfold tryKey
  simp only [hp]
  have hinvP : (tryDecrypt P kpws K.primary ct v6).1 = .ok → (tryDecrypt P kpws K.primary ct v6).2.toList ≠ [] := by
    intro hok
    obtain ⟨k', hk'⟩ := (tryDecrypt_ok_iff P kpws K.primary ct v6).1 hok
    simp [hk']
  rcases List.mem_cons.1 hc with rfl | hsub
  · simp only [hm, if_true]
    obtain ⟨ext, he, _, _⟩ := subkeyLoop_spec P kpws e ct v6 hp K.subkeys _ _ hinvP
    rw [he, ho]
    simp
  · by_cases hmp : e.matchIdentity K.primary.ident = true
    · simp only [hmp, if_true]
      exact subkeyLoop_reaches P kpws e ct v6 hp c sk hm ho K.subkeys hsub _ _ hinvP
    · simp only [hmp, Bool.false_eq_true, if_false]
      exact subkeyLoop_reaches P kpws e ct v6 hp c sk hm ho K.subkeys hsub _ _ (by simp)

/-! ## grouping -/

theorem groupEsks_error {esks : List (Esk CT SCT)} {e : FindErr} (h : groupEsks esks = .error e) :
    e = .plaintextSkesk := by
  induction esks with
  | nil => simp [groupEsks] at h
  | cons x rest ih =>
    cases x with
    | pk p =>
      simp only [groupEsks] at h
      cases hr : groupEsks rest with
      | error e' => rw [hr] at h; simp [Except.map] at h; exact ih (by rw [hr, h])
      | ok v => rw [hr] at h; simp [Except.map] at h
    | sk s =>
      cases s with
      | other v => simp only [groupEsks] at h; exact ih h
      | known ver alg ct =>
        simp only [groupEsks] at h
        by_cases ha : alg = Gen.symIdPlaintext
        · simp [ha] at h; exact h.symm
        · simp only [ha, if_false] at h
          cases hr : groupEsks rest with
          | error e' => rw [hr] at h; simp [Except.map] at h; exact ih (by rw [hr, h])
          | ok v => rw [hr] at h; simp [Except.map] at h

theorem groupEsks_mem {esks : List (Esk CT SCT)} {pk : List (Pkesk CT)} {sk : List (Nat × SCT)}
    (h : groupEsks esks = .ok (pk, sk)) :
    (∀ e, e ∈ pk ↔ Esk.pk e ∈ esks) ∧
    (∀ ver ct, (ver, ct) ∈ sk ↔ ∃ alg, Esk.sk (.known ver alg ct) ∈ esks) := by
  induction esks generalizing pk sk with
  | nil =>
    simp only [groupEsks, Except.ok.injEq, Prod.mk.injEq] at h
    obtain ⟨rfl, rfl⟩ := h
    simp
  | cons x rest ih =>
    cases x with
    | pk p =>
      simp only [groupEsks] at h
      cases hr : groupEsks rest with
      | error e' => rw [hr] at h; simp [Except.map] at h
      | ok v =>
        obtain ⟨pk', sk'⟩ := v
        rw [hr] at h
        simp only [Except.map, Except.ok.injEq, Prod.mk.injEq] at h
        obtain ⟨rfl, rfl⟩ := h
        obtain ⟨h1, h2⟩ := ih hr
        constructor
        · intro e
          simp only [List.mem_cons, h1, Esk.pk.injEq]
        · intro ver ct
          simp [h2]
    | sk s =>
      cases s with
      | other v =>
        simp only [groupEsks] at h
        obtain ⟨h1, h2⟩ := ih h
        constructor
        · intro e; simp [h1]
        · intro ver ct; simp [h2]
      | known ver alg ct =>
        simp only [groupEsks] at h
        by_cases ha : alg = Gen.symIdPlaintext
        · simp [ha] at h
        · simp only [ha, if_false] at h
          cases hr : groupEsks rest with
          | error e' => rw [hr] at h; simp [Except.map] at h
          | ok v =>
            obtain ⟨pk', sk'⟩ := v
            rw [hr] at h
            simp only [Except.map, Except.ok.injEq, Prod.mk.injEq] at h
            obtain ⟨rfl, rfl⟩ := h
            obtain ⟨h1, h2⟩ := ih hr
            constructor
            · intro e; simp [h1]
            · intro ver' ct'
              simp only [List.mem_cons, Prod.mk.injEq, h2, Esk.sk.injEq, Skesk.known.injEq]
              constructor
              · rintro (⟨rfl, rfl⟩ | ⟨a, ha'⟩)
                · exact ⟨alg, Or.inl ⟨rfl, rfl, rfl⟩⟩
                · exact ⟨a, Or.inr ha'⟩
              · rintro ⟨a, (⟨rfl, _, rfl⟩ | ha')⟩
                · exact Or.inl ⟨rfl, rfl⟩
                · exact Or.inr ⟨a, ha'⟩


/-! ## the outcome depends on the collected keys only -/

theorem shortcut_or_not (ring : Ring PLAIN ENC PW) (ae : Bool) :
    NoShortcut ring ae ∨ (ae = true ∧ ∃ s rest, ring.sessionKeys = s :: rest) := by
  cases ae with
  | false => exact Or.inl (Or.inl rfl)
  | true =>
    cases h : ring.sessionKeys with
    | nil => exact Or.inl (Or.inr h)
    | cons s rest => exact Or.inr ⟨rfl, s, rest, rfl⟩

theorem find_outcome_congr (P : Prims PLAIN ENC PW CT SCT) (ring ring' : Ring PLAIN ENC PW)
    (esks : List (Esk CT SCT)) (ae : Bool) (hs : ring'.sessionKeys = ring.sessionKeys)
    (hf : ∀ pk sk, groupEsks esks = .ok (pk, sk) → foundKeys P ring' ae pk sk = foundKeys P ring ae pk sk) :
    (findSessionKey P ring' esks ae).map Prod.fst = (findSessionKey P ring esks ae).map Prod.fst := by
  rcases shortcut_or_not ring ae with hn | ⟨rfl, s, rest, hsk⟩
  · have hn' : NoShortcut ring' ae := by
      rcases hn with h | h
      · exact Or.inl h
      · exact Or.inr (by rw [hs, h])
    cases hg : groupEsks esks with
    | error e => rw [find_group_error P ring esks ae hn e hg, find_group_error P ring' esks ae hn' e hg]
    | ok v =>
      obtain ⟨pk, sk⟩ := v
      have c := find_core P ring esks ae hn pk sk hg
      have c' := find_core P ring' esks ae hn' pk sk hg
      rw [hf pk sk hg] at c'
      cases ha : allEq (foundKeys P ring ae pk sk) with
      | false => rw [c.1 ha, c'.1 ha]
      | true =>
        obtain ⟨rr, h1⟩ := c.2 ha
        obtain ⟨rr', h2⟩ := c'.2 ha
        rw [h1, h2]
        rfl
  · obtain ⟨rr, h1⟩ := find_shortcut P ring esks s rest hsk
    obtain ⟨rr', h2⟩ := find_shortcut P ring' esks s rest (by rw [hs, hsk])
    rw [h1, h2]
    rfl

theorem flatMap_filter_of_nil {α β : Type} (f : α → List β) (p : α → Bool) (l : List α)
    (h : ∀ x ∈ l, p x = false → f x = []) : l.flatMap f = (l.filter p).flatMap f := by
  induction l with
  | nil => rfl
  | cons a t ih =>
    have iht := ih (fun x hx => h x (List.mem_cons_of_mem _ hx))
    cases hp : p a with
    | true => simp [List.filter_cons, hp, iht]
    | false => simp [List.filter_cons, hp, iht, h a (List.mem_cons_self ..) hp]

theorem findSome?_filter_of_none {α β : Type} (f : α → Option β) (p : α → Bool) (l : List α)
    (h : ∀ x ∈ l, p x = false → f x = none) : l.findSome? f = (l.filter p).findSome? f := by
  induction l with
  | nil => rfl
  | cons a t ih =>
    have iht := ih (fun x hx => h x (List.mem_cons_of_mem _ hx))
    cases hp : p a with
    | true =>
      simp only [List.filter_cons, hp, if_true, List.findSome?_cons, iht]
    | false =>
      simp [List.filter_cons, hp, List.findSome?_cons, iht, h a (List.mem_cons_self ..) hp]

theorem flatMap_congr_mem {α β : Type} (f g : α → List β) (l : List α) (h : ∀ x ∈ l, f x = g x) :
    l.flatMap f = l.flatMap g := by
  induction l with
  | nil => rfl
  | cons a t ih =>
    simp only [List.flatMap_cons, h a (List.mem_cons_self ..), ih (fun x hx => h x (List.mem_cons_of_mem _ hx))]

theorem filterMap_filter_of_none {α β : Type} (f : α → Option β) (p : α → Bool) (l : List α)
    (h : ∀ x ∈ l, p x = false → f x = none) : l.filterMap f = (l.filter p).filterMap f := by
  induction l with
  | nil => rfl
  | cons a t ih =>
    have iht := ih (fun x hx => h x (List.mem_cons_of_mem _ hx))
    cases hp : p a with
    | true => simp only [List.filter_cons, hp, if_true, List.filterMap_cons, iht]
    | false => simp [List.filter_cons, hp, List.filterMap_cons, iht, h a (List.mem_cons_self ..) hp]

theorem skOpen_filter_of_none (P : Prims PLAIN ENC PW CT SCT) (ae : Bool) (mpws : List PW) (ct : SCT)
    (p : PW → Bool) (h : ∀ q ∈ mpws, p q = false → P.skDec ct q = none) :
    skOpen P ae mpws ct = skOpen P ae (mpws.filter p) ct := by
  cases ae with
  | true => simp only [skOpen, if_true, findSome?_filter_of_none (P.skDec ct) p mpws h]
  | false => simp only [skOpen, Bool.false_eq_true, if_false, filterMap_filter_of_none (P.skDec ct) p mpws h]

/-! ## presented secrets, one at a time -/

/-- one presented secret -/
inductive Sec (PLAIN ENC PW : Type) where
  | key (k : SecKey PLAIN ENC)
  | password (pw : PW)
  | sessionKey (k : SessionKey)

/-- the ring that presents only `s` (key passwords and options are kept) -/
def Ring.only (ring : Ring PLAIN ENC PW) : Sec PLAIN ENC PW → Ring PLAIN ENC PW
  | .key k => { ring with secretKeys := [k], messagePasswords := [], sessionKeys := [] }
  | .password pw => { ring with secretKeys := [], messagePasswords := [pw], sessionKeys := [] }
  | .sessionKey k => { ring with secretKeys := [], messagePasswords := [], sessionKeys := [k] }

def Ring.Presents (ring : Ring PLAIN ENC PW) : Sec PLAIN ENC PW → Prop
  | .key k => k ∈ ring.secretKeys
  | .password pw => pw ∈ ring.messagePasswords
  | .sessionKey k => k ∈ ring.sessionKeys

theorem skFound_nil (P : Prims PLAIN ENC PW CT SCT) (ga ae : Bool) (sk : List (Nat × SCT)) :
    skFound P ga ae [] sk = [] := by
  induction sk with
  | nil => rfl
  | cons e t ih =>
    have : skOpen P ae ([] : List PW) e.2 = [] := by cases ae <;> simp [skOpen]
    simp only [skFound, List.flatMap_cons, this, ite_self, List.nil_append] at ih ⊢
    exact ih

theorem pkFound_nil (P : Prims PLAIN ENC PW CT SCT) (kpws : List PW) (pk : List (Pkesk CT)) :
    pkFound P kpws [] pk = [] := by
  induction pk with
  | nil => rfl
  | cons e t ih =>
    simp only [pkFound, List.flatMap_cons, List.flatMap_nil, List.nil_append] at ih ⊢
    exact ih

theorem foundKeys_only_key (P : Prims PLAIN ENC PW CT SCT) (ring : Ring PLAIN ENC PW) (ae : Bool)
    (pk : List (Pkesk CT)) (sk : List (Nat × SCT)) (K : SecKey PLAIN ENC) :
    foundKeys P (ring.only (.key K)) ae pk sk = pk.flatMap (fun e => (tryKey P ring.keyPasswords e K).2) := by
  simp only [foundKeys, Ring.only, skFound_nil, List.append_nil, pkFound, List.flatMap_cons, List.flatMap_nil]

theorem skOpen_single (P : Prims PLAIN ENC PW CT SCT) (ae : Bool) (pw : PW) (ct : SCT) :
    skOpen P ae [pw] ct = (P.skDec ct pw).toList := by
  cases hd : P.skDec ct pw <;> cases ae <;> simp [skOpen, List.findSome?_cons, List.filterMap_cons, hd]

theorem foundKeys_only_password (P : Prims PLAIN ENC PW CT SCT) (ring : Ring PLAIN ENC PW) (ae : Bool)
    (pk : List (Pkesk CT)) (sk : List (Nat × SCT)) (pw : PW) :
    foundKeys P (ring.only (.password pw)) ae pk sk =
      sk.flatMap (fun e => if skSkip ring.gnupgAead e.1 then [] else (P.skDec e.2 pw).toList) := by
  simp only [foundKeys, Ring.only, pkFound_nil, List.nil_append, List.append_nil, skFound, skOpen_single]

theorem foundKeys_only_sessionKey (P : Prims PLAIN ENC PW CT SCT) (ring : Ring PLAIN ENC PW) (ae : Bool)
    (pk : List (Pkesk CT)) (sk : List (Nat × SCT)) (k : SessionKey) :
    foundKeys P (ring.only (.sessionKey k)) ae pk sk = [k] := by
  simp only [foundKeys, Ring.only, pkFound_nil, skFound_nil, List.nil_append]

theorem mem_foundKeys (P : Prims PLAIN ENC PW CT SCT) (ring : Ring PLAIN ENC PW) (ae : Bool)
    (pk : List (Pkesk CT)) (sk : List (Nat × SCT)) (k : SessionKey) :
    k ∈ foundKeys P ring ae pk sk ↔
      (∃ e ∈ pk, ∃ K ∈ ring.secretKeys, k ∈ (tryKey P ring.keyPasswords e K).2) ∨
      (∃ e ∈ sk, skSkip ring.gnupgAead e.1 = false ∧ k ∈ skOpen P ae ring.messagePasswords e.2) ∨
      k ∈ ring.sessionKeys := by
  simp only [foundKeys, pkFound, skFound, List.mem_append, List.mem_flatMap]
  constructor
  · rintro (h | ⟨e, he, h⟩ | h)
    · exact Or.inl h
    · cases hsk : skSkip ring.gnupgAead e.1 with
      | true => simp [hsk] at h
      | false =>
        simp only [hsk, Bool.false_eq_true, if_false] at h
        exact Or.inr (Or.inl ⟨e, he, hsk, h⟩)
    · exact Or.inr (Or.inr h)
  · rintro (h | ⟨e, he, hsk, h⟩ | h)
    · exact Or.inl h
    · exact Or.inr (Or.inl ⟨e, he, by simp [hsk, h]⟩)
    · exact Or.inr (Or.inr h)

/-- every key a presented password obtains from an SKESK is collected when nothing stops at the first
success (`abort_early` off) -/
theorem mem_skOpen_false (P : Prims PLAIN ENC PW CT SCT) (mpws : List PW) (ct : SCT) (k : SessionKey) :
    k ∈ skOpen P false mpws ct ↔ ∃ pw ∈ mpws, P.skDec ct pw = some k := by
  simp [skOpen, List.mem_filterMap]

/-- with `abort_early` only the first opener's key is collected -/
theorem mem_skOpen_true (P : Prims PLAIN ENC PW CT SCT) (mpws : List PW) (ct : SCT) (k : SessionKey) :
    k ∈ skOpen P true mpws ct ↔ mpws.findSome? (P.skDec ct) = some k := by
  simp [skOpen]

/-- whatever is collected from an SKESK was obtained by some presented password -/
theorem mem_skOpen_sound (P : Prims PLAIN ENC PW CT SCT) (ae : Bool) (mpws : List PW) (ct : SCT) (k : SessionKey)
    (h : k ∈ skOpen P ae mpws ct) : ∃ pw ∈ mpws, P.skDec ct pw = some k := by
  cases ae with
  | false => exact (mem_skOpen_false P mpws ct k).1 h
  | true =>
    have := (mem_skOpen_true P mpws ct k).1 h
    obtain ⟨pw, hm, hk⟩ := List.exists_of_findSome?_eq_some this
    exact ⟨pw, hm, hk⟩

/-- what a secret yields alone is also collected when it is presented among others and all secrets
are cross-checked (`abort_early` off): every key, every password, every explicit session key -/
theorem found_only_subset (P : Prims PLAIN ENC PW CT SCT) (ring : Ring PLAIN ENC PW) (pk : List (Pkesk CT))
    (sk : List (Nat × SCT)) (s : Sec PLAIN ENC PW) (hs : ring.Presents s) :
    ∀ k ∈ foundKeys P (ring.only s) false pk sk, k ∈ foundKeys P ring false pk sk := by
  intro k hk
  rw [mem_foundKeys]
  cases s with
  | key K =>
    rw [foundKeys_only_key, List.mem_flatMap] at hk
    obtain ⟨e, he, hk⟩ := hk
    exact Or.inl ⟨e, he, K, hs, hk⟩
  | password pw =>
    rw [foundKeys_only_password, List.mem_flatMap] at hk
    obtain ⟨e, he, hk⟩ := hk
    refine Or.inr (Or.inl ⟨e, he, ?_⟩)
    cases hsk : skSkip ring.gnupgAead e.1 with
    | true => simp [hsk] at hk
    | false =>
      simp only [hsk, Bool.false_eq_true, if_false, Option.mem_toList] at hk
      exact ⟨rfl, (mem_skOpen_false P ring.messagePasswords e.2 k).2 ⟨pw, hs, hk⟩⟩
  | sessionKey k' =>
    rw [foundKeys_only_sessionKey] at hk
    have : k = k' := by simpa using hk
    subst this
    exact Or.inr (Or.inr hs)

/-! ## key passwords that unlock nothing can be dropped -/

theorem tryLocked_filter (P : Prims PLAIN ENC PW CT SCT) (c : Comp PLAIN ENC) (ct : CT) (v6 : Bool) (e : ENC)
    (hs : c.secret = .encrypted e) (keep : PW → Bool) (kpws : List PW)
    (h : ∀ q ∈ kpws, keep q = false → P.unlock e q = none) (res res' : InnerRes) :
    (tryLocked P c ct v6 kpws res).2 = (tryLocked P c ct v6 (kpws.filter keep) res').2 := by
  induction kpws generalizing res res' with
  | nil => simp [tryLocked]
  | cons pw rest ih =>
    have hrest : ∀ q ∈ rest, keep q = false → P.unlock e q = none :=
      fun q hq => h q (List.mem_cons_of_mem _ hq)
    cases hk : keep pw with
    | true =>
      simp only [List.filter_cons, hk, if_true]
      unfold tryLocked
      cases hu : P.unlock e pw with
      | none =>
        simp only [decryptWith, hs, hu]
        exact ih hrest _ _
      | some p =>
        cases hd : P.pkDec p ct v6 <;> simp [decryptWith, hs, hu, hd]
    | false =>
      simp only [List.filter_cons, hk, Bool.false_eq_true, if_false]
      conv => lhs; unfold tryLocked
      simp only [decryptWith, hs, h pw (List.mem_cons_self ..) hk]
      exact ih hrest _ _

theorem tryDecrypt_filter (P : Prims PLAIN ENC PW CT SCT) (kpws : List PW) (keep : PW → Bool)
    (h : ∀ q ∈ kpws, keep q = false → ∀ e, P.unlock e q = none) (c : Comp PLAIN ENC) (ct : CT) (v6 : Bool) :
    (tryDecrypt P kpws c ct v6).2 = (tryDecrypt P (kpws.filter keep) c ct v6).2 := by
  unfold tryDecrypt
  cases hs : c.secret with
  | plain p => simp [Secret.isLocked]
  | encrypted e =>
    simp only [Secret.isLocked, if_true]
    exact tryLocked_filter P c ct v6 e hs keep kpws (fun q hq hk => h q hq hk e) _ _

theorem subkeyLoop_filter (P : Prims PLAIN ENC PW CT SCT) (kpws : List PW) (keep : PW → Bool)
    (h : ∀ q ∈ kpws, keep q = false → ∀ e, P.unlock e q = none) (e : Pkesk CT) (ct : CT) (v6 : Bool)
    (subs : List (Comp PLAIN ENC)) (r r' : InnerRes) (hr : r = .ok ↔ r' = .ok) (f : List SessionKey) :
    (subkeyLoop P kpws e ct v6 subs r f).2 = (subkeyLoop P (kpws.filter keep) e ct v6 subs r' f).2 := by
  induction subs generalizing r r' f with
  | nil => simp [subkeyLoop]
  | cons s rest ih =>
    unfold subkeyLoop
    by_cases h1 : r = .ok
    · have h2 : r' = .ok := hr.1 h1
      simp [h1, h2]
    · have h2 : ¬ r' = .ok := fun hh => h1 (hr.2 hh)
      simp only [h1, h2, if_false]
      by_cases hm : e.matchIdentity s.ident = true
      · simp only [hm, if_true]
        rw [← tryDecrypt_filter P kpws keep h s ct v6]
        apply ih
        rw [tryDecrypt_ok_iff, tryDecrypt_ok_iff, ← tryDecrypt_filter P kpws keep h s ct v6]
      · simp only [hm, Bool.false_eq_true, if_false]
        exact ih r r' hr f

theorem tryKey_filter (P : Prims PLAIN ENC PW CT SCT) (kpws : List PW) (keep : PW → Bool)
    (h : ∀ q ∈ kpws, keep q = false → ∀ e, P.unlock e q = none) (e : Pkesk CT) (K : SecKey PLAIN ENC) :
    (tryKey P kpws e K).2 = (tryKey P (kpws.filter keep) e K).2 := by
  unfold tryKey
  cases hp : e.payload with
  | none => rfl
  | some cv =>
    obtain ⟨ct, v6⟩ := cv
    simp only
    by_cases hm : e.matchIdentity K.primary.ident = true
    · simp only [hm, if_true]
      rw [← tryDecrypt_filter P kpws keep h K.primary ct v6]
      apply subkeyLoop_filter P kpws keep h
      rw [tryDecrypt_ok_iff, tryDecrypt_ok_iff, ← tryDecrypt_filter P kpws keep h K.primary ct v6]
    · simp only [hm, Bool.false_eq_true, if_false]
      exact subkeyLoop_filter P kpws keep h e ct v6 K.subkeys _ _ Iff.rfl []

/-! ## what `RingResult.secret_keys` reports -/

theorem pkeskPhase_res_last (P : Prims PLAIN ENC PW CT SCT) (kpws : List PW) (keys : List (SecKey PLAIN ENC))
    (es : List (Pkesk CT)) (e : Pkesk CT) (res : List InnerRes) (found : List SessionKey) :
    (pkeskPhase P kpws keys (es ++ [e]) res found).1 = keys.map (fun k => (tryKey P kpws e k).1) := by
  induction es generalizing res found with
  | nil => simp [pkeskPhase]
  | cons x rest ih =>
    simp only [List.cons_append, pkeskPhase]
    exact ih _ _

/-! ## `abort_early` and the SKESK loop -/

theorem skeskTry_ae_short (P : Prims PLAIN ENC PW CT SCT) (ct : SCT) (l : List PW) (hl : l.length ≤ 1)
    (i : Nat) (res : List InnerRes) : skeskTry P true ct l i res = skeskTry P false ct l i res := by
  match l, hl with
  | [], _ => simp [skeskTry]
  | [pw], _ => cases h : P.skDec ct pw <;> simp [skeskTry, h]

theorem skeskPhase_ae_short (P : Prims PLAIN ENC PW CT SCT) (ga : Bool) (l : List PW) (hl : l.length ≤ 1)
    (es : List (Nat × SCT)) (res : List InnerRes) (found : List SessionKey) :
    skeskPhase P ga true l es res found = skeskPhase P ga false l es res found := by
  induction es generalizing res found with
  | nil => simp [skeskPhase]
  | cons e es ih =>
    obtain ⟨ver, ct⟩ := e
    simp only [skeskPhase, skeskTry_ae_short P ct l hl, ih]

/-! ## summary lemmas used by the property theorems -/

theorem groupEsks_ok_of_no_plaintext (esks : List (Esk CT SCT))
    (h : ∀ ver ct, Esk.sk (.known ver Gen.symIdPlaintext ct) ∉ esks) : ∃ pk sk, groupEsks esks = .ok (pk, sk) := by
  cases hg : groupEsks esks with
  | ok v => exact ⟨v.1, v.2, rfl⟩
  | error e =>
    exfalso
    induction esks generalizing e with
    | nil => simp [groupEsks] at hg
    | cons x rest ih =>
      have hrest : ∀ ver ct, Esk.sk (.known ver Gen.symIdPlaintext ct) ∉ rest :=
        fun ver ct hm => h ver ct (List.mem_cons_of_mem _ hm)
      cases x with
      | pk p =>
        simp only [groupEsks] at hg
        cases hr : groupEsks rest with
        | error e' => exact ih hrest _ hr
        | ok v => rw [hr] at hg; simp [Except.map] at hg
      | sk s =>
        cases s with
        | other v => simp only [groupEsks] at hg; exact ih hrest _ hg
        | known ver alg ct =>
          simp only [groupEsks] at hg
          by_cases ha : alg = Gen.symIdPlaintext
          · subst ha
            exact h ver ct (List.mem_cons_self ..)
          · simp only [ha, if_false] at hg
            cases hr : groupEsks rest with
            | error e' => exact ih hrest _ hr
            | ok v => rw [hr] at hg; simp [Except.map] at hg

/-- all collected keys equal `k`, at least one collected: the search returns `k` -/
theorem find_unique (P : Prims PLAIN ENC PW CT SCT) (ring : Ring PLAIN ENC PW) (esks : List (Esk CT SCT))
    (ae : Bool) (hn : NoShortcut ring ae) (pk : List (Pkesk CT)) (sk : List (Nat × SCT))
    (hg : groupEsks esks = .ok (pk, sk)) (k : SessionKey)
    (hall : ∀ k' ∈ foundKeys P ring ae pk sk, k' = k) (hne : foundKeys P ring ae pk sk ≠ []) :
    ∃ rr, findSessionKey P ring esks ae = .ok (some k, rr) := by
  have hae : allEq (foundKeys P ring ae pk sk) = true :=
    (allEq_iff _).2 (fun a ha b hb => by rw [hall a ha, hall b hb])
  obtain ⟨rr, h⟩ := (find_core P ring esks ae hn pk sk hg).2 hae
  refine ⟨rr, ?_⟩
  rw [h]
  cases hf : foundKeys P ring ae pk sk with
  | nil => exact absurd hf hne
  | cons a t =>
    have : a = k := hall a (by rw [hf]; exact List.mem_cons_self ..)
    simp [this]

/-- nothing collected: the search returns no key -/
theorem find_none (P : Prims PLAIN ENC PW CT SCT) (ring : Ring PLAIN ENC PW) (esks : List (Esk CT SCT))
    (ae : Bool) (hn : NoShortcut ring ae) (pk : List (Pkesk CT)) (sk : List (Nat × SCT))
    (hg : groupEsks esks = .ok (pk, sk)) (hnil : foundKeys P ring ae pk sk = []) :
    ∃ rr, findSessionKey P ring esks ae = .ok (none, rr) := by
  obtain ⟨rr, h⟩ := (find_core P ring esks ae hn pk sk hg).2 (by rw [hnil]; rfl)
  exact ⟨rr, by rw [h, hnil]; rfl⟩

/-- a successful search (outside the shortcut) returns a collected key and all collected keys agree -/
theorem find_ok_inv (P : Prims PLAIN ENC PW CT SCT) (ring : Ring PLAIN ENC PW) (esks : List (Esk CT SCT))
    (ae : Bool) (hn : NoShortcut ring ae) (pk : List (Pkesk CT)) (sk : List (Nat × SCT))
    (hg : groupEsks esks = .ok (pk, sk)) (k : SessionKey) (rr : RingResult)
    (h : findSessionKey P ring esks ae = .ok (some k, rr)) :
    k ∈ foundKeys P ring ae pk sk ∧ ∀ k' ∈ foundKeys P ring ae pk sk, k' = k := by
  have c := find_core P ring esks ae hn pk sk hg
  cases ha : allEq (foundKeys P ring ae pk sk) with
  | false => rw [c.1 ha] at h; cases h
  | true =>
    obtain ⟨rr', h'⟩ := c.2 ha
    rw [h'] at h
    have hh : (foundKeys P ring ae pk sk).head? = some k := by
      have := congrArg (fun x => match x with | Except.ok v => v.1 | Except.error _ => none) h
      simpa using this
    have hm : k ∈ foundKeys P ring ae pk sk := List.mem_of_mem_head? hh
    exact ⟨hm, fun k' hk' => (allEq_iff _).1 ha k' hk' k hm⟩

/-- what `s` yields when presented alone with cross-checking on -/
def Yields (P : Prims PLAIN ENC PW CT SCT) (ring : Ring PLAIN ENC PW) (esks : List (Esk CT SCT))
    (s : Sec PLAIN ENC PW) (k : SessionKey) : Prop :=
  ∃ rr, findSessionKey P (ring.only s) esks false = .ok (some k, rr)

/-! ## concrete witnesses (abstract primitives instantiated with small tables) -/
namespace Witness

def kA : SessionKey := .v3_4 7 [1]
def kB : SessionKey := .v3_4 11 [2]

/-- password 1 opens SKESK 1 to `kA` (its own packet) but also "opens" SKESK 0 to `kB` — what the v4
plausibility check lets through for about one wrong password in 64 -/
def falsePositive : Prims Nat Nat Nat Nat Nat where
  unlock := fun _ _ => none
  pkDec := fun _ _ _ => none
  skDec := fun ct pw => if ct = 1 ∧ pw = 1 then some kA else if ct = 0 ∧ pw = 1 then some kB
    else if ct = 0 ∧ pw = 0 then some kA else none

def twoSkesks : List (Esk Nat Nat) := [.sk (.known 4 7 0), .sk (.known 4 7 1)]

/-- one SKESK without encrypted session key: every password "opens" it, to its own S2K output -/
def direct : Prims Nat Nat Nat Nat Nat where
  unlock := fun _ _ => none
  pkDec := fun _ _ _ => none
  skDec := fun _ pw => some (.v3_4 7 [pw.toUInt8])

def oneSkesk : List (Esk Nat Nat) := [.sk (.known 4 7 0)]

/-- two unlocked single-component keys 0 and 1 (key ids `[0…0,1]`, `[0…0,2]`); PKESK `i` is addressed
to key `i` and decrypts under it to `kA` -/
def twoKeys : Prims Nat Nat Nat Nat Nat where
  unlock := fun _ _ => none
  pkDec := fun p ct _ => if p = ct then some kA else none
  skDec := fun _ _ => none

def keyN (n : Nat) : SecKey Nat Nat :=
  { primary := { ident := ⟨[0, 0, 0, 0, 0, 0, 0, (n + 1).toUInt8], ⟨4, [n.toUInt8]⟩⟩, secret := .plain n }, subkeys := [] }

def twoPkesks : List (Esk Nat Nat) :=
  [.pk (.v3 [0, 0, 0, 0, 0, 0, 0, 1] 0), .pk (.v3 [0, 0, 0, 0, 0, 0, 0, 2] 1)]

def ringPw (pws : List Nat) : Ring Nat Nat Nat :=
  { secretKeys := [], keyPasswords := [], messagePasswords := pws, sessionKeys := [] }

end Witness

end Rpgp.Ring
