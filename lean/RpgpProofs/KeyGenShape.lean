import RpgpModel.KeyGen
/-!
# KeyGenShape — the self-signatures `generate` makes are the ones `verify_bindings` checks
-/
namespace Rpgp.KeyGen

variable {M S σ : Type}

/-- correctness law of the signature primitive: what a secret signs verifies under its public half -/
def SignLaw (P : KeyPrims M S σ) : Prop := ∀ s m, P.verify (P.pubOf s) m (P.sign s m) = true

theorem sigVersionOf_some {kv v : Nat} (h : sigVersionOf kv = some v) : v = kv ∧ (kv = 4 ∨ kv = 6) := by
  unfold sigVersionOf at h
  by_cases h4 : kv = 4
  · simp [h4] at h; omega
  · by_cases h6 : kv = 6
    · simp [h6] at h; omega
    · simp [h4, h6] at h

theorem versionAligned_of {kv v : Nat} (h : sigVersionOf kv = some v) : versionAligned kv v = true := by
  obtain ⟨rfl, h46⟩ := sigVersionOf_some h
  rcases h46 with h | h <;> simp [versionAligned, h]

theorem signerCheck_ok {kv v : Nat} {kt : KeyType} (h : signerCheck kv kt = .ok v) :
    sigVersionOf kv = some v ∧ kt.canSign = true := by
  unfold signerCheck at h
  split at h
  · cases h
  · rename_i w hw
    by_cases hc : kt.canSign = true
    · simp [hc] at h; subst h; exact ⟨hw, hc⟩
    · simp [hc] at h

theorem signerCheck_of {kv v : Nat} {kt : KeyType} (hv : sigVersionOf kv = some v) (hc : kt.canSign = true) :
    signerCheck kv kt = .ok v := by
  simp [signerCheck, hv, hc]

/-! ## a signature made by `mkSig` / `mkBackSig` verifies over the subject it was made over -/

theorem mkSig_verify (P : KeyPrims M S σ) (law : SignLaw P) (signer : SecKey M S)
    (hm : signer.pub.mat = P.pubOf signer.sec) (typ ver : Nat) (salt : Bytes)
    (hashed unhashed : List (Subpkt (BackSig σ))) (subj : Subject M) :
    P.verify signer.pub.mat ((mkSig P signer typ ver salt hashed unhashed subj).msg subj)
      (mkSig P signer typ ver salt hashed unhashed subj).value = true := by
  simp only [mkSig, Sig.msg, hm]; exact law _ _

theorem mkBackSig_verify (P : KeyPrims M S σ) (law : SignLaw P) (sub : SecKey M S)
    (hm : sub.pub.mat = P.pubOf sub.sec) (ver : Nat) (salt : Bytes) (now : Nat) (primary : PubKey M) :
    P.verify sub.pub.mat ((mkBackSig P sub ver salt now primary).msg (.binding primary sub.pub))
      (mkBackSig P sub ver salt now primary).value = true := by
  simp only [mkBackSig, BackSig.msg, hm]; exact law _ _

/-! ## issuer subpackets -/

theorem mem_issuerFprs {E : Type} (f : Bytes) (l : List (Subpkt E)) (h : Subpkt.issuerFpr f ∈ l) :
    f ∈ issuerFprs l := by
  induction l with
  | nil => cases h
  | cons a r ih =>
    rcases List.mem_cons.mp h with rfl | h'
    · simp [issuerFprs]
    · cases a <;> simp [issuerFprs, ih h']

theorem matchIdentity_of_fpr {E : Type} (P : KeyPrims M S σ) (s : SigG E σ) (k : PubKey M)
    (h : Subpkt.issuerFpr (P.fingerprint k) ∈ s.hashed) : matchIdentity P s k = true := by
  have : P.fingerprint k ∈ issuerFprs (s.hashed ++ s.unhashed) :=
    mem_issuerFprs _ _ (List.mem_append_left _ h)
  simp [matchIdentity]
  exact Or.inr this

theorem fpr_mem_basic {E : Type} (P : KeyPrims M S σ) (k : PubKey M) (now : Nat) :
    Subpkt.issuerFpr (P.fingerprint k) ∈ (basicSubpackets P k now : List (Subpkt E)) := by
  simp [basicSubpackets]

theorem fpr_mem_metadata {E : Type} (P : KeyPrims M S σ) (k : PubKey M) (now : Nat) (fl : Flags) (pr : Prefs) :
    Subpkt.issuerFpr (P.fingerprint k) ∈ (metadataSubpackets P k now fl pr : List (Subpkt E)) := by
  simp [metadataSubpackets]

/-! ## User ID certifications -/

theorem certifyUid_hashed_fpr (P : KeyPrims M S σ) (primary : SecKey M S) (v : Nat) (salt : Bytes) (now : Nat)
    (fl : Flags) (pr : Prefs) (isP : Bool) (uid : Bytes) :
    ∀ s ∈ (certifyUid P primary v salt now fl pr isP uid).sigs,
      Subpkt.issuerFpr (P.fingerprint primary.pub) ∈ s.hashed := by
  intro s hs
  simp only [certifyUid, List.mem_singleton] at hs
  subst hs
  by_cases h6 : primary.pub.version = 6 <;> cases isP <;>
    simp [mkSig, h6, basicSubpackets, metadataSubpackets]

theorem certifyUid_verifies (P : KeyPrims M S σ) (law : SignLaw P) (primary : SecKey M S)
    (hm : primary.pub.mat = P.pubOf primary.sec) (v : Nat) (hv : sigVersionOf primary.pub.version = some v)
    (salt : Bytes) (now : Nat) (fl : Flags) (pr : Prefs) (isP : Bool) (uid : Bytes) :
    verifyUser (checksOf P) primary.pub (certifyUid P primary v salt now fl pr isP uid).id
      (certifyUid P primary v salt now fl pr isP uid).sigs = true := by
  have hf := certifyUid_hashed_fpr P primary v salt now fl pr isP uid
  have hal := versionAligned_of hv
  simp only [certifyUid, List.mem_singleton, forall_eq] at hf
  simp only [verifyUser, certifyUid, checksOf, List.isEmpty_cons, Bool.not_false, Bool.true_and,
    List.all_cons, List.all_nil, Bool.and_true, verifyCertification]
  rw [matchIdentity_of_fpr P _ _ hf, mkSig_verify P law primary hm]
  have ht : isCertType Gen.sigTypeCertPositive = true := by decide
  simp [mkSig, ht, hal]

theorem certifyUids_verify (P : KeyPrims M S σ) (law : SignLaw P) (primary : SecKey M S)
    (hm : primary.pub.mat = P.pubOf primary.sec) (v : Nat) (hv : sigVersionOf primary.pub.version = some v)
    (salt : Nat → Bytes) (now : Nat) (fl : Flags) (pr : Prefs) (i : Nat) (uids : List Bytes) :
    ∀ u ∈ certifyUids P primary v salt now fl pr i uids, verifyUser (checksOf P) primary.pub u.id u.sigs = true := by
  induction uids generalizing i with
  | nil => intro u hu; cases hu
  | cons a r ih =>
    intro u hu
    simp only [certifyUids, List.mem_cons] at hu
    rcases hu with rfl | hu
    · exact certifyUid_verifies P law primary hm v hv _ now fl pr false a
    · exact ih (i + 1) u hu

/-! ## subkeys -/

/-- what `generate` guarantees about one subkey before it is bound -/
def SubOk (P : KeyPrims M S σ) (primary : PubKey M) (x : SecKey M S × Flags × Option (BackSig σ)) : Prop :=
  x.1.pub.mat = P.pubOf x.1.sec ∧
  (match x.2.2 with
   | some b => x.2.1.sign = true ∧ verifyPrimaryKeyBinding P x.1.pub primary b = true
   | none => x.2.1.sign = false)

theorem genSubMaterial_ok (P : KeyPrims M S σ) (law : SignLaw P) (primary : PubKey M) (sp : SubParams)
    (created : Nat) (sec : S) (salt : Bytes) (now : Nat) (x : SecKey M S × Flags × Option (BackSig σ))
    (h : genSubMaterial P primary sp created sec salt now = .ok x) :
    SubOk P primary x ∧ x.2.1 = subFlags sp ∧ x.1.pub.version = sp.version ∧ x.1.pub.keyType = sp.keyType := by
  unfold genSubMaterial at h
  split at h
  · cases h
  · split at h
    · cases h
    · by_cases hs : sp.canSign = true
      · simp only [hs, if_true] at h
        split at h
        · cases h
        · rename_i v hv0
          have hv := (signerCheck_ok hv0).1
          cases h
          refine ⟨⟨rfl, ?_⟩, rfl, rfl, rfl⟩
          have hal := versionAligned_of hv
          have hver := mkBackSig_verify P law
            { pub := { version := sp.version, keyType := sp.keyType, created := created, mat := P.pubOf sec }, sec := sec }
            rfl v (if v = 6 then salt else []) now primary
          refine ⟨by simp [subFlags, hs], ?_⟩
          simp only [verifyPrimaryKeyBinding]
          rw [hver]
          simp [mkBackSig, hal]
      · simp only [hs] at h
        cases h
        refine ⟨⟨rfl, ?_⟩, rfl, rfl, rfl⟩
        simp [subFlags, hs]

theorem genSubMaterials_ok (P : KeyPrims M S σ) (law : SignLaw P) (primary : PubKey M) (created : Nat)
    (salt : Nat → Bytes) (now : Nat) (sps : List SubParams) :
    ∀ (i : Nat) (secs : List S) (subs : List (SecKey M S × Flags × Option (BackSig σ))),
      genSubMaterials P primary created salt now i sps secs = .ok subs →
      ∀ x ∈ subs, SubOk P primary x := by
  induction sps with
  | nil => intro i secs subs h x hx; simp [genSubMaterials] at h; subst h; cases hx
  | cons sp r ih =>
    intro i secs subs h x hx
    cases secs with
    | nil => simp [genSubMaterials] at h; subst h; cases hx
    | cons sec secs =>
      simp only [genSubMaterials] at h
      split at h
      · cases h
      · rename_i s hs
        split at h
        · cases h
        · rename_i rr hr
          cases h
          rcases List.mem_cons.mp hx with rfl | hx'
          · exact (genSubMaterial_ok P law primary sp created sec _ now _ hs).1
          · exact ih (i + 1) secs rr hr x hx'

/-- … and the flags / key parameters are the requested ones, position by position -/
theorem genSubMaterials_params (P : KeyPrims M S σ) (law : SignLaw P) (primary : PubKey M) (created : Nat)
    (salt : Nat → Bytes) (now : Nat) (sps : List SubParams) :
    ∀ (i : Nat) (secs : List S) (subs : List (SecKey M S × Flags × Option (BackSig σ))),
      genSubMaterials P primary created salt now i sps secs = .ok subs → sps.length ≤ secs.length →
      subs.map (fun x => (x.2.1, x.2.2.isSome, x.1.pub.version, x.1.pub.keyType)) =
        sps.map (fun sp => (subFlags sp, sp.canSign, sp.version, sp.keyType)) := by
  induction sps with
  | nil => intro i secs subs h _; simp [genSubMaterials] at h; subst h; rfl
  | cons sp r ih =>
    intro i secs subs h hl
    cases secs with
    | nil => simp at hl
    | cons sec secs =>
      simp only [genSubMaterials] at h
      split at h
      · cases h
      · rename_i s hs
        split at h
        · cases h
        · rename_i rr hr
          cases h
          obtain ⟨hok, hf, hv, hk⟩ := genSubMaterial_ok P law primary sp created sec _ now _ hs
          have hsome : s.2.2.isSome = sp.canSign := by
            obtain ⟨_, hm⟩ := hok
            rw [hf] at hm
            cases he : s.2.2 with
            | none => rw [he] at hm; simp [subFlags] at hm; simp [hm]
            | some b => rw [he] at hm; simp [subFlags] at hm; simp [hm.1]
          simp only [List.map_cons, hf, hv, hk, hsome]
          congr 1
          exact ih (i + 1) secs rr hr (by simpa using hl)

theorem bind_flagsSign (P : KeyPrims M S σ) (primary : SecKey M S) (v : Nat) (salt : Bytes) (now : Nat)
    (x : SecKey M S × Flags × Option (BackSig σ)) :
    ∀ s ∈ (bindSubkey P primary v salt now x).sigs, sigFlagsSign s = x.2.1.sign ∧ sigEmbedded s = x.2.2 ∧
      hashedFlags s = some x.2.1 := by
  intro s hs
  simp only [bindSubkey, List.mem_singleton] at hs
  subst hs
  refine ⟨by simp [sigFlagsSign, mkSig, List.findSome?], ?_, by simp [hashedFlags, mkSig, List.findSome?]⟩
  cases he : x.2.2 with
  | some b => simp [sigEmbedded, mkSig, List.findSome?]
  | none =>
    by_cases h4 : primary.pub.version ≤ 4 <;>
      simp [sigEmbedded, mkSig, List.findSome?, issuerUnhashed, h4]

theorem binding_verifies (P : KeyPrims M S σ) (law : SignLaw P) (primary : SecKey M S)
    (hm : primary.pub.mat = P.pubOf primary.sec) (v : Nat) (hv : sigVersionOf primary.pub.version = some v)
    (salt : Bytes) (hashed unhashed : List (Subpkt (BackSig σ))) (sub : PubKey M) :
    verifySubkeyBinding P primary.pub sub
      (mkSig P primary Gen.sigTypeSubkeyBinding v salt hashed unhashed (.binding primary.pub sub)) = true := by
  have hal := versionAligned_of hv
  simp only [verifySubkeyBinding]
  rw [mkSig_verify P law primary hm]
  simp [mkSig, hal]

theorem bindSubkey_verifies (P : KeyPrims M S σ) (law : SignLaw P) (primary : SecKey M S)
    (hm : primary.pub.mat = P.pubOf primary.sec) (v : Nat) (hv : sigVersionOf primary.pub.version = some v)
    (salt : Bytes) (now : Nat) (x : SecKey M S × Flags × Option (BackSig σ)) (hx : SubOk P primary.pub x) :
    verifySubPublic (checksOf P) primary.pub (bindSubkey P primary v salt now x).key (bindSubkey P primary v salt now x).sigs = true ∧
    verifySubSecret (checksOf P) primary.pub (bindSubkey P primary v salt now x).key (bindSubkey P primary v salt now x).sigs = true := by
  have hfl := bind_flagsSign P primary v salt now x
  simp only [bindSubkey, List.mem_singleton, forall_eq] at hfl
  obtain ⟨hfs, hemb, _⟩ := hfl
  obtain ⟨_, hb⟩ := hx
  constructor
  · simp only [verifySubPublic, bindSubkey, checksOf, List.isEmpty_cons, Bool.not_false, Bool.true_and,
      List.all_cons, List.all_nil, Bool.and_true]
    rw [binding_verifies P law primary hm v hv]
    simp only [hfs, hemb]
    cases he : x.2.2 with
    | some b => rw [he] at hb; simp at hb; simp [hb.1, hb.2]
    | none => rw [he] at hb; simp at hb; simp [hb]
  · simp only [verifySubSecret, bindSubkey, checksOf, List.isEmpty_cons, Bool.not_false, Bool.true_and,
      List.all_cons, List.all_nil, Bool.and_true]
    rw [binding_verifies P law primary hm v hv]
    simp only [hfs, hemb]
    cases he : x.2.2 with
    | some b => rw [he] at hb; simp at hb; simp [hb.1, hb.2]
    | none => rw [he] at hb; simp at hb; simp [hb]

theorem bindSubkeys_verify (P : KeyPrims M S σ) (law : SignLaw P) (primary : SecKey M S)
    (hm : primary.pub.mat = P.pubOf primary.sec) (v : Nat) (hv : sigVersionOf primary.pub.version = some v)
    (salt : Nat → Bytes) (now : Nat) (subs : List (SecKey M S × Flags × Option (BackSig σ))) :
    ∀ (i : Nat), (∀ x ∈ subs, SubOk P primary.pub x) →
      ∀ s ∈ bindSubkeys P primary v salt now i subs,
        verifySubPublic (checksOf P) primary.pub s.key s.sigs = true ∧
        verifySubSecret (checksOf P) primary.pub s.key s.sigs = true := by
  induction subs with
  | nil => intro i _ s hs; cases hs
  | cons x r ih =>
    intro i hall s hs
    simp only [bindSubkeys, List.mem_cons] at hs
    rcases hs with rfl | hs
    · exact bindSubkey_verifies P law primary hm v hv _ now x (hall x (List.mem_cons_self))
    · exact ih (i + 1) (fun y hy => hall y (List.mem_cons_of_mem _ hy)) s hs

/-! ## the direct key signature of a v6 key -/

theorem direct_verifies (P : KeyPrims M S σ) (law : SignLaw P) (primary : SecKey M S)
    (hm : primary.pub.mat = P.pubOf primary.sec) (h6 : primary.pub.version = 6) (salt : Bytes) (now : Nat)
    (fl : Flags) (pr : Prefs) :
    verifyKeySig P primary.pub
      (mkSig P primary Gen.sigTypeKey 6 salt (metadataSubpackets P primary.pub now fl pr) [] (.key primary.pub)) = true := by
  simp only [verifyKeySig]
  rw [matchIdentity_of_fpr P _ _ (by simpa [mkSig] using fpr_mem_metadata P primary.pub now fl pr),
    mkSig_verify P law primary hm]
  simp [mkSig, versionAligned, h6]

/-! ## `signDetails` -/

theorem directSigs_verify (P : KeyPrims M S σ) (law : SignLaw P) (primary : SecKey M S)
    (hm : primary.pub.mat = P.pubOf primary.sec) (p : GenParams) (salt : Nat → Bytes) (now : Nat)
    (direct : List (Sig σ)) (h : directSigs P primary p salt now = .ok direct) :
    (∀ s ∈ direct, verifyKeySig P primary.pub s = true) ∧
    (primary.pub.version = 6 →
      direct = [mkSig P primary Gen.sigTypeKey 6 (salt 1000) (metadataSubpackets P primary.pub now p.flags p.prefs) []
                  (.key primary.pub)]) ∧
    (primary.pub.version ≠ 6 → direct = []) := by
  unfold directSigs at h
  by_cases h6 : primary.pub.version = 6
  · by_cases hc : primary.pub.keyType.canSign = true
    · simp only [h6, hc, if_true] at h
      cases h
      refine ⟨?_, fun _ => rfl, fun hn => absurd h6 hn⟩
      intro s hs
      simp only [List.mem_singleton] at hs
      subst hs
      exact direct_verifies P law primary hm h6 _ now _ _
    · simp [h6, hc] at h
  · simp only [h6, if_false] at h
    cases h
    exact ⟨fun s hs => (by cases hs), fun hn => absurd hn h6, fun _ => rfl⟩

theorem directSigs_shape (P : KeyPrims M S σ) (primary : SecKey M S) (p : GenParams) (salt : Nat → Bytes) (now : Nat)
    (direct : List (Sig σ)) (h : directSigs P primary p salt now = .ok direct) :
    (primary.pub.version = 6 →
      direct = [mkSig P primary Gen.sigTypeKey 6 (salt 1000) (metadataSubpackets P primary.pub now p.flags p.prefs) []
                  (.key primary.pub)]) ∧
    (primary.pub.version ≠ 6 → direct = []) := by
  unfold directSigs at h
  by_cases h6 : primary.pub.version = 6
  · by_cases hc : primary.pub.keyType.canSign = true
    · simp only [h6, hc, if_true] at h
      cases h
      exact ⟨fun _ => rfl, fun hn => absurd h6 hn⟩
    · simp [h6, hc] at h
  · simp only [h6, if_false] at h
    cases h
    exact ⟨fun hn => absurd hn h6, fun _ => rfl⟩

theorem signDetails_inv (P : KeyPrims M S σ) (primary : SecKey M S) (p : GenParams) (salt : Nat → Bytes) (now : Nat)
    (direct : List (Sig σ)) (users : List (SignedUser σ))
    (h : signDetails P primary p salt now = .ok (direct, users)) :
    directSigs P primary p salt now = .ok direct ∧
    ((p.primaryUid = none ∧ p.uids = [] ∧ users = []) ∨
     (¬ (p.primaryUid = none ∧ p.uids = []) ∧ ∃ v, signerCheck primary.pub.version primary.pub.keyType = .ok v ∧
        users = (match p.primaryUid with
                 | some u => [certifyUid P primary v (salt 1001) now p.flags p.prefs true u]
                 | none => []) ++ certifyUids P primary v salt now p.flags p.prefs 1002 p.uids)) := by
  unfold signDetails at h
  split at h
  · cases h
  · rename_i d hd
    by_cases hnone : p.primaryUid = none ∧ p.uids = []
    · simp only [hnone, and_self, if_true] at h
      cases h
      exact ⟨hd, Or.inl ⟨hnone.1, hnone.2, rfl⟩⟩
    · simp only [hnone, if_false] at h
      split at h
      · cases h
      · rename_i v hv
        cases h
        exact ⟨hd, Or.inr ⟨hnone, v, hv, rfl⟩⟩

theorem signDetails_verifies (P : KeyPrims M S σ) (law : SignLaw P) (primary : SecKey M S)
    (hm : primary.pub.mat = P.pubOf primary.sec) (p : GenParams) (salt : Nat → Bytes) (now : Nat)
    (direct : List (Sig σ)) (users : List (SignedUser σ))
    (h : signDetails P primary p salt now = .ok (direct, users)) :
    (∀ s ∈ direct, verifyKeySig P primary.pub s = true) ∧
    (∀ u ∈ users, verifyUser (checksOf P) primary.pub u.id u.sigs = true) := by
  obtain ⟨hd, hu⟩ := signDetails_inv P primary p salt now direct users h
  refine ⟨(directSigs_verify P law primary hm p salt now direct hd).1, ?_⟩
  rcases hu with ⟨_, _, rfl⟩ | ⟨_, v, hv0, rfl⟩
  · intro u hu; cases hu
  · have hv := (signerCheck_ok hv0).1
    intro u hu
    rcases List.mem_append.mp hu with hu | hu
    · cases hp : p.primaryUid with
      | none => simp [hp] at hu
      | some uid =>
        simp only [hp, List.mem_singleton] at hu
        subst hu
        exact certifyUid_verifies P law primary hm v hv _ now _ _ true uid
    · exact certifyUids_verify P law primary hm v hv salt now _ _ 1002 p.uids u hu

/-! ## `generate` -/

/-- everything `generate` returns, taken apart -/
theorem generate_inv (P : KeyPrims M S σ) (p : GenParams) (r : GenRand S) (c : Cert M σ)
    (h : generate P p r = .ok c) :
    ∃ subs direct users,
      c.primary = { version := p.version, keyType := p.keyType, created := p.created, mat := P.pubOf r.primarySec } ∧
      c.revocations = [] ∧ c.direct = direct ∧ c.users = users ∧
      genSubMaterials P c.primary p.subCreated r.salt r.now 0 p.subkeys r.subSecs = .ok subs ∧
      signDetails P { pub := c.primary, sec := r.primarySec } p r.salt r.now = .ok (direct, users) ∧
      ((subs = [] ∧ c.subkeys = []) ∨
       (∃ v, sigVersionOf p.version = some v ∧ p.keyType.canSign = true ∧
          c.subkeys = bindSubkeys P { pub := c.primary, sec := r.primarySec } v r.salt r.now 0 subs)) := by
  simp only [generate] at h
  generalize h1 : keygenCheck p.keyType = g1 at h
  cases g1 with
  | error e => simp at h
  | ok u1 =>
    generalize h2 : pubKeyNewCheck p.version p.keyType = g2 at h
    cases g2 with
    | error e => simp at h
    | ok u2 =>
      simp only at h
      generalize h3 : genSubMaterials P _ p.subCreated r.salt r.now 0 p.subkeys r.subSecs = g3 at h
      cases g3 with
      | error e => simp at h
      | ok subs =>
        simp only at h
        generalize h4 : signDetails P _ p r.salt r.now = g4 at h
        cases g4 with
        | error e => simp at h
        | ok du =>
          obtain ⟨direct, users⟩ := du
          simp only at h
          by_cases he : subs = []
          · simp only [he, if_true] at h
            cases h
            exact ⟨[], direct, users, rfl, rfl, rfl, rfl, by simpa [he] using h3, h4, Or.inl ⟨rfl, rfl⟩⟩
          · simp only [he, if_false] at h
            generalize h5 : signerCheck p.version p.keyType = g5 at h
            cases g5 with
            | error e => simp at h
            | ok v =>
              simp only at h
              cases h
              obtain ⟨hv, hc⟩ := signerCheck_ok h5
              exact ⟨subs, direct, users, rfl, rfl, rfl, rfl, h3, h4, Or.inr ⟨v, hv, hc, rfl⟩⟩

theorem generate_verifies_both (P : KeyPrims M S σ) (law : SignLaw P) (p : GenParams) (r : GenRand S)
    (c : Cert M σ) (h : generate P p r = .ok c) :
    verifyBindingsPublic (checksOf P) c = true ∧ verifyBindingsSecret (checksOf P) c = true := by
  obtain ⟨subs, direct, users, hpk, hrev, hdir, husers, hsubs, hdet, hbind⟩ := generate_inv P p r c h
  have hm : (⟨c.primary, r.primarySec, false⟩ : SecKey M S).pub.mat = P.pubOf (⟨c.primary, r.primarySec, false⟩ : SecKey M S).sec := by
    simp [hpk]
  obtain ⟨hd, hu⟩ := signDetails_verifies P law ⟨c.primary, r.primarySec, false⟩ hm p r.salt r.now direct users hdet
  have hdetails : verifyDetails (checksOf P) c.primary c.userPairs c.revocations c.direct = true := by
    simp only [verifyDetails, Cert.userPairs, hrev, hdir, husers, List.all_nil, Bool.and_true, Bool.and_eq_true,
      List.all_eq_true, List.mem_map, forall_exists_index, and_imp]
    refine ⟨?_, ?_⟩
    · intro x u hu' hx; subst hx; exact hu u hu'
    · intro s hs; exact hd s hs
  have hsubsok := genSubMaterials_ok P law c.primary p.subCreated r.salt r.now p.subkeys 0 r.subSecs subs hsubs
  have hall : ∀ s ∈ c.subkeys, verifySubPublic (checksOf P) c.primary s.key s.sigs = true ∧
      verifySubSecret (checksOf P) c.primary s.key s.sigs = true := by
    rcases hbind with ⟨_, hnil⟩ | ⟨v, hv, _, hb⟩
    · intro s hs; rw [hnil] at hs; cases hs
    · intro s hs
      rw [hb] at hs
      have hv' : sigVersionOf (⟨c.primary, r.primarySec, false⟩ : SecKey M S).pub.version = some v := by
        simpa [hpk] using hv
      exact bindSubkeys_verify P law ⟨c.primary, r.primarySec, false⟩ hm v hv' r.salt r.now subs 0 hsubsok s hs
  constructor
  · simp only [verifyBindingsPublic, hdetails, Bool.true_and, List.all_eq_true]
    exact fun s hs => (hall s hs).1
  · simp only [verifyBindingsSecret, hdetails, Bool.true_and, List.all_eq_true]
    exact fun s hs => (hall s hs).2

/-! ## the request can be read back from the certificate -/

theorem metadata_read (P : KeyPrims M S σ) (primary : SecKey M S) (typ ver : Nat) (salt : Bytes) (now : Nat)
    (fl : Flags) (pr : Prefs) (extra unhashed : List (Subpkt (BackSig σ))) (subj : Subject M)
    (_hex : ∀ x ∈ extra, ∃ b, x = Subpkt.isPrimary b) :
    hashedFlags (mkSig P primary typ ver salt (metadataSubpackets P primary.pub now fl pr ++ extra) unhashed subj) = some fl ∧
    hashedPrefs (mkSig P primary typ ver salt (metadataSubpackets P primary.pub now fl pr ++ extra) unhashed subj) = pr := by
  constructor
  · simp [hashedFlags, mkSig, metadataSubpackets, List.findSome?]
  · simp [hashedPrefs, mkSig, metadataSubpackets, List.findSome?]

theorem certifyUid_notPrimary (P : KeyPrims M S σ) (primary : SecKey M S) (v : Nat) (salt : Bytes) (now : Nat)
    (fl : Flags) (pr : Prefs) (uid : Bytes) :
    (certifyUid P primary v salt now fl pr false uid).sigs.any sigIsPrimary = false := by
  by_cases h6 : primary.pub.version = 6 <;>
    simp [certifyUid, mkSig, sigIsPrimary, h6, basicSubpackets, metadataSubpackets, List.findSome?]

theorem certifyUid_isPrimary (P : KeyPrims M S σ) (primary : SecKey M S) (v : Nat) (salt : Bytes) (now : Nat)
    (fl : Flags) (pr : Prefs) (uid : Bytes) :
    (certifyUid P primary v salt now fl pr true uid).sigs.any sigIsPrimary = true := by
  by_cases h6 : primary.pub.version = 6 <;>
    simp [certifyUid, mkSig, sigIsPrimary, h6, basicSubpackets, metadataSubpackets, List.findSome?]

theorem certifyUids_notPrimary (P : KeyPrims M S σ) (primary : SecKey M S) (v : Nat) (salt : Nat → Bytes) (now : Nat)
    (fl : Flags) (pr : Prefs) (i : Nat) (uids : List Bytes) :
    (certifyUids P primary v salt now fl pr i uids).find? (fun u => u.sigs.any sigIsPrimary) = none := by
  induction uids generalizing i with
  | nil => simp [certifyUids]
  | cons a r ih => simp [certifyUids, certifyUid_notPrimary, ih]

/-- the signature of a non-v6 User ID certification carries flags and preferences -/
theorem certifyUid_read (P : KeyPrims M S σ) (primary : SecKey M S) (h6 : primary.pub.version ≠ 6) (v : Nat)
    (salt : Bytes) (now : Nat) (fl : Flags) (pr : Prefs) (isP : Bool) (uid : Bytes) :
    ((certifyUid P primary v salt now fl pr isP uid).sigs.head?).bind hashedFlags = some fl ∧
    ((certifyUid P primary v salt now fl pr isP uid).sigs.head?).map hashedPrefs = some pr := by
  cases isP <;> simp [certifyUid, h6, hashedFlags, hashedPrefs, mkSig, metadataSubpackets, List.findSome?]

/-- what can be read from a bound subkey: flags, presence of the embedded signature, key parameters -/
theorem bindSubkey_view (P : KeyPrims M S σ) (primary : SecKey M S) (v : Nat) (salt : Bytes) (now : Nat)
    (x : SecKey M S × Flags × Option (BackSig σ)) :
    ((bindSubkey P primary v salt now x).sigs.map (fun s => (hashedFlags s, (sigEmbedded s).isSome)),
      (bindSubkey P primary v salt now x).key.version, (bindSubkey P primary v salt now x).key.keyType) =
    ([(some x.2.1, x.2.2.isSome)], x.1.pub.version, x.1.pub.keyType) := by
  have hf := bind_flagsSign P primary v salt now x
  generalize hb : bindSubkey P primary v salt now x = b at hf
  have hs : ∃ s, b.sigs = [s] ∧ b.key = x.1.pub := by subst hb; exact ⟨_, rfl, rfl⟩
  obtain ⟨s, hs, hk⟩ := hs
  have := hf s (by simp [hs])
  simp [hs, hk, this.2.1, this.2.2]

theorem bindSubkeys_view (P : KeyPrims M S σ) (primary : SecKey M S) (v : Nat) (salt : Nat → Bytes) (now : Nat)
    (l : List (SecKey M S × Flags × Option (BackSig σ))) (i : Nat) :
    (bindSubkeys P primary v salt now i l).map
      (fun s => (s.sigs.map (fun x => (hashedFlags x, (sigEmbedded x).isSome)), s.key.version, s.key.keyType)) =
    l.map (fun x => ([(some x.2.1, x.2.2.isSome)], x.1.pub.version, x.1.pub.keyType)) := by
  induction l generalizing i with
  | nil => rfl
  | cons x rr ih =>
    simp only [bindSubkeys, List.map_cons, ih (i + 1)]
    rw [bindSubkey_view]

theorem bindSubkeys_length (P : KeyPrims M S σ) (primary : SecKey M S) (v : Nat) (salt : Nat → Bytes) (now : Nat)
    (l : List (SecKey M S × Flags × Option (BackSig σ))) (i : Nat) :
    (bindSubkeys P primary v salt now i l).length = l.length := by
  induction l generalizing i with
  | nil => rfl
  | cons x rr ih => simp [bindSubkeys, ih]

theorem bindSubkey_public (P : KeyPrims M S σ) (primary : SecKey M S) (v : Nat) (salt : Bytes) (now : Nat)
    (x : SecKey M S × Flags × Option (BackSig σ)) :
    (publicSubSigs (fun y => isBindingType y.typ) (bindSubkey P primary v salt now x).sigs).map
      (fun k => { bindSubkey P primary v salt now x with sigs := k }) = some (bindSubkey P primary v salt now x) := by
  have ht : isBindingType Gen.sigTypeSubkeyBinding = true := by decide
  simp [bindSubkey, publicSubSigs, mkSig, ht]

/-- the public form of what `bindSubkeys` returns is the same list: every subkey carries exactly
one 0x18 signature, nothing is filtered -/
theorem bindSubkeys_toPublic (P : KeyPrims M S σ) (primary : SecKey M S) (v : Nat) (salt : Nat → Bytes) (now : Nat)
    (l : List (SecKey M S × Flags × Option (BackSig σ))) (i : Nat) :
    (bindSubkeys P primary v salt now i l).filterMap (fun s =>
      (publicSubSigs (fun x => isBindingType x.typ) s.sigs).map (fun k => { s with sigs := k })) =
    bindSubkeys P primary v salt now i l := by
  induction l generalizing i with
  | nil => rfl
  | cons x rr ih =>
    have hx := bindSubkey_public P primary v (salt (2 * i + 1)) now x
    simp only [bindSubkeys, List.filterMap_cons, ih (i + 1)]
    rw [show (Option.map (fun k => { key := (bindSubkey P primary v (salt (2 * i + 1)) now x).key, sigs := k })
          (publicSubSigs (fun x => isBindingType x.typ) (bindSubkey P primary v (salt (2 * i + 1)) now x).sigs)) =
        some (bindSubkey P primary v (salt (2 * i + 1)) now x) from hx]

theorem generate_toPublic (P : KeyPrims M S σ) (p : GenParams) (r : GenRand S) (c : Cert M σ)
    (h : generate P p r = .ok c) : c.toPublic = c := by
  obtain ⟨subs, direct, users, _, _, _, _, _, _, hbind⟩ := generate_inv P p r c h
  rcases hbind with ⟨_, hnil⟩ | ⟨v, _, _, hb⟩
  · cases c; simp only [Cert.toPublic] at *; simp [hnil]
  · cases c; simp only [Cert.toPublic] at *
    subst hb
    simp [bindSubkeys_toPublic]

end Rpgp.KeyGen
