import RpgpModel.Bytes
import RpgpModel.Gen.Constants
/-!
# Armor — ASCII armor as rpgp writes and reads it (property C10)

Transcribed from `/repo/src`:

* `armor/writer.rs`   `write`, `write_header`, `write_body`, `write_footer`
* `line_writer.rs`    `LineWriter::{write, finish}` (64 columns, LF)
* `base64` crate      RFC 4648 standard alphabet, canonical padding (encoder and strict decoder)
* `crc24` crate       RFC 9580 §6.1.1, written here as the RFC's bitwise algorithm
* `armor/reader.rs`   `header_parser`, `footer_parser`, `read_checksum`, `read_from_buf`,
                      `Dearmor::{read, read_body, read_footer, crc24_status}`
* `base64/reader.rs`  `Base64Reader::read` (CR/LF skipping token filter)
* `base64/decoder.rs` `Base64Decoder::read`, `try_decode_engine_slice`

The nom parsers used by the reader are *streaming* parsers; their three outcomes are kept
(`PR.ok / PR.inc / PR.err`) because `read_from_buf` retries on `Incomplete` and because
`complete(..)` turns `Incomplete` into an error inside the header-line parsers — which makes the
header stage depend on how the source hands out its bytes (see `readFromBuf`).

Everything is structurally recursive (or uses explicit fuel) so that `decide` evaluates examples.
-/
namespace Rpgp.Armor

/-! ## characters -/

def EQS : Byte := 61    -- '='
def COLON : Byte := 58  -- ':'
def SLASH : Byte := 47  -- '/'
def COMMA : Byte := 44  -- ','
def DASH5 : Bytes := [45, 45, 45, 45, 45]

/-- ASCII bytes of a string literal -/
def asc (s : String) : Bytes := s.toList.map fun c => c.toNat.toUInt8

/-! ## base64 (RFC 4648 §4, standard alphabet, `=` padding) -/

/-- the alphabet: value (`< 64`) ↦ character -/
def b64char (n : Nat) : Byte :=
  if n < 26 then (65 + n).toUInt8
  else if n < 52 then (71 + n).toUInt8
  else if n < 62 then (n - 4).toUInt8
  else if n = 62 then 43 else 47

/-- character ↦ value; `none` for everything outside the alphabet (including `=`) -/
def b64val (c : Byte) : Option Nat :=
  let n := c.toNat
  if 65 ≤ n ∧ n ≤ 90 then some (n - 65)
  else if 97 ≤ n ∧ n ≤ 122 then some (n - 71)
  else if 48 ≤ n ∧ n ≤ 57 then some (n + 4)
  else if n = 43 then some 62
  else if n = 47 then some 63
  else none

/-- three octets → four characters -/
def enc3 (a b c : Byte) : Bytes :=
  let n := a.toNat * 65536 + b.toNat * 256 + c.toNat
  [b64char (n / 262144 % 64), b64char (n / 4096 % 64), b64char (n / 64 % 64), b64char (n % 64)]

/-- final group of two octets → three characters and one `=` -/
def enc2 (a b : Byte) : Bytes :=
  let n := (a.toNat * 256 + b.toNat) * 4
  [b64char (n / 4096 % 64), b64char (n / 64 % 64), b64char (n % 64), EQS]

/-- final group of one octet → two characters and `==` -/
def enc1 (a : Byte) : Bytes :=
  let n := a.toNat * 16
  [b64char (n / 64 % 64), b64char (n % 64), EQS, EQS]

/-- `base64::engine::general_purpose::STANDARD.encode` (and the concatenated output of
`base64::write::EncoderWriter` after `finish`) -/
def b64enc : Bytes → Bytes
  | [] => []
  | [a] => enc1 a
  | [a, b] => enc2 a b
  | a :: b :: c :: r => enc3 a b c ++ b64enc r

/-- a full quantum -/
def dec4 (a b c d : Byte) : Option Bytes := do
  let v0 ← b64val a
  let v1 ← b64val b
  let v2 ← b64val c
  let v3 ← b64val d
  let n := v0 * 262144 + v1 * 4096 + v2 * 64 + v3
  pure [(n / 65536 % 256).toUInt8, (n / 256 % 256).toUInt8, (n % 256).toUInt8]

/-- the last quantum: `xx==`, `xxx=` (canonical: unused bits zero) or a full one -/
def decLast (a b c d : Byte) : Option Bytes :=
  if d = EQS then
    if c = EQS then do
      let v0 ← b64val a
      let v1 ← b64val b
      let n := v0 * 64 + v1
      if n % 16 = 0 then pure [(n / 16).toUInt8] else none
    else do
      let v0 ← b64val a
      let v1 ← b64val b
      let v2 ← b64val c
      let n := v0 * 4096 + v1 * 64 + v2
      if n % 4 = 0 then pure [(n / 1024).toUInt8, (n / 4 % 256).toUInt8] else none
  else dec4 a b c d

/-- `STANDARD.decode` on an input whose length is a multiple of four (the only lengths the armor
reader ever passes): every quantum valid, padding only in the last one and canonical -/
def b64dec : Bytes → Option Bytes
  | [] => some []
  | a :: b :: c :: d :: [] => decLast a b c d
  | a :: b :: c :: d :: r => do
    let q ← dec4 a b c d
    let rest ← b64dec r
    pure (q ++ rest)
  | _ => none

/-! ## CRC-24 (RFC 9580 §6.1.1, bitwise) -/

def crc24Init : Nat := 0xB704CE
/-- `CRC24_GENERATOR` without the 25th bit (the RFC clears that bit before the xor) -/
def crc24Gen : Nat := 0x864CFB

/-- `crc <<= 1; if (crc & 0x1000000) { crc &= 0xffffff; crc ^= CRC24_GENERATOR; }` -/
def crcShift (c : Nat) : Nat :=
  if c * 2 < 16777216 then c * 2 else (c * 2 - 16777216) ^^^ crc24Gen

/-- one octet: `crc ^= octet << 16`, then eight shifts -/
def crcByte (c : Nat) (b : Byte) : Nat :=
  crcShift (crcShift (crcShift (crcShift (crcShift (crcShift (crcShift (crcShift (c ^^^ (b.toNat * 65536)))))))))

def crcFrom (c : Nat) (d : Bytes) : Nat := d.foldl crcByte c

def crc24 (d : Bytes) : Nat := crcFrom crc24Init d

/-! ## `LineWriter<_, N>` (line_writer.rs), line break LF -/

/-- one `write(input)` call in state `extra` (the pending partial line, shorter than `w`):
bytes handed to the inner writer, number of input bytes consumed, new `extra`.  A call emits at
most one line. -/
def lwWrite (w : Nat) (extra input : Bytes) : Bytes × Nat × Bytes :=
  if input.isEmpty then ([], 0, extra)
  else if extra.length + input.length < w then ([], input.length, extra ++ input)
  else
    let missing := min (w - extra.length) input.length
    (extra ++ input.take missing ++ [LF], missing, [])

/-- `finish()` (called from `Drop`) -/
def lwFinish (extra : Bytes) : Bytes := if extra.isEmpty then [] else extra ++ [LF]

/-- a caller that offers, at step `i`, the next `offers[i]` not-yet-consumed bytes of `data`
(what `write_all`, `io::copy` or the base64 `EncoderWriter` do with short writes): emitted bytes,
final `extra`, data not yet consumed when the offers run out -/
def lwFeed (w : Nat) : Bytes → Bytes → List Nat → Bytes × Bytes × Bytes
  | extra, data, [] => ([], extra, data)
  | extra, data, n :: ns =>
    let r := lwWrite w extra (data.take n)
    let r' := lwFeed w r.2.2 (data.drop r.2.1) ns
    (r.1 ++ r'.1, r'.2.1, r'.2.2)

/-- specification: lines of exactly `w` bytes, each followed by LF; a shorter last line, if any,
also followed by LF (`col` = bytes already on the current line) -/
def wrapAux (w : Nat) : Nat → Bytes → Bytes
  | col, [] => if col = 0 then [] else [LF]
  | col, b :: r => if col + 1 = w then b :: LF :: wrapAux w 0 r else b :: wrapAux w (col + 1) r

def wrap (w : Nat) (d : Bytes) : Bytes := wrapAux w 0 d

/-! ## block types and headers -/

inductive Pkcs1 where
  | rsa | dsa | ec
deriving DecidableEq, Repr

/-- `armor::BlockType` -/
inductive BlockType where
  | publicKey | privateKey | message
  | multiPart (x y : Nat)
  | signature | file | cleartext
  | pubPkcs1 (k : Pkcs1) | pubPkcs8 | pubOpenssh
  | privPkcs1 (k : Pkcs1) | privPkcs8 | privOpenssh
deriving DecidableEq, Repr

/-- decimal digits, most significant first (`fuel` ≥ number of digits; `n + 1` always suffices) -/
def natToDecAux : Nat → Nat → Bytes → Bytes
  | 0, _, acc => acc
  | f + 1, n, acc =>
    let acc' := (48 + n % 10).toUInt8 :: acc
    if n < 10 then acc' else natToDecAux f (n / 10) acc'

def natToDec (n : Nat) : Bytes := natToDecAux (n + 1) n []

def pkcs1Name : Pkcs1 → Bytes
  | .rsa => asc "RSA"
  | .dsa => asc "DSA"
  | .ec => asc "EC"

/-- `impl Display for BlockType` -/
def typeName : BlockType → Bytes
  | .publicKey => asc "PGP PUBLIC KEY BLOCK"
  | .privateKey => asc "PGP PRIVATE KEY BLOCK"
  | .message => asc "PGP MESSAGE"
  | .multiPart x y => asc "PGP MESSAGE, PART " ++ natToDec x ++ [SLASH] ++ natToDec y
  | .signature => asc "PGP SIGNATURE"
  | .file => asc "PGP ARMORED FILE"
  | .cleartext => asc "PGP SIGNED MESSAGE"
  | .pubPkcs1 k => pkcs1Name k ++ asc " PUBLIC KEY"
  | .pubPkcs8 => asc "PUBLIC KEY"
  | .pubOpenssh => asc "OPENSSH PUBLIC KEY"
  | .privPkcs1 k => pkcs1Name k ++ asc " PRIVATE KEY"
  | .privPkcs8 => asc "PRIVATE KEY"
  | .privOpenssh => asc "OPENSSH PRIVATE KEY"

/-- `armor::Headers = BTreeMap<String, Vec<String>>` as an association list; a *map* is such a
list with strictly increasing keys (`HeadersSorted` in the proofs) -/
abbrev Headers := List (Bytes × List Bytes)

/-- byte-wise lexicographic `<` (the `Ord` of `String`) -/
def bytesLt : Bytes → Bytes → Bool
  | _, [] => false
  | [], _ :: _ => true
  | a :: as, b :: bs => if a < b then true else if b < a then false else bytesLt as bs

/-- `out.entry(k).or_default().push(v)` -/
def hdrInsert (k v : Bytes) : Headers → Headers
  | [] => [(k, [v])]
  | (k', vs) :: r =>
    if k = k' then (k', vs ++ [v]) :: r
    else if bytesLt k k' then (k, [v]) :: (k', vs) :: r
    else (k', vs) :: hdrInsert k v r

/-! ## armor writer (armor/writer.rs) -/

/-- `write_header` -/
def armorHead (t : BlockType) (h : Headers) : Bytes :=
  asc "-----BEGIN " ++ typeName t ++ asc "-----\n" ++
  (h.flatMap fun kv => kv.2.flatMap fun v => kv.1 ++ asc ": " ++ v ++ [LF]) ++ [LF]

/-- the three octets written by `write_footer` (`(crc >> 16) as u8, (crc >> 8) as u8, crc as u8`) -/
def crcOctets (c : Nat) : Bytes :=
  [(c / 2 ^ Gen.wrCrcShiftHi % 256).toUInt8, (c / 2 ^ Gen.wrCrcShiftMid % 256).toUInt8, (c % 256).toUInt8]

/-- `write_footer` -/
def armorFoot (t : BlockType) (crc : Option Nat) : Bytes :=
  (match crc with
   | some c => EQS :: b64enc (crcOctets c) ++ [LF]
   | none => []) ++
  asc "-----END " ++ typeName t ++ asc "-----\n"

/-- `write_body`: base64 of everything the source writes, through the line writer; both are
finished when they go out of scope -/
def armorBody (d : Bytes) : Bytes := wrap Gen.armorLineWidth (b64enc d)

/-- `armor::write(source, typ, writer, headers, include_checksum)`; the tee feeds the CRC hasher
with exactly the bytes the source wrote -/
def armorWrite (t : BlockType) (h : Headers) (d : Bytes) (checksum : Bool) : Bytes :=
  armorHead t h ++ armorBody d ++ armorFoot t (if checksum then some (crc24 d) else none)

/-- every LF becomes CR LF (the same armor with network line endings) -/
def toCrlf : Bytes → Bytes
  | [] => []
  | c :: r => if c = LF then CR :: LF :: toCrlf r else c :: toCrlf r

/-! ## nom streaming parsers as used by armor/reader.rs -/

/-- outcome of a streaming parser: result and remaining input, `Incomplete`, or `Error` -/
inductive PR (α : Type) where
  | ok (a : α) (rest : Bytes)
  | inc
  | err
deriving Repr, DecidableEq

/-- `alt`: the next alternative is tried on `Err::Error` only (`Incomplete` is returned) -/
def PR.orElse {α : Type} (a : PR α) (b : Unit → PR α) : PR α :=
  match a with
  | .err => b ()
  | x => x

/-- `complete(p)` -/
def PR.complete {α : Type} (a : PR α) : PR α :=
  match a with
  | .inc => .err
  | x => x

/-- `tag(t)` (streaming): mismatch in the common prefix → error, else too short → incomplete -/
def tagS : Bytes → Bytes → PR Unit
  | [], i => .ok () i
  | _ :: _, [] => .inc
  | t :: ts, c :: cs => if t = c then tagS ts cs else .err

/-- first occurrence of `pat` (non-empty): bytes before it, input from it on -/
def splitOnSub (pat : Bytes) : Bytes → Option (Bytes × Bytes)
  | [] => none
  | c :: r =>
    if pat.isPrefixOf (c :: r) then some ([], c :: r)
    else match splitOnSub pat r with
      | some (a, b) => some (c :: a, b)
      | none => none

/-- `line_ending` (streaming) -/
def lineEnding : Bytes → PR Unit
  | [] => .inc
  | c :: r =>
    if c = LF then .ok () r
    else if c = CR then
      match r with
      | [] => .inc
      | d :: r' => if d = LF then .ok () r' else .err
    else .err

/-- `not_line_ending` (streaming): up to the first CR or LF; a CR must be followed by LF -/
def notLineEnding : Bytes → PR Bytes
  | [] => .inc
  | c :: r =>
    if c = LF then .ok [] (c :: r)
    else if c = CR then
      match r with
      | [] => .inc
      | d :: _ => if d = LF then .ok [] (c :: r) else .err
    else
      match notLineEnding r with
      | .ok v rest => .ok (c :: v) rest
      | .inc => .inc
      | .err => .err

/-- `space0` (streaming) -/
def space0 : Bytes → PR Unit
  | [] => .inc
  | c :: r => if c = SP ∨ c = TAB then space0 r else .ok () (c :: r)

def isDigit (c : Byte) : Bool := 48 ≤ c.toNat && c.toNat ≤ 57

/-- `digit1` (streaming) -/
def digit1 : Bytes → PR Bytes
  | [] => .inc
  | c :: r =>
    if isDigit c then
      match digit1 r with
      | .ok ds rest => .ok (c :: ds) rest
      | .inc => .inc
      | .err => .ok [c] r
    else .err

/-- `str::parse::<usize>` on a digit string (64-bit target) -/
def parseUsize (ds : Bytes) : Option Nat :=
  let n := ds.foldl (fun a d => a * 10 + (d.toNat - 48)) 0
  if n < 18446744073709551616 then some n else none

/-- Rust's `str::from_utf8` acceptance (RFC 3629: shortest form, no surrogates, ≤ U+10FFFF) -/
def validUtf8 : Bytes → Bool
  | [] => true
  | b0 :: r =>
    let cont (b : Byte) : Bool := 128 ≤ b.toNat && b.toNat ≤ 191
    let n := b0.toNat
    if n < 128 then validUtf8 r
    else if 194 ≤ n ∧ n ≤ 223 then
      match r with
      | b1 :: r' => cont b1 && validUtf8 r'
      | _ => false
    else if 224 ≤ n ∧ n ≤ 239 then
      match r with
      | b1 :: b2 :: r' =>
        (if n = 224 then 160 ≤ b1.toNat && b1.toNat ≤ 191
         else if n = 237 then 128 ≤ b1.toNat && b1.toNat ≤ 159
         else cont b1) && cont b2 && validUtf8 r'
      | _ => false
    else if 240 ≤ n ∧ n ≤ 244 then
      match r with
      | b1 :: b2 :: b3 :: r' =>
        (if n = 240 then 144 ≤ b1.toNat && b1.toNat ≤ 191
         else if n = 244 then 128 ≤ b1.toNat && b1.toNat ≤ 143
         else cont b1) && cont b2 && cont b3 && validUtf8 r'
      | _ => false
    else false

/-! ### header -/

/-- the alternatives of `armor_header_type` before and after the multi-part one, in source order -/
def typeTable1 : List (Bytes × BlockType) :=
  [(asc "PGP PUBLIC KEY BLOCK", .publicKey), (asc "PGP PRIVATE KEY BLOCK", .privateKey)]

def typeTable2 : List (Bytes × BlockType) :=
  [(asc "PGP MESSAGE", .message), (asc "PGP SIGNATURE", .signature), (asc "PGP ARMORED FILE", .file),
   (asc "PGP SIGNED MESSAGE", .cleartext),
   (asc "RSA PUBLIC KEY", .pubPkcs1 .rsa), (asc "DSA PUBLIC KEY", .pubPkcs1 .dsa),
   (asc "EC PUBLIC KEY", .pubPkcs1 .ec), (asc "PUBLIC KEY", .pubPkcs8),
   (asc "OPENSSH PUBLIC KEY", .pubOpenssh),
   (asc "RSA PRIVATE KEY", .privPkcs1 .rsa), (asc "DSA PRIVATE KEY", .privPkcs1 .dsa),
   (asc "EC PRIVATE KEY", .privPkcs1 .ec), (asc "PRIVATE KEY", .privPkcs8),
   (asc "OPENSSH PRIVATE KEY", .privOpenssh)]

/-- `alt((value(t, tag(name)), …))` -/
def parseTypeTable : List (Bytes × BlockType) → Bytes → PR BlockType
  | [], _ => .err
  | (name, t) :: tl, i =>
    match tagS name i with
    | .ok _ r => .ok t r
    | .inc => .inc
    | .err => parseTypeTable tl i

/-- the `PGP MESSAGE, PART x[/y]` alternative -/
def parseMultiPart (i : Bytes) : PR BlockType :=
  match tagS (asc "PGP MESSAGE, PART ") i with
  | .inc => .inc
  | .err => .err
  | .ok _ r =>
    match digit1 r with
    | .inc => .inc
    | .err => .err
    | .ok ds r2 =>
      match parseUsize ds with
      | none => .err
      | some x =>
        -- opt(preceded(tag("/"), map_res(digit1, parse_digit)))
        match tagS [SLASH] r2 with
        | .inc => .inc
        | .err => .ok (.multiPart x 0) r2
        | .ok _ r3 =>
          match digit1 r3 with
          | .inc => .inc
          | .err => .ok (.multiPart x 0) r2
          | .ok ds2 r4 =>
            match parseUsize ds2 with
            | none => .ok (.multiPart x 0) r2
            | some y => .ok (.multiPart x y) r4

/-- `armor_header_type` -/
def parseType (i : Bytes) : PR BlockType :=
  (parseTypeTable typeTable1 i).orElse fun _ =>
  (parseMultiPart i).orElse fun _ => parseTypeTable typeTable2 i

/-- `armor_header_line`: `-----BEGIN <type>-----` line ending -/
def armorHeaderLine (i : Bytes) : PR BlockType :=
  match tagS (asc "-----BEGIN ") i with
  | .inc => .inc
  | .err => .err
  | .ok _ r =>
    match parseType r with
    | .inc => .inc
    | .err => .err
    | .ok t r2 =>
      match tagS DASH5 r2 with
      | .inc => .inc
      | .err => .err
      | .ok _ r3 =>
        match lineEnding r3 with
        | .inc => .inc
        | .err => .err
        | .ok _ r4 => .ok t r4

/-- `line.split_once(": ")`, else `line.strip_suffix(':')` with an empty value, else no key -/
def kvSplit (line : Bytes) : Bytes × Bytes :=
  match splitOnSub [COLON, SP] line with
  | some (k, rest) => (k, rest.drop 2)
  | none => if line.getLast? = some COLON then (line.dropLast, []) else ([], [])

/-- `key_value_pair` (line based since the repair of D10c): exactly one line — `not_line_ending`
(streaming) checked by `str::from_utf8`, then its `line_ending`; the key ends at the first `": "` of
the line, or at a `:` that ends the line (empty value); a line with neither, or with an empty key,
is an `Error` -/
def kvPair (i : Bytes) : PR (Bytes × Bytes) :=
  match notLineEnding i with
  | .inc => .inc
  | .err => .err
  | .ok line r =>
    if validUtf8 line then
      match lineEnding r with
      | .inc => .inc
      | .err => .err
      | .ok _ rest =>
        let kv := kvSplit line
        if kv.1.isEmpty then .err else .ok kv rest
    else .err

/-- `many0(complete(key_value_pair))`; `fuel` ≥ input length (every pair consumes input) -/
def kvPairs : Nat → Bytes → List (Bytes × Bytes) × Bytes
  | 0, i => ([], i)
  | f + 1, i =>
    match (kvPair i).complete with
    | .ok kv rest =>
      let r := kvPairs f rest
      (kv :: r.1, r.2)
    | _ => ([], i)

def isAlnumDash (c : Byte) : Bool :=
  let n := c.toNat
  (65 ≤ n && n ≤ 90) || (97 ≤ n && n ≤ 122) || (48 ≤ n && n ≤ 57) || n = 45

/-- `alphanumeric1_or_dash` (streaming `split_at_position1`) -/
def alnumDash1 : Bytes → PR Bytes
  | [] => .inc
  | c :: r =>
    if isAlnumDash c then
      match alnumDash1 r with
      | .ok ds rest => .ok (c :: ds) rest
      | .inc => .inc
      | .err => .ok [c] r
    else .err

/-- `many0(map_res(terminated(alphanumeric1_or_dash, tag(",")), ..))`: values followed by a comma;
returns the values and the input at the first value that is not followed by a comma -/
def hashValuesComma : Nat → Bytes → PR (List Bytes)
  | 0, i => .ok [] i
  | f + 1, i =>
    match alnumDash1 i with
    | .inc => .inc
    | .err => .ok [] i
    | .ok v r =>
      match tagS [COMMA] r with
      | .inc => .inc
      | .err => .ok [] i
      | .ok _ r2 =>
        match hashValuesComma f r2 with
        | .ok vs r3 => .ok (v :: vs) r3
        | .inc => .inc
        | .err => .err

/-- `hash_header_line` -/
def hashHeaderLine (i : Bytes) : PR (List Bytes) :=
  match tagS (asc "Hash: ") i with
  | .inc => .inc
  | .err => .err
  | .ok _ r =>
    match hashValuesComma r.length r with
    | .inc => .inc
    | .err => .err
    | .ok vs r2 =>
      match alnumDash1 r2 with
      | .inc => .inc
      | .err => .err
      | .ok v r3 =>
        match lineEnding r3 with
        | .inc => .inc
        | .err => .err
        | .ok _ r4 => .ok (vs ++ [v]) r4

/-- `many0(complete(hash_header_line))`, flattened -/
def hashHeaderLines : Nat → Bytes → List Bytes × Bytes
  | 0, i => ([], i)
  | f + 1, i =>
    match (hashHeaderLine i).complete with
    | .ok vs rest =>
      let r := hashHeaderLines f rest
      (vs ++ r.1, r.2)
    | _ => ([], i)

/-- `armor_headers` / `armor_headers_hash` -/
def armorHeaders (t : BlockType) (i : Bytes) : Headers × Bytes :=
  if t = .cleartext then
    let r := hashHeaderLines i.length i
    ([(asc "Hash", r.1)], r.2)
  else
    let r := kvPairs i.length i
    (r.1.foldl (fun m kv => hdrInsert kv.1 kv.2 m) [], r.2)

/-- `header_parser`: leading text up to the first `-----`, header line, headers, blank line
(`pair(space0, line_ending)`); result: type, headers, "has leading data" -/
def headerParser (i : Bytes) : PR (BlockType × Headers × Bool) :=
  match splitOnSub DASH5 i with
  | none => .inc
  | some (lead, r) =>
    match armorHeaderLine r with
    | .inc => .inc
    | .err => .err
    | .ok t r2 =>
      let hr := armorHeaders t r2
      match space0 hr.2 with
      | .inc => .inc
      | .err => .err
      | .ok _ r3 =>
        match lineEnding r3 with
        | .inc => .inc
        | .err => .err
        | .ok _ r4 => .ok (t, hr.1, !lead.isEmpty) r4

/-! ### footer -/

/-- `read_checksum`: the decoded octets are stored at `buf[1 ..= len]` of a zeroed 4-octet buffer
read as big-endian `u32` (1 ≤ len ≤ 3 for a 4-character input) -/
def readChecksum (c4 : Bytes) : Option Nat :=
  match b64dec c4 with
  | none => none
  | some bs => some (beNat (bs ++ List.replicate (3 - bs.length) 0))

/-- `many0(line_ending)` (streaming: `Incomplete` from the element is returned) -/
def manyLineEndings : Nat → Bytes → PR Unit
  | 0, i => .ok () i
  | f + 1, i =>
    match lineEnding i with
    | .ok _ r => manyLineEndings f r
    | .inc => .inc
    | .err => .ok () i

/-- `many0(tag("="))` -/
def manyEq : Bytes → PR Unit
  | [] => .inc
  | c :: r => if c = EQS then manyEq r else .ok () (c :: r)

/-- `pair(many0(line_ending), tag("--"))` -/
def footerSep (i : Bytes) : PR Unit :=
  match manyLineEndings i.length i with
  | .inc => .inc
  | .err => .err
  | .ok _ r => tagS [45, 45] r

/-- first alternative of the checksum part: `=`, four characters, separator -/
def footerCrcAlt1 (i : Bytes) : PR (Option Bytes) :=
  match tagS [EQS] i with
  | .inc => .inc
  | .err => .err
  | .ok _ r =>
    if r.length < Gen.footerCrcChars then .inc
    else
      match footerSep (r.drop Gen.footerCrcChars) with
      | .inc => .inc
      | .err => .err
      | .ok _ r2 => .ok (some (r.take Gen.footerCrcChars)) r2

/-- second alternative: any number of `=`, separator, no checksum -/
def footerCrcAlt2 (i : Bytes) : PR (Option Bytes) :=
  match manyEq i with
  | .inc => .inc
  | .err => .err
  | .ok _ r =>
    match footerSep r with
    | .inc => .inc
    | .err => .err
    | .ok _ r2 => .ok none r2

/-- the checksum part of `footer_parser` before `map_res` -/
def footerCrcRaw (i : Bytes) : PR (Option Bytes) :=
  (footerCrcAlt1 i).orElse fun _ => footerCrcAlt2 i

/-- `armor_footer_line`: `---END <type>-----` and an optional line ending -/
def armorFooterLine (i : Bytes) : PR BlockType :=
  match tagS (asc "---END ") i with
  | .inc => .inc
  | .err => .err
  | .ok _ r =>
    match parseType r with
    | .inc => .inc
    | .err => .err
    | .ok t r2 =>
      match tagS DASH5 r2 with
      | .inc => .inc
      | .err => .err
      | .ok _ r3 =>
        match (lineEnding r3).complete with
        | .ok _ r4 => .ok t r4
        | _ => .ok t r3

/-- `footer_parser` -/
def footerParser (i : Bytes) : PR (Option Nat × BlockType) :=
  match footerCrcRaw i with
  | .inc => .inc
  | .err => .err
  | .ok c r =>
    let ck : Option (Option Nat) :=
      match c with
      | none => some none
      | some c4 => (readChecksum c4).map some
    match ck with
    | none => .err            -- map_res: the checksum characters do not decode
    | some cks =>
      match armorFooterLine r with
      | .inc => .inc
      | .err => .err
      | .ok t r2 => .ok (cks, t) r2

/-! ## `read_from_buf` -/

inductive RbErr where
  | eof   -- "not enough bytes in buffer"
  | bad   -- "failed reading" (or "inconsistent state")
deriving DecidableEq, Repr

/-- `read_from_buf(b, ctx, limit, parser)` on a source whose successive `fill_buf` views are
`chunks` (empty views are skipped by the source; the end of the list is EOF): the parser is run on
the first view, and, while it answers `Incomplete`, on the bytes accumulated so far plus the next
view.  Returns the parsed value and the unconsumed bytes of the whole source. -/
def readFromBuf {α : Type} (p : Bytes → PR α) : Bytes → List Bytes → Except RbErr (α × Bytes)
  | _, [] => .error .eof
  | acc, c :: cs =>
    if c.isEmpty then readFromBuf p acc cs
    else
      match p (acc ++ c) with
      | .ok a rest =>
        if !acc.isEmpty && c.length < rest.length then .error .bad
        else .ok (a, rest ++ cs.flatten)
      | .inc => readFromBuf p (acc ++ c) cs
      | .err => .error .bad

/-! ## body: `Base64Reader` → `BufReader` (1024) → `Base64Decoder` -/

/-- `is_base64_token` without CR/LF (which `Base64Reader::read` skips before testing) -/
def isB64Token (c : Byte) : Bool :=
  let n := c.toNat
  (Gen.tokUpperLo ≤ n && n ≤ Gen.tokUpperHi) || (Gen.tokLowerLo ≤ n && n ≤ Gen.tokLowerHi) ||
  (Gen.tokDigitLo ≤ n && n ≤ Gen.tokDigitHi) || n = 47 || n = 43 || n = 61

/-- one `Base64Reader::read(into)` with `into.len() = n > 0` over the raw input: CR and LF are
dropped, the first other non-token octet stops the reader (it stays in the input), a full `into`
stops it right after the last token.  Independent of the `fill_buf` views of the source. -/
def b64Fill : Nat → Bytes → Bytes × Bytes
  | 0, raw => ([], raw)
  | _ + 1, [] => ([], [])
  | n + 1, c :: r =>
    if c = CR ∨ c = LF then b64Fill (n + 1) r
    else if isB64Token c then
      let x := b64Fill n r
      (c :: x.1, x.2)
    else ([], c :: r)

/-- `try_decode_engine_slice(&buf[..4*q], ..)`: the longest prefix of whole quanta that decodes,
searching downwards; (consumed, decoded) -/
def tryDecode : Nat → Bytes → Nat × Bytes
  | 0, _ => (0, [])
  | q + 1, buf =>
    match b64dec (buf.take (4 * (q + 1))) with
    | some o => (4 * (q + 1), o)
    | none => tryDecode q buf

/-- The decoder loop as driven by `Dearmor::read` until a read returns 0.  State: the live bytes
`buf` of the decoder's `BufReader` (capacity `cap`, never compacted: `endc` is its tail cursor, reset
when the buffer runs empty) and the raw input still in the source.  Result: decoded bytes, left-over
buffer, remaining raw input.  One step = one `Base64Decoder::read` that yields fresh data. -/
def decodeBody (cap : Nat) : Nat → Bytes → Nat → Bytes → Bytes × Bytes × Bytes
  | 0, buf, _, raw => ([], buf, raw)
  | fuel + 1, buf, endc, raw =>
    -- `if self.inner.buf_len() < 4 { read_into_buf }`  (a no-op when no usable space is left)
    let fill := if buf.length < Gen.b64DecRefillBelow then b64Fill (cap - endc) raw else ([], raw)
    let buf1 := buf ++ fill.1
    let endc1 := endc + fill.1.length
    if buf1.isEmpty then ([], [], fill.2)
    else
      let d := tryDecode (buf1.length / Gen.b64DecQuantumIn) buf1
      if d.2.isEmpty then ([], buf1, fill.2)      -- read returns 0: the body is over
      else
        let buf2 := buf1.drop d.1
        let r := decodeBody cap fuel buf2 (if buf2.isEmpty then 0 else endc1) fill.2
        (d.2 ++ r.1, r.2.1, r.2.2)

/-! ## `Dearmor` -/

inductive CrcStatus where
  | noCrc
  | checkedOk (crc : Nat)
  | checkedInvalid (footer calculated : Nat)
  | unchecked (footer : Nat)
deriving DecidableEq, Repr

inductive DearmorErr where
  | headerEof | headerBad | footerEof | footerBad | typeMismatch | crcMismatch
deriving DecidableEq, Repr

structure Dearmored where
  typ : BlockType
  headers : Headers
  data : Bytes
  checksum : Option Nat
  status : CrcStatus
deriving DecidableEq, Repr

instance : DecidableEq (Except DearmorErr Dearmored)
  | .ok a, .ok b => if h : a = b then isTrue (by rw [h]) else isFalse (by intro h'; cases h'; exact h rfl)
  | .error a, .error b => if h : a = b then isTrue (by rw [h]) else isFalse (by intro h'; cases h'; exact h rfl)
  | .ok _, .error _ => isFalse (by intro h; cases h)
  | .error _, .ok _ => isFalse (by intro h; cases h)

/-- The value of `self.crc` that `crc24_status` sees after the body has been read.
`Dearmor::read_body` does `if let Some(mut crc) = self.crc { crc.write(&into[..size]) }`:
`Crc24Hasher` is `Copy`, so the update goes to a temporary and `self.crc` keeps its initial
state whatever was read (defect D10).  The model is of the code as it is. -/
def dearmorCalculatedCrc (_data : Bytes) : Nat := crc24Init

/-- `crc24_status` -/
def crcStatus (crcCheck : Bool) (checksum : Option Nat) (data : Bytes) : CrcStatus :=
  match checksum with
  | none => .noCrc
  | some f =>
    if crcCheck then
      let c := dearmorCalculatedCrc data
      if f = c then .checkedOk f else .checkedInvalid f c
    else .unchecked f

/-- `Dearmor::with_options(src, opt)` read to the end (`read_to_end`), `src` handing out its bytes in
the `fill_buf` views `chunks`. -/
def dearmor (crcCheck : Bool) (chunks : List Bytes) : Except DearmorErr Dearmored :=
  match readFromBuf headerParser [] chunks with
  | .error .eof => .error .headerEof
  | .error .bad => .error .headerBad
  | .ok ((t, h, _), raw) =>
    let b := decodeBody Gen.b64DecBufSize (raw.length + 1) [] 0 raw
    -- Part::Footer: left-over tokens of the decoder's buffer, then the rest of the source
    match footerParser (b.2.1 ++ b.2.2) with
    | .inc => .error .footerEof
    | .err => .error .footerBad
    | .ok (ck, ft) _ =>
      if t ≠ ft then .error .typeMismatch
      else
        let st := crcStatus crcCheck ck b.1
        match st with
        | .checkedInvalid _ _ => .error .crcMismatch
        | _ => .ok { typ := t, headers := h, data := b.1, checksum := ck, status := st }

end Rpgp.Armor
