# Constants of the end-to-end message composition (C01, layer E2E): packet tags at the builder and
# reader sites, the SEIPD version octets on both sides, the literal mode octets, the default literal
# header fields.  exec'd by tools/extract_constants.py with `item`, `derived`, `flag`, `re` in scope.

def _chr(s):
    return ord(s)

def _hex(s):
    return int(s, 16)

TP = "src/types/packet.rs"
# ---- Tag enum (types/packet.rs) -- the octet behind every tag the message grammar uses ----------
item("e2eTagPkesk", TP, r"\n\s*PublicKeyEncryptedSessionKey = (\d+),", "Tag::PublicKeyEncryptedSessionKey")
item("e2eTagSignature", TP, r"\n\s*Signature = (\d+),", "Tag::Signature")
item("e2eTagSkesk", TP, r"\n\s*SymKeyEncryptedSessionKey = (\d+),", "Tag::SymKeyEncryptedSessionKey")
item("e2eTagOps", TP, r"\n\s*OnePassSignature = (\d+),", "Tag::OnePassSignature")
item("e2eTagCompressed", TP, r"\n\s*CompressedData = (\d+),", "Tag::CompressedData")
item("e2eTagLiteral", TP, r"\n\s*LiteralData = (\d+),", "Tag::LiteralData")
item("e2eTagSeipd", TP, r"\n\s*SymEncryptedProtectedData = (\d+),", "Tag::SymEncryptedProtectedData")

# ---- SEIPD version octets: writer (Config::to_writer) and reader (Config::try_from_reader) -------
SP = "src/packet/sym_encrypted_protected_data.rs"
item("e2eSeipdV1Octet", SP, r"Config::V1 => \{\s*writer\.write_u8\(0x([0-9a-fA-F]+)\)\?;", "Config::to_writer V1 version octet", raw=_hex)
item("e2eSeipdV2Octet", SP, r"Config::V2 \{[^}]*\} => \{\s*writer\.write_u8\(0x([0-9a-fA-F]+)\)\?;", "Config::to_writer V2 version octet", raw=_hex)
item("e2eSeipdV1OctetRd", SP, r"match version \{\s*0x([0-9a-fA-F]+) => Ok\(Self::V1\),", "Config::try_from_reader V1 version octet", raw=_hex)
item("e2eSeipdV2OctetRd", SP, r"Ok\(Self::V1\),\s*0x([0-9a-fA-F]+) => \{\s*let sym_alg", "Config::try_from_reader V2 version octet", raw=_hex)
item("e2eSeipdSaltLenRd", SP, r"let salt = data\.read_arr::<(\d+)>\(\)\?;", "Config::try_from_reader V2 salt length")

# ---- literal data (packet/literal_data.rs) ------------------------------------------------------
LD = "src/packet/literal_data.rs"
item("e2eModeBinary", LD, r"Binary = b'(.)',", "DataMode::Binary octet", raw=_chr)
item("e2eModeUtf8", LD, r"Utf8 = b'(.)',", "DataMode::Utf8 octet", raw=_chr)
item("e2eLitTimestampLen", "src/types/timestamp.rs", r"pub struct Timestamp\(u(\d+)\);", "Timestamp width in bits")
flag("e2eLitHeaderNameEmpty", LD, r"pub fn new\(mode: DataMode\) -> Self \{\s*Self \{\s*mode,\s*file_name: \"\"\.into\(\),\s*created: Timestamp::default\(\),",
     "LiteralDataHeader::new: empty file name, default (zero) timestamp")
flag("e2eUtf8CheckedOnWrite", LD, r"if header\.mode == DataMode::Utf8 \{\s*let utf8 = Utf8CheckReader::new\(source\);\s*let crlf = CrLfCheckReader::new\(utf8\);",
     "LiteralDataGenerator::new wraps a Utf8 literal source in CrLfCheckReader<Utf8CheckReader>")
flag("e2eUtf8CheckedOnRead", "src/composed/message/reader/literal.rs", r"Utf8CheckReader|CrLfCheckReader|from_utf8",
     "LiteralDataReader checks UTF-8 (it does not in the pinned tree)")

# ---- builder (composed/message/builder.rs) ------------------------------------------------------
MB = "src/composed/message/builder.rs"
flag("e2eSignLenUnknown", MB, r"let total_len = None;", "SignGenerator::new: total length is never known (compressed / encrypted containers are always partial)")
flag("e2eSkesksBeforePkesks", MB, r"// Write out symmetric esks\s*for sym_esk in sym_esks \{[^}]*\}\s*// Write out public esks", "Encryption::encrypt: SKESKs are written before PKESKs")
item("e2eBuilderMinChunk", MB, r"size >= (\d+), \"partial chunk size must be at least", "Builder::partial_chunk_size lower bound")
