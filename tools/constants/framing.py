# ---- types/packet.rs : PacketLength ------------------------------------------------------
TP = "src/types/packet.rs"
item("felOneOctetLimit", TP, r"fn fixed_encoding_len.*?if len < (\d+)", "PacketLength::fixed_encoding_len first threshold")
item("felTwoOctetLimit", TP, r"fn fixed_encoding_len.*?else if len < (\d+)", "PacketLength::fixed_encoding_len second threshold")
item("rdOneOctetMax", TP, r"0\.\.=(\d+) => PacketLength::Fixed\(olen", "try_from_reader: one-octet range upper bound")
item("rdTwoOctetMin", TP, r"(\d+)\.\.=(\d+) => \{\s*let a = r\.read_u8", "try_from_reader: two-octet range lower bound", group=1)
item("rdTwoOctetMax", TP, r"(\d+)\.\.=(\d+) => \{\s*let a = r\.read_u8", "try_from_reader: two-octet range upper bound", group=2)
item("rdTwoOctetSub", TP, r"\(\(olen as u32 - (\d+)\) << (\d+)\) \+ (\d+) \+ a as u32", "try_from_reader: two-octet decode, subtracted", group=1)
item("rdTwoOctetShift", TP, r"\(\(olen as u32 - (\d+)\) << (\d+)\) \+ (\d+) \+ a as u32", "try_from_reader: two-octet decode, shift", group=2)
item("rdTwoOctetAdd", TP, r"\(\(olen as u32 - (\d+)\) << (\d+)\) \+ (\d+) \+ a as u32", "try_from_reader: two-octet decode, added", group=3)
item("rdPartialMin", TP, r"(\d+)\.\.=(\d+) => PacketLength::Partial", "try_from_reader: partial range lower bound", group=1)
item("rdPartialMax", TP, r"(\d+)\.\.=(\d+) => PacketLength::Partial", "try_from_reader: partial range upper bound", group=2)
item("rdPartialMask", TP, r"PacketLength::Partial\(1 << \(olen as usize & (0x[0-9A-Fa-f]+|\d+)\)\)", "try_from_reader: partial exponent mask")
item("rdFiveOctetMarker", TP, r"(\d+) => \{\s*let len = r\.read_be_u32", "try_from_reader: five-octet marker")
item("wrNewOneOctetLimit", TP, r"fn to_writer_new.*?if \*len < (\d+)", "to_writer_new first threshold")
item("wrNewTwoOctetLimit", TP, r"fn to_writer_new.*?else if \*len < (\d+)", "to_writer_new second threshold")
item("wrPartialBase", TP, r"let n = \((\d+) \+ n\) as u8", "to_writer_new partial base octet")
item("whOldOneOctetLimit", TP, r"fn write_header.*?PacketHeaderVersion::Old => \{\s*if len < (\d+)", "write_header Old first threshold")
item("whOldTwoOctetLimit", TP, r"fn write_header.*?PacketHeaderVersion::Old => \{\s*if len < \d+ \{.*?\} else if len < (\d+)", "write_header Old second threshold")
item("whNewOneOctetLimit", TP, r"fn write_header.*?PacketHeaderVersion::New => \{.*?if len < (\d+)", "write_header New first threshold")
item("whNewTwoOctetLimit", TP, r"fn write_header.*?PacketHeaderVersion::New => \{.*?if len < \d+ \{.*?\} else if len < (\d+)", "write_header New second threshold")
item("hlOldOneOctetLimit", TP, r"fn header_len.*?PacketHeaderVersion::Old => \{\s*if len < (\d+)", "header_len Old first threshold")
item("hlOldTwoOctetLimit", TP, r"fn header_len.*?PacketHeaderVersion::Old => \{\s*if len < \d+ \{.*?\} else if len < (\d+)", "header_len Old second threshold")
item("hlNewOneOctetLimit", TP, r"fn header_len.*?PacketHeaderVersion::New => \{\s*if len < (\d+)", "header_len New first threshold")
item("hlNewTwoOctetLimit", TP, r"fn header_len.*?PacketHeaderVersion::New => \{\s*if len < \d+ \{.*?\} else if len < (\d+)", "header_len New second threshold")
# ---- packet/header.rs --------------------------------------------------------------------
PH = "src/packet/header.rs"
item("maxPartialLenLog2", PH, r"const MAX_PARTIAL_LEN: u32 = 2u32\.pow\((\d+)\)", "header.rs MAX_PARTIAL_LEN = 2^k")
item("phwNewOneOctetLimit", PH, r"fn write_len.*?Self::New \{.*?if \*len < (\d+)", "PacketHeader::write_len New first threshold")
item("phwNewTwoOctetLimit", PH, r"fn write_len.*?Self::New \{.*?else if \*len < (\d+)", "PacketHeader::write_len New second threshold")
# (the number of length octets of a legacy header follows the length TYPE stored in its first octet)
def _arm(t, fn, arm, table):
    m = re.search(fn + r".*?Self::Old \{ header(?:: _)?, length \} => match length \{.*?match header\.length_type\(\) \{(.*?)\n                    \}", t, re.S)
    if not m:
        return None
    a = re.search(r"(?:^|\n)\s*(?://[^\n]*\n\s*)?" + re.escape(arm) + r" => ([^\n]*)", m.group(1))
    if not a:
        return None
    for k, v in table:
        if k in a.group(1):
            return v
    return None
_W = [("write_u8", 1), ("write_u16", 2), ("write_u32", 4)]
_L = [("1 + 1", 2), ("1 + 2", 3), ("1 + 4", 5)]
item("phtOldType0Octets", PH, lambda t: _arm(t, r"fn to_writer", "0", _W), "PacketHeader::to_writer Old: length octets written for length type 0")
item("phtOldType1Octets", PH, lambda t: _arm(t, r"fn to_writer", "1", _W), "PacketHeader::to_writer Old: length octets written for length type 1")
item("phtOldType2Octets", PH, lambda t: _arm(t, r"fn to_writer", "_", _W), "PacketHeader::to_writer Old: length octets written for length type 2")
item("phwOldType0Len", PH, lambda t: _arm(t, r"fn write_len", "0", _L), "PacketHeader::write_len Old: header size for length type 0")
item("phwOldType1Len", PH, lambda t: _arm(t, r"fn write_len", "1", _L), "PacketHeader::write_len Old: header size for length type 1")
item("phwOldType2Len", PH, lambda t: _arm(t, r"fn write_len", "_", _L), "PacketHeader::write_len Old: header size for length type 2")
item("oftOneOctetLimit", PH, r"fn old_fixed_type\(len: u32\) -> u8 \{\s*if len < (\d+) \{\s*0", "old_fixed_type: lengths below this get length type 0 (one octet)")
item("oftTwoOctetLimit", PH, r"fn old_fixed_type\(len: u32\) -> u8 \{.*?\} else if len < (\d+) \{\s*1\s*\} else \{\s*2", "old_fixed_type: lengths below this get length type 1 (two octets), others type 2 (four octets)")
# ---- reader/packet_body.rs ---------------------------------------------------------------
PB = "src/composed/message/reader/packet_body.rs"
item("rdFirstPartialMin", PB, r"if len < (\d+) \{\s*#\[cfg\(feature = \"malformed-artifact-compat\"\)\]", "PacketBodyReader::new minimum first partial length")
item("packetBodyBufferSize", PB, r"const BUFFER_SIZE: usize = ([^;]+);", "packet_body.rs BUFFER_SIZE")
# ---- builder / generators ----------------------------------------------------------------
item("litPartialMinChunk", "src/packet/literal_data.rs", r"impl<R: io::Read> LiteralDataPartialGenerator<R> \{.*?ensure!\(chunk_size >= (\d+)", "LiteralDataPartialGenerator::new minimum chunk size")
item("cmpPartialMinChunk", "src/packet/compressed_data.rs", r"ensure!\(chunk_size >= (\d+)", "CompressedDataPartialGenerator::new minimum chunk size")



# ---- packet/many.rs: the end of a packet stream vs. a failing reader below -------------------
PM = "src/packet/many.rs"
flag("fixD4nNextRefTracksErrors", PM, r"pub fn next_ref\(.*?TrackErrors \{.*?UnexpectedEof && !tracked\.failed.*?pub fn next_owned",
     "D4n repaired: next_ref treats an UnexpectedEof raised by the reader below while a header is read as an error")
flag("fixD4pIteratorTracksErrors", PM, r"impl<R: BufRead> Iterator for PacketParser<R> \{.*?fn next\(&mut self\).*?TrackErrors \{.*?UnexpectedEof && !tracked\.failed.*?Some\(res\)\s*\}\s*\}",
     "D4p repaired: the PacketParser iterator does the same")

flag("fixD17cFixedGeneratorHonoursLength", "src/packet/literal_data.rs", r"impl<R: io::Read> io::Read for LiteralDataFixedGenerator<R> \{.*?source_left == 0.*?source yields more data than its announced length.*?source yields less data than its announced length",
     "D17c repaired: LiteralDataFixedGenerator hands out exactly the announced amount of source data and fails otherwise")
