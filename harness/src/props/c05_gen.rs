// generators of C05 (included by c05.rs)

use rand::Rng;

const CREATED: [u8; 4] = [0x65, 0x00, 0x01, 0x02];
const KEYID: [u8; 8] = [1, 2, 3, 4, 5, 6, 7, 8];

fn pkt(ctx: &mut Ctx, tag: u8, body: Vec<u8>, canonical: bool, label: &str) -> Real {
    let m = Msg::hexed(body).packet(tag);
    run_pkt(ctx, &m, false, canonical, label)
}

fn unit_mpi(ctx: &mut Ctx, data: &[u8]) {
    let r = guarded(|| {
        let mut src: &[u8] = data;
        match pgp::types::Mpi::try_from_reader(&mut src) {
            Err(_) => "err".to_string(),
            Ok(m) => {
                let mut out = Vec::new();
                let _ = m.to_writer(&mut out);
                format!("ok:{}:{}:{}:{}", show_bytes(m.as_ref()), src.len(), show_bytes(&out), m.write_len())
            }
        }
    })
    .unwrap_or_else(|_| "panic".into());
    let req = format!("c05_mpi data={}", hx(data));
    // oracle: announced length = bytes written; value survives the round trip
    if r.starts_with("ok") {
        let mut src: &[u8] = data;
        if let Ok(m) = pgp::types::Mpi::try_from_reader(&mut src) {
            let out = m.to_bytes().unwrap_or_default();
            ctx.oracle("write_len_truthful", "Mpi::write_len vs to_writer", &req, out.len() == m.write_len(), &r);
            let back = pgp::types::Mpi::try_from_reader(&mut &out[..]).ok();
            ctx.oracle("roundtrip_equal_value", "Mpi::try_from_reader -> to_writer -> try_from_reader", &req, back.as_ref() == Some(&m), &r);
        }
    }
    ctx.case(req, r);
    ctx.stat("gen:mpi");
}

fn unit_s2k(ctx: &mut Ctx, data: &[u8]) {
    let r = guarded(|| {
        let mut src: &[u8] = data;
        match pgp::types::StringToKey::try_from_reader(&mut src) {
            Err(_) => "err".to_string(),
            Ok(s) => {
                let mut out = Vec::new();
                let _ = s.to_writer(&mut out);
                format!("ok:{}:{}:{}", show_bytes(&out), src.len(), s.write_len())
            }
        }
    })
    .unwrap_or_else(|_| "panic".into());
    let req = format!("c05_s2k data={}", hx(data));
    if r.starts_with("ok") {
        let mut src: &[u8] = data;
        if let Ok(s) = pgp::types::StringToKey::try_from_reader(&mut src) {
            let out = s.to_bytes().unwrap_or_default();
            let consumed = &data[..data.len() - src.len()];
            ctx.oracle("write_len_truthful", "StringToKey::write_len vs to_writer", &req, out.len() == s.write_len(), &r);
            ctx.oracle("canonical_identical_bytes", "StringToKey::try_from_reader -> to_writer", &req, out == consumed, &r);
            let back = pgp::types::StringToKey::try_from_reader(&mut &out[..]).ok();
            ctx.oracle("roundtrip_equal_value", "StringToKey round trip", &req, back.as_ref() == Some(&s), &r);
        }
    }
    ctx.case(req, r);
    ctx.stat("gen:s2k");
}

fn gen_units(ctx: &mut Ctx) {
    // MPI: every declared bit count 0..=40 against exact / leading-zero / over-long / short octets
    for bits in 0usize..=40 {
        let n = (bits + 7) / 8;
        let exact = wire::mpi_of_bits(bits, 0x55);
        unit_mpi(ctx, &exact);
        let mut with_rest = exact.clone();
        with_rest.extend([0xAA, 0xBB]);
        unit_mpi(ctx, &with_rest);
        // leading zero octet(s) inside the declared size
        let mut z = vec![0u8; n];
        if n > 1 { z[n - 1] = 0x7F; }
        unit_mpi(ctx, &wire::mpi_raw(bits as u16, &z));
        // top bits beyond the declared count set ("over-long" value)
        unit_mpi(ctx, &wire::mpi_raw(bits as u16, &vec![0xFF; n]));
        // truncated
        if n > 0 { unit_mpi(ctx, &wire::mpi_raw(bits as u16, &vec![0x81; n - 1])); }
    }
    for bits in [2047usize, 2048, 2049, 4096, 16376, 16383, 16384] {
        unit_mpi(ctx, &wire::mpi_of_bits(bits, 0x33));
    }
    for bits in [16385u16, 16392, 32768, 65535] {
        let n = (bits as usize + 7) / 8;
        unit_mpi(ctx, &wire::mpi_raw(bits, &vec![0x80; n]));
    }
    unit_mpi(ctx, &[]);
    unit_mpi(ctx, &[0]);
    // S2K: every type octet, exact / short / long
    for t in 0u16..=255 {
        let t = t as u8;
        let salt: Vec<u8> = if t == 4 { (0..16).collect() } else { (0..8).collect() };
        let full = wire::s2k(t, 8, &salt, 0x60, [3, 4, 16], &[9, 9, 9]);
        unit_s2k(ctx, &full);
        let mut more = full.clone();
        more.extend([1, 2, 3]);
        unit_s2k(ctx, &more);
        unit_s2k(ctx, &full[..full.len() - 1]);
        unit_s2k(ctx, &[t]);
    }
    for h in 0u16..=255 {
        unit_s2k(ctx, &wire::s2k(3, h as u8, &[7; 8], h as u8, [0; 3], &[]));
    }
}

/// corpus: minimised witnesses of known findings, run first on every run whatever the seed is
fn gen_corpus_witnesses(ctx: &mut Ctx) {
    // N3: a canonically encoded trust packet with a two-octet body is written back as `cc 00`
    run_pkt(ctx, &Msg::hexed(vec![0xCC, 2, 9, 9]), false, true, "corpus_witness");
    run_pkt(ctx, &Msg::hexed(vec![0x80 | (12 << 2), 1, 7]), false, true, "corpus_witness");
}

pub fn run(ctx: &mut Ctx) {
    gen_corpus_witnesses(ctx);
    gen_units(ctx);
    gen_small_packets(ctx);
    gen_signatures(ctx);
    gen_keys(ctx);
    gen_esk_ops(ctx);
    gen_data(ctx);
    gen_framing(ctx);
    gen_api(ctx);
    gen_mutations(ctx);
    gen_fixtures(ctx);
}

fn gen_small_packets(ctx: &mut Ctx) {
    // every tag 0..63 in the new format, 0..15 in the legacy format, with a small body
    for tag in 0u8..64 {
        for body in [vec![], vec![1u8], b"PGP".to_vec(), pattern(tag as usize, 20), pattern(tag as usize, 40)] {
            let m = Msg::hexed(body.clone());
            run_pkt(ctx, &m.packet(tag), false, false, "tag_sweep");
            if tag < 16 {
                if let Some(f) = m.framed(false, tag, 0) {
                    run_pkt(ctx, &f, false, false, "tag_sweep_old");
                }
            }
        }
    }
}

// ------------------------------------------------------------------------------------------
// signatures and subpackets

/// signature material accepted for public-key algorithm id `pk` (canonical)
fn sig_tail(pk: u8) -> Vec<u8> {
    match pk {
        1 | 3 | 100..=110 => wire::mpi_of_bits(61, 0x5A),
        17 | 19 | 20 | 22 => {
            let mut v = wire::mpi_of_bits(33, 0x11);
            v.extend(wire::mpi_of_bits(17, 0x22));
            v
        }
        27 => pattern(3, 64),
        _ => pattern(5, 9),
    }
}

/// a body that rpgp accepts for subpacket type `t` (canonical form)
fn sub_body_valid(t: u8) -> Vec<u8> {
    match t {
        2 | 3 | 9 => vec![0x60, 1, 2, 3],
        4 | 7 | 25 => vec![1],
        5 => vec![1, 60],
        12 => {
            let mut v = vec![0x80, 1];
            v.extend(pattern(1, 20));
            v
        }
        16 => KEYID.to_vec(),
        20 => {
            let mut v = vec![0x80, 0, 0, 0, 0, 3, 0, 2];
            v.extend(b"abcxy");
            v
        }
        24 | 26 => b"https://example.org/".to_vec(),
        27 => vec![3],
        29 => vec![1, b'x'],
        31 => vec![1, 8, 1, 2, 3],
        32 => wire::sig_v4(4, 0x19, 1, 8, &wire::subpacket_min(2, &[0x60, 1, 2, 3]), &[], [0xAB, 0xCD], None, &sig_tail(1)),
        33 | 35 => {
            let mut v = vec![4];
            v.extend(pattern(2, 20));
            v
        }
        39 => vec![9, 2, 7, 1],
        _ => vec![7, 8, 9],
    }
}

fn sig4(ctx: &mut Ctx, version: u8, typ: u8, pk: u8, hash: u8, hashed: &[u8], unhashed: &[u8], tail: &[u8], canonical: bool, label: &str) -> Real {
    let salt_len = match hash { 8 | 11 | 12 => 16, 9 => 24, 10 | 14 => 32, _ => 16 };
    let salt = pattern(9, salt_len);
    let body = wire::sig_v4(version, typ, pk, hash, hashed, unhashed, [0xAB, 0xCD], if version == 6 { Some(&salt) } else { None }, tail);
    pkt(ctx, 2, body, canonical, label)
}

/// Hashed-area fidelity (D2a repair, `ensure_hashed_area_canonical`): subpacket payloads the parser
/// normalises - boolean octets other than 0/1, Notation flag octets other than 0x00/0x80, MPI bit
/// counts of an embedded signature - in the hashed area, in the unhashed area, and inside embedded
/// signatures one and two levels down (each of which has a hashed and an unhashed area of its own).
/// In a HASHED area (at any level) such a payload must be refused; in an unhashed area it is
/// accepted and written back normalised.  Whatever is accepted keeps its hashed area octet for octet.
fn gen_hashed_canonical(ctx: &mut Ctx) {
    // (subpacket, is it in the form rpgp writes back?)
    let mut subs: Vec<(Vec<u8>, bool, String)> = Vec::new();
    for t in [4u8, 7, 25] {
        for v in [0u8, 1, 2, 0x80, 0xFF] {
            subs.push((wire::subpacket_min(t, &[v]), v <= 1, format!("bool{t}={v:#04x}")));
        }
    }
    for f in [0x00u8, 0x80, 0x01, 0x40, 0xC0, 0xFF] {
        let body = [vec![f, 0, 0, 0, 0, 1, 0, 1], b"ab".to_vec()].concat();
        subs.push((wire::subpacket_min(20, &body), f == 0x00 || f == 0x80, format!("notation_flags={f:#04x}")));
    }
    // embedded signatures whose own encoding is / is not what rpgp writes back
    let emb_mpi = |bits: u16| wire::sig_v4(4, 0x19, 1, 8, &wire::subpacket_min(2, &[0x60, 1, 2, 3]), &[], [1, 2], None, &wire::mpi_raw(bits, &[0x01, 0xFF]));
    for bits in [9u16, 10, 12, 16] {
        subs.push((wire::subpacket_min(32, &emb_mpi(bits)), bits == 9, format!("embedded_mpi_bits={bits}")));
    }
    let flat = subs.clone();
    // one level down: an embedded signature carrying each of the above in ITS hashed / unhashed area
    for (sp, canon, name) in &flat {
        for inner_hashed in [true, false] {
            let e = if inner_hashed {
                wire::sig_v4(4, 0x19, 1, 8, sp, &[], [1, 2], None, &sig_tail(1))
            } else {
                wire::sig_v4(4, 0x19, 1, 8, &[], sp, [1, 2], None, &sig_tail(1))
            };
            // refused outright iff the non-canonical payload sits in a hashed area of the embedded signature
            let refused = inner_hashed && !canon;
            subs.push((wire::subpacket_min(32, &e), *canon, format!("embedded[{}:{name}]{}", if inner_hashed { "hashed" } else { "unhashed" }, if refused { "!" } else { "" })));
        }
    }
    // two levels down, hashed inside hashed and hashed inside unhashed
    for (sp, canon, name) in &flat {
        for mid_hashed in [true, false] {
            let e2 = wire::sig_v4(4, 0x19, 1, 8, sp, &[], [1, 2], None, &sig_tail(1));
            let a2 = wire::subpacket_min(32, &e2);
            let e1 = if mid_hashed {
                wire::sig_v4(4, 0x18, 1, 8, &a2, &[], [1, 2], None, &sig_tail(1))
            } else {
                wire::sig_v4(4, 0x18, 1, 8, &[], &a2, [1, 2], None, &sig_tail(1))
            };
            subs.push((wire::subpacket_min(32, &e1), *canon, format!("embedded2[{}:hashed:{name}]{}", if mid_hashed { "hashed" } else { "unhashed" }, if *canon { "" } else { "!" })));
        }
    }
    let h0 = wire::subpacket_min(2, &[0x60, 1, 2, 3]);
    for (sp, canon, name) in &subs {
        let refused_anywhere = name.ends_with('!');
        for version in [4u8, 6] {
            for outer_hashed in [true, false] {
                let area = [h0.clone(), sp.clone()].concat();
                let (pk, tail) = if version == 6 { (27u8, sig_tail(27)) } else { (1u8, sig_tail(1)) };
                let salt = pattern(9, 16);
                let body = if outer_hashed {
                    wire::sig_v4(version, 0x18, pk, 8, &area, &[], [0xAB, 0xCD], if version == 6 { Some(&salt) } else { None }, &tail)
                } else {
                    wire::sig_v4(version, 0x18, pk, 8, &h0, sp, [0xAB, 0xCD], if version == 6 { Some(&salt) } else { None }, &tail)
                };
                set_note(&format!("hashed_canonical:{name}:{}", if outer_hashed { "hashed" } else { "unhashed" }));
                let real = pkt(ctx, 2, body.clone(), *canon, "hashed_canonical");
                set_note("");
                let must_refuse = refused_anywhere || (outer_hashed && !canon);
                let input = format!("c05_pkt data={} #{name} outer={} v{version}", hex::encode(crate::sigrec::packet5(2, &body)), if outer_hashed { "hashed" } else { "unhashed" });
                let accepted = real.pkt.is_some();
                ctx.stat(&format!("hashed_canonical:{}:{}", if must_refuse { "noncanonical_in_hashed" } else { "writable" }, if accepted { "accepted" } else { "refused" }));
                // "parses to a value that serializes to bytes that parse back to an equal value": a hashed
                // area that would be written back differently cannot be part of such a value
                ctx.oracle("noncanonical_hashed_area_refused", "Signature::try_from_reader (ensure_hashed_area_canonical)", &input, !(must_refuse && accepted), "accepted");
                ctx.oracle("writable_area_accepted", "Signature::try_from_reader", &input, must_refuse || accepted, &real.ans);
                // whatever is accepted keeps its hashed area octet for octet
                if let Some(out) = &real.out {
                    let kept = crate::sigrec::split_packets(out)
                        .and_then(|p| p.first().map(|x| x.1.clone()))
                        .and_then(|b| crate::sigrec::parse_sig_body(&b))
                        .map(|f| Some(f.area) == crate::sigrec::parse_sig_body(&body).map(|g| g.area))
                        .unwrap_or(false);
                    ctx.oracle("hashed_area_kept_as_received", "PacketParser -> Signature::to_writer_with_header", &input, kept, "hashed area rewritten");
                }
            }
        }
    }
}

fn gen_signatures(ctx: &mut Ctx) {
    let h0 = wire::subpacket_min(2, &[0x60, 1, 2, 3]);
    let u0 = wire::subpacket_min(16, &KEYID);
    // every one-octet id of the fixed fields
    for x in 0u16..=255 {
        let x = x as u8;
        sig4(ctx, 4, x, 1, 8, &h0, &u0, &sig_tail(1), true, "sig4_typ");
        sig4(ctx, 4, 0, x, 8, &h0, &u0, &sig_tail(x), x != 16, "sig4_pk");
        sig4(ctx, 4, 0, x, 8, &h0, &u0, &[0, 9, 1], false, "sig4_pk_shorttail");
        sig4(ctx, 4, 0, 1, x, &h0, &u0, &sig_tail(1), true, "sig4_hash");
        sig4(ctx, 6, 0, 27, x, &h0, &[], &sig_tail(27), matches!(x, 8 | 9 | 10 | 11 | 12 | 14), "sig6_hash");
        sig4(ctx, x, 0, 1, 8, &h0, &u0, &sig_tail(1), false, "sig_version");
        // v3
        let b = wire::sig_v3(3, 5, x, CREATED, KEYID, 1, 2, [1, 2], &sig_tail(1));
        pkt(ctx, 2, b, true, "sig3_typ");
        let b = wire::sig_v3(3, 5, 0, CREATED, KEYID, x, 2, [1, 2], &sig_tail(x));
        pkt(ctx, 2, b, x != 16, "sig3_pk");
        let b = wire::sig_v3(2, 5, 0, CREATED, KEYID, 17, x, [1, 2], &sig_tail(17));
        pkt(ctx, 2, b, true, "sig2_hash");
        let b = wire::sig_v3(3, x, 0, CREATED, KEYID, 1, 2, [1, 2], &sig_tail(1));
        pkt(ctx, 2, b, x == 5, "sig3_hashedlen");
    }
    // v6 salt sizes: right and wrong
    for hash in [8u8, 9, 10, 11, 12, 14, 2, 1] {
        for sl in [0usize, 15, 16, 17, 24, 32, 33] {
            let salt = pattern(4, sl);
            let body = wire::sig_v4(6, 0, 27, hash, &h0, &[], [1, 2], Some(&salt), &sig_tail(27));
            pkt(ctx, 2, body, false, "sig6_salt");
        }
    }
    // signature MPIs: leading zeros, wrong bit counts, trailing octets
    for tail in [
        wire::mpi_raw(16, &[0x00, 0x7F]),
        wire::mpi_raw(15, &[0x7F, 0xFF]),
        wire::mpi_raw(16, &[0x7F, 0xFF]),
        wire::mpi_raw(9, &[0xFF, 0xFF]),
        wire::mpi_raw(0, &[]),
        wire::mpi_raw(8, &[0]),
        [wire::mpi_of_bits(20, 1), vec![0]].concat(),
    ] {
        sig4(ctx, 4, 0, 1, 8, &h0, &u0, &tail, false, "sig4_mpi_variants");
        sig4(ctx, 6, 0, 1, 8, &h0, &u0, &tail, false, "sig6_mpi_variants");
    }
    // every subpacket type octet (critical bit included): accepted body, and bodies of other sizes
    for to in 0u16..=255 {
        let to = to as u8;
        let t = to & 0x7F;
        let valid = sub_body_valid(t);
        let area = wire::subpacket_min(to, &valid);
        sig4(ctx, 4, 0x13, 1, 8, &area, &[], &sig_tail(1), true, "sub_type_valid");
        sig4(ctx, 6, 0x13, 27, 10, &[], &area, &sig_tail(27), true, "sub_type_valid_v6_unhashed");
        for n in [0usize, 1, 2, 3, 4, 5, 8, 21, 22, 23, 33] {
            let area = wire::subpacket_min(to, &pattern(to as usize + n, n));
            sig4(ctx, 4, 0x13, 1, 8, &area, &[], &sig_tail(1), false, "sub_type_sizes");
        }
    }
    // lossy subpacket payloads
    for (t, body) in [
        (4u8, vec![0u8]), (4, vec![2]), (4, vec![255]), (7, vec![0x80]), (25, vec![1]),
        (20, [vec![0u8, 0, 0, 0, 0, 1, 0, 1], b"ab".to_vec()].concat()),
        (20, [vec![0x40u8, 0, 0, 0, 0, 1, 0, 1], b"ab".to_vec()].concat()),
        (20, [vec![0x80u8, 0, 0, 1, 0, 1, 0, 1], b"ab".to_vec()].concat()),
        (20, [vec![0x80u8, 0, 0, 0, 0, 1, 0, 2], b"ab".to_vec()].concat()),
        (20, vec![0x80u8, 0, 0, 0, 0, 0, 0, 0]),
        (27, vec![]), (27, vec![0xFF]), (27, vec![0xFF, 0xFF]), (27, vec![1, 0]), (27, vec![1, 4, 9, 9]), (27, vec![0, 0xF3, 1]),
        (30, vec![]), (30, vec![0xFF]), (30, vec![1, 2, 3]),
        (24, "ü".as_bytes().to_vec()), (26, "ü".as_bytes().to_vec()), (24, vec![0xC3]), (26, vec![0xFF, 0xFE]),
        (24, vec![0xED, 0xA0, 0x80]), (26, vec![0xF4, 0x90, 0x80, 0x80]), (26, vec![0xE0, 0x80, 0x80]), (26, "𝄞x€".as_bytes().to_vec()),
        (12, [vec![0xC0u8, 17], pattern(1, 20)].concat()), (12, [vec![0x40u8, 17], pattern(1, 20)].concat()),
        (33, [vec![6u8], pattern(1, 32)].concat()), (33, [vec![5u8], pattern(1, 32)].concat()), (33, [vec![6u8], pattern(1, 20)].concat()),
        (35, [vec![3u8], pattern(1, 16)].concat()), (35, [vec![4u8], pattern(1, 21)].concat()), (33, vec![]),
        (39, vec![9, 2, 7]), (39, vec![]), (11, vec![]), (21, (0u8..=255).collect()), (34, vec![1, 2, 200]),
        (29, vec![]), (29, vec![32]), (31, vec![1]), (31, vec![1, 2]),
    ] {
        let area = wire::subpacket_min(t, &body);
        sig4(ctx, 4, 0x10, 1, 8, &area, &[], &sig_tail(1), false, "sub_payload_variants");
    }
    // canonically encoded inputs whose payload uses reserved bits / all flag octets
    for (t, body) in [(27u8, vec![0xFFu8, 0xFF]), (27, vec![1, 0]), (27, vec![0xFF]), (27, vec![1, 4, 9, 9]), (27, vec![0, 0x0C]), (27, vec![0, 0x10]), (30, vec![0xFF, 0xFF])] {
        let area = wire::subpacket_min(t, &body);
        if t == 27 && body.len() >= 2 && body[1] & 0xF3 != 0 {
            set_note("keyflags_reserved_bits");
        }
        sig4(ctx, 4, 0x13, 1, 8, &area, &[], &sig_tail(1), true, "sub_flags_canonical");
        set_note("");
    }
    // embedded signatures: nesting, non-canonical inner MPIs, trailing octets, unknown inner version
    let inner = sub_body_valid(32);
    let nest1 = wire::sig_v4(4, 0x18, 1, 8, &wire::subpacket_min(32, &inner), &[], [1, 2], None, &sig_tail(1));
    let nest2 = wire::sig_v4(4, 0x18, 1, 8, &wire::subpacket_min(32, &nest1), &wire::subpacket_min(32, &inner), [1, 2], None, &sig_tail(1));
    for (body, canon) in [
        (nest1.clone(), true),
        (nest2.clone(), true),
        ([inner.clone(), vec![0]].concat(), false),
        (wire::sig_v4(4, 0x19, 1, 8, &[], &[], [1, 2], None, &wire::mpi_raw(16, &[0x00, 0x7F])), false),
        (wire::sig_v4(4, 0x19, 1, 8, &[], &[], [1, 2], None, &wire::mpi_raw(16, &[0x7F, 0xFF])), false),
        (vec![9, 1, 2, 3], true),
        (vec![5], true),
        (vec![], false),
        (wire::sig_v3(3, 5, 0x19, CREATED, KEYID, 1, 2, [1, 2], &sig_tail(1)), true),
        (wire::sig_v4(6, 0x19, 27, 8, &[], &[], [1, 2], Some(&pattern(1, 16)), &sig_tail(27)), true),
        (wire::sig_v4(4, 0x19, 16, 8, &[], &[], [1, 2], None, &sig_tail(1)), false),
    ] {
        let area = wire::subpacket_min(32, &body);
        sig4(ctx, 4, 0x18, 1, 8, &area, &[], &sig_tail(1), canon, "sub_embedded");
        sig4(ctx, 4, 0x18, 1, 8, &[], &area, &sig_tail(1), canon, "sub_embedded_unhashed");
    }
    // deep nesting
    // (the parser follows at most MAX_EMBEDDED_SIGNATURE_DEPTH levels: every depth around that cap,
    // in the hashed and in the unhashed area, plus one far beyond it)
    for levels in (0..=8usize).chain([ctx.pick(12, 40)]) {
        for hashed in [false, true] {
            let mut deep = inner.clone();
            for _ in 0..levels {
                let area = wire::subpacket_min(32, &deep);
                deep = if hashed {
                    wire::sig_v4(4, 0x18, 1, 8, &area, &[], [1, 2], None, &sig_tail(1))
                } else {
                    wire::sig_v4(4, 0x18, 1, 8, &[], &area, [1, 2], None, &sig_tail(1))
                };
            }
            pkt(ctx, 2, deep, true, "sub_embedded_deep");
        }
    }
    // subpacket length forms x length classes (also non-minimal), several subpackets per area
    for form in [1u8, 2, 5] {
        for n in [0usize, 1, 2, 100, 190, 191, 192, 193, 255, 256, 1000, 8383, 16318, 16319, 16320, 20000] {
            for to in [100u8, 0x80 | 101, 28, 6] {
                let Some(sp) = wire::subpacket(form, to, &pattern(n, n)) else { continue };
                let canonical = wire::sub_len_min(n + 1).len() == wire::sub_len(form, n + 1).unwrap().len();
                let mut area = h0.clone();
                area.extend(&sp);
                area.extend(&u0);
                let m = Msg::hexed(wire::sig_v4(4, 0, 1, 8, &area, &sp, [3, 4], None, &sig_tail(1))).packet(2);
                // non-minimal forms are kept as parsed, so they re-serialise identically too
                let _ = canonical;
                run_pkt(ctx, &m, false, true, "sub_len_forms");
            }
        }
    }
    gen_hashed_canonical(ctx);
    // declared subpacket length 0, length beyond the area, area length beyond the packet
    for area in [vec![0u8], vec![0, 2], vec![5, 100, 1], vec![255, 0, 0, 0, 2, 100, 1], vec![255, 0, 0, 0, 0], vec![192], vec![254, 255, 100], vec![255, 0, 0]] {
        sig4(ctx, 4, 0, 1, 8, &area, &[], &sig_tail(1), false, "area_malformed");
        sig4(ctx, 6, 0, 27, 8, &[], &area, &sig_tail(27), false, "area_malformed");
    }
    {
        let mut b = wire::sig_v4(4, 0, 1, 8, &h0, &u0, [1, 2], None, &sig_tail(1));
        b[5] = 200; // hashed area length beyond the packet
        pkt(ctx, 2, b, false, "area_len_beyond");
        let mut b = wire::sig_v4(4, 0, 1, 8, &h0, &u0, [1, 2], None, &sig_tail(1));
        b[5] = 3; // cuts the first subpacket
        pkt(ctx, 2, b, false, "area_len_cut");
    }
    // areas up to 64 KiB (v4) and beyond (v6): one big subpacket / many small ones
    let big_sizes: Vec<usize> = if ctx.thorough() { vec![8000, 16319, 16320, 40000, 65000, 65529, 65530] } else { vec![16320, 65529, 65530] };
    for n in big_sizes {
        for v in [4u8, 6] {
            // area = five-octet length + type 100 + n pattern octets
            let mut pre = vec![v, 0, if v == 6 { 27 } else { 1 }, 8];
            let area_len = 5 + 1 + n;
            if v == 6 { pre.extend((area_len as u32).to_be_bytes()) } else { pre.extend((area_len as u16).to_be_bytes()) }
            pre.extend(wire::sub_len(5, n + 1).unwrap());
            pre.push(100);
            let mut post = if v == 6 { vec![0, 0, 0, 0] } else { vec![0, 0] };
            post.extend([7, 7]);
            if v == 6 { post.push(16); post.extend(pattern(1, 16)); post.extend(sig_tail(27)); } else { post.extend(sig_tail(1)); }
            let body = Msg { pre, pat: Some((n, n)), post };
            let ok_len = v == 6 || area_len <= 65535;
            run_pkt(ctx, &body.packet(2), false, ok_len, "area_big_single");
        }
    }
    for count in [ctx.pick(500usize, 3000), 10922] {
        let mut area = Vec::new();
        for i in 0..count {
            area.extend(wire::subpacket_min(100 + (i % 11) as u8, &[i as u8, (i >> 8) as u8, 3, 4]));
        }
        sig4(ctx, 4, 0, 1, 8, &area, &u0, &sig_tail(1), true, "area_many");
    }
    {
        // v6 area above 64 KiB
        let n = 70000usize;
        let mut pre = vec![6u8, 0, 27, 8];
        pre.extend(((5 + 1 + n) as u32).to_be_bytes());
        pre.extend(wire::sub_len(5, n + 1).unwrap());
        pre.push(101);
        let mut post = vec![0, 0, 0, 0, 7, 7, 16];
        post.extend(pattern(1, 16));
        post.extend(sig_tail(27));
        run_pkt(ctx, &Msg { pre, pat: Some((5, n)), post }.packet(2), false, true, "area_v6_70000");
    }
    // truncations of a valid v4 signature at every length, and single-octet mutations
    let valid = wire::sig_v4(4, 0x10, 17, 8, &[h0.clone(), wire::subpacket_min(27, &[3])].concat(), &u0, [1, 2], None, &sig_tail(17));
    for cut in 0..valid.len() {
        pkt(ctx, 2, valid[..cut].to_vec(), false, "sig_truncated");
    }
    for i in 0..valid.len() {
        let mut m = valid.clone();
        m[i] ^= 1 << ctx.rng.gen_range(0..8);
        pkt(ctx, 2, m, false, "sig_mutated");
    }
    let n_rand = ctx.pick(400, 20000);
    for _ in 0..n_rand {
        let mut m = valid.clone();
        for _ in 0..ctx.rng.gen_range(1..4) {
            let i = ctx.rng.gen_range(0..m.len());
            m[i] = ctx.rng.gen();
        }
        pkt(ctx, 2, m, false, "sig_mutated_random");
    }
}

// ------------------------------------------------------------------------------------------
// keys

/// public material the model decides for algorithm id `alg` (canonical); other ids: opaque blob
fn key_material(alg: u8) -> Vec<u8> {
    match alg {
        1 | 2 | 3 => {
            // n odd, e = 65537 < n
            let mut n = pattern(7, 64);
            n[0] |= 0x80;
            n[63] |= 1;
            [wire::mpi(&n), wire::mpi(&[1, 0, 1])].concat()
        }
        16 | 20 => [wire::mpi_of_bits(70, 3), wire::mpi(&[2]), wire::mpi_of_bits(69, 5)].concat(),
        25 => pattern(11, 32),
        _ => pattern(alg as usize, 19),
    }
}

fn key_pkts(ctx: &mut Ctx, body: Vec<u8>, canonical: bool, label: &str) {
    pkt(ctx, 6, body.clone(), canonical, label);
    pkt(ctx, 14, body, canonical, label);
}

fn gen_keys(ctx: &mut Ctx) {
    // public keys: version octet, algorithm octet (v4, v6, v3)
    for x in 0u16..=255 {
        let x = x as u8;
        key_pkts(ctx, wire::key_public(x, CREATED, [0, 9], 1, &key_material(1), None), matches!(x, 2 | 3 | 4 | 6), "pubkey_version");
        key_pkts(ctx, wire::key_public(4, CREATED, [0, 0], x, &key_material(x), None), true, "pubkey4_alg");
        key_pkts(ctx, wire::key_public(6, CREATED, [0, 0], x, &key_material(x), None), true, "pubkey6_alg");
        pkt(ctx, 6, wire::key_public(3, CREATED, [0, 7], x, &key_material(x), None), matches!(x, 1 | 2 | 3), "pubkey3_alg");
    }
    // elliptic-curve keys (ECDH 18, ECDSA 19, EdDSALegacy 22) over every kind of curve OID: the curves
    // the library implements, registered curves it does not (brainpool, the RFC 8410 OIDs of
    // X25519 / X448 / Ed25519 / Ed448, which are NOT the OpenPGP OIDs of the legacy curves) and
    // arbitrary ones: whatever is accepted is written back octet for octet
    {
        let oids: Vec<Vec<u8>> = vec![
            vec![0x2A, 0x86, 0x48, 0xCE, 0x3D, 0x03, 0x01, 0x07],
            vec![0x2B, 0x81, 0x04, 0x00, 0x22],
            vec![0x2B, 0x81, 0x04, 0x00, 0x23],
            vec![0x2B, 0x81, 0x04, 0x00, 0x0A],
            vec![0x2B, 0x06, 0x01, 0x04, 0x01, 0x97, 0x55, 0x01, 0x05, 0x01],
            vec![0x2B, 0x06, 0x01, 0x04, 0x01, 0xDA, 0x47, 0x0F, 0x01],
            vec![0x2B, 0x24, 0x03, 0x03, 0x02, 0x08, 0x01, 0x01, 0x07],
            vec![0x2B, 0x24, 0x03, 0x03, 0x02, 0x08, 0x01, 0x01, 0x0B],
            vec![0x2B, 0x24, 0x03, 0x03, 0x02, 0x08, 0x01, 0x01, 0x0D],
            vec![0x2B, 0x65, 0x6E],
            vec![0x2B, 0x65, 0x6F],
            vec![0x2B, 0x65, 0x70],
            vec![0x2B, 0x65, 0x71],
            vec![0x2B],
            vec![0x2A, 0x03],
            pattern(5, 12),
        ];
        for (oi, oid) in oids.iter().enumerate() {
            for alg in [18u8, 19, 22] {
                let points: Vec<Vec<u8>> = vec![
                    { let mut p = vec![0x40]; p.extend(pattern(oi + 1, 32)); p },
                    { let mut p = vec![0x04]; p.extend(pattern(oi + 2, 64)); p },
                    { let mut p = vec![0x04]; p.extend(pattern(oi + 3, 96)); p },
                    { let mut p = vec![0x04]; p.extend(pattern(oi + 4, 132)); p },
                    { let mut p = vec![0x02]; p.extend(pattern(oi + 5, 32)); p },
                    pattern(oi + 6, 56),
                ];
                for pt in points {
                    let mut mat = vec![oid.len() as u8];
                    mat.extend_from_slice(oid);
                    mat.extend(wire::mpi(&pt));
                    if alg == 18 {
                        mat.extend([3, 1, 8, 7]);
                    }
                    // (the canonical point format of a curve the library implements: 0x40 prefix for the
                    //  two legacy 25519 curves, uncompressed SEC1 for the others; other prefixes are
                    //  accepted leniently and normalised, which "canonically encoded input" excludes)
                    let canonical = match oi {
                        0..=3 => pt[0] == 0x04,
                        4 | 5 => pt[0] == 0x40,
                        _ => true,
                    };
                    key_pkts(ctx, wire::key_public(4, CREATED, [0, 0], alg, &mat, None), canonical, "pubkey4_ecc_oid");
                    key_pkts(ctx, wire::key_public(6, CREATED, [0, 0], alg, &mat, Some(mat.len() as u32)), canonical, "pubkey6_ecc_oid");
                }
            }
        }
    }
    // v6 pub_len: zero, short, long, exact, with trailing octets
    for alg in [1u8, 16, 25, 99] {
        let mat = key_material(alg);
        for delta in [-(mat.len() as i64), -1, 0, 1, 7] {
            let l = (mat.len() as i64 + delta) as u32;
            key_pkts(ctx, wire::key_public(6, CREATED, [0, 0], alg, &mat, Some(l)), delta == 0, "pubkey6_publen");
            let mut more = mat.clone();
            more.extend([1, 2, 3]);
            key_pkts(ctx, wire::key_public(6, CREATED, [0, 0], alg, &more, Some(l)), false, "pubkey6_publen_trailing");
        }
        let mut more = mat.clone();
        more.push(0);
        key_pkts(ctx, wire::key_public(4, CREATED, [0, 0], alg, &more, None), alg == 99, "pubkey4_trailing");
        for cut in [0usize, 1, mat.len() / 2, mat.len() - 1] {
            key_pkts(ctx, wire::key_public(4, CREATED, [0, 0], alg, &mat[..cut], None), alg == 99, "pubkey4_truncated");
        }
    }
    // RSA admission (rsa crate): even n, even e, e >= n, e = 1, e too large, n beyond MAX_KEY_SIZE, leading zeros
    let odd = |mut v: Vec<u8>| { let l = v.len(); v[0] |= 0x80; v[l - 1] |= 1; v };
    let n64 = odd(pattern(7, 64));
    let mut n_even = n64.clone();
    n_even[63] &= 0xFE;
    for (n, e) in [
        (n64.clone(), vec![1u8, 0, 1]), (n_even.clone(), vec![1, 0, 1]), (n64.clone(), vec![1, 0, 0]), (n64.clone(), vec![1]), (n64.clone(), vec![3]),
        (n64.clone(), vec![2]), (n64.clone(), vec![]), (n64.clone(), vec![1, 0xFF, 0xFF, 0xFF, 0xFF]), (n64.clone(), vec![2, 0, 0, 0, 1]),
        (n64.clone(), vec![1, 0, 0, 0, 0, 0, 0, 0, 1]), (vec![5], vec![7]), (vec![7], vec![5]), (vec![7], vec![7]), (vec![], vec![3]),
        (odd(pattern(3, 1024)), vec![1, 0, 1]), (odd(pattern(3, 1025)), vec![1, 0, 1]), (odd(pattern(3, 2048)), vec![1, 0, 1]),
    ] {
        let mat = [wire::mpi(&n), wire::mpi(&e)].concat();
        key_pkts(ctx, wire::key_public(4, CREATED, [0, 0], 1, &mat, None), true, "pubkey_rsa_admission");
        pkt(ctx, 6, wire::key_public(3, CREATED, [0, 1], 1, &mat, None), true, "pubkey_rsa_admission");
    }
    // non-canonical MPIs in key material
    for alg in [1u8, 20] {
        let mut mat = wire::mpi_raw(520, &[vec![0u8], odd(pattern(7, 64))].concat());
        mat.extend(wire::mpi_raw(24, &[0, 0, 3]));
        if alg == 20 { mat.extend(wire::mpi_raw(3, &[1])); }
        key_pkts(ctx, wire::key_public(4, CREATED, [0, 0], alg, &mat, None), false, "pubkey_mpi_noncanonical");
        key_pkts(ctx, wire::key_public(6, CREATED, [0, 0], alg, &mat, None), false, "pubkey_mpi_noncanonical");
    }

    // secret keys: every usage octet x v4/v6, over the key algorithms the model decides
    let s2k_iter = wire::s2k(3, 8, &[7; 8], 0x60, [0; 3], &[]);
    for usage in 0u16..=255 {
        let usage = usage as u8;
        for v in [4u8, 6] {
            let v6 = v == 6;
            for alg in [25u8, 20, 99] {
                let public = wire::key_public(v, CREATED, [0, 0], alg, &key_material(alg), None);
                let (params, data): (Vec<u8>, Vec<u8>) = match usage {
                    0 => {
                        let raw = match alg { 25 => pattern(1, 32), 20 => wire::mpi_of_bits(50, 9), _ => pattern(2, 12) };
                        let mut d = raw.clone();
                        if !v6 { d.extend(wire::sum16(&raw)); }
                        (vec![], d)
                    }
                    253 => (wire::secret_params(v6, 253, 9, Some(2), &wire::s2k(4, 0, &[5; 16], 0, [1, 4, 10], &[]), None, &pattern(3, 15)), pattern(4, 48)),
                    254 => (wire::secret_params(v6, 254, 9, None, &s2k_iter, None, &pattern(3, 16)), pattern(4, 52)),
                    255 => (wire::secret_params(v6, 255, 7, None, &s2k_iter, None, &pattern(3, 16)), pattern(4, 34)),
                    sym => {
                        let bs = match sym { 1..=4 => 8, 7..=13 => 16, _ => 0 };
                        (pattern(3, bs), pattern(4, 34))
                    }
                };
                let sec = wire::secret_section(v6, usage, &params, None, &data);
                let body = [public, sec].concat();
                let canonical = !(v6 && !matches!(usage, 0 | 253 | 254)) && !(alg == 99 && !v6);
                set_note(&format!("usage={usage}"));
                pkt(ctx, 5, body.clone(), canonical, "seckey_usage");
                pkt(ctx, 7, body, canonical, "seckey_usage");
                set_note("");
            }
        }
    }
    // usage 253/254/255 x S2K specifier types x ciphers x AEAD modes, v4 and v6; wrong length octets
    for v in [4u8, 6] {
        let v6 = v == 6;
        let public = wire::key_public(v, CREATED, [0, 0], 25, &key_material(25), None);
        for st in [0u8, 1, 2, 3, 4, 5, 100, 110, 111, 255] {
            let salt: Vec<u8> = if st == 4 { pattern(1, 16) } else { pattern(1, 8) };
            let sk = wire::s2k(st, 10, &salt, 0x10, [1, 1, 8], &[1, 2, 3, 4]);
            for usage in [253u8, 254, 255] {
                for sym in [0u8, 1, 7, 9, 13, 14, 110, 200] {
                    for mode in [0u8, 1, 2, 3, 4, 100] {
                        if usage != 253 && mode != 2 { continue; }
                        let ivlen = if usage == 253 { match mode { 1 => 16, 2 => 15, 3 => 12, _ => 0 } } else { match sym { 1..=4 => 8, 7..=13 => 16, _ => 0 } };
                        let params = wire::secret_params(v6, usage, sym, if usage == 253 { Some(mode) } else { None }, &sk, None, &pattern(2, ivlen));
                        let sec = wire::secret_section(v6, usage, &params, None, &pattern(6, 40));
                        let canonical = matches!(st, 0 | 1 | 3 | 4) && !(v6 && usage == 255);
                        set_note(&format!("usage={usage}"));
                        pkt(ctx, 5, [public.clone(), sec].concat(), canonical, "seckey_s2k_matrix");
                        set_note("");
                    }
                }
            }
        }
        // v6 length octets that lie
        for (count, slen) in [(Some(0u8), None), (Some(1), None), (Some(200), None), (None, Some(0u8)), (None, Some(10)), (None, Some(12)), (None, Some(255))] {
            for usage in [253u8, 254] {
                let params = wire::secret_params(true, usage, 9, if usage == 253 { Some(2) } else { None }, &s2k_iter, slen, &pattern(2, if usage == 253 { 15 } else { 16 }));
                let sec = wire::secret_section(true, usage, &params, count, &pattern(6, 40));
                let public6 = wire::key_public(6, CREATED, [0, 0], 25, &key_material(25), None);
                pkt(ctx, 5, [public6, sec].concat(), false, "seckey6_length_octets");
            }
        }
        // truncations of the secret section
        let params = wire::secret_params(v6, 254, 9, None, &s2k_iter, None, &pattern(2, 16));
        let sec = wire::secret_section(v6, 254, &params, None, &pattern(6, 8));
        for cut in 0..sec.len() {
            pkt(ctx, 7, [public.clone(), sec[..cut].to_vec()].concat(), false, "seckey_truncated");
        }
    }
    // unprotected material: checksum wrong, trailing octets, short
    for v in [4u8, 6] {
        for alg in [25u8, 20] {
            let public = wire::key_public(v, CREATED, [0, 0], alg, &key_material(alg), None);
            let raw = if alg == 25 { pattern(1, 32) } else { wire::mpi_of_bits(50, 9) };
            let ck = wire::sum16(&raw);
            let mut variants: Vec<Vec<u8>> = vec![
                [raw.clone(), ck.to_vec()].concat(),
                [raw.clone(), vec![ck[0], ck[1] ^ 1]].concat(),
                [raw.clone(), ck.to_vec(), vec![0]].concat(),
                raw.clone(),
                raw[..raw.len() - 1].to_vec(),
                [raw.clone(), vec![ck[0]]].concat(),
            ];
            if alg == 20 {
                let nc = wire::mpi_raw(56, &[vec![0u8], pattern(9, 6)].concat());
                variants.push([nc.clone(), wire::sum16(&nc).to_vec()].concat());
                let nn = wire::mpi(&pattern(9, 6));
                variants.push([nc.clone(), wire::sum16(&nn).to_vec()].concat());
            }
            for d in variants {
                pkt(ctx, 5, [public.clone(), vec![0u8], d].concat(), false, "seckey_plain_variants");
            }
        }
    }
    // v3 RSA public key + legacy framing
    let k3 = wire::key_public(3, CREATED, [0, 30], 1, &key_material(1), None);
    run_pkt(ctx, &Msg::hexed(k3.clone()).framed(false, 6, 0).unwrap(), false, false, "pubkey3_old");
    run_pkt(ctx, &Msg::hexed(k3).framed(false, 6, 1).unwrap(), false, false, "pubkey3_old");
}

// ------------------------------------------------------------------------------------------
// session-key packets, one-pass signatures

fn pkesk_vals(alg: u8, v3: bool) -> Vec<u8> {
    match alg {
        1 | 2 | 3 => wire::mpi_of_bits(100, 7),
        16 | 20 => [wire::mpi_of_bits(40, 1), wire::mpi_of_bits(41, 2)].concat(),
        18 => [wire::mpi_of_bits(263, 4), vec![5u8], pattern(1, 5)].concat(),
        25 | 26 => {
            let mut v = pattern(2, if alg == 25 { 32 } else { 56 });
            if v3 { v.extend([9u8, 7]); v.extend(pattern(3, 8)); } else { v.push(8); v.extend(pattern(3, 8)); }
            v
        }
        _ => pattern(alg as usize, 13),
    }
}

fn gen_esk_ops(ctx: &mut Ctx) {
    let fp32 = pattern(8, 32);
    let fp20 = pattern(8, 20);
    for x in 0u16..=255 {
        let x = x as u8;
        // PKESK: version, algorithm (v3, v6)
        let mut b = wire::pkesk_v3(KEYID, 1, &pkesk_vals(1, true));
        b[0] = x;
        pkt(ctx, 1, b, true, "pkesk_version");
        let unsupported = matches!(x, 22 | 27 | 28 | 100..=110);
        pkt(ctx, 1, wire::pkesk_v3(KEYID, x, &pkesk_vals(x, true)), !unsupported, "pkesk3_alg");
        pkt(ctx, 1, wire::pkesk_v6(Some((6, &fp32)), None, x, &pkesk_vals(x, false)), !unsupported, "pkesk6_alg");
        pkt(ctx, 1, wire::pkesk_v6(None, None, x, &pkesk_vals(x, false)), !unsupported, "pkesk6_anon_alg");
        // v6 key version octet / size octet
        pkt(ctx, 1, wire::pkesk_v6(Some((x, &fp32)), None, 1, &pkesk_vals(1, false)), matches!(x, 5 | 6), "pkesk6_keyversion");
        pkt(ctx, 1, wire::pkesk_v6(Some((4, &fp20)), Some(x), 1, &pkesk_vals(1, false)), x == 21, "pkesk6_sizeoctet");
        // SKESK: version, cipher, aead
        let sk = wire::s2k(3, 8, &[7; 8], 0x60, [0; 3], &[]);
        let mut b = wire::skesk_v4(9, &sk, &pattern(1, 17));
        b[0] = x;
        pkt(ctx, 3, b, matches!(x, 4) || !matches!(x, 5 | 6), "skesk_version");
        pkt(ctx, 3, wire::skesk_v4(x, &sk, &pattern(1, 17)), true, "skesk4_sym");
        pkt(ctx, 3, wire::skesk_v4(x, &sk, &[]), true, "skesk4_sym_noesk");
        let ks = match x { 1 | 3 | 4 | 7 | 11 => 16, 2 | 8 | 12 => 24, 9 | 10 | 13 => 32, _ => 0 };
        pkt(ctx, 3, wire::skesk_v5(x, 2, &sk, &pattern(2, 15), &pattern(3, ks + 16)), true, "skesk5_sym");
        pkt(ctx, 3, wire::skesk_v5(9, x, &sk, &pattern(2, 15), &pattern(3, 48)), x == 2, "skesk5_mode");
        let ivl = match x { 1 => 16, 2 => 15, 3 => 12, _ => 0 };
        pkt(ctx, 3, wire::skesk_v6(None, 9, x, None, &sk, &pattern(2, ivl), &pattern(3, 48)), matches!(x, 1 | 2 | 3), "skesk6_aead");
        pkt(ctx, 3, wire::skesk_v6(None, x, 2, None, &sk, &pattern(2, 15), &pattern(3, 48)), true, "skesk6_sym");
        pkt(ctx, 3, wire::skesk_v6(Some(x), 9, 2, None, &sk, &pattern(2, 15), &pattern(3, 48)), x == 29, "skesk6_count");
        pkt(ctx, 3, wire::skesk_v6(None, 9, 2, Some(x), &sk, &pattern(2, 15), &pattern(3, 48)), x == 11, "skesk6_s2klen");
        // every S2K type inside SKESK v4 / v6
        let salt: Vec<u8> = if x == 4 { pattern(1, 16) } else { pattern(1, 8) };
        let skx = wire::s2k(x, 8, &salt, 9, [1, 2, 3], &[4, 5, 6]);
        pkt(ctx, 3, wire::skesk_v4(9, &skx, &pattern(1, 17)), true, "skesk4_s2ktype");
        pkt(ctx, 3, wire::skesk_v6(None, 9, 2, None, &skx, &pattern(2, 15), &pattern(3, 48)), true, "skesk6_s2ktype");
        // OPS
        let mut b = wire::ops_v3(0, 8, 1, KEYID, 1);
        b[0] = x;
        pkt(ctx, 4, b, true, "ops_version");
        pkt(ctx, 4, wire::ops_v3(x, 8, 1, KEYID, 1), true, "ops3_typ");
        pkt(ctx, 4, wire::ops_v3(0, x, 1, KEYID, 0), true, "ops3_hash");
        pkt(ctx, 4, wire::ops_v3(0, 8, x, KEYID, x), true, "ops3_pk_last");
        pkt(ctx, 4, wire::ops_v6(0, 8, 27, &pattern(1, 16), Some(x), &fp32, 1), x == 16, "ops6_saltlen");
        pkt(ctx, 4, wire::ops_v6(x, x, x, &pattern(1, (x % 40) as usize), None, &fp32, x), true, "ops6_fields");
    }
    // X25519 / X448 size octet edge cases, ECDH
    for alg in [25u8, 26] {
        let eph = pattern(2, if alg == 25 { 32 } else { 56 });
        for (len, follow) in [(0u8, 0usize), (1, 1), (1, 0), (2, 2), (9, 9), (9, 8), (9, 10), (255, 255)] {
            let v = [eph.clone(), vec![len], pattern(1, follow)].concat();
            pkt(ctx, 1, wire::pkesk_v3(KEYID, alg, &v), false, "pkesk_xdh_len");
            pkt(ctx, 1, wire::pkesk_v6(None, None, alg, &v), false, "pkesk_xdh_len");
        }
        pkt(ctx, 1, wire::pkesk_v3(KEYID, alg, &eph[..eph.len() - 1]), false, "pkesk_xdh_short");
    }
    for (len, follow) in [(0u8, 0usize), (5, 5), (5, 4), (5, 6), (255, 255)] {
        let v = [wire::mpi_of_bits(263, 4), vec![len], pattern(1, follow)].concat();
        pkt(ctx, 1, wire::pkesk_v3(KEYID, 18, &v), false, "pkesk_ecdh_len");
    }
    for tail in [wire::mpi_raw(16, &[0, 0x7F]), wire::mpi_raw(9, &[0xFF, 0xFF]), [wire::mpi_of_bits(9, 1), vec![0]].concat(), vec![0]] {
        pkt(ctx, 1, wire::pkesk_v3(KEYID, 1, &tail), false, "pkesk_mpi_variants");
        pkt(ctx, 1, wire::pkesk_v6(Some((4, &fp20)), None, 16, &[tail.clone(), tail.clone()].concat()), false, "pkesk_mpi_variants");
    }
    // SKESK v6 S2K window smaller / larger than the specifier
    let sk = wire::s2k(3, 8, &[7; 8], 0x60, [0; 3], &[]);
    for slen in [0u8, 1, 5, 10, 11, 12, 14, 40] {
        for esk in [15usize, 16, 17, 40] {
            pkt(ctx, 3, wire::skesk_v6(None, 9, 2, Some(slen), &sk, &pattern(2, 15), &pattern(3, esk)), false, "skesk6_window");
        }
    }
    for st in [2u8, 100, 200] {
        let skx = wire::s2k(st, 0, &[], 0, [0; 3], &pattern(4, 6));
        pkt(ctx, 3, wire::skesk_v6(None, 9, 1, None, &skx, &pattern(2, 16), &pattern(3, 20)), true, "skesk6_unknown_s2k");
    }
    // v6: an unknown S2K specifier that fills a large window (the count octet cannot hold 3 + s2k + iv)
    for n in [200usize, 234, 235, 236, 237, 238, 250, 254] {
        let skx = wire::s2k(2, 0, &[], 0, [0; 3], &pattern(4, n));
        for (aead, ivl) in [(1u8, 16usize), (2, 15), (3, 12)] {
            if 3 + 1 + n + ivl > 255 {
                set_note("skesk6_fields_exceed_count_octet");
            }
            pkt(ctx, 3, wire::skesk_v6(Some(255), 9, aead, None, &skx, &pattern(2, ivl), &pattern(3, 20)), false, "skesk6_big_s2k");
            set_note("");
        }
    }
    // truncations
    let full = wire::skesk_v6(None, 9, 2, None, &sk, &pattern(2, 15), &pattern(3, 20));
    for cut in 0..full.len() { pkt(ctx, 3, full[..cut].to_vec(), false, "skesk6_truncated"); }
    let full = wire::pkesk_v6(Some((6, &fp32)), None, 25, &pkesk_vals(25, false));
    for cut in 0..full.len() { pkt(ctx, 1, full[..cut].to_vec(), false, "pkesk6_truncated"); }
    let full = wire::ops_v6(0, 8, 27, &pattern(1, 16), None, &fp32, 1);
    for cut in 0..=full.len() + 1 {
        let mut b = full.clone();
        b.resize(cut, 0);
        pkt(ctx, 4, b, false, "ops6_resized");
    }
    let full = wire::ops_v3(0, 8, 1, KEYID, 1);
    for cut in 0..=full.len() + 1 {
        let mut b = full.clone();
        b.resize(cut, 0);
        pkt(ctx, 4, b, false, "ops3_resized");
    }
}

// ------------------------------------------------------------------------------------------
// data packets and the small ones

fn gen_data(ctx: &mut Ctx) {
    for x in 0u16..=255 {
        let x = x as u8;
        pkt(ctx, 11, wire::literal(x, b"f.txt", None, CREATED, b"hello"), true, "literal_mode");
        pkt(ctx, 11, wire::literal(b'b', &pattern(1, x as usize), None, CREATED, b"hello"), true, "literal_namelen");
        pkt(ctx, 11, wire::literal(b'b', b"abc", Some(x), CREATED, b"0123456789"), x <= 9, "literal_namelen_lie");
        let mut b = vec![x];
        b.extend(pattern(1, 40));
        pkt(ctx, 18, b.clone(), x == 1, "seipd_version");
        pkt(ctx, 8, b.clone(), true, "compressed_alg");
        pkt(ctx, 18, wire::seipd_v2(x, 2, 6, &pattern(1, 32), &pattern(2, 33)), true, "seipd2_sym");
        pkt(ctx, 18, wire::seipd_v2(9, x, 6, &pattern(1, 32), &pattern(2, 33)), true, "seipd2_aead");
        pkt(ctx, 18, wire::seipd_v2(9, 2, x, &pattern(1, 32), &pattern(2, 33)), x <= 16, "seipd2_chunk");
    }
    for n in 0..40usize {
        pkt(ctx, 18, wire::seipd_v2(9, 2, 6, &pattern(1, 32), &[])[..n.min(36)].to_vec(), false, "seipd2_short");
        pkt(ctx, 19, pattern(1, n), n == 20, "mdc_len");
        pkt(ctx, 10, b"PGP"[..n.min(3)].to_vec(), n >= 3, "marker");
        pkt(ctx, 11, wire::literal(b't', b"", None, CREATED, &[])[..n.min(6)].to_vec(), false, "literal_short");
    }
    pkt(ctx, 10, b"PGPx".to_vec(), false, "marker");
    pkt(ctx, 10, b"pgp".to_vec(), false, "marker");
    pkt(ctx, 8, vec![], false, "compressed_empty");
    // body lengths across the three header length classes, every "opaque body" packet type
    let lens: Vec<usize> = if ctx.thorough() {
        vec![0, 1, 190, 191, 192, 193, 255, 256, 8382, 8383, 8384, 8385, 65535, 65536, 70000]
    } else {
        vec![0, 1, 191, 192, 8383, 8384, 70000]
    };
    for &n in &lens {
        for tag in [13u8, 21, 9, 12, 8, 18, 11] {
            let pre: Vec<u8> = match tag { 8 => vec![1], 18 => vec![1], 11 => wire::literal(b'b', b"n", None, CREATED, &[]), _ => vec![] };
            if n < pre.len() { continue; }
            let m = Msg { pre: pre.clone(), pat: Some((n, n - pre.len())), post: vec![] };
            run_pkt(ctx, &m.packet(tag), false, true, "len_classes");
        }
    }
}

// ------------------------------------------------------------------------------------------
// header formats and length forms around typed bodies

fn gen_framing(ctx: &mut Ctx) {
    let sig = wire::sig_v4(4, 0, 1, 8, &wire::subpacket_min(2, &[0x60, 1, 2, 3]), &[], [1, 2], None, &sig_tail(1));
    let uid = b"Alice <alice@example.org>".to_vec();
    let lit = wire::literal(b'b', b"", None, CREATED, &pattern(3, 600));
    let key = wire::key_public(4, CREATED, [0, 0], 25, &key_material(25), None);
    let bodies: Vec<(u8, Vec<u8>)> = vec![(2, sig), (13, uid), (11, lit.clone()), (6, key), (8, [vec![0u8], pattern(1, 700)].concat()), (18, [vec![1u8], pattern(2, 300)].concat())];
    for (tag, body) in &bodies {
        let m = Msg::hexed(body.clone());
        for form in [1u8, 2, 5] {
            if let Some(f) = m.framed(true, *tag, form) {
                let min = if body.len() < 192 { 1 } else if body.len() < 8384 { 2 } else { 5 };
                run_pkt(ctx, &f, false, form == min, "frame_new_forms");
            }
        }
        for lt in [0u8, 1, 2] {
            if let Some(f) = m.framed(false, *tag, lt) {
                let min = if body.len() < 256 { 0 } else if body.len() < 65536 { 1 } else { 2 };
                run_pkt(ctx, &f, false, lt == min, "frame_old_forms");
            }
        }
        // indeterminate length (legacy format): body runs to the end of the input
        run_pkt(ctx, &Msg::hexed(frame::frame_indet(*tag, body)), false, true, "frame_indeterminate");
        // trailing octets after a fixed-length packet stay in the stream
        let mut with_rest = m.packet(*tag).bytes();
        with_rest.extend([0xC0 | 13, 1, b'x']);
        run_pkt(ctx, &Msg::hexed(with_rest), false, true, "frame_with_rest");
    }
    // partial body lengths (data packets only); the written form is a fixed-length packet
    for (tag, body) in [(11u8, lit), (8, [vec![1u8], pattern(1, 1500)].concat()), (18, [vec![1u8], pattern(2, 1100)].concat()), (9, pattern(5, 1024)), (2, pattern(1, 600)), (13, pattern(1, 600))] {
        for segs in [vec![9u8], vec![9, 9], vec![9, 0, 1], vec![10], vec![8]] {
            if let Some(f) = frame::frame_partial(tag, &segs, &body) {
                run_pkt(ctx, &Msg::hexed(f), false, false, "frame_partial");
            }
        }
    }
}

// ------------------------------------------------------------------------------------------
// API-built and API-mutated objects (serialised by rpgp, parsed by the model with av=1)

use pgp::composed::{EncryptionCaps, KeyType, MessageBuilder, SecretKeyParamsBuilder, SignedSecretKey, SubkeyParamsBuilder};
use pgp::crypto::{aead::{AeadAlgorithm, ChunkSize}, ecc_curve::ECCCurve, hash::HashAlgorithm, sym::SymmetricKeyAlgorithm};
use pgp::packet::{Subpacket, SubpacketData};
use pgp::types::{KeyVersion, Password, S2kParams, StringToKey, Timestamp};
use rand::SeedableRng;

/// split a stream of packets into the byte span of each (using rpgp's own framing reader)
fn split_packets(data: &[u8]) -> Vec<Vec<u8>> {
    let mut out = Vec::new();
    let mut pos = 0usize;
    while pos < data.len() {
        let mut src: &[u8] = &data[pos..];
        let before = src.len();
        let r = {
            let mut parser = PacketParser::new(&mut src);
            parser.next()
        };
        if r.is_none() || src.len() == before {
            break;
        }
        let used = before - src.len();
        out.push(data[pos..pos + used].to_vec());
        pos += used;
    }
    out
}

fn api_stream(ctx: &mut Ctx, data: &[u8], label: &str) {
    for p in split_packets(data) {
        // rpgp wrote these bytes itself: they are canonical by definition of the property
        let m = if p.len() > 1500 { Msg { pre: p.clone(), pat: None, post: vec![] } } else { Msg::hexed(p) };
        run_pkt(ctx, &m, true, true, label);
    }
}

fn composite_len(ctx: &mut Ctx, name: &str, what: &str, write_len: usize, bytes: Option<Vec<u8>>) {
    match bytes {
        Some(b) => ctx.oracle("write_len_truthful", &format!("{name}::write_len vs to_writer"), what, write_len == b.len(), &format!("write_len {write_len} written {}", b.len())),
        None => ctx.oracle("accepted_object_serializes", &format!("{name}::to_writer"), what, false, "to_writer failed"),
    }
}

fn build_key(rng: &mut rand_chacha::ChaCha8Rng, version: KeyVersion, primary: KeyType, sub: Option<KeyType>, uid: &str) -> Option<SignedSecretKey> {
    let mut b = SecretKeyParamsBuilder::default();
    b.version(version).key_type(primary).created_at(Timestamp::from_secs(1_700_000_000)).can_certify(true).can_sign(true).primary_user_id(uid.into()).passphrase(None);
    if version == KeyVersion::V6 {
        b.feature_seipd_v2(true);
    }
    if let Some(st) = sub {
        let sk = SubkeyParamsBuilder::default().version(version).key_type(st).created_at(Timestamp::from_secs(1_700_000_000)).can_encrypt(EncryptionCaps::All).passphrase(None).build().ok()?;
        b.subkey(sk);
    }
    let params = b.build().ok()?;
    params.generate(rng).ok()
}

/// lock / unlock one secret key packet through the public API and compare with the model's
/// `keyReplaceSecret`; the oracles restate "announced length = written length, also after the
/// object was modified through the public API"
fn key_mutations(ctx: &mut Ctx, rng: &mut rand_chacha::ChaCha8Rng, key: &pgp::packet::SecretKey, label: &str) {
    let Some(orig) = serialize(&Packet::SecretKey(key.clone())) else { return };
    let v6 = key.version() == KeyVersion::V6;
    let pw = Password::from("correct horse");
    let mut salt8 = [0u8; 8];
    rng.fill(&mut salt8);
    let mut iv16 = vec![0u8; 16];
    rng.fill(&mut iv16[..]);
    let mut nonce15 = vec![0u8; 15];
    rng.fill(&mut nonce15[..]);
    let iter = StringToKey::IteratedAndSalted { hash_alg: HashAlgorithm::Sha256, salt: salt8, count: 0x10 };
    let mut plans: Vec<(&str, Option<S2kParams>)> = vec![
        ("default", None),
        ("cfb_aes256_iter", Some(S2kParams::Cfb { sym_alg: SymmetricKeyAlgorithm::AES256, s2k: iter.clone(), iv: iv16.clone().into() })),
        ("aead_ocb_iter", Some(S2kParams::Aead { sym_alg: SymmetricKeyAlgorithm::AES128, aead_mode: AeadAlgorithm::Ocb, s2k: iter.clone(), nonce: nonce15.clone().into() })),
    ];
    if !v6 {
        plans.push(("malleable_cfb", Some(S2kParams::MalleableCfb { sym_alg: SymmetricKeyAlgorithm::AES128, s2k: iter.clone(), iv: iv16.clone().into() })));
        plans.push(("cfb_salted", Some(S2kParams::Cfb { sym_alg: SymmetricKeyAlgorithm::AES128, s2k: StringToKey::Salted { hash_alg: HashAlgorithm::Sha256, salt: salt8 }, iv: iv16.clone().into() })));
    }
    for (name, plan) in plans {
        let mut k = key.clone();
        let r = guarded(|| match &plan {
            None => k.set_password(&mut *rng, &pw),
            Some(p) => k.set_password_with_s2k(&pw, p.clone()),
        });
        if !matches!(r, Ok(Ok(()))) {
            ctx.stat(&format!("api:set_password_refused:{name}"));
            continue;
        }
        let sec1 = mutated_key_case(ctx, &orig, &k, None, &format!("{label}:set_password:{name}"));
        // and back (same object: its stored header is still the one of `orig`)
        let mut k2 = k.clone();
        if matches!(guarded(|| k2.remove_password(&pw)), Ok(Ok(()))) {
            if let Some(s1) = sec1 {
                mutated_key_case(ctx, &orig, &k2, Some(s1), &format!("{label}:set_password:{name}:remove_password"));
            }
            // the unlocked key equals the original one (value), and writes the same bytes
            let again = serialize(&Packet::SecretKey(k2.clone()));
            ctx.oracle("roundtrip_equal_value_after_mutation", "SecretKey::set_password* -> remove_password", &format!("{label}:{name} data={}", hx(&orig)), again.as_deref() == Some(&orig[..]), "bytes differ after lock+unlock");
        }
    }
}

fn mutated_key_case(ctx: &mut Ctx, before: &[u8], k: &pgp::packet::SecretKey, first: Option<Vec<u8>>, what: &str) -> Option<Vec<u8>> {
    let p = Packet::SecretKey(k.clone());
    let out = serialize(&p);
    let pub_len = k.public_key().write_len();
    let input = format!("{what} data={}", hx(before));
    oracles(ctx, &p, out.as_deref(), &[], false, &input, "_after_mutation");
    ctx.stat("gen:api_key_mutation");
    if let Some(o) = &out {
        // body = everything after the new header; the secret section starts after the public part
        if let Some((_, off)) = peek(o) {
            let sec = &o[off + pub_len..];
            let req = match &first {
                None => format!("c05_keymut data={} sec={} av=1", hx(before), hx(sec)),
                Some(f) => format!("c05_keymut data={} sec={} sec2={} av=1", hx(before), hx(f), hx(sec)),
            };
            ctx.case(req, answer_for(&p, Some(o), 0, &[]));
            return Some(sec.to_vec());
        }
    }
    None
}

fn sig_mutations(ctx: &mut Ctx, sig: &pgp::packet::Signature, label: &str) {
    use pgp::packet::KeyFlags;
    let Some(orig) = serialize(&Packet::Signature(sig.clone())) else { return };
    let n_un = sig.config().map(|c| c.unhashed_subpackets.len()).unwrap_or(0);
    let big = |n: usize| SubpacketData::Notation(pgp::packet::Notation { readable: true, name: "n@example.org".into(), value: pattern(n, n).into() });
    let subs: Vec<SubpacketData> = vec![
        SubpacketData::IssuerKeyId(pgp::types::KeyId::from(KEYID)),
        SubpacketData::PolicyURI("https://example.org/policy".into()),
        SubpacketData::PreferredKeyServer("hkps://keys.example.org".into()),
        SubpacketData::PreferredKeyServer("hkps://schlüssel.example".into()),
        SubpacketData::PolicyURI("https://schlüssel.example".into()),
        big(10), big(150), big(180), big(200), big(8200), big(16300), big(16400),
        SubpacketData::Revocable(true),
        SubpacketData::Features(pgp::packet::Features::default()),
        // key flags / features built through their setters (not parsed): every flag alone, the ones
        // that live in the second octet as well (the length on the wire grows with them)
        SubpacketData::KeyFlags({ let mut f = KeyFlags::default(); f.set_certify(true); f.set_sign(true); f }),
        SubpacketData::KeyFlags({ let mut f = KeyFlags::default(); f.set_adsk(true); f }),
        SubpacketData::KeyFlags({ let mut f = KeyFlags::default(); f.set_timestamping(true); f.set_encrypt_comms(true); f }),
        SubpacketData::KeyFlags({ let mut f = KeyFlags::default(); f.set_adsk(true); f.set_timestamping(true); f.set_authentication(true); f }),
        SubpacketData::KeyFlags(KeyFlags::default()),
        SubpacketData::Features({ let mut f = pgp::packet::Features::default(); f.set_seipd_v1(true); f.set_seipd_v2(true); f }),
    ];
    for (j, d) in subs.into_iter().enumerate() {
        for critical in [false, true] {
            let sp = if critical { Subpacket::critical(d.clone()) } else { Subpacket::regular(d.clone()) };
            let Ok(sp) = sp else { continue };
            // the subpacket on its own: announced length = bytes written
            let spb = sp.to_bytes().ok();
            let nonascii_ks = matches!(&d, SubpacketData::PreferredKeyServer(x) if !x.is_ascii());
            let sp_in = format!("Subpacket::{}({d:?}){}", if critical { "critical" } else { "regular" }, if nonascii_ks { " #prefks_nonascii" } else { "" });
            let sp_in = if sp_in.len() > 300 { format!("{}…", &sp_in[..300]) } else { sp_in };
            match &spb {
                Some(b) => ctx.oracle("write_len_truthful", "Subpacket::write_len vs to_writer", &sp_in, b.len() == sp.write_len(), &format!("write_len {} written {}", sp.write_len(), b.len())),
                None => ctx.oracle("accepted_object_serializes", "Subpacket::to_writer", &sp_in, false, "to_writer failed"),
            }
            let Some(spb) = spb else { continue };
            for idx in [0usize, n_un, n_un + 1] {
                let mut s2 = sig.clone();
                let r = guarded(|| s2.unhashed_subpacket_insert(idx, sp.clone()));
                let ok = matches!(r, Ok(Ok(())));
                let p = Packet::Signature(s2.clone());
                let out = serialize(&p);
                let ascii = spb.len() == sp.write_len();
                let req = format!("c05_sigmut data={} op=ins idx={idx} sp={}", hx(&orig), if spb.len() > 400 { Msg { pre: spb[..8].to_vec(), pat: None, post: spb[8..].to_vec() }.req() } else { hx(&spb) });
                if ok {
                    oracles(ctx, &p, out.as_deref(), &[], false, &format!("{label}:insert#{j}@{idx} {}{}", &req[..req.len().min(200)], if nonascii_ks { " #prefks_nonascii" } else { "" }), "_after_mutation");
                    if ascii {
                        ctx.case(req, answer_for(&p, out.as_deref(), 0, &[]));
                    }
                    // remove it again: back to the original bytes
                    let mut s3 = s2.clone();
                    if matches!(guarded(|| s3.unhashed_subpacket_remove(idx).map(|_| ())), Ok(Ok(()))) {
                        let p3 = Packet::Signature(s3);
                        let out3 = serialize(&p3);
                        oracles(ctx, &p3, out3.as_deref(), &[], false, &format!("{label}:insert+remove#{j}@{idx}"), "_after_mutation");
                        ctx.oracle("roundtrip_equal_value_after_mutation", "Signature::unhashed_subpacket_insert -> remove", &format!("{label}#{j}@{idx}"), out3.as_deref() == Some(&orig[..]), "bytes differ after insert+remove");
                        if let (Some(o2), true) = (&out, ascii) {
                            if o2.len() < 3000 {
                                ctx.case(format!("c05_sigmut data={} op=rm idx={idx}", hx(o2)), answer_for(&p3, out3.as_deref(), 0, &[]));
                            }
                        }
                    }
                } else if ascii {
                    ctx.case(req, "err".to_string());
                }
                ctx.stat("gen:api_sig_mutation");
            }
        }
    }
}

/// subpackets that carry a legal but NON-minimal length form (two- or five-octet form for a short
/// body), as the parser keeps them: removed from the signature they arrived in, and inserted into
/// another signature through the public API — the announced lengths must follow the stored form
fn sig_mutations_nonminimal(ctx: &mut Ctx, target: &pgp::packet::Signature, label: &str) {
    let Some(orig) = serialize(&Packet::Signature(target.clone())) else { return };
    for form in [2u8, 5] {
        for (typ, body) in [(20u8, sub_body_valid(20)), (26, b"https://example.org/p".to_vec()), (100, pattern(form as usize, 9)), (16, KEYID.to_vec())] {
            let Some(sp_wire) = wire::subpacket(form, typ, &body) else { continue };
            // a carrier signature whose unhashed area is: minimal issuer, the non-minimal subpacket, minimal policy uri
            let mut area = wire::subpacket_min(16, &KEYID);
            area.extend_from_slice(&sp_wire);
            area.extend_from_slice(&wire::subpacket_min(26, b"x"));
            let carrier_body = wire::sig_v4(4, 0x13, 1, 8, &[], &area, [1, 2], None, &sig_tail(1));
            let carrier_pkt = wire::packet(2, &carrier_body);
            let parsed = guarded(|| {
                let mut src: &[u8] = &carrier_pkt;
                match pgp::packet::PacketParser::new(&mut src).next() {
                    Some(Ok(Packet::Signature(s))) => Some(s),
                    _ => None,
                }
            });
            let Ok(Some(carrier)) = parsed else {
                ctx.stat("api_sig_nonminimal:carrier_refused");
                continue;
            };
            let what = format!("{label}: subpacket type {typ} length form {form}");
            // (a) remove each subpacket of the carrier in turn
            for idx in 0..3usize {
                let mut s2 = carrier.clone();
                if !matches!(guarded(|| s2.unhashed_subpacket_remove(idx).map(|_| ())), Ok(Ok(()))) {
                    continue;
                }
                let p2 = Packet::Signature(s2);
                let out2 = serialize(&p2);
                oracles(ctx, &p2, out2.as_deref(), &[], false, &format!("{what} remove@{idx} data={}", hx(&carrier_pkt)), "_after_mutation");
                ctx.case(format!("c05_sigmut data={} op=rm idx={idx}", hx(&carrier_pkt)), answer_for(&p2, out2.as_deref(), 0, &[]));
                ctx.stat("gen:api_sig_mutation_nonminimal");
            }
            // (b) take the non-minimal subpacket out and insert it into the target signature, then remove it again
            let mut donor = carrier.clone();
            let Ok(Ok(sp)) = guarded(|| donor.unhashed_subpacket_remove(1)) else { continue };
            let n_un = target.config().map(|c| c.unhashed_subpackets.len()).unwrap_or(0);
            for idx in [0usize, n_un] {
                let mut s2 = target.clone();
                if !matches!(guarded(|| s2.unhashed_subpacket_insert(idx, sp.clone())), Ok(Ok(()))) {
                    continue;
                }
                let p2 = Packet::Signature(s2.clone());
                let out2 = serialize(&p2);
                oracles(ctx, &p2, out2.as_deref(), &[], false, &format!("{what} insert@{idx} data={}", hx(&orig)), "_after_mutation");
                ctx.case(format!("c05_sigmut data={} op=ins idx={idx} sp={}", hx(&orig), hx(&sp_wire)), answer_for(&p2, out2.as_deref(), 0, &[]));
                let mut s3 = s2.clone();
                if matches!(guarded(|| s3.unhashed_subpacket_remove(idx).map(|_| ())), Ok(Ok(()))) {
                    let p3 = Packet::Signature(s3);
                    let out3 = serialize(&p3);
                    oracles(ctx, &p3, out3.as_deref(), &[], false, &format!("{what} insert+remove@{idx}"), "_after_mutation");
                    ctx.oracle("roundtrip_equal_value_after_mutation", "Signature::unhashed_subpacket_insert -> remove (non-minimal length form)", &format!("{what}@{idx}"), out3.as_deref() == Some(&orig[..]), "bytes differ after insert+remove");
                }
                ctx.stat("gen:api_sig_mutation_nonminimal");
            }
        }
    }
}

/// unlocked secret keys whose secret material starts with 0..3 zero octets (written as a shorter MPI;
/// 1 in 256 generated keys): built through the public API from chosen material, then the usual
/// oracles (announced length = written, parse back equal, canonical bytes)
/// transferable keys whose components come in another (legal) order than the library writes them:
/// the primary-flagged User ID second or last, user ids behind one another in every rotation.  A
/// certificate is a sequence of packets: what is read is written back in the order it was read.
fn gen_composed_orders(ctx: &mut Ctx) {
    use pgp::composed::{Deserializable, SignedPublicKey, SignedSecretKey};
    use rand::SeedableRng;
    let mut rng = rand_chacha::ChaCha8Rng::seed_from_u64(0xC05C);
    for ver in [KeyVersion::V4, KeyVersion::V6] {
        let key = guarded(|| {
            let mut b = SecretKeyParamsBuilder::default();
            b.version(ver)
                .key_type(if ver == KeyVersion::V6 { KeyType::Ed25519 } else { KeyType::Ed25519Legacy })
                .can_certify(true)
                .can_sign(true)
                .primary_user_id("Primary <primary@example.org>".into())
                .user_ids(vec!["Second <second@example.org>".into(), "Third <third@example.org>".into()])
                .subkey(SubkeyParamsBuilder::default().version(ver).key_type(if ver == KeyVersion::V6 { KeyType::X25519 } else { KeyType::ECDH(ECCCurve::Curve25519Legacy) }).can_encrypt(pgp::composed::EncryptionCaps::All).build().ok()?);
            b.build().ok()?.generate(&mut rng).ok()
        });
        let Ok(Some(key)) = key else {
            ctx.stat("composed_orders:cannot_build");
            continue;
        };
        for secret in [false, true] {
            let Ok(bytes) = (if secret { key.to_bytes() } else { key.to_public_key().to_bytes() }) else { continue };
            // split into packets, group each User ID with the signatures that follow it
            let pkts: Vec<Vec<u8>> = PacketParser::new(&bytes[..]).flatten().filter_map(|p| { let mut v = Vec::new(); p.to_writer_with_header(&mut v).ok().map(|_| v) }).collect();
            if pkts.concat() != bytes {
                ctx.stat("composed_orders:split_not_exact");
                continue;
            }
            let tag = |p: &Vec<u8>| p[0] & 0x3F;
            let mut head: Vec<Vec<u8>> = Vec::new();
            let mut uid_groups: Vec<Vec<Vec<u8>>> = Vec::new();
            let mut tail: Vec<Vec<u8>> = Vec::new();
            for p in pkts {
                match tag(&p) {
                    13 => uid_groups.push(vec![p]),
                    7 | 14 => tail.push(p),
                    _ if !tail.is_empty() => tail.push(p),
                    _ if !uid_groups.is_empty() => uid_groups.last_mut().unwrap().push(p),
                    _ => head.push(p),
                }
            }
            if uid_groups.len() < 3 {
                continue;
            }
            let n = uid_groups.len();
            for order in [vec![0usize, 1, 2], vec![1, 0, 2], vec![1, 2, 0], vec![2, 1, 0], vec![2, 0, 1], vec![0, 2, 1]] {
                if order.iter().any(|&i| i >= n) {
                    continue;
                }
                let mut doc: Vec<u8> = head.concat();
                for &i in &order {
                    doc.extend(uid_groups[i].concat());
                }
                doc.extend(tail.concat());
                let r = guarded(|| {
                    if secret {
                        SignedSecretKey::from_bytes(&doc[..]).ok().and_then(|k| k.to_bytes().ok())
                    } else {
                        SignedPublicKey::from_bytes(&doc[..]).ok().and_then(|k| k.to_bytes().ok())
                    }
                });
                let input = format!("v{} secret={secret} user id order {order:?} doc={}", if ver == KeyVersion::V6 { 6 } else { 4 }, hx(&doc));
                match r {
                    Ok(Some(out)) => ctx.oracle("canonical_identical_bytes", "Signed{Public,Secret}Key::from_bytes -> to_bytes (component order)", &input, out == doc, &format!("written {} octets, differs at {:?}", out.len(), out.iter().zip(&doc).position(|(a, b)| a != b))),
                    Ok(None) => ctx.oracle("accepted_object_serializes", "Signed{Public,Secret}Key::from_bytes (component order)", &input, false, "a legal order of the components was refused"),
                    Err(p) => ctx.oracle("accepted_object_serializes", "Signed{Public,Secret}Key::from_bytes (component order)", &input, false, &format!("panic {p}")),
                }
                ctx.stat("composed_orders");
            }
        }
    }
}

/// User Attribute packets: image attributes with every kind of image header (version 1 JPEG with the
/// usual 16-octet header, longer headers, other formats, other header versions), attributes of other
/// types, every subpacket length form (oracles only: the packet type is outside the model)
fn gen_user_attributes(ctx: &mut Ctx) {
    let jpeg = [0xFFu8, 0xD8, 0xFF, 0xE0, 1, 2, 3];
    let mut attrs: Vec<(String, Vec<u8>)> = Vec::new();
    // image headers: (length field, version, format, octets behind the format)
    for (hl, ver, fmt, extra) in [(16u16, 1u8, 1u8, 12usize), (17, 1, 1, 13), (20, 1, 1, 16), (4, 1, 1, 0), (16, 1, 2, 12), (5, 1, 9, 1), (16, 2, 1, 12), (3, 2, 0, 0), (9, 7, 1, 5), (16, 0, 1, 12)] {
        let mut a = vec![1u8];
        a.extend_from_slice(&hl.to_le_bytes());
        a.push(ver);
        if hl >= 4 {
            a.push(fmt);
            a.extend(std::iter::repeat(0u8).take(extra));
        }
        a.extend_from_slice(&jpeg);
        attrs.push((format!("image header len={hl} version={ver} format={fmt}"), a));
    }
    attrs.push(("attribute type 2".into(), vec![2, 9, 9, 9]));
    attrs.push(("attribute type 100, empty".into(), vec![100]));
    attrs.push(("attribute type 255".into(), { let mut v = vec![255u8]; v.extend(pattern(3, 300)); v }));
    for (what, a) in &attrs {
        for form in [1u8, 2, 5] {
            let Some(l) = wire::sub_len(form, a.len()) else { continue };
            let mut body = l;
            body.extend_from_slice(a);
            // (the one-octet form where it fits, the two-octet form from 192: the canonical ones)
            // (a version 1 JPEG header is 16 octets by definition: other lengths are accepted leniently and normalised)
            let lenient = what.contains("version=1 format=1") && !what.contains("len=16");
            let canonical = !lenient && wire::sub_len_min(a.len()).len() == wire::sub_len(form, a.len()).map(|x| x.len()).unwrap_or(0);
            pkt(ctx, 17, body, canonical, &format!("user_attribute:{what}"));
        }
    }
}

fn gen_secret_leading_zeros(ctx: &mut Ctx) {
    use pgp::crypto::public_key::PublicKeyAlgorithm;
    use pgp::packet::{PubKeyInner, PublicKey, SecretKey};
    use pgp::types::{PlainSecretParams, PublicParams, SecretParams, Timestamp};
    for zeros in 0..=3usize {
        for variant in 0..3u8 {
            let mut seed = [0u8; 32];
            for (i, b) in seed.iter_mut().enumerate() {
                *b = if i < zeros { 0 } else { (i as u8).wrapping_mul(29).wrapping_add(variant).wrapping_add(7) | 1 };
            }
            let built = guarded(|| -> Option<(SecretKey, &'static str)> {
                let (plain, alg, name) = match variant {
                    0 => {
                        let key = pgp::crypto::ed25519::SecretKey::try_from_bytes(seed, pgp::crypto::ed25519::Mode::EdDSALegacy).ok()?;
                        (PlainSecretParams::EdDSALegacy(pgp::crypto::eddsa_legacy::SecretKey::Ed25519(key)), PublicKeyAlgorithm::EdDSALegacy, "eddsa-legacy")
                    }
                    1 => {
                        let sk = p256::SecretKey::from_slice(&seed).ok()?;
                        (PlainSecretParams::ECDSA(pgp::crypto::ecdsa::SecretKey::P256(sk)), PublicKeyAlgorithm::ECDSA, "ecdsa-p256")
                    }
                    _ => {
                        let key = pgp::crypto::ed25519::SecretKey::try_from_bytes(seed, pgp::crypto::ed25519::Mode::Ed25519).ok()?;
                        (PlainSecretParams::Ed25519(key), PublicKeyAlgorithm::Ed25519, "ed25519-native")
                    }
                };
                let public_params = PublicParams::try_from(&plain).ok()?;
                let inner = PubKeyInner::new(KeyVersion::V4, alg, Timestamp::from_secs(1_700_000_000), None, public_params).ok()?;
                let public = PublicKey::from_inner(inner).ok()?;
                SecretKey::new(public, SecretParams::Plain(plain)).ok().map(|k| (k, name))
            });
            let Ok(Some((key, name))) = built else {
                ctx.stat("api_secret_leading_zeros:cannot_build");
                continue;
            };
            let p = Packet::SecretKey(key);
            let out = serialize(&p);
            let input = format!("secret key {name} with {zeros} leading zero octets in its secret material (SecretKey::new)");
            oracles(ctx, &p, out.as_deref(), &[], false, &input, "_after_mutation");
            if let Some(o) = &out {
                // and through the parser: the packet the library wrote is accepted and canonical
                let m = Msg::hexed(o.clone());
                run_pkt(ctx, &m, false, true, "api_secret_leading_zeros");
            }
            ctx.stat(&format!("api_secret_leading_zeros:{name}:{zeros}"));
        }
    }
}

fn gen_api(ctx: &mut Ctx) {
    gen_secret_leading_zeros(ctx);
    gen_user_attributes(ctx);
    gen_composed_orders(ctx);
    let mut rng = rand_chacha::ChaCha8Rng::seed_from_u64(ctx.seed ^ 0xC05);
    let mut plans: Vec<(KeyVersion, KeyType, Option<KeyType>, &str)> = vec![
        (KeyVersion::V4, KeyType::Ed25519Legacy, Some(KeyType::ECDH(ECCCurve::Curve25519Legacy)), "v4-ed25519legacy"),
        (KeyVersion::V6, KeyType::Ed25519, Some(KeyType::X25519), "v6-ed25519"),
        (KeyVersion::V4, KeyType::ECDSA(ECCCurve::P384), Some(KeyType::ECDH(ECCCurve::P256)), "v4-p384"),
        (KeyVersion::V4, KeyType::Rsa(2048), None, "v4-rsa2048"),
    ];
    if ctx.thorough() {
        plans.push((KeyVersion::V6, KeyType::Ed448, Some(KeyType::X448), "v6-ed448"));
        plans.push((KeyVersion::V4, KeyType::Rsa(3072), Some(KeyType::Rsa(2048)), "v4-rsa3072"));
        plans.push((KeyVersion::V6, KeyType::ECDSA(ECCCurve::P384), Some(KeyType::ECDH(ECCCurve::P521)), "v6-p384"));
        plans.push((KeyVersion::V4, KeyType::Ed25519, Some(KeyType::X25519), "v4-ed25519-rfc9580"));
    }
    for (ver, prim, sub, name) in plans {
        let Some(key) = build_key(&mut rng, ver, prim, sub, &format!("{name} <{name}@example.org>")) else {
            ctx.note(&format!("key generation failed: {name}"));
            continue;
        };
        ctx.stat(&format!("api:key:{name}"));
        // composite: announced length = written length (D5a regression and the other composites)
        composite_len(ctx, "SignedSecretKey", name, key.write_len(), key.to_bytes().ok());
        let public = key.to_public_key();
        composite_len(ctx, "SignedPublicKey", name, public.write_len(), public.to_bytes().ok());
        composite_len(ctx, "SignedKeyDetails", name, public.details.write_len(), public.details.to_bytes().ok());
        for sk in &public.public_subkeys {
            composite_len(ctx, "SignedPublicSubKey", name, sk.write_len(), sk.to_bytes().ok());
        }
        for u in &public.details.users {
            composite_len(ctx, "SignedUser", name, u.write_len(), u.to_bytes().ok());
        }
        if let Ok(b) = key.to_bytes() { api_stream(ctx, &b, "api_secret_cert"); }
        if let Ok(b) = public.to_bytes() { api_stream(ctx, &b, "api_public_cert"); }
        key_mutations(ctx, &mut rng, &key.primary_key, name);
        // signatures of the certificate: unhashed-area mutations
        if let Some(sig) = key.details.users.first().and_then(|u| u.signatures.first()) {
            sig_mutations(ctx, sig, name);
            sig_mutations_nonminimal(ctx, sig, name);
        }
        if let Some(sig) = key.details.direct_signatures.first() {
            sig_mutations(ctx, sig, name);
        }
        // messages written by the builder, signed / encrypted to this key
        let payload = pattern(7, 3000);
        let msgs: Vec<Option<Vec<u8>>> = vec![
            guarded(|| { let mut b = MessageBuilder::from_bytes("f", payload.clone()); b.sign(&*key, Password::empty(), HashAlgorithm::Sha256); b.to_vec(&mut rng).ok() }).ok().flatten(),
            guarded(|| { let mut b = MessageBuilder::from_bytes("", payload.clone()); b.compression(pgp::types::CompressionAlgorithm::ZLIB); b.to_vec(&mut rng).ok() }).ok().flatten(),
            guarded(|| { let mut b = MessageBuilder::from_bytes("", payload.clone()).seipd_v1(&mut rng, SymmetricKeyAlgorithm::AES128); b.encrypt_with_password(StringToKey::new_default(&mut rng), &"pw".into()).ok()?; if let Some(sk) = public.public_subkeys.first() { b.encrypt_to_key(&mut rng, &sk.key).ok()?; } b.to_vec(&mut rng).ok() }).ok().flatten(),
            guarded(|| { let mut b = MessageBuilder::from_bytes("", payload.clone()).seipd_v2(&mut rng, SymmetricKeyAlgorithm::AES256, AeadAlgorithm::Ocb, ChunkSize::C4KiB); let s2k = StringToKey::new_default(&mut rng); b.encrypt_with_password(&mut rng, s2k, &"pw".into()).ok()?; if let Some(sk) = public.public_subkeys.first() { b.encrypt_to_key(&mut rng, &sk.key).ok()?; } b.to_vec(&mut rng).ok() }).ok().flatten(),
        ];
        for m in msgs.into_iter().flatten() {
            api_stream(ctx, &m, "api_message");
        }
    }
    // constructors of single packets
    for (i, n) in [0usize, 1, 190, 191, 192, 300, 8383, 8384].into_iter().enumerate() {
        for pv in [pgp::types::PacketHeaderVersion::New, pgp::types::PacketHeaderVersion::Old] {
            let uid = "u".repeat(n);
            if let Ok(u) = pgp::packet::UserId::from_str(pv, &uid) {
                let p = Packet::UserId(u);
                let out = serialize(&p);
                oracles(ctx, &p, out.as_deref(), &[], false, &format!("UserId::from_str len={n} {pv:?}"), "");
                if let Some(o) = out { run_pkt(ctx, &Msg::hexed(o), true, true, "api_userid"); }
            }
            if let Ok(x) = pgp::packet::Padding::new(&mut rng, pv, n) {
                let p = Packet::Padding(x);
                let out = serialize(&p);
                oracles(ctx, &p, out.as_deref(), &[], false, &format!("Padding::new len={n} {pv:?}"), "");
                if let Some(o) = out { run_pkt(ctx, &Msg::hexed(o), true, true, "api_padding"); }
            }
        }
        if let Ok(l) = pgp::packet::LiteralData::from_bytes(&b"name"[..i.min(4)], pattern(i, n).into()) {
            let p = Packet::LiteralData(l);
            let out = serialize(&p);
            oracles(ctx, &p, out.as_deref(), &[], false, &format!("LiteralData::from_bytes len={n}"), "");
            if let Some(o) = out { run_pkt(ctx, &Msg::hexed(o), true, true, "api_literal"); }
        }
    }
    let _ = Timestamp::now();
}

// ------------------------------------------------------------------------------------------
// malformed stream: random edits of valid packets of every modelled type

fn corpus() -> Vec<Vec<u8>> {
    let h0 = wire::subpacket_min(2, &[0x60, 1, 2, 3]);
    let u0 = wire::subpacket_min(16, &KEYID);
    let sk = wire::s2k(3, 8, &[7; 8], 0x60, [0; 3], &[]);
    let fp32 = pattern(8, 32);
    let area: Vec<u8> = [h0.clone(), wire::subpacket_min(27, &[3]), wire::subpacket_min(33, &sub_body_valid(33)), wire::subpacket_min(20, &sub_body_valid(20)),
        wire::subpacket_min(0x80 | 11, &[9, 8, 7]), wire::subpacket_min(32, &sub_body_valid(32)), wire::subpacket(5, 100, &[1, 2]).unwrap()].concat();
    let pub4 = wire::key_public(4, CREATED, [0, 0], 25, &key_material(25), None);
    let pub6 = wire::key_public(6, CREATED, [0, 0], 25, &key_material(25), None);
    let sec4 = [pub4.clone(), wire::secret_section(false, 254, &wire::secret_params(false, 254, 9, None, &sk, None, &pattern(3, 16)), None, &pattern(4, 40))].concat();
    let sec6 = [pub6.clone(), wire::secret_section(true, 253, &wire::secret_params(true, 253, 9, Some(2), &wire::s2k(4, 0, &[5; 16], 0, [1, 4, 10], &[]), None, &pattern(3, 15)), None, &pattern(4, 48))].concat();
    let raw_plain = pattern(1, 32);
    let sec4p = [pub4.clone(), vec![0u8], raw_plain.clone(), wire::sum16(&raw_plain).to_vec()].concat();
    vec![
        wire::packet(2, &wire::sig_v4(4, 0x13, 1, 8, &area, &u0, [1, 2], None, &sig_tail(1))),
        wire::packet(2, &wire::sig_v4(6, 0x00, 27, 10, &area, &[], [1, 2], Some(&pattern(1, 32)), &sig_tail(27))),
        wire::packet(2, &wire::sig_v3(3, 5, 0, CREATED, KEYID, 17, 2, [1, 2], &sig_tail(17))),
        wire::packet(6, &wire::key_public(4, CREATED, [0, 0], 1, &key_material(1), None)),
        wire::packet(6, &wire::key_public(3, CREATED, [0, 9], 1, &key_material(1), None)),
        wire::packet(14, &wire::key_public(4, CREATED, [0, 0], 16, &key_material(16), None)),
        wire::packet(6, &pub6),
        wire::packet(5, &sec4),
        wire::packet(7, &sec6),
        wire::packet(5, &sec4p),
        wire::packet(1, &wire::pkesk_v3(KEYID, 1, &pkesk_vals(1, true))),
        wire::packet(1, &wire::pkesk_v3(KEYID, 25, &pkesk_vals(25, true))),
        wire::packet(1, &wire::pkesk_v6(Some((6, &fp32)), None, 25, &pkesk_vals(25, false))),
        wire::packet(1, &wire::pkesk_v6(None, None, 18, &pkesk_vals(18, false))),
        wire::packet(3, &wire::skesk_v4(9, &sk, &pattern(1, 17))),
        wire::packet(3, &wire::skesk_v5(9, 2, &sk, &pattern(2, 15), &pattern(3, 48))),
        wire::packet(3, &wire::skesk_v6(None, 9, 2, None, &sk, &pattern(2, 15), &pattern(3, 48))),
        wire::packet(4, &wire::ops_v3(0, 8, 1, KEYID, 1)),
        wire::packet(4, &wire::ops_v6(0, 8, 27, &pattern(1, 16), None, &fp32, 1)),
        wire::packet(11, &wire::literal(b'u', b"a.txt", None, CREATED, b"hello world")),
        wire::packet(18, &wire::seipd_v2(9, 2, 6, &pattern(1, 32), &pattern(2, 40))),
        wire::packet(18, &[vec![1u8], pattern(2, 40)].concat()),
        wire::packet(8, &[vec![2u8], pattern(2, 30)].concat()),
        wire::packet(10, b"PGP"),
        wire::packet(13, b"Bob <bob@example.org>"),
        wire::packet(19, &pattern(1, 20)),
        wire::packet_old(2, &wire::sig_v4(4, 0x13, 1, 8, &h0, &u0, [1, 2], None, &sig_tail(1))),
        frame::frame_partial(11, &[9], &wire::literal(b'b', b"", None, CREATED, &pattern(3, 700))).unwrap(),
    ]
}

fn gen_mutations(ctx: &mut Ctx) {
    let corpus = corpus();
    for c in &corpus {
        run_pkt(ctx, &Msg::hexed(c.clone()), false, false, "corpus");
    }
    let n = ctx.pick(6000, 300000);
    for i in 0..n {
        let mut m = corpus[i % corpus.len()].clone();
        match ctx.rng.gen_range(0..10) {
            0 => {
                let cut = ctx.rng.gen_range(0..m.len());
                m.truncate(cut);
            }
            1 => {
                let at = ctx.rng.gen_range(0..=m.len());
                let b: u8 = ctx.rng.gen();
                m.insert(at, b);
                // keep a one-octet new-format length consistent so that the edit reaches the body parser
                if m.len() > 2 && m[0] & 0xC0 == 0xC0 && m[1] < 191 && at >= 2 {
                    m[1] += 1;
                }
            }
            2 => {
                if m.len() > 3 {
                    let at = ctx.rng.gen_range(2..m.len());
                    m.remove(at);
                    if m[0] & 0xC0 == 0xC0 && m[1] < 192 && m[1] > 0 {
                        m[1] -= 1;
                    }
                }
            }
            _ => {
                for _ in 0..ctx.rng.gen_range(1..4) {
                    let at = ctx.rng.gen_range(0..m.len());
                    if ctx.rng.gen_bool(0.5) {
                        m[at] ^= 1 << ctx.rng.gen_range(0..8);
                    } else {
                        m[at] = [0u8, 1, 2, 3, 4, 5, 6, 16, 27, 32, 127, 128, 191, 192, 223, 224, 253, 254, 255][ctx.rng.gen_range(0..19)];
                    }
                }
            }
        }
        run_pkt(ctx, &Msg::hexed(m), false, false, "mutated");
    }
    // random octet strings
    for _ in 0..ctx.pick(1000, 50000) {
        let n = ctx.rng.gen_range(0..40);
        let mut v = crate::gen::random_bytes(&mut ctx.rng, n);
        if !v.is_empty() && ctx.rng.gen_bool(0.7) {
            v[0] = 0xC0 | [1u8, 2, 3, 4, 5, 6, 7, 8, 10, 11, 13, 14, 18, 19][ctx.rng.gen_range(0..14)];
            if v.len() > 1 {
                v[1] = (v.len() - 2) as u8;
            }
        }
        run_pkt(ctx, &Msg::hexed(v), false, false, "random");
    }
}

// ------------------------------------------------------------------------------------------
// the repository's own fixtures (armored keys, messages, signatures): every packet

fn gen_fixtures(ctx: &mut Ctx) {
    use std::io::Read;
    let root = std::env::var("VERIF_REPO").unwrap_or_else(|_| "/repo".to_string());
    let mut files: Vec<std::path::PathBuf> = Vec::new();
    let mut stack = vec![std::path::PathBuf::from(format!("{root}/tests"))];
    while let Some(d) = stack.pop() {
        let Ok(rd) = std::fs::read_dir(&d) else { continue };
        for e in rd.flatten() {
            let p = e.path();
            if p.is_dir() {
                let name = p.file_name().and_then(|n| n.to_str()).unwrap_or("");
                if name != "sks-dump" && name != "fuzz" {
                    stack.push(p);
                }
            } else if p.extension().and_then(|x| x.to_str()) == Some("asc") {
                files.push(p);
            }
        }
    }
    files.sort();
    let max_files = ctx.pick(120usize, 100000);
    let mut n_pk = 0usize;
    for f in files.iter().take(max_files) {
        let Ok(raw) = std::fs::read(f) else { continue };
        if raw.len() > 200_000 {
            continue;
        }
        let bytes = guarded(|| {
            let mut d = pgp::armor::Dearmor::new(std::io::BufReader::new(&raw[..]));
            let mut out = Vec::new();
            d.read_to_end(&mut out).ok().map(|_| out)
        });
        let Ok(Some(bytes)) = bytes else { continue };
        ctx.stat("fixtures:files");
        for p in split_packets(&bytes) {
            if p.len() > 20_000 {
                continue;
            }
            n_pk += 1;
            run_pkt(ctx, &Msg::hexed(p), false, false, "fixture_packet");
        }
    }
    ctx.stat_n("fixtures:packets", n_pk as u64);
}
