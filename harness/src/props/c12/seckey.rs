//! Secret-key protection: S2K usage 254 (CFB + SHA-1) and 253 (AEAD with HKDF), written by
//! `SecretKey::set_password_with_s2k` (`PlainSecretParams::encrypt`, `s2k_usage_aead`) and read by
//! `EncryptedSecretParams::unlock`.

use pgp::composed::{EncryptionCaps, KeyType, SecretKeyParamsBuilder, SubkeyParamsBuilder};
use pgp::crypto::aead::AeadAlgorithm;
use pgp::crypto::ecc_curve::ECCCurve;
use pgp::crypto::sym::SymmetricKeyAlgorithm;
use pgp::packet::{SecretKey, SecretSubkey};
use pgp::ser::Serialize;
use pgp::types::{EncryptedSecretParams, KeyDetails, KeyVersion, Password, PlainSecretParams, S2kParams, SecretParams};
use rand::{Rng, SeedableRng};
use rand_chacha::ChaCha8Rng;

use super::s2k::{spec_args, to_rpgp};
use super::{job, plan_answer, rfc, run_jobs, Job};
use crate::ctx::{guarded, hx, Ctx};
use crate::gen::random_bytes;
use crate::plan::Model;

enum AnyKey {
    Primary(SecretKey),
    Sub(SecretSubkey),
}

impl AnyKey {
    fn tag(&self) -> u8 {
        match self {
            AnyKey::Primary(_) => 5,
            AnyKey::Sub(_) => 7,
        }
    }
    fn version(&self) -> u8 {
        let v = match self {
            AnyKey::Primary(k) => k.version(),
            AnyKey::Sub(k) => k.version(),
        };
        match v {
            KeyVersion::V4 => 4,
            KeyVersion::V6 => 6,
            _ => 0,
        }
    }
    fn pub_body(&self) -> Vec<u8> {
        match self {
            AnyKey::Primary(k) => k.public_key().to_bytes().unwrap_or_default(),
            AnyKey::Sub(k) => k.public_key().to_bytes().unwrap_or_default(),
        }
    }
    fn params(&self) -> &SecretParams {
        match self {
            AnyKey::Primary(k) => k.secret_params(),
            AnyKey::Sub(k) => k.secret_params(),
        }
    }
    /// algorithm-specific secret fields without any checksum
    fn raw(&self) -> Vec<u8> {
        match self.params() {
            SecretParams::Plain(p) => {
                let mut v = Vec::new();
                let _ = p.to_writer(&mut v, KeyVersion::V6);
                v
            }
            _ => vec![],
        }
    }
    fn lock(&self, pw: &[u8], params: S2kParams) -> Result<Vec<u8>, String> {
        let r = guarded(|| {
            let pw = Password::from(pw);
            let sp = match self {
                AnyKey::Primary(k) => {
                    let mut k = k.clone();
                    k.set_password_with_s2k(&pw, params).map_err(|e| e.to_string())?;
                    k.secret_params().clone()
                }
                AnyKey::Sub(k) => {
                    let mut k = k.clone();
                    k.set_password_with_s2k(&pw, params).map_err(|e| e.to_string())?;
                    k.secret_params().clone()
                }
            };
            match sp {
                SecretParams::Encrypted(ref e) => Ok(e.data().to_vec()),
                _ => Err("not encrypted".to_string()),
            }
        });
        match r {
            Ok(v) => v,
            Err(p) => Err(format!("panic:{p}")),
        }
    }
    /// put `data` under `params` into a copy of this key and unlock it with rpgp
    fn unlock_with(&self, pw: &[u8], params: S2kParams, data: &[u8]) -> Result<Vec<u8>, String> {
        let r = guarded(|| {
            let enc = SecretParams::Encrypted(EncryptedSecretParams::new(data.to_vec().into(), params));
            let pw = Password::from(pw);
            let work = |_: &pgp::types::PublicParams, p: &PlainSecretParams| {
                let mut v = Vec::new();
                p.to_writer(&mut v, KeyVersion::V6)?;
                Ok(v)
            };
            let res = match self {
                AnyKey::Primary(k) => SecretKey::new(k.public_key().clone(), enc).map_err(|e| e.to_string())?.unlock(&pw, work),
                AnyKey::Sub(k) => SecretSubkey::new(k.public_key().clone(), enc).map_err(|e| e.to_string())?.unlock(&pw, work),
            };
            match res {
                Ok(Ok(v)) => Ok(v),
                Ok(Err(e)) => Err(e.to_string()),
                Err(e) => Err(e.to_string()),
            }
        });
        match r {
            Ok(v) => v,
            Err(p) => Err(format!("panic:{p}")),
        }
    }
}

fn make_keys(ctx: &mut Ctx) -> Vec<AnyKey> {
    let mut out = Vec::new();
    for v6 in [false, true] {
        let rng = ChaCha8Rng::seed_from_u64(ctx.rng.gen());
        let r = guarded(|| {
            let (prim, sub, ver) = if v6 {
                (KeyType::Ed25519, KeyType::X25519, KeyVersion::V6)
            } else {
                (KeyType::Ed25519Legacy, KeyType::ECDH(ECCCurve::Curve25519Legacy), KeyVersion::V4)
            };
            let params = SecretKeyParamsBuilder::default()
                .version(ver)
                .key_type(prim)
                .can_certify(true)
                .can_sign(true)
                .primary_user_id("c12 <c12@example.org>".into())
                .passphrase(None)
                .subkey(SubkeyParamsBuilder::default().version(ver).key_type(sub).can_encrypt(EncryptionCaps::All).passphrase(None).build().map_err(|e| e.to_string())?)
                .build()
                .map_err(|e| e.to_string())?;
            params.generate(rng).map_err(|e| e.to_string())
        });
        match r {
            Ok(Ok(k)) => {
                if let Some(s) = k.secret_subkeys.first() {
                    out.push(AnyKey::Sub(s.key.clone()));
                }
                out.push(AnyKey::Primary(k.primary_key.clone()));
            }
            other => ctx.note(&format!("key generation failed (v6={v6}): {:?}", other.map(|r| r.map(|_| ())))),
        }
    }
    out
}

fn gen_spec(ctx: &mut Ctx, i: usize) -> rfc::S2k {
    let salt8 = random_bytes(&mut ctx.rng, 8);
    let salt16 = random_bytes(&mut ctx.rng, 16);
    match i % 7 {
        0 | 1 => rfc::S2k::Iterated { hash: [8u8, 10, 9, 12][i % 4], salt: salt8, count: [0u8, 33, 96][i % 3] },
        2 => rfc::S2k::Salted { hash: 8, salt: salt8 },
        3 | 4 => rfc::S2k::Argon2 { salt: salt16, t: 1 + (i % 2) as u8, p: [1u8, 4][i % 2], m: [4u8, 7][i % 2] },
        5 => rfc::S2k::Iterated { hash: 2, salt: salt8, count: 0 }, // weak hash: refused when locking
        _ => rfc::S2k::Simple { hash: 8 },
    }
}

pub fn run(ctx: &mut Ctx, model: &mut Model) {
    let keys = make_keys(ctx);
    let mut jobs: Vec<Job> = Vec::new();
    let n = ctx.pick(320, 2400);
    let keys = std::rc::Rc::new(keys);
    for i in 0..n {
        if keys.is_empty() {
            break;
        }
        let ki = i % keys.len();
        let key = &keys[ki];
        let spec = gen_spec(ctx, i / (2 * keys.len()) + (i % 2) * 3);
        let pw = random_bytes(&mut ctx.rng, [0usize, 3, 16, 40][i % 4]);
        let raw = key.raw();
        let (tag, ver, pubb) = (key.tag(), key.version(), key.pub_body());
        if (i / keys.len()) % 2 == 0 {
            // usage 254
            let sym = [7u8, 9, 8, 13, 2][i % 5];
            let iv = random_bytes(&mut ctx.rng, rfc::block_size(sym));
            let params = S2kParams::Cfb { sym_alg: SymmetricKeyAlgorithm::from(sym), s2k: to_rpgp(&spec), iv: iv.clone().into() };
            let real = key.lock(&pw, params.clone());
            ctx.stat(&format!("seckey.cfb:v{ver}:tag{tag}:{}", if real.is_ok() { "ok" } else { "refused" }));
            let args = format!("ver={ver} sym={sym} {} pw={} iv={} raw={}", spec_args(&spec), hx(&pw), hx(&iv), hx(&raw));
            let want = rfc::seckey_cfb(sym, &spec, &pw, &iv, &raw);
            if let Ok(b) = &real {
                ctx.oracle("seckey_cfb_rfc_bytes", "PlainSecretParams::encrypt (S2kParams::Cfb)", &args, want.as_ref().ok() == Some(b), &hx(b));
            } else if real.as_ref().err().is_some_and(|e| e.starts_with("panic")) {
                ctx.oracle("seckey_no_panic", "PlainSecretParams::encrypt", &args, false, "panic");
            }
            // RFC-built blob unlocks (Argon2 is not allowed with CFB; v6 keys refuse simple S2K and weak hashes)
            let reader_refuses = matches!(spec, rfc::S2k::Argon2 { .. }) || (ver == 6 && matches!(spec, rfc::S2k::Simple { .. } | rfc::S2k::Iterated { hash: 2, .. }));
            if let Ok(w) = &want {
                let got = key.unlock_with(&pw, params.clone(), w);
                let ok = if reader_refuses { got.is_err() } else { got.as_ref().ok() == Some(&raw) };
                ctx.oracle("seckey_cfb_rfc_blob_unlocks", "EncryptedSecretParams::unlock (Cfb)", &args, ok, &format!("{:?}", got.as_ref().map(|v| v.len())));
            }
            // usage 255 (two-octet checksum, encrypted together with the key fields, RFC 9580 5.5.3) and
            // the legacy cipher octet (key = MD5 of the password): blobs built from the RFC text unlock
            // (v4 keys; oracle only)
            if ver == 4 && !matches!(spec, rfc::S2k::Argon2 { .. }) {
                let sum: u16 = raw.iter().fold(0u16, |a, &b| a.wrapping_add(b as u16));
                let plain = [&raw[..], &sum.to_be_bytes()[..]].concat();
                if let Some(k) = rfc::s2k(&spec, &pw, rfc::key_size(sym)) {
                    if let Ok(w) = crate::plan::cfb_encrypt(sym, &k, &iv, &plain) {
                        let p255 = S2kParams::MalleableCfb { sym_alg: SymmetricKeyAlgorithm::from(sym), s2k: to_rpgp(&spec), iv: iv.clone().into() };
                        let got = key.unlock_with(&pw, p255, &w);
                        ctx.oracle("seckey_cfb_rfc_blob_unlocks", "EncryptedSecretParams::unlock (MalleableCfb, usage 255)", &args, got.as_ref().ok() == Some(&raw), &format!("{:?}", got.as_ref().map(|v| v.len())));
                    }
                }
                if rfc::key_size(sym) == 16 {
                    use md5::Digest;
                    let k = md5::Md5::digest(&pw).to_vec();
                    if let Ok(w) = crate::plan::cfb_encrypt(sym, &k, &iv, &plain) {
                        let pl = S2kParams::LegacyCfb { sym_alg: SymmetricKeyAlgorithm::from(sym), iv: iv.clone().into() };
                        let got = key.unlock_with(&pw, pl, &w);
                        ctx.oracle("seckey_cfb_rfc_blob_unlocks", "EncryptedSecretParams::unlock (LegacyCfb, usage = cipher octet)", &args, got.as_ref().ok() == Some(&raw), &format!("{:?}", got.as_ref().map(|v| v.len())));
                    }
                }
            }
            jobs.push(job(format!("seckey.cfb enc=1 {args}"), move |ctx, req, ans, _| {
                ctx.case(req.to_string(), plan_answer(ans, &real.clone().map(|b| vec![b])).0);
            }));
            if !reader_refuses || matches!(spec, rfc::S2k::Argon2 { .. }) {
                let keys2 = keys.clone();
                let (pw2, raw2) = (pw.clone(), raw.clone());
                jobs.push(job(format!("seckey.cfb enc=0 {args}"), move |ctx, req, ans, _| {
                    let (imp, val) = plan_answer(ans, &Ok(vec![]));
                    match val {
                        Some(v) => {
                            let got = keys2[ki].unlock_with(&pw2, params, &v);
                            let ok = got.as_ref().ok() == Some(&raw2);
                            ctx.case(req.to_string(), if ok { ans.to_string() } else { format!("impl-read:{got:?}").replace(' ', "_").chars().take(200).collect() });
                        }
                        None => {
                            // the model says the reader refuses: rpgp must refuse any blob under these parameters
                            let got = keys2[ki].unlock_with(&pw2, params, &[0u8; 64]);
                            ctx.case(req.to_string(), if got.is_err() { "err".to_string() } else { imp });
                        }
                    }
                }));
            }
        } else {
            // usage 253
            let sym = [7u8, 8, 9][i % 3];
            let aead = [1u8, 2, 3][(i / 3) % 3];
            let nonce = random_bytes(&mut ctx.rng, rfc::nonce_size(aead));
            let params = S2kParams::Aead { sym_alg: SymmetricKeyAlgorithm::from(sym), aead_mode: AeadAlgorithm::from(aead), s2k: to_rpgp(&spec), nonce: nonce.clone().into() };
            let real = key.lock(&pw, params.clone());
            ctx.stat(&format!("seckey.aead:v{ver}:tag{tag}:{}", if real.is_ok() { "ok" } else { "refused" }));
            let args = format!("sym={sym} aead={aead} {} pw={} nonce={} tag={tag} ver={ver} pub={} raw={}", spec_args(&spec), hx(&pw), hx(&nonce), hx(&pubb), hx(&raw));
            let want = rfc::seckey_aead(sym, aead, &spec, &pw, &nonce, tag, ver, &pubb, &raw);
            if let Ok(b) = &real {
                ctx.oracle("seckey_aead_rfc_bytes", "PlainSecretParams::encrypt (S2kParams::Aead) / s2k_usage_aead", &args, want.as_ref().ok() == Some(b), &hx(b));
            } else if real.as_ref().err().is_some_and(|e| e.starts_with("panic")) {
                ctx.oracle("seckey_no_panic", "PlainSecretParams::encrypt", &args, false, "panic");
            }
            // the reader takes Argon2 and iterated+salted only (and no weak hash for v6)
            let reader_takes = matches!(spec, rfc::S2k::Argon2 { .. } | rfc::S2k::Iterated { .. }) && !(ver == 6 && matches!(spec, rfc::S2k::Iterated { hash: 2, .. }));
            if let Ok(w) = &want {
                let got = key.unlock_with(&pw, params.clone(), w);
                let ok = if reader_takes { got.as_ref().ok() == Some(&raw) } else { got.is_err() };
                ctx.oracle("seckey_aead_rfc_blob_unlocks", "EncryptedSecretParams::unlock (Aead)", &args, ok, &format!("{:?}", got.as_ref().map(|v| v.len())));
            }
            jobs.push(job(format!("seckey.aead enc=1 {args}"), move |ctx, req, ans, _| {
                ctx.case(req.to_string(), plan_answer(ans, &real.clone().map(|b| vec![b])).0);
            }));
            if reader_takes {
                let keys2 = keys.clone();
                let (pw2, raw2) = (pw.clone(), raw.clone());
                jobs.push(job(format!("seckey.aead enc=0 {args}"), move |ctx, req, ans, _| {
                    let (imp, val) = plan_answer(ans, &Ok(vec![]));
                    match val {
                        Some(v) => {
                            let got = keys2[ki].unlock_with(&pw2, params, &v);
                            let ok = got.as_ref().ok() == Some(&raw2);
                            ctx.case(req.to_string(), if ok { ans.to_string() } else { format!("impl-read:{got:?}").replace(' ', "_").chars().take(200).collect() });
                        }
                        None => ctx.case(req.to_string(), imp),
                    }
                }));
            }
        }
    }
    run_jobs(ctx, model, jobs);
}
