import RpgpModel.Plan
import RpgpModel.Gen.Constants
/-!
# S2k — string-to-key derivation (`src/types/s2k.rs`)

* `decodeCount`   the nested `decode_count` of `StringToKey::derive_key`
* `iterLoop`      the `IteratedAndSalted` arm: the loop that feeds `salt`, `passphrase` to the hasher
* `rounds`        `(key_size as f32 / digest_size as f32).ceil() as usize`
* `deriveHashed`  the `for round in 0..rounds` loop (zero-octet preloading, per-round slice of the key)
* `derive`        `StringToKey::derive_key` (Simple / Salted / IteratedAndSalted / Argon2)
* `specBytes`     `impl Serialize for StringToKey`
* `plan`          the same derivation as a `PExpr` (what the driver prints)

Numeric literals come from `Gen` (re-extracted from the source on every run).
-/
namespace Rpgp.Sym
open Rpgp

/-- SHA-1 (MDC, secret-key checksum): OpenPGP hash id 2 -/
def sha1Id : Nat := 2
/-- SHA-256 (HKDF of SEIPDv2 / SKESK v6 / secret keys / X25519): OpenPGP hash id 8 -/
def sha256Id : Nat := 8
/-- SHA-512 (HKDF of X448): OpenPGP hash id 10 -/
def sha512Id : Nat := 10

end Rpgp.Sym

namespace Rpgp.Sym.S2k
open Rpgp Rpgp.Sym

/-- `HashAlgorithm::digest_size` — output sizes of the RustCrypto digests behind the ids
(`None` for ids without an implementation). -/
def digestSize (alg : Nat) : Option Nat :=
  if alg = 1 then some 16        -- MD5
  else if alg = 2 then some 20   -- SHA-1
  else if alg = 3 then some 20   -- RIPEMD-160
  else if alg = 8 then some 32   -- SHA-256
  else if alg = 9 then some 48   -- SHA-384
  else if alg = 10 then some 64  -- SHA-512
  else if alg = 11 then some 28  -- SHA-224
  else if alg = 12 then some 32  -- SHA3-256
  else if alg = 14 then some 64  -- SHA3-512
  else none

/-- `decode_count(coded_count: u8)`:
`((16u32 + u32::from(coded_count & 15)) << (u32::from(coded_count >> 4) + EXPBIAS)) as usize` -/
def decodeCount (c : Nat) : Nat :=
  (Gen.s2kCountBase + (c &&& Gen.s2kCountMask)) <<< ((c >>> Gen.s2kCountShift) + Gen.s2kExpbias)

/-- the `IteratedAndSalted` arm after `count` has been raised to at least `data_size`:
```
while count > data_size { update(salt); update(passphrase); count -= data_size; }
if count < salt.len() { update(&salt[..count]) }
else { update(salt); count -= salt.len(); update(&passphrase[..count]) }
```
(`salt` is `[u8; 8]` in rpgp, so `data_size > 0`; for an empty `salt ++ pw` the Rust loop would not
terminate — the model stops, and every statement about it assumes a non-empty unit.) -/
def iterLoop (salt pw : Bytes) (count : Nat) : Bytes :=
  if _h : count > salt.length + pw.length ∧ 0 < salt.length + pw.length then
    salt ++ pw ++ iterLoop salt pw (count - (salt.length + pw.length))
  else if count < salt.length then salt.take count
  else salt ++ pw.take (count - salt.length)
termination_by count
decreasing_by omega

/-- the byte stream one round hashes after the zero prefix, `IteratedAndSalted`:
`count = decode_count(c); if count < data_size { count = data_size }` then the loop -/
def iterStream (salt pw : Bytes) (c : Nat) : Bytes :=
  iterLoop salt pw (max (decodeCount c) (salt.length + pw.length))

/-- `(key_size as f32 / digest_size as f32).ceil() as usize`.  For the sizes that occur
(`key_size`, `digest_size` < 2²⁴) the `f32` quotient is either an exact integer or further than
one ulp from an integer, so the rounded-up value is the integer ceiling. -/
def rounds (ks d : Nat) : Nat := (ks + d - 1) / d

/-- the `for round in 0..rounds` loop: round `r` hashes `r` zero octets followed by `body`, and
contributes `hash[..end - start]` with `start = r*d`, `end = key_size` in the last round and
`(r+1)*d` otherwise -/
def deriveHashed (P : Prims) (alg d : Nat) (body : Bytes) (ks : Nat) : Bytes :=
  (List.range (rounds ks d)).flatMap fun r =>
    let stop := if r = rounds ks d - 1 then ks else (r + 1) * d
    (P.hash alg (List.replicate r 0 ++ body)).take (stop - r * d)

inductive Spec where
  | simple (hash : Nat)
  | salted (hash : Nat) (salt : Bytes)
  | iterated (hash : Nat) (salt : Bytes) (count : Nat)
  | argon2 (salt : Bytes) (t p m : Nat)
deriving Repr, DecidableEq

def Spec.hashAlg : Spec → Option Nat
  | .simple h => some h
  | .salted h _ => some h
  | .iterated h _ _ => some h
  | .argon2 .. => none

/-- what one round feeds to the hasher after the zero prefix -/
def Spec.body : Spec → Bytes → Bytes
  | .simple _, pw => pw
  | .salted _ salt, pw => salt ++ pw
  | .iterated _ salt c, pw => iterStream salt pw c
  | .argon2 .., _ => []

/-- `(*p as f32).log2().ceil() as u8` for a `u8` argument (the cast saturates `-inf` to 0):
the least `k` with `p ≤ 2^k` -/
def ceilLog2 (p : Nat) : Nat :=
  if p ≤ 1 then 0 else if p ≤ 2 then 1 else if p ≤ 4 then 2 else if p ≤ 8 then 3
  else if p ≤ 16 then 4 else if p ≤ 32 then 5 else if p ≤ 64 then 6 else if p ≤ 128 then 7 else 8

/-- the `ensure!`s of the Argon2 arm of `derive_key` -/
def argon2Admitted (t p m : Nat) : Bool :=
  t ≤ Gen.argon2MaxT && p ≤ Gen.argon2MaxP && ceilLog2 p ≤ m && m ≤ Gen.argon2MaxMEnc &&
    2 ^ m ≤ Gen.argon2MemLimitKib

/-- documented contract of `argon2::Params::new(m, t, p, Some(len))` (crate `argon2` 0.5):
`m ≥ 8`, `m ≥ 8·p`, `t ≥ 1`, `p ≥ 1`, `4 ≤ len` -/
def argon2CrateAccepts (t p mKib len : Nat) : Bool :=
  8 ≤ mKib && 8 * p ≤ mKib && 1 ≤ t && 1 ≤ p && 4 ≤ len

/-- `StringToKey::derive_key(passphrase, key_size)`; `none` = `Err` -/
def derive (P : Prims) (s : Spec) (pw : Bytes) (ks : Nat) : Option Bytes :=
  match s with
  | .argon2 salt t p m =>
    if argon2Admitted t p m && argon2CrateAccepts t p (2 ^ m) ks then
      some (P.argon2 pw salt t p (2 ^ m) ks)
    else none
  | _ =>
    match s.hashAlg with
    | none => none
    | some alg =>
      match digestSize alg with
      | none => none
      | some d => some (deriveHashed P alg d (s.body pw) ks)

/-- `impl Serialize for StringToKey` -/
def specBytes : Spec → Bytes
  | .simple h => [Gen.s2kIdSimple.toUInt8, h.toUInt8]
  | .salted h salt => [Gen.s2kIdSalted.toUInt8, h.toUInt8] ++ salt
  | .iterated h salt c => [Gen.s2kIdIterated.toUInt8, h.toUInt8] ++ salt ++ [c.toUInt8]
  | .argon2 salt t p m => [Gen.s2kIdArgon2.toUInt8] ++ salt ++ [t.toUInt8, p.toUInt8, m.toUInt8]

/-- `StringToKey::uses_salt` -/
def Spec.usesSalt : Spec → Bool
  | .simple _ => false
  | _ => true

/-- `StringToKey::known_weak_hash_algo` (MD5, SHA-1, RIPEMD-160) -/
def Spec.weakHash (s : Spec) : Bool :=
  match s.hashAlg with
  | some h => h = 1 || h = 2 || h = 3
  | none => false

def Spec.isArgon2 : Spec → Bool
  | .argon2 .. => true
  | _ => false

/-! ## plans -/

/-- compressed form of the iterated stream: `q` whole copies of `salt ++ pw`, then `rem` bytes of
one more copy, where `n = max (decodeCount c) |salt ++ pw|`, `q = (n-1) / |unit|`, `rem = n - q·|unit|` -/
def iterPlan (salt pw : Bytes) (c : Nat) : PExpr :=
  let u := salt ++ pw
  let n := max (decodeCount c) u.length
  let q := (n - 1) / u.length
  .cat (.rep q (.lit u)) (.lit (u.take (n - q * u.length)))

def Spec.bodyPlan : Spec → Bytes → PExpr
  | .simple _, pw => .lit pw
  | .salted _ salt, pw => .lit (salt ++ pw)
  | .iterated _ salt c, pw => iterPlan salt pw c
  | .argon2 .., _ => .lit []

def hashedPlan (alg d : Nat) (body : PExpr) (ks : Nat) : PExpr :=
  PExpr.catL ((List.range (rounds ks d)).map fun r =>
    let stop := if r = rounds ks d - 1 then ks else (r + 1) * d
    .take (stop - r * d) (.hash alg (.cat (.zeros r) body)))

/-- plan of `derive_key`; `none` where `derive` is `none` -/
def plan (s : Spec) (pw : Bytes) (ks : Nat) : Option PExpr :=
  match s with
  | .argon2 salt t p m =>
    if argon2Admitted t p m && argon2CrateAccepts t p (2 ^ m) ks then
      some (.argon2 (.lit pw) (.lit salt) t p (2 ^ m) ks)
    else none
  | _ =>
    match s.hashAlg with
    | none => none
    | some alg =>
      match digestSize alg with
      | none => none
      | some d => some (hashedPlan alg d (s.bodyPlan pw) ks)

end Rpgp.Sym.S2k
