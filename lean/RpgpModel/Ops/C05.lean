import RpgpModel.Proto
import RpgpModel.Wire
/-!
Driver ops of C05 (wire fidelity).

* `c05_pkt data=<bytes> [av=1]`   one packet through `packetParse`, then `packetSer`,
                              `bodyWriteLen`, `packetWriteLen`
* `c05_mpi data=<bytes>`          `mpiParse` / `mpiSer` / `mpiWriteLen`
* `c05_s2k data=<bytes>`          `s2kParse` / `s2kSer` / `s2kWriteLen`
* `c05_sigmut data=<packet> op=ins|rm idx=<n> [sp=<subpacket bytes>]`   unhashed-area mutation
* `c05_keymut data=<packet> sec=<secret section bytes> [sec2=<…>] [av=1]`   lock [then unlock]

`<bytes>`: `+`-separated parts, each lowercase hex or `p<seed>x<len>` (test pattern); `-` = empty.
-/
namespace Rpgp.Ops.C05
open Rpgp Rpgp.Wire

def part (s : String) : Option Bytes :=
  if s.startsWith "p" then
    match (s.drop 1).toString.splitOn "x" with
    | [a, b] => do pure (pattern (← a.toNat?) (← b.toNat?))
    | _ => none
  else fromHex s

def extBytes (a : Args) (k : String) : Option Bytes := do
  let v ← a.get? k
  if v = "-" then pure []
  else
    let ps ← (v.splitOn "+").mapM part
    pure ps.flatten

def showCk (b : Bytes) : String :=
  let (n, x, y) := cksum b
  s!"{n}.{x}.{y}"

/-- short byte strings in hex, long ones as a digest -/
def showBytes (b : Bytes) : String :=
  if b.length ≤ 40 then hexOrDash b else "#" ++ showCk b

def sigKind : SigBytes → String
  | .mpis ms => s!"m{ms.length}"
  | .native b => s!"n{b.length}"

def summary : Body → String
  | .sig (.v3 ver _ _ _ _ _ _ sb) => s!"s{ver.toNat}.{sigKind sb}"
  | .sig (.v4 v6 _ _ _ h u _ _ sb) => s!"s{if v6 then 6 else 4}.{h.length}.{u.length}.{sigKind sb}"
  | .sig (.unknown ver _) => s!"su{ver.toNat}"
  | .ops (.v3 ..) => "o3"
  | .ops (.v6 ..) => "o6"
  | .ops (.unknown ver ..) => s!"ou{ver.toNat}"
  | .pkesk (.v3 _ alg _) => s!"k3.{alg.toNat}"
  | .pkesk (.v6 _ alg _) => s!"k6.{alg.toNat}"
  | .pkesk (.other ver _) => s!"ko{ver.toNat}"
  | .skesk (.v4 ..) => "y4"
  | .skesk (.v5 ..) => "y5"
  | .skesk (.v6 ..) => "y6"
  | .skesk (.other ver _) => s!"yo{ver.toNat}"
  | .pubKey k => s!"p{k.version.toNat}.{k.alg.toNat}"
  | .secKey k s =>
    let d := match s.params with
      | .unprotected => "p"
      | _ => s!"{s.data.length}"
    s!"x{k.version.toNat}.{k.alg.toNat}.{(usageOctet s.params).toNat}.{d}"
  | .literal l => s!"l{l.name.length}.{l.data.length}"
  | .seipd (.v1 _) => "e1"
  | .seipd (.v2 ..) => "e2"
  | .compressed _ d => s!"c{d.length}"
  | .marker => "m"
  | .trust => "t"
  | .raw d => s!"q{d.length}"
  | .mdc _ => "d"

def showPacket (p : Packet) (restLen : Nat) (input : Bytes) : String :=
  let ser := packetSer p
  let s := match ser with
    | some b => showBytes b
    | none => "wfail"
  let same := match ser with
    | some b => if b = input.take (input.length - restLen) then "1" else "0"
    | none => "0"
  s!"ok:{p.hdr.tag}:{summary p.body}:{s}:{bodyWriteLen p.body}:{packetWriteLen p}:{restLen}:{same}"

def showPErr : PErr → String
  | .eof => "none"
  | .bad => "err"
  | .unmodelled => "unmodelled"

def trustOf (a : Args) : Bool := a.get? "av" == some "1"

def handlePkt (a : Args) : Option String := do
  let d ← extBytes a "data"
  match packetParse (trustOf a) d with
  | .error e => pure (showPErr e)
  | .ok (p, rest) => pure (showPacket p rest.length d)

def handleSigmut (a : Args) : Option String := do
  let d ← extBytes a "data"
  let op ← a.get? "op"
  let idx ← a.nat "idx"
  match packetParse false d with
  | .error e => pure (showPErr e)
  | .ok (p, rest) =>
    let q ←
      if op = "ins" then do
        let spb ← extBytes a "sp"
        match subParse (embFor spb) spb with
        | some (sp, _) => pure (sigInsertUnhashed p idx sp)
        | none => none
      else pure (sigRemoveUnhashed p idx)
    match q with
    | none => pure "err"
    | some q => pure (showPacket q rest.length [])

def handleKeymut (a : Args) : Option String := do
  let d ← extBytes a "data"
  let sec ← extBytes a "sec"
  -- optional second replacement (lock, then unlock) applied to the same object
  let sec2 : Option Bytes := extBytes a "sec2"
  match packetParse (trustOf a) d with
  | .error e => pure (showPErr e)
  | .ok (p, rest) =>
    match p.body with
    | .secKey k _ =>
      match secretParseChecked (isV6 k.version) sec with
      | none => pure "err"
      | some s =>
        match keyReplaceSecret p s with
        | none => pure "err"
        | some q =>
          match sec2 with
          | none => pure (showPacket q rest.length [])
          | some b2 =>
            match secretParseChecked (isV6 k.version) b2 with
            | none => pure "err"
            | some s2 =>
              match keyReplaceSecret q s2 with
              | some q2 => pure (showPacket q2 rest.length [])
              | none => pure "err"
    | _ => pure "err"

def handle (op : String) (a : Args) : Option String :=
  match op with
  | "c05_pkt" => handlePkt a
  | "c05_sigmut" => handleSigmut a
  | "c05_keymut" => handleKeymut a
  | "c05_mpi" => do
    let d ← extBytes a "data"
    match mpiParse d with
    | none => pure "err"
    | some (m, r) => pure s!"ok:{showBytes m}:{r.length}:{showBytes (mpiSer m)}:{mpiWriteLen m}"
  | "c05_s2k" => do
    let d ← extBytes a "data"
    match s2kParse d with
    | none => pure "err"
    | some (s, r) => pure s!"ok:{showBytes (s2kSer s)}:{r.length}:{s2kWriteLen s}"
  | _ => none

end Rpgp.Ops.C05
