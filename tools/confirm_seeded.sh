#!/bin/bash
# confirm_seeded.sh <prop-lower> <n>: confirm a seeded change from /tmp/mut/<id>/deliver/<n> in a scratch worktree:
# suite passes with the patch, demo fails with it and passes without it. Writes /tmp/confirm/<id>_<n>.result
ID=$1; N=$2; D=/tmp/mut/$ID/deliver/$N; WT=/tmp/confirm/wt_${ID}_$N; OUT=/tmp/confirm/${ID}_$N.result
mkdir -p /tmp/confirm; rm -f $OUT
git -C /repo worktree remove --force $WT 2>/dev/null; rm -rf $WT
git -C /repo worktree add -q --detach $WT HEAD || { echo "worktree failed" > $OUT; exit 1; }
cd $WT
export CARGO_NET_OFFLINE=true CARGO_TARGET_DIR=/tmp/confirm/target
if ! git apply --check $D/patch.diff 2>/dev/null; then echo "patch_applies=no (tree moved on?)" >> $OUT; git apply --3way $D/patch.diff >> $OUT 2>&1 || { echo "RESULT=patch-does-not-apply" >> $OUT; cd /; git -C /repo worktree remove --force $WT; exit 0; }; else git apply $D/patch.diff; fi
echo "patch applied" >> $OUT
# 1. full suite with the patch (demo not yet present)
cargo nextest run --workspace --no-fail-fast --test-threads 10 --offline > /tmp/confirm/${ID}_$N.suite.log 2>&1
echo "suite_with_patch_rc=$? $(grep -E 'Summary' /tmp/confirm/${ID}_$N.suite.log | tail -1)" >> $OUT
# 2. demo with the patch
cp $D/demo.rs tests/verif_demo_${ID}_$N.rs
cargo test --offline --test verif_demo_${ID}_$N > /tmp/confirm/${ID}_$N.demo_with.log 2>&1
echo "demo_with_patch_rc=$?" >> $OUT
# 3. demo without the patch
git checkout -q -- src
cargo test --offline --test verif_demo_${ID}_$N > /tmp/confirm/${ID}_$N.demo_without.log 2>&1
echo "demo_without_patch_rc=$?" >> $OUT
cd /; git -C /repo worktree remove --force $WT
echo "done" >> $OUT
