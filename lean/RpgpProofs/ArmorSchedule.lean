import RpgpProofs.ArmorVariants
/-!
# Source schedules: armor without header lines is read the same under *every* chunking
-/
namespace Rpgp.Armor

def PR.isInc {α : Type} : PR α → Bool
  | .inc => true
  | _ => false

theorem PR.eq_inc_of_isInc {α : Type} (p : PR α) (h : p.isInc = true) : p = .inc := by
  cases p <;> simp [PR.isInc] at h ⊢

/-- the block types with a fixed name (all but the multi-part and cleartext ones) -/
def simpleTypes : List BlockType :=
  [.publicKey, .privateKey, .message, .signature, .file, .pubPkcs1 .rsa, .pubPkcs1 .dsa, .pubPkcs1 .ec,
   .pubPkcs8, .pubOpenssh, .privPkcs1 .rsa, .privPkcs1 .dsa, .privPkcs1 .ec, .privPkcs8, .privOpenssh]

/-- the header section written for an empty header map -/
def bareHead (t : BlockType) : Bytes := headText [] [LF] [] t []

/-- on every proper prefix of the header section the streaming header parser answers `Incomplete`
(checked by evaluation for each of the 15 fixed names and every prefix length) -/
theorem headerParser_prefix_inc :
    ∀ t ∈ simpleTypes, ∀ k, k < (bareHead t).length → (headerParser ((bareHead t).take k)).isInc = true := by
  decide +kernel

theorem simpleTypes_ok : ∀ t ∈ simpleTypes, typeOk t = true := by decide

/-- `read_from_buf(header_parser)` over any sequence of views of `bareHead t ++ X` -/
theorem readFromBuf_bareHead (t : BlockType) (ht : t ∈ simpleTypes) (X : Bytes) :
    ∀ (chunks : List Bytes) (acc : Bytes), acc.length < (bareHead t).length →
      acc ++ chunks.flatten = bareHead t ++ X →
      readFromBuf headerParser acc chunks = .ok ((t, [], false), X) := by
  intro chunks
  induction chunks with
  | nil =>
    intro acc hlt hflat
    simp only [List.flatten_nil, List.append_nil] at hflat
    rw [hflat] at hlt
    simp at hlt
    omega
  | cons c cs ih =>
    intro acc hlt hflat
    by_cases hc : c = []
    · subst hc
      simp only [readFromBuf, List.isEmpty_nil, if_true]
      exact ih acc hlt (by simpa using hflat)
    · have hne : c.isEmpty = false := by simpa using hc
      have hflat' : (acc ++ c) ++ cs.flatten = bareHead t ++ X := by simpa [List.append_assoc] using hflat
      simp only [readFromBuf, hne]
      by_cases hshort : (acc ++ c).length < (bareHead t).length
      · -- still inside the header section
        have hpre : acc ++ c = (bareHead t).take (acc ++ c).length := by
          have h1 : (acc ++ c) = ((acc ++ c) ++ cs.flatten).take (acc ++ c).length := (List.take_left' rfl).symm
          rw [hflat'] at h1
          rw [List.take_append_of_le_length (by omega)] at h1
          exact h1
        have hinc := PR.eq_inc_of_isInc _ (headerParser_prefix_inc t ht (acc ++ c).length hshort)
        rw [← hpre] at hinc
        simp only [hinc, Bool.false_eq_true, if_false]
        exact ih (acc ++ c) hshort hflat'
      · -- the header section is complete
        have hle : (bareHead t).length ≤ (acc ++ c).length := by omega
        have hsplit : acc ++ c = bareHead t ++ (acc ++ c).drop (bareHead t).length := by
          have h1 : (acc ++ c).take (bareHead t).length = bareHead t := by
            have : ((acc ++ c) ++ cs.flatten).take (bareHead t).length = bareHead t := by
              rw [hflat']; exact List.take_left' rfl
            rwa [List.take_append_of_le_length hle] at this
          conv => lhs; rw [← List.take_append_drop (bareHead t).length (acc ++ c)]
          rw [h1]
        have hX1 : (acc ++ c).drop (bareHead t).length ++ cs.flatten = X := by
          have := hflat'
          rw [hsplit, List.append_assoc] at this
          exact List.append_cancel_left this
        have hp := headerParser_headText [] [LF] [] t [] ((acc ++ c).drop (bareHead t).length) (by simp) (Or.inl rfl) (by simp)
          (simpleTypes_ok t ht) (by decide)
        rw [hsplit]
        simp only [bareHead] at hp ⊢
        rw [hp]
        have hlen : ¬ (c.length < ((acc ++ c).drop (headText [] [LF] [] t []).length).length) := by
          simp only [List.length_drop, List.length_append]
          simp only [bareHead] at hlt
          omega
        simp only [hlen, decide_false, Bool.and_false, Bool.false_eq_true, if_false]
        simp only [bareHead] at hX1
        rw [hX1]
        rfl

/-- after the header stage everything is a function of the remaining bytes -/
theorem dearmor_of_header (crcCheck : Bool) (chunks : List Bytes) (t : BlockType) (h : Headers) (lead : Bool)
    (d B : Bytes) (ck : Option Nat) (les : List Bytes) (tail : Bytes)
    (hrb : readFromBuf headerParser [] chunks = .ok ((t, h, lead), restText B ck les t tail))
    (ht : typeOk t = true) (hB : BodyText B (b64enc d))
    (hck : ∀ c, ck = some c → c < 16777216) (hles : ∀ le ∈ les, IsNl le) :
    dearmor crcCheck chunks = dearmorResult crcCheck t h d ck := by
  have := dearmor_rest crcCheck t h d B ck les tail ht hB hck hles
  simp only [dearmor, hrb]
  exact this

/-- **every source schedule** for armor written without header lines: however the bytes of
`armor::write`'s output are split into `fill_buf` views (one byte at a time, inside the BEGIN line,
inside the checksum, …), `Dearmor` returns the same result -/
theorem dearmor_any_chunking_bare (crcCheck : Bool) (t : BlockType) (ht : t ∈ simpleTypes) (d : Bytes)
    (checksum : Bool) (chunks : List Bytes) (hflat : chunks.flatten = armorWrite t [] d checksum) :
    dearmor crcCheck chunks = dearmorResult crcCheck t [] d (writtenCrc d checksum) := by
  have hrb := readFromBuf_bareHead t ht _ chunks []
    (by simp [bareHead, headText, DASH5])
    (by rw [List.nil_append, hflat, armorWrite_eq]; rfl)
  exact dearmor_of_header crcCheck chunks t [] false d (armorBody d) (writtenCrc d checksum) [[LF]] [LF] hrb
    (simpleTypes_ok t ht) (armorBody_bodyText d) (writtenCrc_lt d checksum) (by simp [IsNl])

end Rpgp.Armor
