import RpgpProofs.Framing
/-!
# C17 — packet framing: the reader accepts every legal framing, the writer emits only legal ones

Model: `RpgpModel/Framing.lean`.  Thresholds are re-extracted from the source on every run
(`RpgpModel/Gen/Constants.lean`), one definition per use site; the `sites_agree_*` theorems
tie the several copies of the same codec in the source to each other and to RFC 9580 §4.2.
-/
namespace Rpgp.C17
open Rpgp

/-! ## the constants are the RFC's and all use sites agree -/

theorem reader_ranges_rfc :
    Gen.rdOneOctetMax = 191 ∧ Gen.rdTwoOctetMin = 192 ∧ Gen.rdTwoOctetMax = 223 ∧
    Gen.rdTwoOctetSub = 192 ∧ Gen.rdTwoOctetShift = 8 ∧ Gen.rdTwoOctetAdd = 192 ∧
    Gen.rdPartialMin = 224 ∧ Gen.rdPartialMax = 254 ∧ Gen.rdPartialMask = 31 ∧
    Gen.rdFiveOctetMarker = 255 := by decide

theorem sites_agree_new :
    Gen.wrNewOneOctetLimit = 192 ∧ Gen.wrNewTwoOctetLimit = 8384 ∧
    Gen.whNewOneOctetLimit = Gen.wrNewOneOctetLimit ∧ Gen.whNewTwoOctetLimit = Gen.wrNewTwoOctetLimit ∧
    Gen.hlNewOneOctetLimit = Gen.wrNewOneOctetLimit ∧ Gen.hlNewTwoOctetLimit = Gen.wrNewTwoOctetLimit ∧
    Gen.felOneOctetLimit = Gen.wrNewOneOctetLimit ∧ Gen.felTwoOctetLimit = Gen.wrNewTwoOctetLimit ∧
    Gen.phwNewOneOctetLimit = Gen.wrNewOneOctetLimit ∧ Gen.phwNewTwoOctetLimit = Gen.wrNewTwoOctetLimit ∧
    Gen.wrPartialBase = Gen.rdPartialMin := by decide

theorem sites_agree_old :
    Gen.whOldOneOctetLimit = 256 ∧ Gen.whOldTwoOctetLimit = 65536 ∧
    Gen.hlOldOneOctetLimit = Gen.whOldOneOctetLimit ∧ Gen.hlOldTwoOctetLimit = Gen.whOldTwoOctetLimit ∧
    -- `PacketHeader::to_writer` writes as many length octets as the length TYPE in the header octet
    -- announces (1, 2, 4 for types 0, 1, 2: RFC 9580 4.2.2), and `write_len` counts the same
    Gen.phtOldType0Octets = 1 ∧ Gen.phtOldType1Octets = 2 ∧ Gen.phtOldType2Octets = 4 ∧
    Gen.phwOldType0Len = 1 + Gen.phtOldType0Octets ∧ Gen.phwOldType1Len = 1 + Gen.phtOldType1Octets ∧
    Gen.phwOldType2Len = 1 + Gen.phtOldType2Octets ∧
    -- the length type chosen by `old_fixed_type` for a new header can hold the length, and switches
    -- where `write_header` switches
    Gen.oftOneOctetLimit = 256 ^ Gen.phtOldType0Octets ∧ Gen.oftTwoOctetLimit = 256 ^ Gen.phtOldType1Octets ∧
    Gen.oftOneOctetLimit = Gen.whOldOneOctetLimit ∧ Gen.oftTwoOctetLimit = Gen.whOldTwoOctetLimit := by
  decide

theorem partial_limits_rfc :
    Gen.rdFirstPartialMin = 512 ∧ Gen.maxPartialLenLog2 = 30 ∧
    Gen.rdFirstPartialMin ≤ Gen.litPartialMinChunk ∧ Gen.rdFirstPartialMin ≤ Gen.cmpPartialMinChunk := by
  decide

/-! ## codecs -/

/-- new-format length codec round trip for every length below 2³² and any following bytes -/
theorem newlen_roundtrip (n : Nat) (h : n < 4294967296) (rest : Bytes) :
    decodeNewLen (encodeNewLen n ++ rest) = some (Len.fixed n, rest) :=
  decodeNewLen_encodeNewLen n h rest

/-- the two writers of the new-format length in the source are the same function -/
theorem newlen_writers_agree (n : Nat) : encodeNewLenHdr n = encodeNewLen n := encodeNewLenHdr_eq n

/-- partial-length octet `224+k` ↔ `2^k`, `k ≤ 30` -/
theorem partial_code (k : Nat) (hk : k ≤ 30) (r : Bytes) :
    decodeNewLen (partialOctet k :: r) = some (Len.part (2 ^ k), r) :=
  decodeNewLen_partialOctet k hk r

/-- … and nothing else decodes to a partial length -/
theorem partial_code_only (o : Byte) (r : Bytes) (n : Nat) (r' : Bytes)
    (h : decodeNewLen (o :: r) = some (Len.part n, r')) : ∃ k, k ≤ 30 ∧ n = 2 ^ k ∧ r' = r :=
  decodeNewLen_partial_range o r n r' h

/-- headers written by `write_header` (either format, every tag the format can carry, every
length below 2³²) parse back to the same tag and length -/
theorem header_roundtrip (newFormat : Bool) (tag n : Nat)
    (ht : if newFormat then tag < 64 else tag < 16) (hn : n < 4294967296) (rest : Bytes) :
    parseHeader (writeHeader newFormat tag n ++ rest) =
      .ok ({ newFormat := newFormat, tag := tag, len := .fixed n }, rest) := by
  cases newFormat
  · exact parseHeader_writeHeader_old tag n (by simpa using ht) hn rest
  · exact parseHeader_writeHeader_new tag n (by simpa using ht) hn rest

/-! ## the reader accepts every legal framing and returns the same body -/

/-- fixed length, legacy or current header format -/
theorem deframe_fixed_any_format (newFormat : Bool) (tag : Nat)
    (ht : if newFormat then tag < 64 else tag < 16) (body rest : Bytes) (hb : body.length < 4294967296) :
    deframe (writeHeader newFormat tag body.length ++ body ++ rest) =
      .ok ({ newFormat := newFormat, tag := tag, len := .fixed body.length }, body, rest) :=
  Rpgp.deframe_fixed newFormat tag ht body rest hb

/-- … and in *any* admissible length form, minimal or not (new: 1/2/5 octets, old: 1/2/4) -/
theorem deframe_fixed_any_length_form (newFormat : Bool) (tag form : Nat)
    (ht : if newFormat then tag < 64 else tag < 16) (body s rest : Bytes)
    (hs : frameFixedAs newFormat tag form body = some s) :
    deframe (s ++ rest) =
      .ok ({ newFormat := newFormat, tag := tag, len := .fixed body.length }, body, rest) :=
  deframe_frameFixedAs newFormat tag form ht body s rest hs

/-- indeterminate length (legacy format): the body is the rest of the input -/
theorem deframe_indeterminate (tag : Nat) (ht : tag < 16) (body : Bytes) :
    deframe ((128 + tag * 4 + 3).toUInt8 :: body) =
      .ok ({ newFormat := false, tag := tag, len := .indet }, body, []) :=
  Rpgp.deframe_indeterminate tag ht body

/-- **any** split of a data packet into partial-body chunks — arbitrary sequence of powers of two
up to 2³⁰, the first at least 512, final fixed chunk possibly empty — is read back as the body -/
theorem deframe_any_legal (tag k : Nat) (ks : List Nat) (body s rest : Bytes)
    (hs : framePartial tag (k :: ks) body = some s)
    (hallow : partialAllowed tag = true) (hfirst : 9 ≤ k)
    (hk : ∀ x ∈ k :: ks, x ≤ 30) (hb : body.length < 4294967296) :
    deframe (s ++ rest) = .ok ({ newFormat := true, tag := tag, len := .part (2 ^ k) }, body, rest) :=
  deframe_partial tag k ks body s rest hs hallow hfirst hk hb

/-- hence two legal framings of the same body are read as the same value -/
theorem framing_irrelevant (tag k k' : Nat) (ks ks' : List Nat) (body s s' rest : Bytes)
    (hs : framePartial tag (k :: ks) body = some s) (hs' : framePartial tag (k' :: ks') body = some s')
    (hallow : partialAllowed tag = true) (h9 : 9 ≤ k) (h9' : 9 ≤ k')
    (hk : ∀ x ∈ k :: ks, x ≤ 30) (hk' : ∀ x ∈ k' :: ks', x ≤ 30) (hb : body.length < 4294967296) :
    (deframe (s ++ rest)).map (fun r => (r.2.1, r.2.2)) = (deframe (s' ++ rest)).map (fun r => (r.2.1, r.2.2)) ∧
    (deframe (s ++ rest)).map (fun r => r.2.1) =
      (deframe (writeHeader true tag body.length ++ body ++ rest)).map (fun r => r.2.1) := by
  rw [deframe_any_legal tag k ks body s rest hs hallow h9 hk hb,
    deframe_any_legal tag k' ks' body s' rest hs' hallow h9' hk' hb,
    deframe_fixed_any_format true tag (by simpa using partialAllowed_lt tag hallow) body rest hb]
  exact ⟨rfl, rfl⟩

/-! ## illegal framings are rejected, never mis-split -/

theorem rejects_partial_on_non_data_tag (tag : Nat) (ht : tag < 64) (hna : partialAllowed tag = false)
    (k : Nat) (hk : k ≤ 30) (r : Bytes) :
    deframe ((192 + tag).toUInt8 :: partialOctet k :: r) = .error .bad :=
  deframe_rejects_partial_tag tag ht hna k hk r

theorem rejects_first_chunk_under_512 (tag : Nat) (ht : tag < 64) (k : Nat) (hk : k < 9) (r : Bytes) :
    deframe ((192 + tag).toUInt8 :: partialOctet k :: r) = .error .bad :=
  deframe_rejects_short_first tag ht k hk r

theorem rejects_body_shorter_than_declared (newFormat : Bool) (tag n : Nat)
    (ht : if newFormat then tag < 64 else tag < 16) (hn : n < 4294967296)
    (avail : Bytes) (hshort : avail.length < n) :
    deframe (writeHeader newFormat tag n ++ avail) = .error .bad :=
  deframe_rejects_truncated_fixed newFormat tag n ht hn avail hshort

/-- whenever the continuation reader succeeds, the body is exactly the concatenation of the
declared segments and `rest` is what follows them (no byte invented, dropped or reordered) -/
theorem never_mis_split (fuel : Nat) (inp b rest : Bytes) (h : deframeCont fuel inp = .ok (b, rest)) :
    ContFramed inp b rest ∧ b.length + rest.length < inp.length :=
  ⟨deframeCont_sound fuel inp b rest h, (deframeCont_sound fuel inp b rest h).length_lt⟩

/-! ## every stream the emitters write is legal and is read back -/

/-- the partial-body emitters (`LiteralDataPartialGenerator`, `CompressedDataPartialGenerator`,
`encrypt_write`) only ever use chunks `2^k` (the configured size), and when the data does not
fit a single packet the result is exactly the legal framing `k, k, …, k` + final fixed chunk -/
theorem emit_legal (tag k : Nat) (hdr body : Bytes) (hh : hdr.length ≤ 2 ^ k)
    (hbig : ¬ body.length < 2 ^ k - hdr.length) :
    framePartial tag (k :: List.replicate ((body.length - (2 ^ k - hdr.length)) / 2 ^ k) k) (hdr ++ body)
      = some (emitPartial tag k hdr body) :=
  emitPartial_eq_framePartial tag k hdr body hh hbig

/-- emit → deframe round trip for every payload length, header length and chunk size 2⁹..2³⁰ -/
theorem emit_deframe (tag k : Nat) (hdr body rest : Bytes)
    (hallow : partialAllowed tag = true) (hk9 : 9 ≤ k) (hk30 : k ≤ 30) (hh : hdr.length ≤ 2 ^ k)
    (hb : hdr.length + body.length < 4294967296) :
    ∃ h, deframe (emitPartial tag k hdr body ++ rest) = .ok (h, hdr ++ body, rest) ∧ h.tag = tag :=
  deframe_emitPartial tag k hdr body rest hallow hk9 hk30 hh hb

/-- the fixed-length emitter (`MessageBuilder::from_bytes`, `from_file`: the announced length comes
from the caller / the file's metadata): for EVERY source — also one that yields more or fewer octets
than were announced — a clean end means one legal packet with exactly the source's octets behind
the literal header, "with lengths that match the bytes that follow" (D17c) -/
theorem emit_fixed_legal (lit : Bytes) (n : Nat) (src out rest : Bytes)
    (hn : lit.length + n < 4294967296) (h : fixedGen lit n src = some out) :
    src.length = n ∧
    deframe (out ++ rest) = .ok ({ newFormat := true, tag := 11, len := .fixed (lit ++ src).length }, lit ++ src, rest) :=
  fixedGen_legal lit n src out rest hn h

theorem emit_fixed_prefix_witness :
    fixedGenWith false [98, 0, 0, 0, 0, 0] 0 [1, 2, 3] = some [0xCB, 6, 98, 0, 0, 0, 0, 0, 1, 2, 3] ∧
    fixedGenWith true [98, 0, 0, 0, 0, 0] 0 [1, 2, 3] = none ∧
    fixedGenWith true [98, 0, 0, 0, 0, 0] 3 [1, 2, 3] = some [0xCB, 9, 98, 0, 0, 0, 0, 0, 1, 2, 3] :=
  fixedGen_prefix_witness

/-! ## packet streams: where a packet ends depends on its framing alone -/

/-- a fixed-length framing in any admissible length form is a framing in the sense of `Framed` -/
theorem framed_fixed (newFormat : Bool) (tag form : Nat)
    (ht : if newFormat then tag < 64 else tag < 16) (body s : Bytes)
    (hs : frameFixedAs newFormat tag form body = some s) :
    Framed { newFormat := newFormat, tag := tag, len := .fixed body.length } body s :=
  fun rest => deframe_frameFixedAs newFormat tag form ht body s rest hs

/-- … and so is every legal partial-body framing -/
theorem framed_partial (tag k : Nat) (ks : List Nat) (body s : Bytes)
    (hs : framePartial tag (k :: ks) body = some s)
    (hallow : partialAllowed tag = true) (hfirst : 9 ≤ k)
    (hk : ∀ x ∈ k :: ks, x ≤ 30) (hb : body.length < 4294967296) :
    Framed { newFormat := true, tag := tag, len := .part (2 ^ k) } body s :=
  fun rest => deframe_partial tag k ks body s rest hs hallow hfirst hk hb

/-- **stream split**: a concatenation of any number of framed packets — whatever their tags and
whatever their bodies contain, so in particular packets whose type or content the library refuses —
is split into exactly those packets: nothing of a body is ever taken for a header -/
theorem stream_split (ps : List (Hdr × Bytes × Bytes))
    (hall : ∀ p ∈ ps, Framed p.1 p.2.1 p.2.2) :
    deframeAll (ps.length + 1) (ps.map (·.2.2)).flatten = (ps.map (fun p => (p.1, p.2.1)), none) := by
  have := deframeAll_framed_append ps 1 [] hall
  simpa [deframeAll] using this

/-- … and when something that cannot be read as a packet follows them, the packets in front of it
are still delivered whole and the stream ends with an error, not with a clean end -/
theorem stream_error_after_packets (ps : List (Hdr × Bytes × Bytes))
    (hall : ∀ p ∈ ps, Framed p.1 p.2.1 p.2.2) (x : Byte) (t : Bytes) (e : FrErr)
    (ht : deframe (x :: t) = .error e) :
    deframeAll (ps.length + 1) ((ps.map (·.2.2)).flatten ++ x :: t) =
      (ps.map (fun p => (p.1, p.2.1)), some e) := by
  have := deframeAll_framed_append ps 1 (x :: t) hall
  simpa [deframeAll, ht] using this

/-! ## non-vacuity -/

example : frameFixedAs true 2 5 [9, 9] = some [194, 255, 0, 0, 0, 2, 9, 9] := by decide
example : partialAllowed 11 = true ∧ partialAllowed 2 = false := by decide
example : framePartial 11 [1, 0] [1, 2, 3, 4] = some [203, 225, 1, 2, 224, 3, 1, 4] := by decide
example : decodeNewLen (encodeNewLen 8383 ++ [7]) = some (Len.fixed 8383, [7]) :=
  newlen_roundtrip 8383 (by decide) [7]
example : encodeNewLen 191 = [191] ∧ encodeNewLen 192 = [192, 0] ∧ encodeNewLen 8383 = [223, 255] ∧
    encodeNewLen 8384 = [255, 0, 0, 32, 192] := by decide
example : deframeAll 4 [0xCA, 3, 80, 71, 80, 0xFF, 2, 0xCD, 0xCD, 0xCD, 4, 108, 97, 115, 116] =
    ([({ newFormat := true, tag := 10, len := .fixed 3 }, [80, 71, 80]),
      ({ newFormat := true, tag := 63, len := .fixed 2 }, [0xCD, 0xCD]),
      ({ newFormat := true, tag := 13, len := .fixed 4 }, [108, 97, 115, 116])], none) := by decide

end Rpgp.C17
