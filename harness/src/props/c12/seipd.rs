//! SEIPDv1 (OpenPGP CFB + MDC) and SEIPDv2 (HKDF, chunked AEAD, final tag).

use std::io::Read;

use pgp::crypto::aead::{AeadAlgorithm, ChunkSize, StreamDecryptor as AeadDecryptor};
use pgp::crypto::sym::SymmetricKeyAlgorithm;
use pgp::packet::{SymEncryptedProtectedData, SymEncryptedProtectedDataConfig};
use pgp::types::Seipdv1ReadMode;
use rand::{Rng, SeedableRng};
use rand_chacha::ChaCha8Rng;

use super::{job, par_map, plan_answer, rfc, run_jobs, Job};
use crate::ctx::{guarded, hx, Ctx};
use crate::frame::{cksum, pattern};
use crate::gen::random_bytes;
use crate::plan::{self, Model};

pub const CFB_ALGS: [u8; 11] = [1, 2, 3, 4, 7, 8, 9, 10, 11, 12, 13];

fn drain_loop(mut r: impl Read, sizes: &[usize]) -> std::io::Result<Vec<u8>> {
    let mut out = Vec::new();
    let mut i = 0;
    loop {
        let n = sizes[i % sizes.len()].max(1);
        i += 1;
        let mut buf = vec![0u8; n];
        let k = r.read(&mut buf)?;
        if k == 0 {
            return Ok(out);
        }
        out.extend_from_slice(&buf[..k]);
    }
}

fn v1_decrypt(alg: u8, mode: Seipdv1ReadMode, key: &[u8], ct: &[u8]) -> Result<Vec<u8>, String> {
    let r = guarded(|| {
        let mut d = SymmetricKeyAlgorithm::from(alg).stream_decryptor_protected(mode, key, ct).map_err(|e| format!("err:new:{e}"))?;
        let mut out = Vec::new();
        match d.read_to_end(&mut out) {
            Ok(_) => Ok(out),
            Err(e) if e.kind() == std::io::ErrorKind::UnexpectedEof => Err("err:eof".to_string()),
            Err(_) => Err("err:mdc".to_string()),
        }
    });
    match r {
        Ok(v) => v,
        Err(p) => Err(format!("panic:{p}")),
    }
}

pub fn run_v1(ctx: &mut Ctx, model: &mut Model) {
    let mut jobs: Vec<Job> = Vec::new();
    let lens: Vec<usize> = if ctx.thorough() {
        vec![0, 1, 2, 7, 8, 9, 15, 16, 17, 21, 22, 23, 100, 8169, 8170, 8171, 8191, 8192, 8193, 8214, 16383, 16384, 16385, 20000, 70000]
    } else {
        vec![0, 1, 15, 16, 17, 22, 8191, 8192, 8193, 16385]
    };
    let mut seed = 0usize;
    for &alg in &CFB_ALGS {
        let bs = rfc::block_size(alg);
        let ks = rfc::key_size(alg);
        for &n in &lens {
            seed += 1;
            let key = random_bytes(&mut ctx.rng, ks);
            let pt = pattern(seed, n);
            let sym = SymmetricKeyAlgorithm::from(alg);
            // (a) one-shot and (b) streaming writer, each with its own random prefix
            let mut arts: Vec<(&'static str, Result<Vec<u8>, String>)> = Vec::new();
            let r1 = ChaCha8Rng::seed_from_u64(ctx.rng.gen());
            arts.push(("SymmetricKeyAlgorithm::encrypt_protected", match guarded(|| sym.encrypt_protected(r1, &key, &pt)) {
                Ok(Ok(v)) => Ok(v),
                Ok(Err(e)) => Err(e.to_string()),
                Err(p) => Err(format!("panic:{p}")),
            }));
            let r2 = ChaCha8Rng::seed_from_u64(ctx.rng.gen());
            let sizes = [1usize, 3, 17, 5000, 9000];
            arts.push(("sym::StreamEncryptor (read loop)", match guarded(|| {
                let enc = sym.stream_encryptor(r2, &key, &pt[..]).map_err(|e| e.to_string())?;
                drain_loop(enc, &sizes).map_err(|e| e.to_string())
            }) {
                Ok(v) => v,
                Err(p) => Err(format!("panic:{p}")),
            }));
            let r3 = ChaCha8Rng::seed_from_u64(ctx.rng.gen());
            arts.push(("sym::StreamEncryptor::read_to_end", match guarded(|| {
                let mut enc = sym.stream_encryptor(r3, &key, &pt[..]).map_err(|e| e.to_string())?;
                let mut out = Vec::new();
                enc.read_to_end(&mut out).map_err(|e| e.to_string())?;
                Ok(out)
            }) {
                Ok(v) => v,
                Err(p) => Err(format!("panic:{p}")),
            }));
            for (site, art) in arts {
                let ct = match art {
                    Ok(ct) => ct,
                    Err(e) => {
                        ctx.oracle("seipd1_emits", site, &format!("alg={alg} n={n}"), false, &e);
                        continue;
                    }
                };
                ctx.stat(&format!("seipd1:alg:{alg}"));
                // random prefix read back from the artefact (CFB is online: a prefix decrypts alone)
                let head = plan::cfb_decrypt(alg, &key, &vec![0u8; bs], &ct[..bs.min(ct.len())]).unwrap_or_default();
                let req = format!("seipd1.enc alg={alg} key={} pre={} pt={seed}:{n}", hx(&key), hx(&head));
                // oracle: RFC 9580 §5.13.1 bytes, and the independent reader recovers the layout
                let want = rfc::seipd1(alg, &key, &head, &pt);
                ctx.oracle("seipd1_rfc_bytes", site, &req, want.as_ref().ok() == Some(&ct), &format!("len rpgp={} rfc={:?}", ct.len(), want.as_ref().map(|w| w.len())));
                let (key2, pt2, ct2) = (key.clone(), pt.clone(), ct.clone());
                jobs.push(job(req, move |ctx, req, ans, _next| {
                    let (imp, val) = plan_answer(ans, &Ok(vec![ct2.clone()]));
                    ctx.case(req.to_string(), imp);
                    // the plan's value must be accepted by both read modes and give the plaintext back
                    if let Some(v) = val {
                        for (mname, mode) in [("check-first", Seipdv1ReadMode::CheckFirst { max_message_size: 1 << 24 }), ("streaming", Seipdv1ReadMode::Streaming)] {
                            let got = v1_decrypt(alg, mode, &key2, &v);
                            ctx.oracle("seipd1_plan_value_decrypts", &format!("sym::StreamDecryptor {mname}"), req, got.as_ref().ok() == Some(&pt2), &format!("{:?}", got.as_ref().map(|g| g.len())));
                        }
                    }
                }));
            }
            // RFC-built ciphertext with a prefix of our choosing decrypts under rpgp
            let pre = random_bytes(&mut ctx.rng, bs);
            if let Ok(ct) = rfc::seipd1(alg, &key, &pre, &pt) {
                for (mname, mode) in [("check-first", Seipdv1ReadMode::CheckFirst { max_message_size: 1 << 24 }), ("streaming", Seipdv1ReadMode::Streaming)] {
                    let got = v1_decrypt(alg, mode, &key, &ct);
                    ctx.oracle("seipd1_rfc_ciphertext_decrypts", &format!("sym::StreamDecryptor {mname}"), &format!("alg={alg} key={} pre={} pt={seed}:{n}", hx(&key), hx(&pre)), got.as_ref().ok() == Some(&pt), &format!("{got:?}").chars().take(80).collect::<String>());
                }
            }
        }
    }
    // what the reader accepts, as a function of the CFB-decrypted stream (direct, two phases:
    // the model says which part of the stream is hashed, the harness hashes it, the model decides)
    let n_open = ctx.pick(1500, 12000);
    for i in 0..n_open {
        let alg = CFB_ALGS[i % CFB_ALGS.len()];
        let bs = rfc::block_size(alg);
        let key = random_bytes(&mut ctx.rng, rfc::key_size(alg));
        let n = [0usize, 1, 5, 22, 23, 40, 100][ctx.rng.gen_range(0..7)];
        let pre = random_bytes(&mut ctx.rng, bs);
        let pt = random_bytes(&mut ctx.rng, n);
        let mut dec = [&pre[..], &pre[bs - 2..], &pt[..], &[0xD3, 0x14]].concat();
        let h = plan::hash(2, &dec).unwrap_or_default();
        dec.extend_from_slice(&h);
        let kind = i % 14;
        let l = dec.len();
        match kind {
            0 | 1 => {}                                            // valid
            2 => dec[l - 22] ^= 1 << ctx.rng.gen_range(0..8),     // MDC tag octet
            3 => dec[l - 21] ^= 1 << ctx.rng.gen_range(0..8),     // MDC length octet
            4 => { let p = l - 1 - ctx.rng.gen_range(0..20); dec[p] ^= 1 << ctx.rng.gen_range(0..8) } // hash
            5 => { let p = ctx.rng.gen_range(0..l - 22); dec[p] ^= 1 << ctx.rng.gen_range(0..8) }     // covered data
            6 => dec[bs] ^= 0x55,                                  // repeat octets wrong, hash recomputed below
            7 => dec.truncate(ctx.rng.gen_range(0..bs + 2)),       // shorter than the prefix
            8 => dec.truncate(bs + 2 + ctx.rng.gen_range(0..22)),  // prefix but no room for an MDC
            9 => dec.truncate(l - ctx.rng.gen_range(1..20)),
            10 => dec.extend_from_slice(&[0u8; 3]),
            12 => dec[l - 22] ^= 1 << ctx.rng.gen_range(0..8),    // MDC tag octet wrong, hash recomputed below
            13 => dec[l - 21] ^= 1 << ctx.rng.gen_range(0..8),    // MDC length octet wrong, hash recomputed below
            _ => { let k = ctx.rng.gen_range(0..80usize); dec = random_bytes(&mut ctx.rng, k); }
        }
        if kind == 6 || kind == 12 || kind == 13 {
            // a wrong "quick check" / MDC header with an otherwise consistent digest
            let l = dec.len();
            let h = plan::hash(2, &dec[..l - 20]).unwrap_or_default();
            dec[l - 20..].copy_from_slice(&h);
        }
        let Ok(ct) = plan::cfb_encrypt(alg, &key, &vec![0u8; bs], &dec) else { continue };
        let real = match v1_decrypt(alg, if i % 2 == 0 { Seipdv1ReadMode::Streaming } else { Seipdv1ReadMode::CheckFirst { max_message_size: 1 << 20 } }, &key, &ct) {
            Ok(p) => format!("ok:{}", cksum(&p)),
            Err(e) => e,
        };
        ctx.stat(&format!("seipd1.open:kind{kind}:{}", if real.starts_with("ok") { "ok" } else { real.as_str() }));
        // oracle (RFC 9580 §5.13.1): accepted iff well-formed, and then the plaintext is returned
        let wellformed = kind <= 1 || kind == 6;
        if kind != 11 {
            let ok = if wellformed { real == format!("ok:{}", cksum(&pt)) } else { real.starts_with("err") };
            ctx.oracle("seipd1_accepts_exactly_wellformed", "sym::StreamDecryptor", &format!("alg={alg} key={} ct={}", hx(&key), hx(&ct)), ok, &real);
        }
        let dec2 = dec.clone();
        jobs.push(job(format!("seipd1.mdcpre n={}", dec.len()), move |ctx, req, ans, next| {
            let k: usize = ans.strip_prefix("ok:").and_then(|s| s.parse().ok()).unwrap_or(usize::MAX);
            // the first phase has no counterpart to compare with; record it as answered
            ctx.case(req.to_string(), ans.to_string());
            let sha = if k <= dec2.len() { plan::hash(2, &dec2[..k]).unwrap_or_default() } else { vec![] };
            let real2 = real.clone();
            next.push(job(format!("seipd1.open bs={bs} dec={} sha={}", hx(&dec2), hx(&sha)), move |ctx, req, _ans, _| {
                ctx.case(req.to_string(), real2);
            }));
        }));
    }
    run_jobs(ctx, model, jobs);
}

fn v2_decrypt(sym: u8, aead: u8, cs: u8, salt: &[u8; 32], key: &[u8], ct: &[u8]) -> Result<Vec<u8>, String> {
    let r = guarded(|| {
        let cs = ChunkSize::try_from(cs).map_err(|_| "chunk size".to_string())?;
        let mut d = AeadDecryptor::new_rfc9580(SymmetricKeyAlgorithm::from(sym), AeadAlgorithm::from(aead), cs, salt, key, ct).map_err(|e| e.to_string())?;
        let mut out = Vec::new();
        d.read_to_end(&mut out).map_err(|e| e.to_string())?;
        Ok(out)
    });
    match r {
        Ok(v) => v,
        Err(p) => Err(format!("panic:{p}")),
    }
}

struct V2Case {
    sym: u8,
    aead: u8,
    cs: u8,
    salt: [u8; 32],
    key: Vec<u8>,
    seed: usize,
    n: usize,
}

pub fn run_v2(ctx: &mut Ctx, model: &mut Model) {
    let css: Vec<u8> = (0..=16).collect();
    let mut cases = Vec::new();
    let mut seed = 5000usize;
    for sym in [7u8, 8, 9] {
        for aead in [1u8, 2, 3] {
            for &cs in &css {
                let c = 1usize << (cs as usize + 6);
                let mut lens = vec![0usize, 1, c - 1, c, c + 1, 2 * c - 1, 2 * c, 2 * c + 1, 3 * c];
                if c > (1 << 16) && !(ctx.thorough() || (sym == 9 && aead == 2)) {
                    lens = vec![c, 2 * c + 1];
                }
                if c <= 256 {
                    lens.extend([5 * c + 3, 16 * c]);
                }
                for n in lens {
                    seed += 1;
                    let mut salt = [0u8; 32];
                    ctx.rng.fill(&mut salt);
                    let key = random_bytes(&mut ctx.rng, rfc::key_size(sym));
                    cases.push(V2Case { sym, aead, cs, salt, key, seed, n });
                }
            }
        }
    }
    // real writer + RFC oracle + reader on the RFC ciphertext, in parallel
    let evals = par_map(&cases, |c| {
        let pt = pattern(c.seed, c.n);
        let real = match guarded(|| {
            let cs = ChunkSize::try_from(c.cs).map_err(|_| "chunk size".to_string())?;
            let mut enc = SymEncryptedProtectedData::encrypt_seipdv2_stream(SymmetricKeyAlgorithm::from(c.sym), AeadAlgorithm::from(c.aead), cs, &c.key, c.salt, &pt[..]).map_err(|e| e.to_string())?;
            let mut out = Vec::new();
            enc.read_to_end(&mut out).map_err(|e| e.to_string())?;
            Ok::<_, String>(out)
        }) {
            Ok(v) => v,
            Err(p) => Err(format!("panic:{p}")),
        };
        let want = rfc::seipd2(c.sym, c.aead, c.cs, &c.salt, &c.key, &pt);
        let back = want.as_ref().ok().map(|w| v2_decrypt(c.sym, c.aead, c.cs, &c.salt, &c.key, w).map(|p| p == pt));
        (real, want, back)
    });
    let reqs: Vec<String> = cases
        .iter()
        .map(|c| format!("seipd2.enc sym={} aead={} cs={} salt={} key={} pt={}:{}", c.sym, c.aead, c.cs, hx(&c.salt), hx(&c.key), c.seed, c.n))
        .collect();
    let answers = model.ask(&reqs);
    let idx: Vec<usize> = (0..cases.len()).collect();
    let impls = par_map(&idx, |&i| {
        let c = &cases[i];
        let real = evals[i].0.clone().map(|b| vec![b]);
        let (imp, val) = plan_answer(&answers[i], &real);
        let back = val.map(|v| v2_decrypt(c.sym, c.aead, c.cs, &c.salt, &c.key, &v).map(|p| p == pattern(c.seed, c.n)));
        (imp, back)
    });
    for (i, c) in cases.iter().enumerate() {
        let (real, want, back) = &evals[i];
        ctx.case(reqs[i].clone(), impls[i].0.clone());
        ctx.stat(&format!("seipd2:{}.{}:cs{}", c.sym, c.aead, c.cs));
        let site = "aead::StreamEncryptor (encrypt_seipdv2_stream)";
        ctx.oracle("seipd2_rfc_bytes", site, &reqs[i], real.is_ok() && real.as_ref().ok() == want.as_ref().ok(), &format!("rpgp={:?} rfc={:?}", real.as_ref().map(|v| v.len()), want.as_ref().map(|v| v.len())));
        ctx.oracle("seipd2_rfc_ciphertext_decrypts", "aead::StreamDecryptor::new_rfc9580", &reqs[i], matches!(back, Some(Ok(true))), &format!("{back:?}"));
        if let Some(b) = &impls[i].1 {
            ctx.oracle("seipd2_plan_value_decrypts", "aead::StreamDecryptor::new_rfc9580", &reqs[i], matches!(b, Ok(true)), &format!("{b:?}"));
        }
    }
    // packet-level writer with its own random salt (read back from the packet), small sizes
    let mut jobs: Vec<Job> = Vec::new();
    for i in 0..ctx.pick(200, 1500) {
        let sym = [7u8, 8, 9][i % 3];
        let aead = [1u8, 2, 3][(i / 3) % 3];
        let cs = [0u8, 1, 2, 3, 6][i % 5];
        let n = ctx.rng.gen_range(0..700usize);
        let key = random_bytes(&mut ctx.rng, rfc::key_size(sym));
        let pt = pattern(9000 + i, n);
        let rng = ChaCha8Rng::seed_from_u64(ctx.rng.gen());
        let r = guarded(|| SymEncryptedProtectedData::encrypt_seipdv2(rng, SymmetricKeyAlgorithm::from(sym), AeadAlgorithm::from(aead), ChunkSize::try_from(cs).expect("cs"), &key, &pt));
        let Ok(Ok(pkt)) = r else {
            ctx.oracle("seipd2_emits", "SymEncryptedProtectedData::encrypt_seipdv2", &format!("sym={sym} aead={aead} cs={cs} n={n}"), false, "error");
            continue;
        };
        let SymEncryptedProtectedDataConfig::V2 { salt, .. } = pkt.config() else { continue };
        let req = format!("seipd2.enc sym={sym} aead={aead} cs={cs} salt={} key={} pt={}:{n}", hx(salt), hx(&key), 9000 + i);
        let data = pkt.data().to_vec();
        let want = rfc::seipd2(sym, aead, cs, salt, &key, &pt);
        ctx.oracle("seipd2_rfc_bytes", "SymEncryptedProtectedData::encrypt_seipdv2", &req, want.as_ref().ok() == Some(&data), "");
        jobs.push(job(req, move |ctx, req, ans, _| {
            let (imp, _) = plan_answer(ans, &Ok(vec![data]));
            ctx.case(req.to_string(), imp);
        }));
    }
    // aead_setup_rfc9580 observed directly: info, message key, initial nonce
    for sym in [7u8, 8, 9] {
        for aead in [1u8, 2, 3] {
            for cs in 0u8..=16 {
                let mut salt = [0u8; 32];
                ctx.rng.fill(&mut salt);
                let ikm = random_bytes(&mut ctx.rng, rfc::key_size(sym));
                let Ok((info, key, nonce)) = guarded(|| pgp::verif_hooks::aead_setup_rfc9580(SymmetricKeyAlgorithm::from(sym), AeadAlgorithm::from(aead), ChunkSize::try_from(cs).expect("cs"), &salt, &ikm)) else {
                    ctx.oracle("seipd2_setup", "aead_setup_rfc9580", &format!("sym={sym} aead={aead} cs={cs}"), false, "panic");
                    continue;
                };
                ctx.case(format!("seipd2.info sym={sym} aead={aead} cs={cs}"), format!("ok:{}", hx(&info)));
                // 42 octets of HKDF output under the info rpgp used (a bare primitive call)
                let okm = plan::hkdf(8, &salt, &ikm, &info, 42).unwrap_or_default();
                ctx.case(format!("seipd2.split sym={sym} aead={aead} okm={}", hx(&okm)), format!("ok:{}:{}", hx(&key), hx(&nonce)));
                // RFC 9580 §5.13.2: HKDF output of exactly key size + nonce size - 8
                let l = rfc::key_size(sym) + rfc::nonce_size(aead) - 8;
                let rfc_okm = plan::hkdf(8, &salt, &ikm, &[0xD2, 2, sym, aead, cs], l).unwrap_or_default();
                let ok = info == [0xD2, 2, sym, aead, cs] && key[..] == rfc_okm[..rfc::key_size(sym)] && nonce[..nonce.len() - 8] == rfc_okm[rfc::key_size(sym)..] && nonce[nonce.len() - 8..] == [0u8; 8];
                ctx.oracle("seipd2_setup_rfc", "aead_setup_rfc9580", &format!("sym={sym} aead={aead} cs={cs} salt={} ikm={}", hx(&salt), hx(&ikm)), ok, "");
            }
        }
    }
    // observation only (belongs to C04, not to C12): a mode rpgp cannot run must be refused, not panic
    for aead in [0u8, 4, 100] {
        let r = guarded(|| {
            SymEncryptedProtectedData::encrypt_seipdv2_stream(SymmetricKeyAlgorithm::AES128, AeadAlgorithm::from(aead), ChunkSize::C64B, &[0u8; 16], [0u8; 32], &b"x"[..]).map(|_| ())
        });
        if r.is_err() {
            ctx.note(&format!("observation (C04 scope): encrypt_seipdv2_stream with AEAD id {aead} panics instead of returning Err"));
        }
    }
    run_jobs(ctx, model, jobs);
}
