import RpgpModel.SigDigest
import RpgpModel.SignVerify
import RpgpModel.Wire
import RpgpModel.Gen.Constants
/-!
# Sound — every signature verification entry point of rpgp as its ordered list of guards followed
by the public-key verification of the digest of the pre-image (property C02)

The pre-images are **not** redefined here: each entry point calls the hashing routine of
`RpgpModel/SigDigest.lean` (C11) that transcribes what the Rust function feeds its hasher, and the
cleartext path uses `SV.signedText` of `RpgpModel/SignVerify.lean` (C06).  What this layer adds is
everything *around* the digest:

| definition                 | Rust item                                                                   |
|----------------------------|-----------------------------------------------------------------------------|
| `matchIdentity`            | `signature/types.rs  Signature::match_identity` (+ `config.rs issuer_key_id`, `issuer_fingerprint`: hashed **and** unhashed area) |
| `strengthOk`               | `Signature::check_signature_hash_strength`                                  |
| `areaScanOk`               | the `for packet in &self.hashed_subpackets` loop of `SignatureConfig::hash_signature_data` (unknown critical subpacket, issuer-fingerprint version) |
| `check`                    | `ensure_eq!(signed_hash_value, &hash[0..2])` then `key.verify(hash_alg, hash, signature)` |
| `verifyData`               | `Signature::verify` (= `DetachedSignature::verify`)                         |
| `verifyCleartext`          | `composed/cleartext.rs  CleartextSignedMessage::verify`                     |
| `verifyCert`               | `Signature::verify_third_party_certification` (`verify_certification` = signer is signee) |
| `verifySubkeyBinding`      | `Signature::verify_subkey_binding`                                          |
| `verifyPrimaryKeyBinding`  | `Signature::verify_primary_key_binding`                                     |
| `verifyKey`                | `Signature::verify_key_third_party` (`verify_key` = signer is signee)       |
| `opsMatches`               | `packet/one_pass_signature.rs  OnePassSignature::matches`                   |
| `inlineSlot`               | `reader/signed_many.rs  SignaturePacket::new_hasher` + `fill_inner` (the hash slot of one signature of a signed message: reader error, `None`, or the digest) |
| `verifyInline`             | `message/types.rs  Message::verify_nested_explicit` (+ `check_inline_verification_preconditions`) |
| `verifyMessage`            | `Message::verify` / `verify_read` / `verify_nested` for one signature       |
| `pairHeads`, `pairMessage`, `verifyMessageWire` | `fill_inner`: `one_pass_signatures.pop()` per One-Pass packet that has a hasher (positional pairing), `hashes` / `signatures` as `verify_nested_explicit` indexes them |
| `inlineSlotsPre`, `verifyMessageAt` | `SignatureManyReader::new` (one hasher per packet, mode from that packet's type) + `verify_nested_explicit(i, key)` on a message with several signatures |
| `verifySubkeyBindings`     | `signed_key/{public,secret}.rs  Signed{Public,Secret}SubKey::verify_bindings` |
| `verifyUser`               | `types/user.rs  SignedUser::verify_bindings` / `SignedUserAttribute::verify_bindings` |
| `verifyDetails`, `verifyCertificate` | `signed_key/shared.rs SignedKeyDetails::verify_bindings`, `Signed{Public,Secret}Key::verify_bindings` |
| `ofWire`                   | what the functions above read from a parsed `Signature` (`Wire.Sig`, C05)   |

The hash function and the public-key primitive are parameters (`Prims`); the model never computes
a digest.  A result is `ok` or `err g` with `g` the guard that refused.
-/
namespace Rpgp.Sound
open Rpgp Rpgp.SigDigest

/-- the signature value handed to the primitive: the MPIs (as parsed, leading zeros stripped) or
the one native octet string -/
abbrev SigVal := List Bytes

structure Prims where
  /-- `HashAlgorithm::new_hasher()` is `Ok` for this algorithm octet -/
  hashKnown : Byte → Bool
  /-- the digest: `new_hasher()`, every `update`, `finalize()` as a function of the algorithm
  octet and the concatenation of the octets fed to the hasher -/
  hash : Byte → Bytes → Bytes
  /-- `VerifyingKey::verify(hash_alg, digest, signature)` of the key whose public material is the
  first argument -/
  pkVerify : Bytes → Byte → Bytes → SigVal → Bool

/-- the guard that made an entry point return `Err` -/
inductive Guard where
  /-- `InnerSignature::Unknown`: "signature version … unsupported" -/
  | unknown
  /-- the `ensure!(matches!(config.typ, …))` of the entry point -/
  | typ
  /-- `check_signature_key_version_alignment` -/
  | align
  /-- `check_signature_hash_strength` -/
  | strength
  /-- `match_identity` -/
  | issuer
  /-- `hash_alg.new_hasher()?` -/
  | hashAlg
  /-- v6 salt size against the hash algorithm -/
  | salt
  /-- the subject could not be hashed (`hash_data_to_sign`, `serialize_for_hashing`, identity
  prefix, a length that does not fit its field) -/
  | input
  /-- the hashed-subpacket scan of `hash_signature_data` -/
  | area
  /-- `ensure_eq!(signed_hash_value, &hash[0..2])` -/
  | left16
  /-- `key.verify(…)` said no -/
  | pk
  /-- inline: the hash slot of the signature is `None` -/
  | noneSlot
  /-- inline: the reader failed while finishing the hashes -/
  | read
  /-- `verify_bindings`: "no signatures found" / "missing subkey bindings" -/
  | noSig
  /-- `verify_bindings`: "missing embedded signature for signing capable subkey" -/
  | noBacksig
  /-- `CleartextSignedMessage::verify`: "No matching signature found" -/
  | noneMatch
deriving DecidableEq, Repr

inductive Res where
  | ok
  | err (g : Guard)
deriving DecidableEq, Repr

/-- the verifying key as the entry points look at it -/
structure VKey where
  /-- `KeyDetails::version()` -/
  ver : Nat
  /-- `KeyDetails::legacy_key_id()` -/
  keyId : Bytes
  /-- `KeyDetails::fingerprint()`: key version octet, then the fingerprint -/
  fp : Bytes
  /-- the public key material the primitive verifies under -/
  mat : Bytes
  /-- `Serialize` of the key packet body (hashed by the certificate-forming kinds) -/
  ser : Ser := { writeLen := 0, bytes := [] }
deriving DecidableEq, Repr

def VKey.toKey (k : VKey) : Key := { ver := k.ver, ser := k.ser }

/-- one hashed subpacket as `hash_signature_data` scans it -/
structure HSub where
  critical : Bool
  /-- 7-bit type id -/
  typ : Nat
  /-- Issuer Fingerprint subpackets only: the key version octet of the fingerprint -/
  fpVer : Nat := 0
deriving DecidableEq, Repr

/-- a parsed Signature packet as the verification functions read it -/
structure Sig where
  /-- `InnerSignature::Known` -/
  known : Bool := true
  cfg : Cfg
  /-- `issuer_key_id()`: the header field (v2/v3) or every Issuer Key ID subpacket, hashed area
  first, then the unhashed area -/
  issuerIds : List Bytes := []
  /-- `issuer_fingerprint()`: every Issuer Fingerprint subpacket (version octet, fingerprint) of
  both areas -/
  issuerFps : List Bytes := []
  hashed : List HSub := []
  /-- `signed_hash_value` -/
  left16 : Bytes
  sigval : SigVal
deriving DecidableEq, Repr

/-! ## guards -/

/-- `Signature::match_identity(sig, key)` -/
def matchIdentity (s : Sig) (k : VKey) : Bool :=
  (s.issuerIds.isEmpty && s.issuerFps.isEmpty) ||
    s.issuerIds.any (· == k.keyId) || s.issuerFps.any (· == k.fp)

/-- `PublicKeyAlgorithm::is_pqc`: the `draft-pqc` feature is off in the build that is verified,
the match has no arm that returns `true` -/
def isPqc (_pk : Byte) : Bool := Gen.sndPqcArms != 0

/-- `HashAlgorithm::digest_size` in bits, for the tabulated algorithms -/
def digestBits (h : Byte) : Option Nat :=
  if h = 1 then some 128 else if h = 2 ∨ h = 3 then some 160 else if h = 8 ∨ h = 12 then some 256
  else if h = 9 then some 384 else if h = 10 ∨ h = 14 then some 512 else if h = 11 then some 224 else none

/-- `Signature::check_signature_hash_strength` -/
def strengthOk (c : Cfg) : Bool :=
  if isPqc c.pk then
    match digestBits c.hash with
    | some b => decide (256 ≤ b)
    | none => false
  else true

/-- `SubpacketType::Other(_)`: neither a dedicated type nor in the experimental range -/
def subTypeOther (t : Nat) : Bool :=
  !(Gen.knownSubpacketIdsRd.contains t) && !(decide (Gen.spExperimentalMin ≤ t) && decide (t ≤ Gen.spExperimentalMax))

/-- body of the loop over the hashed subpackets in `hash_signature_data` -/
def hsubOk (ver : Ver) (h : HSub) : Bool :=
  if Gen.hashSigDataChecksCritical = 1 ∧ h.critical = true ∧ subTypeOther h.typ = true then false
  else if h.typ = Gen.spRdIssuerFingerprint then
    (ver == .v6 && h.fpVer == Gen.keyV6) || (ver == .v4 && h.fpVer == Gen.keyV4)
  else true

/-- the loop (v2/v3 signatures have no subpackets) -/
def areaScanOk (c : Cfg) (hs : List HSub) : Bool :=
  match c.ver with
  | .v3 => true
  | v => hs.all (hsubOk v)

/-- `ensure_eq!(signed_hash_value, &hash[0..2], …)` (present at the call site iff `flag = 1`),
then `key.verify(config.hash_alg, hash, signature)` -/
def check (flag : Nat) (P : Prims) (k : VKey) (s : Sig) (d : Bytes) : Res :=
  if flag = 1 ∧ s.left16 ≠ d.take 2 then .err .left16
  else if P.pkVerify k.mat s.cfg.hash d s.sigval then .ok
  else .err .pk

/-- what follows the guards: the digest of the pre-image, the left-16 comparison, the primitive -/
def finish (flag : Nat) (P : Prims) (k : VKey) (s : Sig) : Except Guard Bytes → Res
  | .error g => .err g
  | .ok p => check flag P k s (P.hash s.cfg.hash p)

/-! ## `Signature::verify*`

Each entry point is `finish` after a `…Pre` function: the guards in the order of the code, ending
in the octets fed to the hasher (the routine of `SigDigest`).  `hk` = `Prims.hashKnown`. -/

/-- `Signature::verify(key, data)` up to `hasher.finalize()` -/
def dataPre (hk : Byte → Bool) (k : VKey) (s : Sig) (data : Bytes) : Except Guard Bytes :=
  if !s.known then .error .unknown
  else if !verifyAligned s.cfg k.ver then .error .align
  else if !strengthOk s.cfg then .error .strength
  else if Gen.sndIdentityData = 1 ∧ !matchIdentity s k then .error .issuer
  else if !hk s.cfg.hash then .error .hashAlg
  else if Gen.sndSaltCheckVerify = 1 ∧ !saltSizeOk s.cfg then .error .salt
  else
    match SigDigest.verifyData s.cfg k.ver data with
    | none => .error .input
    | some p => if !areaScanOk s.cfg s.hashed then .error .area else .ok p

/-- `Signature::verify(key, data)` -/
def verifyData (P : Prims) (k : VKey) (s : Sig) (data : Bytes) : Res :=
  finish Gen.sndLeft16Data P k s (dataPre P.hashKnown k s data)

/-- `DetachedSignature::verify(key, content)`: `self.signature.verify(key, content)` -/
def verifyDetached (P : Prims) (k : VKey) (s : Sig) (content : Bytes) : Res := verifyData P k s content

/-- `CleartextSignedMessage::verify(key)`: the first signature that verifies over
`signed_text()` wins -/
def verifyCleartext (P : Prims) (k : VKey) (sigs : List Sig) (csf : Bytes) : Res :=
  if sigs.any (fun s => verifyData P k s (SV.signedText csf) == .ok) then .ok else .err .noneMatch

/-- `Signature::verify_third_party_certification(signee, signer, tag, id)` up to `finalize()` -/
def certPre (hk : Byte → Bool) (signer : VKey) (signee : Key) (s : Sig) (tag : Nat) (id : Ser) : Except Guard Bytes :=
  if !s.known then .error .unknown
  else if !isCertification s.cfg.typ then .error .typ
  else if !verifyAligned s.cfg signer.ver then .error .align
  else if !strengthOk s.cfg then .error .strength
  else if Gen.sndIdentityCert = 1 ∧ !matchIdentity s signer then .error .issuer
  else if !hk s.cfg.hash then .error .hashAlg
  else
    match verifyCertification s.cfg signer.ver signee tag id with
    | none => .error .input
    | some p => if !areaScanOk s.cfg s.hashed then .error .area else .ok p

def verifyCert (P : Prims) (signer : VKey) (signee : Key) (s : Sig) (tag : Nat) (id : Ser) : Res :=
  finish Gen.sndLeft16Cert P signer s (certPre P.hashKnown signer signee s tag id)

/-- `Signature::verify_certification(key, tag, id)` -/
def verifyCertSelf (P : Prims) (k : VKey) (s : Sig) (tag : Nat) (id : Ser) : Res :=
  verifyCert P k k.toKey s tag id

/-- `Signature::verify_subkey_binding(signer = primary, signee = subkey)` up to `finalize()` -/
def subkeyBindingPre (hk : Byte → Bool) (primary : VKey) (sub : Key) (s : Sig) : Except Guard Bytes :=
  if !s.known then .error .unknown
  else if !(s.cfg.typ == Gen.sdSigTypeSubkeyBinding.toUInt8 || s.cfg.typ == Gen.sdSigTypeSubkeyRevocation.toUInt8) then .error .typ
  else if !verifyAligned s.cfg primary.ver then .error .align
  else if !strengthOk s.cfg then .error .strength
  else if Gen.sndIdentitySubkeyBinding = 1 ∧ !matchIdentity s primary then .error .issuer
  else if !hk s.cfg.hash then .error .hashAlg
  else
    match SigDigest.verifySubkeyBinding s.cfg primary.toKey sub with
    | none => .error .input
    | some p => if !areaScanOk s.cfg s.hashed then .error .area else .ok p

def verifySubkeyBinding (P : Prims) (primary : VKey) (sub : Key) (s : Sig) : Res :=
  finish Gen.sndLeft16SubkeyBinding P primary s (subkeyBindingPre P.hashKnown primary sub s)

/-- `Signature::verify_primary_key_binding(signer = subkey, signee = primary)` up to `finalize()` -/
def primaryKeyBindingPre (hk : Byte → Bool) (sub : VKey) (primary : Key) (s : Sig) : Except Guard Bytes :=
  if !s.known then .error .unknown
  else if !(s.cfg.typ == Gen.sdSigTypeKeyBinding.toUInt8) then .error .typ
  else if !verifyAligned s.cfg sub.ver then .error .align
  else if !strengthOk s.cfg then .error .strength
  else if Gen.sndIdentityPrimaryKeyBinding = 1 ∧ !matchIdentity s sub then .error .issuer
  else if !hk s.cfg.hash then .error .hashAlg
  else
    match SigDigest.verifyPrimaryKeyBinding s.cfg sub.toKey primary with
    | none => .error .input
    | some p => if !areaScanOk s.cfg s.hashed then .error .area else .ok p

def verifyPrimaryKeyBinding (P : Prims) (sub : VKey) (primary : Key) (s : Sig) : Res :=
  finish Gen.sndLeft16PrimaryKeyBinding P sub s (primaryKeyBindingPre P.hashKnown sub primary s)

/-- `Signature::verify_key_third_party(signee, signer)` up to `finalize()` -/
def keyPre (hk : Byte → Bool) (signer : VKey) (signee : Key) (s : Sig) : Except Guard Bytes :=
  if !s.known then .error .unknown
  else if !(s.cfg.typ == Gen.sdSigTypeKey.toUInt8 || s.cfg.typ == Gen.sdSigTypeKeyRevocation.toUInt8) then .error .typ
  else if !verifyAligned s.cfg signer.ver then .error .align
  else if !strengthOk s.cfg then .error .strength
  else if Gen.sndIdentityKey = 1 ∧ !matchIdentity s signer then .error .issuer
  else if !hk s.cfg.hash then .error .hashAlg
  else
    match SigDigest.verifyKey s.cfg signer.ver signee with
    | none => .error .input
    | some p => if !areaScanOk s.cfg s.hashed then .error .area else .ok p

def verifyKey (P : Prims) (signer : VKey) (signee : Key) (s : Sig) : Res :=
  finish Gen.sndLeft16Key P signer s (keyPre P.hashKnown signer signee s)

/-- `Signature::verify_key(key)` -/
def verifyKeySelf (P : Prims) (k : VKey) (s : Sig) : Res := verifyKey P k k.toKey s

/-! ## inline signatures (signed messages) -/

/-- the One-Pass Signature packet as `new_hasher` and `matches` read it -/
structure Ops where
  /-- 3, 6, or another version octet (`OpsVersionSpecific::Unknown`) -/
  ver : Nat
  typ : Byte
  hash : Byte
  pk : Byte
  /-- v6 only -/
  salt : Bytes := []
deriving DecidableEq, Repr

/-- `OnePassSignature::matches(sig)` -/
def opsMatches (o : Ops) (s : Sig) : Bool :=
  s.known && o.typ == s.cfg.typ && o.hash == s.cfg.hash && o.pk == s.cfg.pk &&
    ((o.ver == Gen.sndOpsV3 && s.cfg.ver == .v4) ||
     (o.ver == Gen.sndOpsV6 && s.cfg.ver == .v6 && o.salt == s.cfg.salt))

/-- the octets the reader's hasher has seen for the literal body: `NormalizingHasher` in text
mode iff the type (of the OPS, or of the prefixed signature) is Text; one `hash_buf` per read -/
def inlineBody (text : Bool) (chunks : List Bytes) : Bytes :=
  if text then hashedText chunks else chunks.flatten

/-- `hash_signature_data` + `trailer` as `fill_inner` runs them on the (trailing or prefixed)
signature; an error makes the reader fail with `InvalidData` -/
def inlineTail (s : Sig) : Except Guard Bytes :=
  if !areaScanOk s.cfg s.hashed then .error .area
  else
    match fieldsAndTrailer s.cfg with
    | none => .error .read
    | some ft => .ok ft

/-- The hash slot of one signature after the message has been read to the end, before the digest
is taken: `.error g` = the reader (or its construction) failed, `.ok none` = `hashes.push(None)`,
`.ok (some (a, p))` = the slot holds the digest, by algorithm `a`, of the octets `p`.
`ops = some o`: one-pass signed message, `o` is the OPS header paired with the trailing signature
`s`; `ops = none`: `s` is a prefixed signature packet. -/
def inlinePre (hk : Byte → Bool) (ops : Option Ops) (s : Sig) (chunks : List Bytes) :
    Except Guard (Option (Byte × Bytes)) :=
  match ops with
  | some o =>
    if !hk o.hash then .ok none                -- `new_hasher().ok()`
    else if o.ver == Gen.sndOpsV6 && Gen.sdSaltLenOf o.hash.toNat != some o.salt.length then .error .salt
    else if Gen.sndOpsNoneOnMismatch = 1 ∧ !opsMatches o s then .ok none   -- "Ops and Signature don't match"
    else if !s.known then .ok none
    else
      match inlineTail s with
      | .error g => .error g
      | .ok ft =>
        .ok (some (o.hash, (if o.ver == Gen.sndOpsV6 then o.salt else []) ++
          inlineBody (o.typ == typText) chunks ++ ft))
  | none =>
    if !s.known then .ok none
    else if !hk s.cfg.hash then .error .hashAlg
    else if !saltSizeOk s.cfg then .error .salt
    else
      match inlineTail s with
      | .error g => .error g
      | .ok ft => .ok (some (s.cfg.hash, saltBytes s.cfg ++ inlineBody (s.cfg.typ == typText) chunks ++ ft))

/-- the slot as the reader stores it: `Option<Box<[u8]>>` -/
def inlineSlot (P : Prims) (ops : Option Ops) (s : Sig) (chunks : List Bytes) : Except Guard (Option Bytes) :=
  (inlinePre P.hashKnown ops s chunks).map fun o => o.map fun ap => P.hash ap.1 ap.2

/-- `Message::verify_nested_explicit(index, key)` on the slot of signature `s` -/
def verifyInline (P : Prims) (k : VKey) (s : Sig) (slot : Option Bytes) : Res :=
  match slot with
  | none => if Gen.sndInlineNoneIsError = 1 then .err .noneSlot else .ok
  | some d =>
    if !s.known then .err .unknown
    else if Gen.inlineChecksPreconditions = 1 ∧ !(s.cfg.typ == typBinary || s.cfg.typ == typText) then .err .typ
    else if Gen.inlineChecksPreconditions = 1 ∧ !verifyAligned s.cfg k.ver then .err .align
    else if Gen.inlineChecksPreconditions = 1 ∧ !strengthOk s.cfg then .err .strength
    else if Gen.inlineChecksPreconditions = 1 ∧ !matchIdentity s k then .err .issuer
    else check Gen.sndLeft16Inline P k s d

/-- `Message::verify` / `verify_read` / one cell of `verify_nested` -/
def verifyMessage (P : Prims) (k : VKey) (ops : Option Ops) (s : Sig) (chunks : List Bytes) : Res :=
  match inlineSlot P ops s chunks with
  | .error g => .err g
  | .ok slot => verifyInline P k s slot

/-! ### messages with several signatures

`SignatureManyReader` holds one `SignaturePacket` per Signature / One-Pass Signature packet in
front of the literal data, in order of appearance, and **one hasher per packet**:
`SignatureManyReader::new` maps `new_hasher` over the packets, and `new_hasher` takes the
`NormalizingHasher` mode (`text_mode`) from the type of *that* packet.  The reader pairs One-Pass
packet number `i` (counting One-Pass packets only) of `n` with trailing signature `n - 1 - i`
(`one_pass_signatures.pop()`); the model is given the packets already paired. -/

/-- one signature of a signed message: its One-Pass header if it is a one-pass signature, and the
(prefixed or trailing) Signature packet -/
structure MsgSig where
  ops : Option Ops
  sig : Sig
deriving DecidableEq, Repr

/-- errors of the first phase (`SignatureManyReader::new`, i.e. `Message::from_bytes` fails) as
opposed to errors while finishing the hashes (`fill_inner`, i.e. reading fails) -/
def isConstructionError : Guard → Bool
  | .salt => true
  | .hashAlg => true
  | _ => false

/-- first error of the construction phase, in packet order -/
def firstConstructionError : List (Except Guard (Option (Byte × Bytes))) → Option Guard
  | [] => none
  | .error g :: r => if isConstructionError g then some g else firstConstructionError r
  | .ok _ :: r => firstConstructionError r

/-- all slots, or the first error in packet order -/
def collectSlots : List (Except Guard (Option (Byte × Bytes))) → Except Guard (List (Option (Byte × Bytes)))
  | [] => .ok []
  | .error g :: _ => .error g
  | .ok x :: r =>
    match collectSlots r with
    | .error g => .error g
    | .ok xs => .ok (x :: xs)

/-- the hash slots of a message with the signatures `sigs` (before the digests are taken): every
signature's slot is computed by `inlinePre` from ITS OWN header / packet, with its own salt and
its own hashing mode; the reader fails as a whole if any hasher cannot be made (construction
errors first) or any `hash_signature_data` fails -/
def inlineSlotsPre (hk : Byte → Bool) (sigs : List MsgSig) (chunks : List Bytes) :
    Except Guard (List (Option (Byte × Bytes))) :=
  let pres := sigs.map fun m => inlinePre hk m.ops m.sig chunks
  match firstConstructionError pres with
  | some g => .error g
  | none => collectSlots pres

/-- `Message::verify_nested_explicit(i, key)` (also one cell of `verify_nested`) on a message with
the signatures `sigs`, read to the end -/
def verifyMessageAt (P : Prims) (k : VKey) (sigs : List MsgSig) (chunks : List Bytes) (i : Nat) : Res :=
  match inlineSlotsPre P.hashKnown sigs chunks with
  | .error g => .err g
  | .ok slots =>
    match sigs[i]?, slots[i]? with
    | some m, some slot => verifyInline P k m.sig (slot.map fun ap => P.hash ap.1 ap.2)
    | _, _ => .err .noneSlot

/-! ### pairing One-Pass headers with the trailing signatures

`fill_inner`, after the literal data: the reader takes the next `n` Signature packets from the
stream, `n` = number of One-Pass Signature packets in front (`one_pass_signatures`, a `Vec` in wire
order), then walks the hashers in order of appearance and for every One-Pass packet **whose hasher
exists** takes `one_pass_signatures.pop()` - the LAST remaining one.  The pairing is positional:
it does not look at which trailing signature would `matches` the header (that is asked only
afterwards, of the popped one).  A packet without hasher (One-Pass packet with an unsupported hash
algorithm, prefixed signature of unknown version) gets the slot `None`, pops nothing and adds
nothing to `signatures`. -/

/-- a Signature / One-Pass Signature packet in front of the literal data -/
inductive MsgHead where
  | prefixed (s : Sig)
  | onePass (o : Ops)
deriving DecidableEq, Repr

def MsgHead.isOnePass : MsgHead → Bool
  | .onePass _ => true
  | .prefixed _ => false

/-- does the head take a trailing signature from the stack? -/
def MsgHead.pops (hk : Byte → Bool) : MsgHead → Bool
  | .onePass o => hk o.hash
  | .prefixed _ => false

def nOnePass (heads : List MsgHead) : Nat := (heads.filter MsgHead.isOnePass).length

/-- the loop over `hashers.zip(packets)`; `rs` is the stack of trailing signatures with its top
first (`pop()` = head of `rs`).  `none` as a whole: "missing signature packet"; an entry `none`: a
packet without hasher. -/
def pairHeads (hk : Byte → Bool) : List MsgHead → List Sig → Option (List (Option MsgSig))
  | [], _ => some []
  | .prefixed s :: r, rs =>
    (pairHeads hk r rs).map fun l => (if s.known then some { ops := none, sig := s } else none) :: l
  | .onePass o :: r, rs =>
    if !hk o.hash then (pairHeads hk r rs).map fun l => none :: l
    else
      match rs with
      | [] => none
      | s :: rs' => (pairHeads hk r rs').map fun l => some { ops := some o, sig := s } :: l

/-- the first `n` trailing signatures in wire order are the stack, its top is the last of them -/
def pairMessage (hk : Byte → Bool) (heads : List MsgHead) (trailing : List Sig) : Option (List (Option MsgSig)) :=
  if trailing.length < nOnePass heads then none
  else pairHeads hk heads (trailing.take (nOnePass heads)).reverse

/-- `SignaturePacket::new_hasher` errors (they make `Message::from_bytes` fail, before anything is read) -/
def headConstructionError (hk : Byte → Bool) : MsgHead → Option Guard
  | .prefixed s =>
    if !s.known then none
    else if !hk s.cfg.hash then some .hashAlg
    else if !saltSizeOk s.cfg then some .salt else none
  | .onePass o =>
    if hk o.hash && o.ver == Gen.sndOpsV6 && Gen.sdSaltLenOf o.hash.toNat != some o.salt.length then some .salt else none

/-- `Message::verify_nested_explicit(i, key)` on a one-pass / prefixed / mixed signed message given
as on the wire: the heads in order of appearance and the trailing Signature packets in wire order.
`reader.hash(i)` comes from the slot list, `reader.signature(i)` from the list of the signatures
that were attached (one shorter for every packet without hasher before `i`). -/
def verifyMessageWire (P : Prims) (k : VKey) (heads : List MsgHead) (trailing : List Sig) (chunks : List Bytes)
    (i : Nat) : Res :=
  match heads.findSome? (headConstructionError P.hashKnown) with
  | some g => .err g
  | none =>
    match pairMessage P.hashKnown heads trailing with
    | none => .err .read
    | some entries =>
      let pres : List (Except Guard (Option (Byte × Bytes))) := entries.map fun
        | none => .ok none
        | some m => inlinePre P.hashKnown m.ops m.sig chunks
      match collectSlots pres with
      | .error g => .err g
      | .ok slots =>
        match slots[i]? with
        | some (some ap) =>
          match (entries.filterMap fun e => e.map (·.sig))[i]? with
          | some s => verifyInline P k s (some (P.hash ap.1 ap.2))
          | none => .err .noneSlot
        | _ => .err .noneSlot

/-! ## certificates: `verify_bindings` -/

/-- first error of a list of results, `ok` if there is none -/
def firstErr : List Res → Res
  | [] => .ok
  | .ok :: r => firstErr r
  | .err g :: _ => .err g

/-- a subkey binding signature as `Signed*SubKey::verify_bindings` reads it -/
structure BindSig where
  sig : Sig
  /-- `sig.key_flags().sign()` (hashed area only) -/
  signFlag : Bool
  /-- `sig.embedded_signature()`: the first Embedded Signature subpacket of the hashed area, else
  of the unhashed area -/
  embedded : Option Sig
deriving DecidableEq, Repr

/-- one iteration of the loop of `SignedPublicSubKey::verify_bindings` /
`SignedSecretSubKey::verify_bindings` -/
def verifyOneBinding (P : Prims) (primary sub : VKey) (b : BindSig) : Res :=
  match verifySubkeyBinding P primary sub.toKey b.sig with
  | .err g => .err g
  | .ok =>
    if Gen.publicSubkeyChecksBacksig = 1 ∧ b.signFlag = true then
      match b.embedded with
      | none => .err .noBacksig
      | some e => verifyPrimaryKeyBinding P sub primary.toKey e
    else .ok

/-- `Signed{Public,Secret}SubKey::verify_bindings(primary)` -/
def verifySubkeyBindings (P : Prims) (primary sub : VKey) (sigs : List BindSig) : Res :=
  if sigs.isEmpty then .err .noSig
  else firstErr (sigs.map (verifyOneBinding P primary sub))

/-- `SignedUser::new` / `SignedUserAttribute::new`: signatures that are not certifications
(`sig.is_certification()`, `false` for an unknown version) are dropped with a warning -/
def userSigsKept (sigs : List Sig) : List Sig := sigs.filter fun s => s.known && isCertification s.cfg.typ

/-- `SignedPublicSubKey::new` / `SignedSecretSubKey::new`: only 0x18 / 0x28 signatures are kept -/
def subkeySigsKept (sigs : List BindSig) : List BindSig :=
  sigs.filter fun b => b.sig.known &&
    (b.sig.cfg.typ == Gen.sdSigTypeSubkeyBinding.toUInt8 || b.sig.cfg.typ == Gen.sdSigTypeSubkeyRevocation.toUInt8)

/-- `SignedUser::verify_third_party(signee, signer)` / `SignedUserAttribute::verify_third_party` -/
def verifyUserThirdParty (P : Prims) (signer : VKey) (signee : Key) (tag : Nat) (id : Ser) (sigs : List Sig) : Res :=
  if sigs.isEmpty then .err .noSig
  else firstErr (sigs.map fun s => verifyCert P signer signee s tag id)

/-- `SignedUser::verify_bindings` (`tag = 13`) / `SignedUserAttribute::verify_bindings` (`17`) -/
def verifyUser (P : Prims) (k : VKey) (tag : Nat) (id : Ser) (sigs : List Sig) : Res :=
  if sigs.isEmpty then .err .noSig
  else firstErr (sigs.map fun s => verifyCertSelf P k s tag id)

/-- `SignedKeyDetails`: users, user attributes, revocation signatures, direct signatures -/
structure Details where
  users : List (Ser × List Sig)
  attrs : List (Ser × List Sig)
  revocations : List Sig
  directs : List Sig
deriving DecidableEq, Repr

/-- `SignedKeyDetails::verify_bindings(key)` -/
def verifyDetails (P : Prims) (k : VKey) (d : Details) : Res :=
  firstErr (d.users.map (fun u => verifyUser P k tagUserId u.1 u.2) ++
    d.attrs.map (fun u => verifyUser P k tagUserAttribute u.1 u.2) ++
    d.revocations.map (verifyKeySelf P k) ++ d.directs.map (verifyKeySelf P k))

/-- `SignedPublicKey::verify_bindings` / `SignedSecretKey::verify_bindings` -/
def verifyCertificate (P : Prims) (primary : VKey) (d : Details) (subkeys : List (VKey × List BindSig)) : Res :=
  firstErr (verifyDetails P primary d :: subkeys.map fun sk => verifySubkeyBindings P primary sk.1 sk.2)

/-! ## from the wire (C05 model of the packet) to what the entry points read -/

def sigValOf : Wire.SigBytes → SigVal
  | .mpis ms => ms
  | .native b => [b]

def hsubOf (s : Wire.Subpacket) : HSub :=
  { critical := s.critical, typ := s.typ.toNat,
    fpVer := if s.typ.toNat = Gen.spRdIssuerFingerprint then (s.body.headD 0).toNat else 0 }

/-- bodies of the subpackets of type `t`, in order -/
def bodiesOf (t : Nat) (ss : List Wire.Subpacket) : List Bytes :=
  (ss.filter fun s => s.typ.toNat == t).map (·.body)

/-- a parsed Signature packet (`Wire.Sig`) as the verification functions read it.  The hashed area
that enters the digest is the re-serialisation of the parsed subpackets
(`packet.to_writer(&mut hashed_subpackets)` in `hash_signature_data`); for a packet the parser
accepts that is the hashed area as received (`Wire.sig_parse_hashed_canonical`). -/
def ofWire : Wire.Sig → Sig
  | .v3 _ typ created issuer pk hash left sb =>
    { cfg := { ver := .v3, typ := typ, pk := pk, hash := hash, area := [], created := beNat created },
      issuerIds := [issuer], left16 := left, sigval := sigValOf sb }
  | .v4 v6 typ pk hash hashed unhashed left salt sb =>
    { cfg := { ver := if v6 then .v6 else .v4, typ := typ, pk := pk, hash := hash,
               area := (Wire.areaSer hashed).getD [], salt := salt },
      issuerIds := bodiesOf Gen.spRdIssuerKeyId (hashed ++ unhashed),
      issuerFps := bodiesOf Gen.spRdIssuerFingerprint (hashed ++ unhashed),
      hashed := hashed.map hsubOf, left16 := left, sigval := sigValOf sb }
  | .unknown _ _ =>
    { known := false, cfg := { ver := .v4, typ := 0, pk := 0, hash := 0, area := [] }, left16 := [], sigval := [] }

/-- `KeyFlags::sign()` of the first Key Flags subpacket of the hashed area (`Signature::key_flags`) -/
def signFlagOf : Wire.Sig → Bool
  | .v4 _ _ _ _ hashed _ _ _ _ =>
    match bodiesOf Gen.spRdKeyFlags hashed with
    | (b :: _) :: _ => b.toNat / 2 % 2 == 1
    | _ => false
  | _ => false

/-- `Signature::embedded_signature()`: hashed area first, then the unhashed area; the subpacket
body is a signature packet body -/
def embeddedOf : Wire.Sig → Option Bytes
  | .v4 _ _ _ _ hashed unhashed _ _ _ =>
    match bodiesOf Gen.spRdEmbeddedSignature hashed with
    | b :: _ => some b
    | [] => (bodiesOf Gen.spRdEmbeddedSignature unhashed).head?
  | _ => none

/-- `Signature::try_from_reader` on a packet body (C05's `Wire.sigParse`), then the view above.
Since the D2a repair the parser refuses a v4 / v6 packet whose hashed area would be written back
differently from the octets received (`ensure_hashed_area_canonical`, modelled in
`Wire.areaParseCanon`; the translator flag `Gen.sndHashedAreaCanonical` records that the call is
in both parsers), at every nesting level of embedded signatures, in either area: the hashed area
that enters the digest (`Cfg.area`) is `Wire.rawHashedArea body`. -/
def parseSig (body : Bytes) : Option Sig := (Wire.sigParse (Wire.embFor body) body).map ofWire

/-- PRE-FIX behaviour (before commit 11d69e3, kept for the regression theorems only): the message
parser called `Signature::try_from_reader(header, &mut packet)` and dropped what was left of the
packet body; the signature parser reads forward, so the accepted packet was the longest
prefix that parses (the shortest tail removed). -/
def parseSigPrefixPreFix (body : Bytes) : Option Sig :=
  (List.range (body.length + 1)).findSome? fun n => parseSig (body.take (body.length - n))

/-- `composed/message/parser.rs`, `Tag::Signature` arm: `Signature::try_from_reader(header, &mut packet)`
followed by `ensure_packet_consumed(&mut packet)` (`Gen.sndMsgSigExhausted = 1`): as for packets read
through `PacketParser` (`packet/single.rs`, `PacketTooLarge`), the body must be exactly one
signature. -/
def parseSigPrefix (body : Bytes) : Option Sig :=
  if Gen.sndMsgSigExhausted = 1 then parseSig body else parseSigPrefixPreFix body

/-- PRE-FIX behaviour of the `Tag::OnePassSignature` arm: `OnePassSignature::try_from_reader` reads
4 + 8 + 1 octets (v3) or 4 + 1 + salt + 32 + 1 octets (v6) and the rest of the body was dropped;
other versions take the whole body -/
def parseOpsPrefixPreFix (body : Bytes) : Option Wire.Ops :=
  match body with
  | v :: _ :: _ :: _ :: r =>
    if v.toNat = 3 then Wire.opsParse (body.take 13)
    else if v.toNat = 6 then
      match r with
      | sl :: _ => Wire.opsParse (body.take (5 + sl.toNat + 33))
      | [] => none
    else Wire.opsParse body
  | _ => none

/-- the `Tag::OnePassSignature` arm, with `ensure_packet_consumed` after the parse -/
def parseOpsPrefix (body : Bytes) : Option Wire.Ops :=
  if Gen.sndMsgSigExhausted = 1 then Wire.opsParse body else parseOpsPrefixPreFix body

/-- a binding signature with its key flags and embedded back-signature -/
def parseBindSig (body : Bytes) : Option BindSig :=
  match Wire.sigParse (Wire.embFor body) body with
  | none => none
  | some w =>
    some { sig := ofWire w, signFlag := signFlagOf w,
           embedded := match embeddedOf w with
             | none => none
             | some e => parseSig e }

/-- the One-Pass Signature packet body as `new_hasher` / `matches` read it -/
def ofWireOps : Wire.Ops → Ops
  | .v3 typ hash pk _ _ => { ver := 3, typ := typ, hash := hash, pk := pk }
  | .v6 typ hash pk salt _ _ => { ver := 6, typ := typ, hash := hash, pk := pk, salt := salt }
  | .unknown v typ hash pk _ _ => { ver := v.toNat, typ := typ, hash := hash, pk := pk }

/-! ## the field map of a serialized signature packet body (what "each field" is) -/

/-- (name, offset, length) of every field of a v4 / v6 / v3 signature packet body, from the
parsed packet -/
def fieldMap (w : Wire.Sig) : List (String × Nat × Nat) :=
  match w with
  | .v3 _ _ _ _ _ _ _ sb =>
    [("version", 0, 1), ("hlen", 1, 1), ("type", 2, 1), ("created", 3, 4), ("issuer", 7, 8), ("pk", 15, 1),
     ("hash", 16, 1), ("left16", 17, 2), ("sigval", 19, Wire.sigBytesWriteLen sb)]
  | .v4 v6 _ _ _ hashed unhashed _ salt sb =>
    let w := Wire.areaLenOctets v6
    let hl := Wire.areaWriteLen hashed
    let ul := Wire.areaWriteLen unhashed
    let o1 := 4 + w + hl
    let o2 := o1 + w + ul
    [("version", 0, 1), ("type", 1, 1), ("pk", 2, 1), ("hash", 3, 1), ("hashedlen", 4, w), ("hashed", 4 + w, hl),
     ("unhashedlen", o1, w), ("unhashed", o1 + w, ul), ("left16", o2, 2)] ++
    (if v6 then [("saltlen", o2 + 2, 1), ("salt", o2 + 3, salt.length)] else []) ++
    [("sigval", o2 + 2 + (if v6 then 1 + salt.length else 0), Wire.sigBytesWriteLen sb)]
  | .unknown _ d => [("version", 0, 1), ("rest", 1, d.length)]

end Rpgp.Sound
