import RpgpModel.Stream
import RpgpModel.Gen.Constants
/-!
# StreamIntr — `util::fill_buffer` over a source whose reads may be *interrupted*

`ErrorKind::Interrupted` is not a failure of the source: the `Read` contract asks callers to retry
(`read_exact`, `read_to_end`, `io::copy` do).  `fill_buffer` is the crate's `read_exact`-like helper
below `NormalizedReader`, the partial-body generators and the stream encryptors.  Before the repair of
D14c it returned the interruption with `?`, forgetting how much of the window it had filled; the
callers' callers retried, the window was filled again from its start, and the stream continued with a
hole.  As repaired it retries the read itself.
-/
namespace Rpgp

/-- events of a source: data (delivered in as many reads as needed), a read that fails for good, a
read that is interrupted (one-shot) -/
inductive EvI where
  | data (c : Bytes)
  | err
  | intr
deriving DecidableEq, Repr

/-- the same source without its interruptions -/
def dropIntr : List EvI → List Ev
  | [] => []
  | .data c :: es => .data c :: dropIntr es
  | .err :: es => .err :: dropIntr es
  | .intr :: es => dropIntr es

/-- one `read(buf)` with `buf.len() = n`: `none` = interrupted -/
def evReadI : List EvI → Nat → Option RdRes × List EvI
  | [], _ => (some (.bytes []), [])
  | .err :: es, _ => (some .fail, es)
  | .intr :: es, _ => (none, es)
  | .data c :: es, n =>
    if c.length ≤ n then (some (.bytes c), es) else (some (.bytes (c.take n)), .data (c.drop n) :: es)

/-- `util::fill_buffer`: `fixed = true` retries an interrupted read; `fixed = false` (pre-repair)
propagates it like an error — `none`, with what had been read so far forgotten -/
def fillBufferI (fixed : Bool) : Nat → List EvI → Nat → Option (Bytes × List EvI)
  | 0, src, _ => some ([], src)
  | fuel + 1, src, n =>
    if n = 0 then some ([], src) else
    match evReadI src n with
    | (none, src') => if fixed then fillBufferI fixed fuel src' n else none
    | (some .fail, _) => none
    | (some (.bytes got), src') =>
      if got.isEmpty then some ([], src')
      else
        match fillBufferI fixed fuel src' (n - got.length) with
        | none => none
        | some (more, src'') => some (got ++ more, src'')

/-- the tree's `fill_buffer` -/
def fillBufferIntr (fuel : Nat) (src : List EvI) (n : Nat) : Option (Bytes × List EvI) :=
  fillBufferI (Gen.fixD14cFillBufferRetriesInterrupted = 1) fuel src n

end Rpgp
