import RpgpModel.StreamFail
import RpgpProofs.Stream
/-!
Proofs about the stream encryptor that is polled again after a failure.
-/
namespace Rpgp

theorem released_fails (l : List Nat) : released (l.map fun _ => RdRes.fail) = [] := by
  induction l with
  | nil => rfl
  | cons _ t ih => simpa [released] using ih

theorem encRead_failed (B fuel : Nat) (enc : Bytes → Bytes) (trailer : Bytes) (st : EncSt) (src : List Ev) (n : Nat)
    (h : st.failed = true) : encRead B fuel enc trailer st src n = (.fail, st, src) := by
  unfold encRead; simp [h]

/-- a failed encryptor answers every further `read` with an error -/
theorem encPoll_failed (B fuel : Nat) (enc : Bytes → Bytes) (trailer : Bytes) :
    ∀ (reqs : List Nat) (st : EncSt) (src : List Ev), st.failed = true →
      encPoll B fuel enc trailer st src reqs = reqs.map fun _ => RdRes.fail := by
  intro reqs
  induction reqs with
  | nil => intro st src _; rfl
  | cons n t ih =>
    intro st src h
    simp only [encPoll, encRead_failed B fuel enc trailer st src n h, List.map_cons]
    rw [ih st src h]

/-- a `read` that fails leaves the encryptor failed -/
theorem encRead_fail_sets_failed (B fuel : Nat) (enc : Bytes → Bytes) (trailer : Bytes) (st : EncSt) (src : List Ev)
    (n : Nat) (h : (encRead B fuel enc trailer st src n).1 = .fail) :
    (encRead B fuel enc trailer st src n).2.1.failed = true := by
  unfold encRead at h ⊢
  by_cases hf : st.failed = true
  · simp [hf]
  · simp only [hf, Bool.false_eq_true, if_false] at h ⊢
    by_cases hb : (!st.buf.isEmpty) = true
    · simp [hb] at h
    · simp only [hb, Bool.false_eq_true, if_false] at h ⊢
      by_cases hd : st.srcDone = true
      · simp [hd] at h
      · simp only [hd, Bool.false_eq_true, if_false] at h ⊢
        cases hfb : fillBufferEv fuel src B with
        | none => simp
        | some p =>
          obtain ⟨got, src'⟩ := p
          simp only [hfb] at h
          by_cases hg : got.isEmpty = true
          · simp [hg] at h
          · simp [hg] at h

/-- once one `read` has failed, every later `read` fails -/
theorem encPoll_after_fail (B fuel : Nat) (enc : Bytes → Bytes) (trailer : Bytes) :
    ∀ (reqs : List Nat) (st : EncSt) (src : List Ev) (pre post : List RdRes),
      encPoll B fuel enc trailer st src reqs = pre ++ RdRes.fail :: post → ∀ r ∈ post, r = RdRes.fail := by
  intro reqs
  induction reqs with
  | nil =>
    intro st src pre post h
    simp [encPoll] at h
  | cons n t ih =>
    intro st src pre post h
    simp only [encPoll] at h
    cases pre with
    | nil =>
      simp only [List.nil_append, List.cons.injEq] at h
      obtain ⟨h1, h2⟩ := h
      have hf := encRead_fail_sets_failed B fuel enc trailer st src n h1
      rw [encPoll_failed B fuel enc trailer t _ _ hf] at h2
      intro r hr
      rw [← h2] at hr
      simp only [List.mem_map] at hr
      obtain ⟨_, _, rfl⟩ := hr
      rfl
    | cons p pre' =>
      simp only [List.cons_append, List.cons.injEq] at h
      exact ih _ _ pre' post h.2

/-- what the encryptor hands out when nothing fails and the consumer asks `k` more times -/
def encStream (B fuel : Nat) (enc : Bytes → Bytes) (trailer : Bytes) : Nat → List Ev → Bytes
  | 0, _ => []
  | k + 1, src =>
    match fillBufferEv fuel src B with
    | none => []
    | some (got, src') => if got.isEmpty then trailer else enc got ++ encStream B fuel enc trailer k src'

theorem encStream_mono (B fuel : Nat) (enc : Bytes → Bytes) (trailer : Bytes) :
    ∀ (k : Nat) (src : List Ev), encStream B fuel enc trailer k src <+: encStream B fuel enc trailer (k + 1) src := by
  intro k
  induction k with
  | zero => intro src; simp [encStream]
  | succ k ih =>
    intro src
    rw [encStream, encStream]
    cases fillBufferEv fuel src B with
    | none => simp
    | some p =>
      obtain ⟨got, src'⟩ := p
      by_cases hg : got.isEmpty = true
      · simp [hg]
      · simp only [hg, Bool.false_eq_true, if_false]
        exact (List.prefix_append_right_inj _).mpr (ih src')

theorem take_append_prefix {a x y : Bytes} (n : Nat) (h : x <+: a.drop n ++ y) : a.take n ++ x <+: a ++ y := by
  have : a ++ y = a.take n ++ (a.drop n ++ y) := by rw [← List.append_assoc, List.take_append_drop]
  rw [this]
  exact (List.prefix_append_right_inj _).mpr h

/-- **only transformed data is released.**  Whatever the request sizes, wherever the source fails
and however often the consumer polls afterwards, the octets handed out are a prefix of: the octets
already queued, then `enc` of successive source segments, then the trailer. -/
theorem encPoll_released (B fuel : Nat) (enc : Bytes → Bytes) (trailer : Bytes) :
    ∀ (reqs : List Nat) (st : EncSt) (src : List Ev), st.failed = false →
      released (encPoll B fuel enc trailer st src reqs) <+:
        st.buf ++ (if st.srcDone then [] else encStream B fuel enc trailer reqs.length src) := by
  intro reqs
  induction reqs with
  | nil => intro st src _; simp [encPoll, released]
  | cons n t ih =>
    intro st src hf
    obtain ⟨buf, sd, fl⟩ := st
    simp only at hf
    subst hf
    simp only [encPoll, List.length_cons]
    unfold encRead
    simp only [Bool.false_eq_true, if_false]
    cases buf with
    | cons x xs =>
      simp only [List.isEmpty_cons, Bool.not_false, if_true, released]
      have h := ih ⟨(x :: xs).drop n, sd, false⟩ src rfl
      simp only at h
      cases sd with
      | true =>
        simp only [if_true, List.append_nil] at h ⊢
        have := take_append_prefix (a := x :: xs) (y := []) n (by simpa using h)
        simpa using this
      | false =>
        simp only [Bool.false_eq_true, if_false] at h ⊢
        have h' : released (encPoll B fuel enc trailer ⟨(x :: xs).drop n, false, false⟩ src t) <+:
            (x :: xs).drop n ++ encStream B fuel enc trailer (t.length + 1) src :=
          List.IsPrefix.trans h ((List.prefix_append_right_inj _).mpr (encStream_mono B fuel enc trailer t.length src))
        exact take_append_prefix n h'
    | nil =>
      simp only [List.isEmpty_nil, Bool.not_true, Bool.false_eq_true, if_false, List.nil_append]
      cases sd with
      | true =>
        simp only [if_true, released, List.nil_append]
        have h := ih ⟨[], true, false⟩ src rfl
        simpa using h
      | false =>
        simp only [Bool.false_eq_true, if_false]
        rw [encStream]
        cases hfb : fillBufferEv fuel src B with
        | none =>
          simp only [released]
          rw [encPoll_failed B fuel enc trailer t _ src (by rfl), released_fails]
          exact List.prefix_refl _
        | some p =>
          obtain ⟨got, src'⟩ := p
          simp only
          by_cases hg : got.isEmpty = true
          · simp only [hg, if_true, released]
            have h := ih ⟨trailer.drop n, true, false⟩ src' rfl
            simp only [if_true, List.append_nil] at h
            have := take_append_prefix (a := trailer) (y := []) n (by simpa using h)
            simpa using this
          · simp only [hg, Bool.false_eq_true, if_false, released]
            have h := ih ⟨(enc got).drop n, false, false⟩ src' rfl
            simp only [Bool.false_eq_true, if_false] at h
            exact take_append_prefix n h

/-- `encStream` is `enc` of consecutive non-empty segments (each at most `B` octets) of the octets
the source carries before its first failure, optionally followed by the trailer -/
theorem encStream_sound (B fuel : Nat) (enc : Bytes → Bytes) (trailer : Bytes) :
    ∀ (k : Nat) (src : List Ev), ∃ segs : List Bytes,
      segs.flatten <+: evPrefix src ∧ (∀ s ∈ segs, s ≠ [] ∧ s.length ≤ B) ∧
      (encStream B fuel enc trailer k src = (segs.map enc).flatten ∨
       encStream B fuel enc trailer k src = (segs.map enc).flatten ++ trailer) := by
  intro k
  induction k with
  | zero => intro src; exact ⟨[], by simp, by simp, Or.inl (by simp [encStream])⟩
  | succ k ih =>
    intro src
    rw [encStream]
    cases hfb : fillBufferEv fuel src B with
    | none => exact ⟨[], by simp, by simp, Or.inl (by simp)⟩
    | some p =>
      obtain ⟨got, src'⟩ := p
      obtain ⟨_, hpre, hlen⟩ := fillBufferEv_conserves fuel src B got src' hfb
      by_cases hg : got.isEmpty = true
      · simp only [hg, if_true]
        exact ⟨[], by simp, by simp, Or.inr (by simp)⟩
      · simp only [hg, Bool.false_eq_true, if_false]
        obtain ⟨segs, hs1, hs2, hs3⟩ := ih src'
        refine ⟨got :: segs, ?_, ?_, ?_⟩
        · rw [List.flatten_cons, hpre]
          exact (List.prefix_append_right_inj _).mpr hs1
        · intro s hs
          rcases List.mem_cons.mp hs with rfl | hs
          · exact ⟨by intro h0; simp [h0] at hg, hlen⟩
          · exact hs2 s hs
        · rcases hs3 with h | h
          · left; simp [h]
          · right; simp [h, List.append_assoc]

end Rpgp
