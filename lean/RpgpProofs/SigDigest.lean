import RpgpProofs.Framing
import RpgpProofs.Canon
import RpgpModel.SigDigest
/-! Proofs about signature pre-images (C11, shared with C02): big-endian length fields, normal
forms of the hashing routines, code = specification, parsing the pre-image back. -/
namespace Rpgp.SigDigest


theorem be16_length (n : Nat) : (be16 n).length = 2 := by simp [be16, beBytes]
theorem be32_length (n : Nat) : (be32 n).length = 4 := by simp [be32, beBytes]

theorem beNat_be16 (n : Nat) (h : n < 65536) : beNat (be16 n) = n := by
  rw [be16_eq, beNat_two]
  rw [toUInt8_toNat_of_lt _ (by omega), toUInt8_toNat_of_lt _ (by omega)]
  omega

theorem beNat_be32 (n : Nat) (h : n < 4294967296) : beNat (be32 n) = n := by
  rw [be32_eq, beNat_four]
  rw [toUInt8_toNat_of_lt _ (by omega), toUInt8_toNat_of_lt _ (by omega),
    toUInt8_toNat_of_lt _ (by omega), toUInt8_toNat_of_lt _ (by omega)]
  omega

theorem be16_inj (n m : Nat) (hn : n < 65536) (hm : m < 65536) (h : be16 n = be16 m) : n = m := by
  have := congrArg beNat h
  rwa [beNat_be16 n hn, beNat_be16 m hm] at this

theorem be32_inj (n m : Nat) (hn : n < 4294967296) (hm : m < 4294967296) (h : be32 n = be32 m) : n = m := by
  have := congrArg beNat h
  rwa [beNat_be32 n hn, beNat_be32 m hm] at this

theorem lenField_two (n : Nat) : lenField 2 n = if n < 65536 then some (be16 n) else none := by
  simp [lenField, be16]

theorem lenField_four (n : Nat) : lenField 4 n = if n < 4294967296 then some (be32 n) else none := by
  simp [lenField, be32]




/-- the part of the pre-image after the subject -/
def Spec.tailBytes (i : Spec.Input) : Bytes :=
  match i.ver with
  | .v3 => i.typ :: be32 i.created
  | _ => Spec.hashedFields i ++ Spec.trailerBytes i

def Spec.saltPart (i : Spec.Input) : Bytes :=
  match i.ver with
  | .v6 => i.salt
  | _ => []

theorem Spec.preimage_eq (i : Spec.Input) :
    Spec.preimage i = Spec.saltPart i ++ Spec.subjectBytes i.ver i.typ i.subject ++ Spec.tailBytes i := by
  unfold Spec.preimage Spec.saltPart Spec.tailBytes
  cases h : i.ver <;> simp [List.append_assoc]

theorem fieldsAndTrailer_v3 (c : Cfg) (h : c.ver = .v3) :
    fieldsAndTrailer c = some (c.typ :: be32 c.created) := by
  simp [fieldsAndTrailer, hashSignatureData, trailer, h, Gen.sdHsdV3Len, be32]

theorem fieldsAndTrailer_v4 (c : Cfg) (h : c.ver = .v4) :
    fieldsAndTrailer c =
      if c.area.length < 65536 then
        some ([4, c.typ, c.pk, c.hash] ++ be16 c.area.length ++ c.area ++ ([4, 0xFF] ++ be32 (6 + c.area.length)))
      else none := by
  by_cases hl : c.area.length < 65536
  · have h2 : 6 + c.area.length < 4294967296 := by omega
    have h3 : c.area.length + 1 + 1 + 1 + 1 + 1 + 1 = 6 + c.area.length := by omega
    simp [fieldsAndTrailer, hashSignatureData, trailer, h, Gen.sdHsdV4AreaLenOctets, Gen.sdHsdV4AreaLenBits,
      Gen.sdTrailerLenOctets, Gen.sdTrailerLenBits, lenField_two, lenField_four, hl, Ver.octet, Gen.sdSigVerV4,
      Gen.sdTrailerMarker, be16_length]
    exact ⟨by omega, by congr 1; omega⟩
  · simp [fieldsAndTrailer, hashSignatureData, h, Gen.sdHsdV4AreaLenOctets, Gen.sdHsdV4AreaLenBits, lenField_two, hl]

theorem fieldsAndTrailer_v6 (c : Cfg) (h : c.ver = .v6) :
    fieldsAndTrailer c =
      if saltSizeOk c = true ∧ c.area.length + 8 < 4294967296 then
        some ([6, c.typ, c.pk, c.hash] ++ be32 c.area.length ++ c.area ++ ([6, 0xFF] ++ be32 (8 + c.area.length)))
      else none := by
  by_cases hs : saltSizeOk c = true
  · by_cases hl : c.area.length + 8 < 4294967296
    · have h1 : c.area.length < 4294967296 := by omega
      simp [fieldsAndTrailer, hashSignatureData, trailer, h, hs, Gen.sdHsdV6AreaLenOctets, Gen.sdHsdV6AreaLenBits,
        Gen.sdTrailerLenOctets, Gen.sdTrailerLenBits, lenField_four, hl, Ver.octet, Gen.sdSigVerV6,
        Gen.sdTrailerMarker, be32_length, h1]
      exact ⟨by omega, by congr 1; omega⟩
    · by_cases h1 : c.area.length < 4294967296
      · have h2 : ¬ (4 + c.area.length + 1 + 1 + 1 + 1 < 4294967296) := by omega
        simp [fieldsAndTrailer, hashSignatureData, trailer, h, hs, Gen.sdHsdV6AreaLenOctets, Gen.sdHsdV6AreaLenBits,
          Gen.sdTrailerLenOctets, Gen.sdTrailerLenBits, lenField_four, h1, be32_length, h2, hl]
      · simp [fieldsAndTrailer, hashSignatureData, h, hs, Gen.sdHsdV6AreaLenOctets, Gen.sdHsdV6AreaLenBits,
          lenField_four, hl, h1]
  · simp [fieldsAndTrailer, hashSignatureData, h, hs]

/-- a configuration that gets past `hash_signature_data` has a salt of the tabulated size -/
theorem fieldsAndTrailer_saltSizeOk (c : Cfg) (ft : Bytes) (h : fieldsAndTrailer c = some ft) :
    saltSizeOk c = true := by
  cases hv : c.ver
  · simp [saltSizeOk, hv]
  · simp [saltSizeOk, hv]
  · rw [fieldsAndTrailer_v6 c hv] at h
    split at h
    · rename_i hc; exact hc.1
    · simp at h

/-- whatever the routine appends after the subject is the specification's tail -/
theorem fieldsAndTrailer_eq_spec (c : Cfg) (ft : Bytes) (s : Spec.Subject)
    (h : fieldsAndTrailer c = some ft) : ft = Spec.tailBytes (c.toInput s) := by
  cases hv : c.ver
  · rw [fieldsAndTrailer_v3 c hv] at h
    simp at h
    simp [Spec.tailBytes, Cfg.toInput, hv, ← h]
  · rw [fieldsAndTrailer_v4 c hv] at h
    split at h
    · simp at h
      simp [Spec.tailBytes, Cfg.toInput, hv, ← h, Spec.hashedFields, Spec.trailerBytes, be16_length]
      congr 1; omega
    · simp at h
  · rw [fieldsAndTrailer_v6 c hv] at h
    split at h
    · simp at h
      simp [Spec.tailBytes, Cfg.toInput, hv, ← h, Spec.hashedFields, Spec.trailerBytes, be32_length]
      congr 1; omega
    · simp at h

end Rpgp.SigDigest

namespace Rpgp.SigDigest

theorem serializeForHashing_eq (k : Key) (out : Bytes) (h : serializeForHashing k = some out)
    (ht : k.ser.truthful) : out = Spec.keyBytes k.toSpec ∧ Spec.keyWF k.toSpec = true := by
  unfold Ser.truthful at ht
  unfold serializeForHashing at h
  by_cases h1 : k.ver = 2 ∨ k.ver = 3 ∨ k.ver = 4
  · have h6 : k.ver ≠ 6 := by omega
    simp only [h1, if_true, Gen.sdSfhLegacyLenOctets, Gen.sdSfhLegacyLenBits, Gen.sdSfhLegacyPrefix, Nat.reduceDiv, lenField_two] at h
    split at h
    · rename_i hl
      simp at h
      simp [Key.toSpec, h6, Spec.keyBytes, Spec.keyWF, ← h, ← ht, hl]
    · simp at h
  · simp only [h1, if_false] at h
    by_cases h6 : k.ver = 6
    · simp only [h6, if_true, Gen.sdSfhV6LenOctets, Gen.sdSfhV6LenBits, Gen.sdSfhV6Prefix, Nat.reduceDiv, lenField_four] at h
      split at h
      · rename_i hl
        simp at h
        simp [Key.toSpec, h6, Spec.keyBytes, Spec.keyWF, ← h, ← ht, hl]
      · simp at h
    · simp [h6] at h

@[simp] theorem toInput_ver (c : Cfg) (s : Spec.Subject) : (c.toInput s).ver = c.ver := rfl
@[simp] theorem toInput_typ (c : Cfg) (s : Spec.Subject) : (c.toInput s).typ = c.typ := rfl
@[simp] theorem toInput_subject (c : Cfg) (s : Spec.Subject) : (c.toInput s).subject = s := rfl
@[simp] theorem toInput_pk (c : Cfg) (s : Spec.Subject) : (c.toInput s).pk = c.pk := rfl
@[simp] theorem toInput_hash (c : Cfg) (s : Spec.Subject) : (c.toInput s).hash = c.hash := rfl

theorem typText_eq : typText = 1 := by decide
theorem typBinary_eq : typBinary = 0 := by decide

theorem saltBytes_eq_spec (c : Cfg) (s : Spec.Subject) : saltBytes c = Spec.saltPart (c.toInput s) := by
  cases h : c.ver <;> simp [saltBytes, Spec.saltPart, Cfg.toInput, h]

/-- what a successful hashing routine establishes: the octets it hashed are the specification's
pre-image of `s`, every length fitted its field -/
def Established (c : Cfg) (s : Spec.Subject) (p : Bytes) : Prop :=
  p = Spec.preimage (c.toInput s) ∧ Spec.subjectWF c.ver s = true ∧ (fieldsAndTrailer c).isSome = true


end Rpgp.SigDigest

namespace Rpgp.SigDigest

theorem bool_of_not_bnot (b : Bool) (h : ¬ ((!b) = true)) : b = true := by
  cases b <;> simp at h ⊢

theorem classOf_direct (t : Byte) (h : (t == Gen.sdSigTypeKey.toUInt8 || t == Gen.sdSigTypeKeyRevocation.toUInt8) = true) :
    Spec.classOf t = some .direct := by
  simp [Gen.sdSigTypeKey, Gen.sdSigTypeKeyRevocation] at h
  rcases h with h | h <;> subst h <;> decide

theorem signKey_eq_spec (c : Cfg) (sv : Nat) (k : Key) (p : Bytes) (h : signKey c sv k = some p)
    (ht : k.ser.truthful) :
    Established c (.directKey k.toSpec) p ∧ Spec.classOf c.typ = some .direct := by
  unfold signKey at h
  split at h
  · simp at h
  · split at h
    · simp at h
    · rename_i _ hty
      split at h
      · simp at h
      · rename_i kb hk
        simp only [Option.map_eq_some_iff] at h
        obtain ⟨ft, hft, rfl⟩ := h
        have hk' := serializeForHashing_eq k kb hk ht
        refine ⟨⟨?_, by simpa [Spec.subjectWF] using hk'.2, by simp [hft]⟩,
          classOf_direct c.typ (bool_of_not_bnot _ hty)⟩
        rw [Spec.preimage_eq, ← saltBytes_eq_spec, ← fieldsAndTrailer_eq_spec c ft _ hft]
        simp [Spec.subjectBytes, Cfg.toInput, hk'.1]

end Rpgp.SigDigest

namespace Rpgp.SigDigest

theorem hashedText_eq_canon (chunks : List Bytes) : hashedText chunks = canon chunks.flatten := by
  have := (hasher_fold chunks {} [] rfl rfl).1
  simpa [hashedText, Hasher.done] using this

theorem classOf_cert (t : Byte) (h : isCertification t = true) : Spec.classOf t = some .cert := by
  simp [isCertification, Gen.sdSigTypeCertGeneric, Gen.sdSigTypeCertPersona, Gen.sdSigTypeCertCasual,
    Gen.sdSigTypeCertPositive, Gen.sdSigTypeCertRevocation] at h
  rcases h with (((h | h) | h) | h) | h <;> subst h <;> decide

theorem classOf_bind_sub (t : Byte)
    (h : (t == Gen.sdSigTypeSubkeyBinding.toUInt8 || t == Gen.sdSigTypeSubkeyRevocation.toUInt8) = true) :
    Spec.classOf t = some .bind := by
  simp [Gen.sdSigTypeSubkeyBinding, Gen.sdSigTypeSubkeyRevocation] at h
  rcases h with h | h <;> subst h <;> decide

theorem classOf_bind_prim (t : Byte) (h : (t == Gen.sdSigTypeKeyBinding.toUInt8) = true) :
    Spec.classOf t = some .bind := by
  simp [Gen.sdSigTypeKeyBinding] at h
  subst h; decide

theorem classOf_doc (t : Byte) (h : (t == typBinary || t == typText) = true) :
    Spec.classOf t = some .doc := by
  simp [typBinary, typText, Gen.sdSigTypeBinary, Gen.sdSigTypeText] at h
  rcases h with h | h <;> subst h <;> decide

theorem verifyKey_eq_spec (c : Cfg) (sv : Nat) (k : Key) (p : Bytes) (h : verifyKey c sv k = some p)
    (ht : k.ser.truthful) :
    Established c (.directKey k.toSpec) p ∧ Spec.classOf c.typ = some .direct := by
  unfold verifyKey at h
  split at h
  · simp at h
  · rename_i hty
    split at h
    · simp at h
    · split at h
      · simp at h
      · rename_i kb hk
        simp only [Option.map_eq_some_iff] at h
        obtain ⟨ft, hft, rfl⟩ := h
        have hk' := serializeForHashing_eq k kb hk ht
        refine ⟨⟨?_, by simpa [Spec.subjectWF] using hk'.2, by simp [hft]⟩,
          classOf_direct c.typ (bool_of_not_bnot _ hty)⟩
        rw [Spec.preimage_eq, ← saltBytes_eq_spec, ← fieldsAndTrailer_eq_spec c ft _ hft]
        simp [Spec.subjectBytes, Cfg.toInput, hk'.1]

/-- both binding routines: primary then subkey -/
theorem bindingBytes_eq_spec (c : Cfg) (pk sk : Key) (pb sb ft : Bytes)
    (hp : serializeForHashing pk = some pb) (hs : serializeForHashing sk = some sb)
    (hft : fieldsAndTrailer c = some ft) (tp : pk.ser.truthful) (ts : sk.ser.truthful) :
    Established c (.binding pk.toSpec sk.toSpec) (saltBytes c ++ pb ++ sb ++ ft) := by
  have h1 := serializeForHashing_eq pk pb hp tp
  have h2 := serializeForHashing_eq sk sb hs ts
  refine ⟨?_, by simp [Spec.subjectWF, h1.2, h2.2], by simp [hft]⟩
  rw [Spec.preimage_eq, ← saltBytes_eq_spec, ← fieldsAndTrailer_eq_spec c ft _ hft]
  simp [Spec.subjectBytes, Cfg.toInput, h1.1, h2.1]

theorem signSubkeyBinding_eq_spec (c : Cfg) (sv : Nat) (pk sk : Key) (p : Bytes)
    (h : signSubkeyBinding c sv pk sk = some p) (tp : pk.ser.truthful) (ts : sk.ser.truthful) :
    Established c (.binding pk.toSpec sk.toSpec) p ∧ Spec.classOf c.typ = some .bind := by
  unfold signSubkeyBinding at h
  split at h
  · simp at h
  · split at h
    · simp at h
    · rename_i _ hty
      split at h
      · rename_i pb sb hp hs
        simp only [Option.map_eq_some_iff] at h
        obtain ⟨ft, hft, rfl⟩ := h
        exact ⟨bindingBytes_eq_spec c pk sk pb sb ft hp hs hft tp ts, classOf_bind_sub _ (bool_of_not_bnot _ hty)⟩
      · simp at h

theorem signPrimaryKeyBinding_eq_spec (c : Cfg) (sv : Nat) (pk sk : Key) (p : Bytes)
    (h : signPrimaryKeyBinding c sv pk sk = some p) (tp : pk.ser.truthful) (ts : sk.ser.truthful) :
    Established c (.binding pk.toSpec sk.toSpec) p ∧ Spec.classOf c.typ = some .bind := by
  unfold signPrimaryKeyBinding at h
  split at h
  · simp at h
  · split at h
    · simp at h
    · rename_i _ hty
      split at h
      · rename_i pb sb hp hs
        simp only [Option.map_eq_some_iff] at h
        obtain ⟨ft, hft, rfl⟩ := h
        exact ⟨bindingBytes_eq_spec c pk sk pb sb ft hp hs hft tp ts, classOf_bind_prim _ (bool_of_not_bnot _ hty)⟩
      · simp at h

theorem verifySubkeyBinding_eq_spec (c : Cfg) (pk sk : Key) (p : Bytes)
    (h : verifySubkeyBinding c pk sk = some p) (tp : pk.ser.truthful) (ts : sk.ser.truthful) :
    Established c (.binding pk.toSpec sk.toSpec) p ∧ Spec.classOf c.typ = some .bind := by
  unfold verifySubkeyBinding at h
  split at h
  · simp at h
  · rename_i hty
    split at h
    · simp at h
    · split at h
      · rename_i pb sb hp hs
        simp only [Option.map_eq_some_iff] at h
        obtain ⟨ft, hft, rfl⟩ := h
        exact ⟨bindingBytes_eq_spec c pk sk pb sb ft hp hs hft tp ts, classOf_bind_sub _ (bool_of_not_bnot _ hty)⟩
      · simp at h

theorem verifyPrimaryKeyBinding_eq_spec (c : Cfg) (sk pk : Key) (p : Bytes)
    (h : verifyPrimaryKeyBinding c sk pk = some p) (tp : pk.ser.truthful) (ts : sk.ser.truthful) :
    Established c (.binding pk.toSpec sk.toSpec) p ∧ Spec.classOf c.typ = some .bind := by
  unfold verifyPrimaryKeyBinding at h
  split at h
  · simp at h
  · rename_i hty
    split at h
    · simp at h
    · split at h
      · rename_i pb sb hp hs
        simp only [Option.map_eq_some_iff] at h
        obtain ⟨ft, hft, rfl⟩ := h
        exact ⟨bindingBytes_eq_spec c pk sk pb sb ft hp hs hft tp ts, classOf_bind_prim _ (bool_of_not_bnot _ hty)⟩
      · simp at h

end Rpgp.SigDigest

namespace Rpgp.SigDigest

/-- the identity prefix followed by the identity octets is the specification's framing, provided
the announced length is the real one -/
theorem idPrefix_eq_spec (ver : Ver) (tag len : Nat) (body pre : Bytes) (uo ao : Nat)
    (huo : uo = 0xB4) (hao : ao = 0xD1)
    (h : idPrefix ver uo ao 4 tag len = some pre) (hl : len = body.length) :
    pre ++ body = Spec.idBytes ver (tag == tagUserAttribute) body ∧
    (ver = .v3 ∨ body.length < 4294967296) := by
  subst huo hao hl
  cases ver
  · simp [idPrefix] at h
    subst h
    simp [Spec.idBytes]
  all_goals
    simp only [idPrefix, lenField_four] at h
    by_cases h13 : tag = tagUserId
    · simp only [h13, if_true] at h
      split at h
      · rename_i hlt
        simp at h
        subst h
        simp [Spec.idBytes, h13, tagUserId, tagUserAttribute, hlt]
      · simp at h
    · simp only [h13, if_false] at h
      by_cases h17 : tag = tagUserAttribute
      · simp only [h17, if_true] at h
        split at h
        · rename_i hlt
          simp at h
          subst h
          simp [Spec.idBytes, h17, hlt]
        · simp at h
      · simp [h17] at h

theorem signAligned_not_v3 (c : Cfg) (sv : Nat) (h : signAligned c sv = true) : c.ver ≠ .v3 := by
  intro hv
  simp [signAligned, hv] at h

theorem signCertification_eq_spec (c : Cfg) (sv : Nat) (k : Key) (tag : Nat) (id : Ser) (p : Bytes)
    (h : signCertification c sv k tag id = some p) (ht : k.ser.truthful) :
    Established c (.certification k.toSpec (tag == tagUserAttribute) id.bytes) p ∧
    Spec.classOf c.typ = some .cert := by
  unfold signCertification at h
  split at h
  · simp at h
  · split at h
    · simp at h
    · rename_i _ hty
      split at h
      · simp at h
      · rename_i kb hk
        split at h
        · simp at h
        · rename_i pre hpre
          simp only [Option.map_eq_some_iff] at h
          obtain ⟨ft, hft, rfl⟩ := h
          have hk' := serializeForHashing_eq k kb hk ht
          have hid := idPrefix_eq_spec c.ver tag id.bytes.length id.bytes pre Gen.sdSignUidPrefix Gen.sdSignAttrPrefix
            rfl rfl
            (by simpa [Gen.sdSignIdLenOctets, Gen.sdSignIdLenBits] using hpre) rfl
          refine ⟨⟨?_, ?_, by simp [hft]⟩, classOf_cert c.typ (bool_of_not_bnot _ hty)⟩
          rotate_left
          · rcases hid.2 with hv | hl
            · simp [Spec.subjectWF, hk'.2, hv]
            · simp [Spec.subjectWF, hk'.2, hl]
          rw [Spec.preimage_eq, ← saltBytes_eq_spec, ← fieldsAndTrailer_eq_spec c ft _ hft]
          simp only [toInput_ver, toInput_subject, Spec.subjectBytes, ← hid.1, hk'.1,
            List.append_assoc]

theorem verifyCertification_eq_spec (c : Cfg) (sv : Nat) (k : Key) (tag : Nat) (id : Ser) (p : Bytes)
    (h : verifyCertification c sv k tag id = some p) (ht : k.ser.truthful) (hi : id.truthful) :
    Established c (.certification k.toSpec (tag == tagUserAttribute) id.bytes) p ∧
    Spec.classOf c.typ = some .cert := by
  unfold verifyCertification at h
  split at h
  · simp at h
  · rename_i hty
    split at h
    · simp at h
    · split at h
      · simp at h
      · rename_i kb hk
        split at h
        · simp at h
        · rename_i pre hpre
          simp only [Option.map_eq_some_iff] at h
          obtain ⟨ft, hft, rfl⟩ := h
          have hk' := serializeForHashing_eq k kb hk ht
          have hid := idPrefix_eq_spec c.ver tag id.writeLen id.bytes pre Gen.sdVerUidPrefix Gen.sdVerAttrPrefix
            rfl rfl
            (by simpa [Gen.sdVerIdLenOctets, Gen.sdVerIdLenBits] using hpre) hi
          refine ⟨⟨?_, ?_, by simp [hft]⟩, classOf_cert c.typ (bool_of_not_bnot _ hty)⟩
          rotate_left
          · rcases hid.2 with hv | hl
            · simp [Spec.subjectWF, hk'.2, hv]
            · simp [Spec.subjectWF, hk'.2, hl]
          rw [Spec.preimage_eq, ← saltBytes_eq_spec, ← fieldsAndTrailer_eq_spec c ft _ hft]
          simp only [toInput_ver, toInput_subject, Spec.subjectBytes, ← hid.1, hk'.1,
            List.append_assoc]

theorem docBytes_eq_spec (c : Cfg) (d : Bytes) :
    (if c.typ = typText then canon d else d) = Spec.subjectBytes c.ver c.typ (.document d) := by
  simp [Spec.subjectBytes, typText_eq]

theorem signData_eq_spec (c : Cfg) (sv : Nat) (chunks : List Bytes) (p : Bytes)
    (h : signData c sv chunks = some p) :
    Established c (.document chunks.flatten) p ∧ Spec.classOf c.typ = some .doc := by
  unfold signData at h
  simp only [hashedText_eq_canon] at h
  split at h
  · simp at h
  · split at h
    · simp at h
    · rename_i _ hty
      simp only [Option.map_eq_some_iff] at h
      obtain ⟨ft, hft, rfl⟩ := h
      refine ⟨⟨?_, by simp [Spec.subjectWF], by simp [hft]⟩, classOf_doc c.typ (bool_of_not_bnot _ hty)⟩
      rw [Spec.preimage_eq, ← saltBytes_eq_spec, ← fieldsAndTrailer_eq_spec c ft _ hft,
        docBytes_eq_spec c]
      simp

theorem verifyInline_eq_spec (c : Cfg) (sv : Nat) (chunks : List Bytes) (p : Bytes)
    (h : verifyInline c sv chunks = some p) :
    Established c (.document chunks.flatten) p ∧ Spec.classOf c.typ = some .doc := by
  unfold verifyInline at h
  simp only [hashedText_eq_canon] at h
  split at h
  · simp at h
  · split at h
    · simp at h
    · rename_i ft hft
      split at h
      · simp at h
      · rename_i hty
        split at h
        · simp at h
        · simp at h
          subst h
          refine ⟨⟨?_, by simp [Spec.subjectWF], by simp [hft]⟩, classOf_doc c.typ (bool_of_not_bnot _ hty)⟩
          rw [Spec.preimage_eq, ← saltBytes_eq_spec, ← fieldsAndTrailer_eq_spec c ft _ hft,
            docBytes_eq_spec c]
          simp [List.append_assoc]

theorem verifyData_eq_spec (c : Cfg) (sv : Nat) (d : Bytes) (p : Bytes)
    (hty : c.typ = typBinary ∨ c.typ = typText)
    (h : verifyData c sv d = some p) :
    Established c (.document d) p := by
  unfold verifyData at h
  rw [normalizedRead_eq_canon _ (by decide)] at h
  split at h
  · simp at h
  · split at h
    · simp at h
    · have hd : ∀ x, hashDataToSign c x = some x := by
        intro x
        unfold hashDataToSign
        rcases hty with h | h <;> simp [h]
      simp only [hd] at h
      simp only [Option.map_eq_some_iff] at h
      obtain ⟨ft, hft, rfl⟩ := h
      refine ⟨?_, by simp [Spec.subjectWF], by simp [hft]⟩
      rw [Spec.preimage_eq, ← saltBytes_eq_spec, ← fieldsAndTrailer_eq_spec c ft _ hft,
        docBytes_eq_spec c]
      simp

end Rpgp.SigDigest

namespace Rpgp.SigDigest

theorem keyBytes_append_inj (k k' : Spec.Key) (r r' : Bytes)
    (hk : Spec.keyWF k = true) (hk' : Spec.keyWF k' = true)
    (h : Spec.keyBytes k ++ r = Spec.keyBytes k' ++ r') : k = k' ∧ r = r' := by
  obtain ⟨f, b⟩ := k
  obtain ⟨f', b'⟩ := k'
  cases f <;> cases f' <;> simp only [Spec.keyBytes, Spec.keyWF, decide_eq_true_eq] at h hk hk'
  · -- legacy / legacy
    simp only [List.cons_append, List.cons.injEq, true_and, List.append_assoc] at h
    have h1 := List.append_inj h (by simp [be16_length])
    have hn := be16_inj _ _ hk hk' h1.1
    have h2 := List.append_inj h1.2 hn
    simp [h2.1, h2.2]
  · simp at h
  · simp at h
  · simp only [List.cons_append, List.cons.injEq, true_and, List.append_assoc] at h
    have h1 := List.append_inj h (by simp [be32_length])
    have hn := be32_inj _ _ hk hk' h1.1
    have h2 := List.append_inj h1.2 hn
    simp [h2.1, h2.2]

theorem keyBytes_inj (k k' : Spec.Key) (hk : Spec.keyWF k = true) (hk' : Spec.keyWF k' = true)
    (h : Spec.keyBytes k = Spec.keyBytes k') : k = k' := by
  have := keyBytes_append_inj k k' [] [] hk hk' (by simpa using h)
  exact this.1

theorem idBytes_inj (ver : Ver) (hv : ver ≠ .v3) (a a' : Bool) (b b' : Bytes)
    (hb : b.length < 4294967296) (hb' : b'.length < 4294967296)
    (h : Spec.idBytes ver a b = Spec.idBytes ver a' b') : a = a' ∧ b = b' := by
  cases ver
  · exact absurd rfl hv
  all_goals
    simp only [Spec.idBytes, List.cons.injEq] at h
    obtain ⟨h0, h1⟩ := h
    have h2 := List.append_inj h1 (by simp [be32_length])
    refine ⟨?_, h2.2⟩
    cases a <;> cases a' <;> simp at h0 ⊢

end Rpgp.SigDigest

namespace Rpgp.SigDigest

/-- subjects of the same class with the same framed octets are the same subject -/
theorem subjectBytes_inj (ver : Ver) (hv : ver ≠ .v3) (typ : Byte) (s s' : Spec.Subject)
    (hc : s.cls = s'.cls) (w : Spec.subjectWF ver s = true) (w' : Spec.subjectWF ver s' = true)
    (hcan : ∀ d, s = .document d → typ = 0x01 → canon d = d)
    (hcan' : ∀ d, s' = .document d → typ = 0x01 → canon d = d)
    (h : Spec.subjectBytes ver typ s = Spec.subjectBytes ver typ s') : s = s' := by
  cases s <;> cases s' <;> simp [Spec.Subject.cls] at hc
  · rename_i d d'
    simp only [Spec.subjectBytes] at h
    by_cases ht : typ = 0x01
    · simp only [ht, if_true] at h
      rw [hcan d rfl ht, hcan' d' rfl ht] at h
      rw [h]
    · simp only [ht, if_false] at h
      rw [h]
  · rename_i k k'
    simp only [Spec.subjectBytes] at h
    simp only [Spec.subjectWF] at w w'
    rw [keyBytes_inj k k' w w' h]
  · rename_i k a b k' a' b'
    simp only [Spec.subjectBytes] at h
    have hv3 : (ver == Ver.v3) = false := by cases ver <;> simp_all
    simp only [Spec.subjectWF, Bool.and_eq_true, hv3, Bool.false_or, decide_eq_true_eq] at w w'
    have h1 := keyBytes_append_inj k k' _ _ w.1 w'.1 h
    have h2 := idBytes_inj ver hv a a' b b' w.2 w'.2 h1.2
    rw [h1.1, h2.1, h2.2]
  · rename_i p q p' q'
    simp only [Spec.subjectBytes] at h
    simp only [Spec.subjectWF, Bool.and_eq_true] at w w'
    have h1 := keyBytes_append_inj p p' _ _ w.1 w'.1 h
    have h2 := keyBytes_inj q q' w.2 w'.2 h1.2
    rw [h1.1, h2]

end Rpgp.SigDigest

namespace Rpgp.SigDigest

theorem Spec.Input.ext' (a b : Spec.Input) (h1 : a.ver = b.ver) (h2 : a.typ = b.typ) (h3 : a.pk = b.pk)
    (h4 : a.hash = b.hash) (h5 : a.area = b.area) (h6 : a.salt = b.salt) (h7 : a.created = b.created)
    (h8 : a.subject = b.subject) : a = b := by
  cases a; cases b; simp_all

theorem isEmpty_eq_nil (l : Bytes) (h : l.isEmpty = true) : l = [] := by
  cases l <;> simp_all

theorem preimage_injective_v4 (a b : Spec.Input) (ha : a.ver = .v4) (hb : b.ver = .v4)
    (wa : Spec.WF a = true) (wb : Spec.WF b = true) (h : Spec.preimage a = Spec.preimage b) : a = b := by
  simp only [Spec.WF, ha, hb, Bool.and_eq_true, decide_eq_true_eq, beq_iff_eq] at wa wb
  obtain ⟨⟨⟨swa, cla⟩, cana⟩, ⟨ala, sa⟩, cra⟩ := wa
  obtain ⟨⟨⟨swb, clb⟩, canb⟩, ⟨alb, sb⟩, crb⟩ := wb
  simp only [Spec.preimage, ha, hb, Spec.trailerBytes, Spec.hashedFields] at h
  -- split off the trailer (6 octets)
  have h1 := List.append_inj' h (by simp [be32_length])
  obtain ⟨hSF, hT⟩ := h1
  simp only [List.cons_append, List.nil_append, List.cons.injEq, true_and, List.length_cons,
    List.length_append, be16_length] at hT
  have hlen : a.area.length = b.area.length := by
    have := be32_inj _ _ (by omega) (by omega) hT
    omega
  -- split subject from hashed fields
  have h2 := List.append_inj' hSF (by simp [be16_length, hlen])
  obtain ⟨hS, hF⟩ := h2
  simp only [List.cons_append, List.nil_append, List.cons.injEq, true_and] at hF
  obtain ⟨htyp, hpk, hhash, hrest⟩ := hF
  have h3 := List.append_inj hrest (by simp [be16_length])
  have hcls : a.subject.cls = b.subject.cls := by
    rw [htyp] at cla
    rw [cla] at clb
    exact (Option.some.inj clb)
  have hsub := subjectBytes_inj .v4 (by decide) a.typ a.subject b.subject hcls swa swb
    (by intro d hd ht; rw [hd] at cana; simpa [ht] using cana)
    (by intro d hd ht; rw [hd] at canb; rw [htyp] at ht; simpa [ht] using canb)
    (by rw [hS, htyp])
  exact Spec.Input.ext' a b (by rw [ha, hb]) htyp hpk hhash h3.2
    (by rw [isEmpty_eq_nil _ sa, isEmpty_eq_nil _ sb]) (by rw [cra, crb]) hsub

end Rpgp.SigDigest

namespace Rpgp.SigDigest

theorem preimage_injective_v6 (a b : Spec.Input) (ha : a.ver = .v6) (hb : b.ver = .v6)
    (wa : Spec.WF a = true) (wb : Spec.WF b = true) (h : Spec.preimage a = Spec.preimage b) : a = b := by
  simp only [Spec.WF, ha, hb, Bool.and_eq_true, decide_eq_true_eq, beq_iff_eq] at wa wb
  obtain ⟨⟨⟨swa, cla⟩, cana⟩, ⟨ala, sa⟩, cra⟩ := wa
  obtain ⟨⟨⟨swb, clb⟩, canb⟩, ⟨alb, sb⟩, crb⟩ := wb
  simp only [Spec.preimage, ha, hb, Spec.trailerBytes, Spec.hashedFields] at h
  have h1 := List.append_inj' h (by simp [be32_length])
  obtain ⟨hSF, hT⟩ := h1
  simp only [List.cons_append, List.nil_append, List.cons.injEq, true_and, List.length_cons,
    List.length_append, be32_length] at hT
  have hlen : a.area.length = b.area.length := by
    have := be32_inj _ _ (by omega) (by omega) hT
    omega
  have h2 := List.append_inj' hSF (by simp [be32_length, hlen])
  obtain ⟨hS, hF⟩ := h2
  simp only [List.cons_append, List.nil_append, List.cons.injEq, true_and] at hF
  obtain ⟨htyp, hpk, hhash, hrest⟩ := hF
  have h3 := List.append_inj hrest (by simp [be32_length])
  -- the salt: its size is a function of the hash algorithm octet, which we have just recovered
  have hsl : a.salt.length = b.salt.length := by
    rw [hhash] at sa
    rw [sa] at sb
    exact Option.some.inj sb
  have h4 := List.append_inj hS hsl
  have hcls : a.subject.cls = b.subject.cls := by
    rw [htyp] at cla
    rw [cla] at clb
    exact (Option.some.inj clb)
  have hsub := subjectBytes_inj .v6 (by decide) a.typ a.subject b.subject hcls swa swb
    (by intro d hd ht; rw [hd] at cana; simpa [ht] using cana)
    (by intro d hd ht; rw [hd] at canb; rw [htyp] at ht; simpa [ht] using canb)
    (by rw [h4.2, htyp])
  exact Spec.Input.ext' a b (by rw [ha, hb]) htyp hpk hhash h3.2 h4.1 (by rw [cra, crb]) hsub

/-- version 3: type, creation time and the subject octets are recovered (the v3 framing of
certifications does not separate User IDs from User Attributes, so the statement stops at the
subject octets) -/
theorem preimage_injective_v3 (a b : Spec.Input) (ha : a.ver = .v3) (hb : b.ver = .v3)
    (wa : Spec.WF a = true) (wb : Spec.WF b = true) (h : Spec.preimage a = Spec.preimage b) :
    a.typ = b.typ ∧ a.created = b.created ∧
      Spec.subjectBytes .v3 a.typ a.subject = Spec.subjectBytes .v3 b.typ b.subject := by
  simp only [Spec.WF, ha, hb, Bool.and_eq_true, decide_eq_true_eq, beq_iff_eq] at wa wb
  simp only [Spec.preimage, ha, hb] at h
  have h1 := List.append_inj' h (by simp [be32_length])
  obtain ⟨hS, hT⟩ := h1
  simp only [List.cons.injEq] at hT
  exact ⟨hT.1, be32_inj _ _ wa.2.2 wb.2.2 hT.2, hS⟩

end Rpgp.SigDigest

namespace Rpgp.SigDigest

set_option maxRecDepth 100000 in
theorem saltLenOf_eq_spec_nat : ∀ n, n < 256 → Gen.sdSaltLenOf n = Spec.saltSize n.toUInt8 := by decide

theorem saltLenOf_eq_spec (h : Byte) : Gen.sdSaltLenOf h.toNat = Spec.saltSize h := by
  have := saltLenOf_eq_spec_nat h.toNat h.toNat_lt
  simpa using this

end Rpgp.SigDigest

namespace Rpgp.SigDigest

/-- lengths that a successful `hash_signature_data` + `trailer` establishes -/
theorem fieldsAndTrailer_bounds (c : Cfg) (ft : Bytes) (h : fieldsAndTrailer c = some ft) :
    match c.ver with
    | .v3 => True
    | .v4 => c.area.length < 65536
    | .v6 => c.area.length + 8 < 4294967296 := by
  cases hv : c.ver
  · trivial
  · rw [fieldsAndTrailer_v4 c hv] at h
    split at h
    · assumption
    · simp at h
  · rw [fieldsAndTrailer_v6 c hv] at h
    split at h
    · rename_i hc; exact hc.2
    · simp at h

/-- the serializer establishes the well-formedness predicate of the injectivity theorems -/
theorem wf_of_parts (c : Cfg) (s : Spec.Subject) (ft : Bytes) (hft : fieldsAndTrailer c = some ft)
    (hs : Spec.subjectWF c.ver s = true) (hcls : Spec.classOf c.typ = some s.cls)
    (hcan : ∀ d, s = .document d → c.typ = 0x01 → canon d = d)
    (hsalt : saltSizeOk c = true) (hcr : c.created < 4294967296) :
    Spec.WF (c.toInput s) = true := by
  have hb := fieldsAndTrailer_bounds c ft hft
  have hsl : c.ver = .v6 → Spec.saltSize c.hash = some c.salt.length := by
    intro hv
    simpa [saltSizeOk, hv, saltLenOf_eq_spec] using hsalt
  have hc : ∀ d, s = .document d → (if c.typ = 0x01 then canon d == d else true) = true := by
    intro d hd
    by_cases ht : c.typ = 0x01
    · simp [ht, hcan d hd ht]
    · simp [ht]
  cases s with
  | document d =>
    have hc' := hc d rfl
    cases hv : c.ver <;> rw [hv] at hb <;> simp [Spec.WF, Cfg.toInput, hv] <;>
      simp_all [Spec.subjectWF, Spec.Subject.cls]
  | directKey k =>
    cases hv : c.ver <;> rw [hv] at hb <;> simp [Spec.WF, Cfg.toInput, hv] <;>
      simp_all [Spec.subjectWF, Spec.Subject.cls]
  | certification k a b =>
    cases hv : c.ver <;> rw [hv] at hb <;> simp [Spec.WF, Cfg.toInput, hv] <;>
      simp_all [Spec.subjectWF, Spec.Subject.cls]
  | binding p q =>
    cases hv : c.ver <;> rw [hv] at hb <;> simp [Spec.WF, Cfg.toInput, hv] <;>
      simp_all [Spec.subjectWF, Spec.Subject.cls]

end Rpgp.SigDigest

namespace Rpgp.SigDigest

/-- `hash_signature_data` returns exactly the number of octets it hashed, and that is
4 + (2 | 4) + |hashed area| -/
theorem hashSignatureData_len (c : Cfg) (f : Bytes) (len : Nat) (hv : c.ver ≠ .v3)
    (h : hashSignatureData c = some (f, len)) :
    len = f.length ∧
    f = [c.ver.octet, c.typ, c.pk, c.hash] ++ (if c.ver = .v4 then be16 c.area.length else be32 c.area.length) ++ c.area ∧
    f.length = 4 + (if c.ver = .v4 then 2 else 4) + c.area.length := by
  cases hver : c.ver
  · exact absurd hver hv
  · simp only [hashSignatureData, hver, Gen.sdHsdV4AreaLenOctets, Gen.sdHsdV4AreaLenBits, Nat.reduceDiv, lenField_two] at h
    split at h
    · simp at h
      obtain ⟨h1, h2⟩ := h
      subst h1
      simp [be16_length] at h2 ⊢
      omega
    · simp at h
  · simp only [hashSignatureData, hver, Gen.sdHsdV6AreaLenOctets, Gen.sdHsdV6AreaLenBits, Nat.reduceDiv, lenField_four] at h
    split at h
    · simp at h
    · split at h
      · simp at h
        obtain ⟨h1, h2⟩ := h
        subst h1
        simp [be32_length] at h2 ⊢
        omega
      · simp at h

theorem trailer_eq (c : Cfg) (len : Nat) (t : Bytes) (hv : c.ver ≠ .v3) (h : trailer c len = some t) :
    t = [c.ver.octet, 0xFF] ++ be32 len ∧ len < 4294967296 := by
  cases hver : c.ver
  · exact absurd hver hv
  all_goals
    simp only [trailer, hver, Gen.sdTrailerLenOctets, Gen.sdTrailerLenBits, Nat.reduceDiv, lenField_four, Gen.sdTrailerMarker] at h
    split at h
    · simp at h
      subst h
      simp_all
    · simp at h

theorem tailBytes_subject (i : Spec.Input) (s : Spec.Subject) :
    Spec.tailBytes { i with subject := s } = Spec.tailBytes i := by
  simp [Spec.tailBytes, Spec.hashedFields, Spec.trailerBytes]

theorem saltPart_subject (i : Spec.Input) (s : Spec.Subject) :
    Spec.saltPart { i with subject := s } = Spec.saltPart i := by
  simp [Spec.saltPart]

/-- text documents: the pre-image identifies exactly the documents with the same canonical form -/
theorem doc_text_iff (i : Spec.Input) (d d' : Bytes) (ht : i.typ = 0x01) :
    Spec.preimage { i with subject := .document d } = Spec.preimage { i with subject := .document d' } ↔
      canon d = canon d' := by
  simp only [Spec.preimage_eq, tailBytes_subject, saltPart_subject]
  simp [Spec.subjectBytes, ht]

theorem doc_binary_iff (i : Spec.Input) (d d' : Bytes) (ht : i.typ ≠ 0x01) :
    Spec.preimage { i with subject := .document d } = Spec.preimage { i with subject := .document d' } ↔
      d = d' := by
  simp only [Spec.preimage_eq, tailBytes_subject, saltPart_subject]
  simp [Spec.subjectBytes, ht]

theorem established_salt_first (c : Cfg) (s : Spec.Subject) (p : Bytes) (h : Established c s p) :
    saltBytes c <+: p := by
  rw [h.1, Spec.preimage_eq, ← saltBytes_eq_spec, List.append_assoc]
  exact List.prefix_append _ _

theorem established_ends_with_tail (c : Cfg) (s : Spec.Subject) (p : Bytes) (h : Established c s p) :
    Spec.tailBytes (c.toInput s) <:+ p := by
  rw [h.1, Spec.preimage_eq]
  exact List.suffix_append _ _

theorem established_wf (c : Cfg) (s : Spec.Subject) (p : Bytes) (h : Established c s p)
    (hcls : Spec.classOf c.typ = some s.cls)
    (hcan : ∀ d, s = .document d → c.typ = 0x01 → canon d = d)
    (hcr : c.created < 4294967296) :
    Spec.WF (c.toInput s) = true := by
  obtain ⟨_, hs, hft⟩ := h
  cases hf : fieldsAndTrailer c with
  | none => simp [hf] at hft
  | some ft => exact wf_of_parts c s ft hf hs hcls hcan (fieldsAndTrailer_saltSizeOk c ft hf) hcr

/-- every successful routine has checked the salt size (inside `hash_signature_data`) -/
theorem established_saltSizeOk (c : Cfg) (s : Spec.Subject) (p : Bytes) (h : Established c s p) :
    saltSizeOk c = true := by
  obtain ⟨_, _, hft⟩ := h
  cases hf : fieldsAndTrailer c with
  | none => simp [hf] at hft
  | some ft => exact fieldsAndTrailer_saltSizeOk c ft hf

/-- the one-pass / prefixed reader hands no digest to the primitive for a signature that is not
of a document type (`check_inline_verification_preconditions`) -/
theorem verifyInline_refuses_non_document (c : Cfg) (sv : Nat) (chunks : List Bytes)
    (hty : (c.typ == typBinary || c.typ == typText) = false) : verifyInline c sv chunks = none := by
  unfold verifyInline
  split
  · rfl
  · cases fieldsAndTrailer c <;> simp [hty]

end Rpgp.SigDigest

namespace Rpgp.SigDigest

theorem sign_then_verify_key (c : Cfg) (sv sv' : Nat) (k : Key) (p : Bytes)
    (h : signKey c sv k = some p) (hal : verifyAligned c sv' = true) : verifyKey c sv' k = some p := by
  cases ha : signAligned c sv <;> simp [signKey, ha] at h
  obtain ⟨hty, h⟩ := h
  simp only [verifyKey, hal]
  simp
  exact ⟨hty, h⟩

theorem sign_then_verify_subkey_binding (c : Cfg) (sv : Nat) (pk sk : Key) (p : Bytes)
    (h : signSubkeyBinding c sv pk sk = some p)
    (hal : verifyAligned c pk.ver = true) : verifySubkeyBinding c pk sk = some p := by
  cases ha : signAligned c sv <;> simp [signSubkeyBinding, ha] at h
  obtain ⟨hty, h⟩ := h
  simp only [verifySubkeyBinding, hal]
  simp
  exact ⟨hty, h⟩

theorem sign_then_verify_primary_key_binding (c : Cfg) (sv : Nat) (pk sk : Key) (p : Bytes)
    (h : signPrimaryKeyBinding c sv pk sk = some p)
    (hal : verifyAligned c sk.ver = true) : verifyPrimaryKeyBinding c sk pk = some p := by
  cases ha : signAligned c sv <;> simp [signPrimaryKeyBinding, ha] at h
  obtain ⟨hty, h⟩ := h
  simp only [verifyPrimaryKeyBinding, hal]
  simp
  exact ⟨hty, h⟩

theorem sign_then_verify_certification (c : Cfg) (sv sv' : Nat) (k : Key) (tag : Nat) (id : Ser) (p : Bytes)
    (h : signCertification c sv k tag id = some p) (hi : id.truthful)
    (hal : verifyAligned c sv' = true) : verifyCertification c sv' k tag id = some p := by
  cases ha : signAligned c sv <;> simp [signCertification, ha] at h
  obtain ⟨hty, h⟩ := h
  unfold Ser.truthful at hi
  simp only [verifyCertification, hal, hty, hi]
  simpa [Gen.sdSignUidPrefix, Gen.sdVerUidPrefix, Gen.sdSignAttrPrefix, Gen.sdVerAttrPrefix, Gen.sdSignIdLenOctets,
    Gen.sdVerIdLenOctets, Gen.sdSignIdLenBits, Gen.sdVerIdLenBits] using h

theorem sign_then_verify_data (c : Cfg) (sv sv' : Nat) (chunks : List Bytes) (p : Bytes)
    (h : signData c sv chunks = some p) (hs : saltSizeOk c = true)
    (hal : verifyAligned c sv' = true) : verifyData c sv' chunks.flatten = some p := by
  cases ha : signAligned c sv <;> simp [signData, ha] at h
  obtain ⟨hty, h⟩ := h
  simp only [verifyData, hal, hs, hashedText_eq_canon] at h ⊢
  rw [normalizedRead_eq_canon _ (by decide)]
  have hd : ∀ x, hashDataToSign c x = some x := by
    intro x
    unfold hashDataToSign
    by_cases hb : c.typ = typBinary
    · simp [hb]
    · simp [hty hb]
  simp only [hd]
  simpa using h

theorem sign_then_verify_inline (c : Cfg) (sv sv' : Nat) (chunks chunks' : List Bytes) (p : Bytes)
    (h : signData c sv chunks = some p) (hs : saltSizeOk c = true) (hfl : chunks'.flatten = chunks.flatten)
    (hal : verifyAligned c sv' = true) : verifyInline c sv' chunks' = some p := by
  cases ha : signAligned c sv <;> simp [signData, ha] at h
  obtain ⟨hty, h⟩ := h
  simp only [verifyInline, hal, hs, hashedText_eq_canon, hfl] at h ⊢
  obtain ⟨ft, hft, rfl⟩ := h
  simp [hft]
  exact hty

end Rpgp.SigDigest
