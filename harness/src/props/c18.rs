//! C18 — recipients: every intended recipient can decrypt, nobody else gets plaintext.
//!
//! Correspondence ops (model: RpgpModel/Ring.lean, protocol: RpgpModel/Ops/C18.lean):
//!   ring …      the harness measures the primitive tables on the real primitives (does key password j
//!               unlock component c; PlainSecretParams::decrypt of PKESK i under component c;
//!               decrypt_session_key_with_password of SKESK i under password j; the session key the
//!               encrypted data opens under), the model runs the search of TheRing::find_session_key
//!               + decrypt_the_ring, the harness runs Message::decrypt_the_ring and reads to the end;
//!               compared: error class, or the RingResult vectors.
//!   match       PublicKeyEncryptedSessionKey::match_identity
//!   pkdecode    tail of PlainSecretParams::decrypt (algorithm / length / checksum plausibility), fed
//!               through a real RSA / ECDH encryption of arbitrary octets
//!   skdecode    SKESK v4 plausibility (hand-built v4 SKESK around arbitrary octets)
//!   prepare     prepare_session_key_for_encryption, observed as the raw RSA plaintext of a PKESK
//!
//! Oracles (property text only):
//!   each_recipient_alone   "decrypts to the same plaintext with each of those keys (locked or
//!                           unlocked, addressed or anonymous) and each of those passwords presented alone"
//!   with_unrelated         "and also when unrelated keys - or, for integrity-protected password
//!                           packets, unrelated passwords - are presented alongside"
//!   non_recipient_errors   "Decryption with only non-recipient keys, wrong passwords or a wrong session
//!                           key returns an error and never plaintext (right or wrong)"
//!   crosscheck_conflict    "when the caller asks for all presented secrets to be cross-checked, secrets
//!                           that yield different session keys are reported as a conflict instead of
//!                           one being silently chosen"

use std::collections::HashMap;

use pgp::composed::{
    decrypt_session_key_with_password, DecryptionOptions, EncryptionCaps, Esk, InnerRingResult, KeyType,
    Message, MessageBuilder, PlainSessionKey, RawSessionKey, RingResult, SecretKeyParamsBuilder,
    SignedSecretKey, SubkeyParamsBuilder, TheRing,
};
use pgp::crypto::aead::{AeadAlgorithm, ChunkSize};
use pgp::crypto::ecc_curve::ECCCurve;
use pgp::crypto::hash::HashAlgorithm;
use pgp::crypto::sym::SymmetricKeyAlgorithm;
use pgp::packet::{
    PacketHeader, PacketTrait, PublicKeyEncryptedSessionKey, SymEncryptedProtectedData,
    SymKeyEncryptedSessionKey,
};
use pgp::types::{
    DecryptionKey, EncryptionKey, EskType, Fingerprint, KeyDetails, KeyId, KeyVersion, Password, PkeskBytes,
    PlainSecretParams, S2kParams, StringToKey, Tag,
};
use rand::seq::SliceRandom;
use rand::Rng;

use crate::ctx::{guarded, hx, Ctx};

// ------------------------------------------------------------------------------------------------
// key pool
// ------------------------------------------------------------------------------------------------

/// key passwords known to the harness (index = handle in the request lines)
const KPWS: [&str; 7] = ["", "kp1", "kp4", "kp5a", "kp5b", "kp7", "nope"];
/// message passwords (index = handle)
const MPWS: [&str; 6] = ["alpha", "bravo", "charlie", "delta-wrong", "echo-wrong", ""];

struct CompInfo {
    locked: bool,
    keyid: Vec<u8>,
    fpver: u8,
    fp: Vec<u8>,
    /// index into KPWS of the password that unlocks it (0 for unlocked)
    true_pw: usize,
}

struct PoolKey {
    name: &'static str,
    key: SignedSecretKey,
    comps: Vec<CompInfo>,
    /// component that messages are encrypted to (0 = primary, i+1 = subkey i)
    enc_comp: usize,
}

fn fp_version(f: &Fingerprint) -> u8 {
    match f {
        Fingerprint::V2(_) => 2,
        Fingerprint::V3(_) => 3,
        Fingerprint::V4(_) => 4,
        Fingerprint::V5(_) => 5,
        Fingerprint::V6(_) => 6,
        _ => 255,
    }
}

fn cheap_s2k(rng: &mut impl Rng, v: KeyVersion) -> S2kParams {
    let mut salt = [0u8; 8];
    rng.fill(&mut salt);
    let s2k = StringToKey::IteratedAndSalted { hash_alg: HashAlgorithm::Sha256, salt, count: 0 };
    match v {
        KeyVersion::V6 => {
            let mut nonce = vec![0u8; 15];
            rng.fill(&mut nonce[..]);
            S2kParams::Aead { sym_alg: SymmetricKeyAlgorithm::AES128, aead_mode: AeadAlgorithm::Ocb, s2k, nonce: nonce.into() }
        }
        _ => {
            let mut iv = vec![0u8; 16];
            rng.fill(&mut iv[..]);
            S2kParams::Cfb { sym_alg: SymmetricKeyAlgorithm::AES128, s2k, iv: iv.into() }
        }
    }
}

fn comp_info(k: &SignedSecretKey, c: usize, true_pw: usize) -> CompInfo {
    let (locked, keyid, fp) = if c == 0 {
        let p = &k.primary_key;
        (p.secret_params().is_encrypted(), p.legacy_key_id(), p.fingerprint())
    } else {
        let s = &k.secret_subkeys[c - 1].key;
        (s.secret_params().is_encrypted(), s.legacy_key_id(), s.fingerprint())
    };
    CompInfo { locked, keyid: keyid.as_ref().to_vec(), fpver: fp_version(&fp), fp: fp.as_bytes().to_vec(), true_pw: if locked { true_pw } else { 0 } }
}

/// generate one key: primary type, subkey types, per-component password handle (0 = unlocked)
fn gen_key(
    ctx: &mut Ctx,
    name: &'static str,
    v: KeyVersion,
    primary: KeyType,
    primary_enc: bool,
    subs: &[KeyType],
    pws: &[usize],
    enc_comp: usize,
) -> Option<PoolKey> {
    let mut b = SecretKeyParamsBuilder::default();
    b.version(v).created_at(pgp::types::Timestamp::from_secs(1_700_000_000)).key_type(primary).can_sign(true).can_certify(true).primary_user_id(format!("{name} <{name}@example.org>"));
    if primary_enc {
        b.can_encrypt(EncryptionCaps::All);
    }
    let mut sp = Vec::new();
    for t in subs {
        sp.push(SubkeyParamsBuilder::default().version(v).created_at(pgp::types::Timestamp::from_secs(1_700_000_000)).key_type(t.clone()).can_encrypt(EncryptionCaps::All).build().ok()?);
    }
    b.subkeys(sp);
    let params = b.build().ok()?;
    let mut key = match guarded(|| params.generate(&mut ctx.rng)) {
        Ok(Ok(k)) => k,
        _ => return None,
    };
    // lock after generation, with a cheap S2K
    if pws[0] != 0 {
        let s = cheap_s2k(&mut ctx.rng, v);
        key.primary_key.set_password_with_s2k(&KPWS[pws[0]].into(), s).ok()?;
    }
    for i in 0..subs.len() {
        if pws[i + 1] != 0 {
            let s = cheap_s2k(&mut ctx.rng, v);
            key.secret_subkeys[i].key.set_password_with_s2k(&KPWS[pws[i + 1]].into(), s).ok()?;
        }
    }
    let comps = (0..=subs.len()).map(|c| comp_info(&key, c, pws[c])).collect();
    Some(PoolKey { name, key, comps, enc_comp })
}

fn build_pool(ctx: &mut Ctx) -> Vec<PoolKey> {
    let mut pool = Vec::new();
    let mut add = |ctx: &mut Ctx, k: Option<PoolKey>, name: &str| match k {
        Some(k) => pool.push(k),
        None => ctx.note(&format!("key generation failed for {name}")),
    };
    let k = gen_key(ctx, "cv25519", KeyVersion::V4, KeyType::Ed25519Legacy, false, &[KeyType::ECDH(ECCCurve::Curve25519Legacy)], &[0, 0], 1);
    add(ctx, k, "cv25519");
    let k = gen_key(ctx, "p256-locked", KeyVersion::V4, KeyType::Ed25519Legacy, false, &[KeyType::ECDH(ECCCurve::P256)], &[1, 1], 1);
    add(ctx, k, "p256-locked");
    let k = gen_key(ctx, "rsa", KeyVersion::V4, KeyType::Rsa(2048), true, &[], &[0], 0);
    add(ctx, k, "rsa");
    let k = gen_key(ctx, "x25519-v6", KeyVersion::V6, KeyType::Ed25519, false, &[KeyType::X25519], &[0, 0], 1);
    add(ctx, k, "x25519-v6");
    let k = gen_key(ctx, "x448-v6-sublocked", KeyVersion::V6, KeyType::Ed25519, false, &[KeyType::X448], &[0, 2], 1);
    add(ctx, k, "x448-v6-sublocked");
    let k = gen_key(ctx, "two-subkeys-two-pws", KeyVersion::V4, KeyType::Ed25519Legacy, false,
        &[KeyType::ECDH(ECCCurve::P256), KeyType::X25519], &[3, 4, 4], 2);
    add(ctx, k, "two-subkeys-two-pws");
    let k = gen_key(ctx, "two-enc-subkeys-first", KeyVersion::V4, KeyType::Ed25519Legacy, false,
        &[KeyType::ECDH(ECCCurve::Curve25519Legacy), KeyType::ECDH(ECCCurve::Curve25519Legacy)], &[0, 0, 0], 1);
    add(ctx, k, "two-enc-subkeys-first");
    let k = gen_key(ctx, "decoy-cv25519", KeyVersion::V4, KeyType::Ed25519Legacy, false, &[KeyType::ECDH(ECCCurve::Curve25519Legacy)], &[0, 0], 1);
    add(ctx, k, "decoy-cv25519");
    let k = gen_key(ctx, "decoy-x25519-v6-locked", KeyVersion::V6, KeyType::Ed25519, false, &[KeyType::X25519], &[5, 5], 1);
    add(ctx, k, "decoy-x25519-v6-locked");
    // primary locked, encryption subkey not: the lock state is a property of each component
    let k = gen_key(ctx, "cv25519-primary-locked", KeyVersion::V4, KeyType::Ed25519Legacy, false, &[KeyType::ECDH(ECCCurve::Curve25519Legacy)], &[1, 0], 1);
    add(ctx, k, "cv25519-primary-locked");
    let k = gen_key(ctx, "x25519-v6-primary-locked", KeyVersion::V6, KeyType::Ed25519, false, &[KeyType::X25519], &[2, 0], 1);
    add(ctx, k, "x25519-v6-primary-locked");
    if ctx.thorough() {
        let k = gen_key(ctx, "rsa-locked", KeyVersion::V4, KeyType::Rsa(2048), true, &[KeyType::Rsa(2048)], &[1, 1], 1);
        add(ctx, k, "rsa-locked");
        let k = gen_key(ctx, "p384", KeyVersion::V4, KeyType::Ed25519Legacy, false, &[KeyType::ECDH(ECCCurve::P384)], &[0, 0], 1);
        add(ctx, k, "p384");
        let k = gen_key(ctx, "p521-v6", KeyVersion::V6, KeyType::Ed25519, false, &[KeyType::ECDH(ECCCurve::P521)], &[0, 0], 1);
        add(ctx, k, "p521-v6");
    }
    pool
}

// ------------------------------------------------------------------------------------------------
// primitives measured on the real code
// ------------------------------------------------------------------------------------------------

fn sk_text(k: &PlainSessionKey) -> String {
    match k {
        PlainSessionKey::V3_4 { sym_alg, key } => format!("a.{}.{}", u8::from(*sym_alg), hx(key.as_ref())),
        PlainSessionKey::V5 { key } => format!("b.{}", hx(key.as_ref())),
        PlainSessionKey::V6 { key } => format!("c.{}", hx(key.as_ref())),
    }
}

fn comp_decrypt(k: &SignedSecretKey, c: usize, pw: &Password, values: &PkeskBytes, typ: EskType) -> Option<Option<PlainSessionKey>> {
    let r = guarded(|| {
        if c == 0 {
            k.primary_key.decrypt(pw, values, typ)
        } else {
            k.secret_subkeys[c - 1].key.decrypt(pw, values, typ)
        }
    });
    match r {
        Ok(Ok(Ok(sk))) => Some(Some(sk)),
        Ok(Ok(Err(_))) => Some(None),
        Ok(Err(_)) => None,
        Err(_) => Some(None), // panic inside the primitive: counted as a decryption failure here
    }
}

fn comp_unlocks(k: &SignedSecretKey, c: usize, pw: &Password) -> bool {
    let r = guarded(|| {
        if c == 0 {
            k.primary_key.unlock(pw, |_, _| Ok(())).is_ok()
        } else {
            k.secret_subkeys[c - 1].key.unlock(pw, |_, _| Ok(())).is_ok()
        }
    });
    r.unwrap_or(false)
}

struct World {
    pool: Vec<PoolKey>,
    /// (key, comp, kpw) -> unlocks
    un: HashMap<(usize, usize, usize), bool>,
}

impl World {
    fn new(ctx: &mut Ctx) -> Self {
        let pool = build_pool(ctx);
        let mut un = HashMap::new();
        for (ki, k) in pool.iter().enumerate() {
            for c in 0..k.comps.len() {
                for (p, pw) in KPWS.iter().enumerate() {
                    un.insert((ki, c, p), comp_unlocks(&k.key, c, &(*pw).into()));
                }
            }
        }
        World { pool, un }
    }
}

/// a message + everything measured about it
struct Msg {
    bytes: Vec<u8>,
    plaintext: Vec<u8>,
    /// ESK descriptors in packet order (protocol syntax)
    esks: Vec<String>,
    /// per PKESK (incl. unsupported versions): per (pool key, comp): session key text
    pk: Vec<HashMap<(usize, usize), String>>,
    /// per supported SKESK: per MPWS index: session key text
    sk: Vec<HashMap<usize, String>>,
    /// session key the encrypted data opens under
    ed: String,
    label: String,
    /// ESK packets (index, tag, body) inserted into the parsed message's public `esk` list: versions
    /// that the message parser's alignment filter (C15) would drop before the search sees them
    inject: Vec<(usize, u8, Vec<u8>)>,
}

fn apply_inject(msg: &mut Message<'_>, inject: &[(usize, u8, Vec<u8>)]) {
    if let Message::Encrypted { esk, .. } = msg {
        for (pos, tag, body) in inject {
            let e = if *tag == 1 {
                PublicKeyEncryptedSessionKey::try_from_reader(
                    PacketHeader::new_fixed(Tag::PublicKeyEncryptedSessionKey, body.len() as u32), &body[..])
                    .map(Esk::PublicKeyEncryptedSessionKey)
            } else {
                SymKeyEncryptedSessionKey::try_from_reader(
                    PacketHeader::new_fixed(Tag::SymKeyEncryptedSessionKey, body.len() as u32), &body[..])
                    .map(Esk::SymKeyEncryptedSessionKey)
            };
            if let Ok(e) = e {
                let at = (*pos).min(esk.len());
                esk.insert(at, e);
            }
        }
    }
}

fn esk_desc(e: &Esk) -> String {
    match e {
        Esk::PublicKeyEncryptedSessionKey(p) => match p {
            PublicKeyEncryptedSessionKey::V3 { id, .. } => format!("p3.{}", hx(id.as_ref())),
            PublicKeyEncryptedSessionKey::V6 { fingerprint: Some(f), .. } => format!("p6.{}.{}", fp_version(f), hx(f.as_bytes())),
            PublicKeyEncryptedSessionKey::V6 { fingerprint: None, .. } => "p6.-".to_string(),
            PublicKeyEncryptedSessionKey::Other { version, .. } => format!("po.{version}"),
        },
        Esk::SymKeyEncryptedSessionKey(s) => match s.sym_algorithm() {
            Some(a) => {
                let v = match s {
                    SymKeyEncryptedSessionKey::V4 { .. } => 4,
                    SymKeyEncryptedSessionKey::V5 { .. } => 5,
                    _ => 6,
                };
                format!("s.{v}.{}", u8::from(a))
            }
            None => match s {
                SymKeyEncryptedSessionKey::Other { version, .. } => format!("so.{version}"),
                _ => "so.0".to_string(),
            },
        },
    }
}

/// measure all primitive tables of a message over the whole pool
fn measure(w: &World, bytes: Vec<u8>, plaintext: Vec<u8>, ed: String, label: String) -> Option<Msg> {
    measure_with(w, bytes, plaintext, ed, label, vec![])
}

fn measure_with(w: &World, bytes: Vec<u8>, plaintext: Vec<u8>, ed: String, label: String, inject: Vec<(usize, u8, Vec<u8>)>) -> Option<Msg> {
    let mut parsed = guarded(|| Message::from_bytes(&bytes[..])).ok()?.ok()?;
    apply_inject(&mut parsed, &inject);
    let Message::Encrypted { esk, .. } = &parsed else { return None };
    let mut esks = Vec::new();
    let mut pk = Vec::new();
    let mut sk = Vec::new();
    for e in esk {
        esks.push(esk_desc(e));
        match e {
            Esk::PublicKeyEncryptedSessionKey(p) => {
                let mut row = HashMap::new();
                let typ = match p {
                    PublicKeyEncryptedSessionKey::V3 { .. } => Some(EskType::V3_4),
                    PublicKeyEncryptedSessionKey::V6 { .. } => Some(EskType::V6),
                    _ => None,
                };
                if let (Some(typ), Ok(values)) = (typ, p.values()) {
                    for (ki, k) in w.pool.iter().enumerate() {
                        for (c, ci) in k.comps.iter().enumerate() {
                            let pw: Password = KPWS[ci.true_pw].into();
                            if let Some(Some(s)) = comp_decrypt(&k.key, c, &pw, values, typ) {
                                row.insert((ki, c), sk_text(&s));
                            }
                        }
                    }
                }
                pk.push(row);
            }
            Esk::SymKeyEncryptedSessionKey(s) => {
                if s.sym_algorithm().is_some() {
                    let mut row = HashMap::new();
                    for (p, pw) in MPWS.iter().enumerate() {
                        let r = guarded(|| decrypt_session_key_with_password(s, &(*pw).into()));
                        if let Ok(Ok(k)) = r {
                            row.insert(p, sk_text(&k));
                        }
                    }
                    sk.push(row);
                }
            }
        }
    }
    drop(parsed);
    Some(Msg { bytes, plaintext, esks, pk, sk, ed, label, inject })
}

// ------------------------------------------------------------------------------------------------
// one ring case
// ------------------------------------------------------------------------------------------------

#[derive(Clone, Debug)]
struct RingCase {
    keys: Vec<usize>,
    kpws: Vec<usize>,
    mpws: Vec<usize>,
    sks: Vec<PlainSessionKey>,
    ae: bool,
    ga: bool,
}

fn dash_join(v: Vec<String>, sep: &str) -> String {
    if v.is_empty() { "-".to_string() } else { v.join(sep) }
}

fn request_line(w: &World, m: &Msg, rc: &RingCase) -> String {
    let mut keys = Vec::new();
    let mut un = Vec::new();
    let mut comps: Vec<(usize, usize)> = Vec::new();
    for &ki in &rc.keys {
        let k = &w.pool[ki];
        let mut cs = Vec::new();
        for (c, ci) in k.comps.iter().enumerate() {
            cs.push(format!("{}.{}.{}.{}", if ci.locked { 1 } else { 0 }, hx(&ci.keyid), ci.fpver, hx(&ci.fp)));
            let bits: String = rc.kpws.iter().map(|&p| if w.un[&(ki, c, p)] { '1' } else { '0' }).collect();
            un.push(if bits.is_empty() { "-".to_string() } else { bits });
            comps.push((ki, c));
        }
        keys.push(cs.join("/"));
    }
    let pk: Vec<String> = m.pk.iter().map(|row| {
        dash_join(comps.iter().map(|kc| row.get(kc).cloned().unwrap_or_else(|| "x".to_string())).collect(), ",")
    }).collect();
    let sk: Vec<String> = m.sk.iter().map(|row| {
        dash_join(rc.mpws.iter().map(|p| row.get(p).cloned().unwrap_or_else(|| "x".to_string())).collect(), ",")
    }).collect();
    format!(
        "ring ae={} ga={} keys={} kpw={} mpw={} sks={} esks={} un={} pk={} sk={} ed={}",
        rc.ae as u8, rc.ga as u8, dash_join(keys, ";"), rc.kpws.len(), rc.mpws.len(),
        dash_join(rc.sks.iter().map(sk_text).collect(), ","), dash_join(m.esks.clone(), ";"),
        dash_join(un, ";"), dash_join(pk, ";"), dash_join(sk, ";"), m.ed
    )
}

fn res_letters(v: &[InnerRingResult]) -> String {
    if v.is_empty() {
        return "-".to_string();
    }
    v.iter().map(|r| match r {
        InnerRingResult::Unchecked => 'U',
        InnerRingResult::NoMatch => 'N',
        InnerRingResult::InvalidPassword => 'W',
        InnerRingResult::InconsistentSessionKey => 'C',
        InnerRingResult::Invalid => 'I',
        InnerRingResult::Ok => 'O',
    }).collect()
}

/// outcome of the real code
enum Outcome {
    Plain(Vec<u8>, String),
    Err(String),
}

fn classify_err(e: &pgp::errors::Error) -> String {
    let s = e.to_string();
    if matches!(e, pgp::errors::Error::MissingKey) {
        "err:missing".into()
    } else if s.contains("inconsistent session keys detected") {
        "err:inconsistent".into()
    } else if s.contains("SKESK must not use plaintext") {
        "err:plaintext-skesk".into()
    } else if s.contains("even the ring can not decrypt plaintext") {
        "err:not-encrypted".into()
    } else {
        // everything else comes from Edata::decrypt_with_options / the decrypting reader
        "err:edata".into()
    }
}

fn run_ring(w: &World, m: &Msg, rc: &RingCase) -> (Outcome, String) {
    let kpws: Vec<Password> = rc.kpws.iter().map(|&p| KPWS[p].into()).collect();
    let mpws: Vec<Password> = rc.mpws.iter().map(|&p| MPWS[p].into()).collect();
    let r = guarded(|| {
        let mut msg = match Message::from_bytes(&m.bytes[..]) {
            Ok(x) => x,
            Err(e) => return (Outcome::Err("err:parse".into()), e.to_string()),
        };
        apply_inject(&mut msg, &m.inject);
        let ring = TheRing {
            secret_keys: rc.keys.iter().map(|&k| &w.pool[k].key).collect(),
            key_passwords: kpws.iter().collect(),
            message_password: mpws.iter().collect(),
            session_keys: rc.sks.clone(),
            decrypt_options: if rc.ga { DecryptionOptions::new().enable_gnupg_aead() } else { DecryptionOptions::new() },
        };
        match msg.decrypt_the_ring(ring, rc.ae) {
            Err(e) => (Outcome::Err(classify_err(&e)), e.to_string()),
            Ok((mut dec, rr)) => {
                let rrs = format!("{}/{}/{}", res_letters(&rr.secret_keys), res_letters(&rr.message_password), res_letters(&rr.session_keys));
                match dec.as_data_vec() {
                    Ok(d) => (Outcome::Plain(d, rrs), String::new()),
                    Err(e) => (Outcome::Err("err:edata".into()), e.to_string()),
                }
            }
        }
    });
    match r {
        Ok(v) => v,
        Err(p) => (Outcome::Err("panic".into()), p),
    }
}

/// run one ring case: correspondence + return the outcome for the oracles
fn ring_case(ctx: &mut Ctx, w: &World, m: &Msg, rc: &RingCase) -> (Outcome, String) {
    let req = request_line(w, m, rc);
    let (out, detail) = run_ring(w, m, rc);
    let ans = match &out {
        Outcome::Plain(d, rr) => {
            if *d == m.plaintext { format!("ok:{rr}") } else { "ok-wrong-plaintext".to_string() }
        }
        Outcome::Err(c) => c.clone(),
    };
    let class = if ans.starts_with("ok:") { "ok".to_string() } else { ans.clone() };
    ctx.stat(&format!("ring:{}:{}", m.label.split(':').next().unwrap_or(""), class));
    ctx.case(req, ans);
    (out, detail)
}

// ------------------------------------------------------------------------------------------------
// messages written by the library (MessageBuilder)
// ------------------------------------------------------------------------------------------------

#[derive(Clone, Debug)]
struct Recipients {
    /// (pool key, anonymous)
    keys: Vec<(usize, bool)>,
    /// (MPWS index, s2k kind 0 salted / 1 iterated / 2 argon2)
    pws: Vec<(usize, u8)>,
}

fn mk_s2k(rng: &mut (impl Rng + rand::CryptoRng), kind: u8) -> StringToKey {
    match kind {
        0 => {
            let mut salt = [0u8; 8];
            rng.fill(&mut salt);
            StringToKey::Salted { hash_alg: HashAlgorithm::Sha256, salt }
        }
        1 => {
            let c = rng_count(rng);
            StringToKey::new_iterated(&mut *rng, HashAlgorithm::Sha256, c)
        }
        _ => StringToKey::new_argon2(&mut *rng, 1, 1, 4),
    }
}

fn rng_count(rng: &mut impl Rng) -> u8 {
    [0u8, 1, 16, 33][rng.gen_range(0..4)]
}

const SYMS: [SymmetricKeyAlgorithm; 3] = [SymmetricKeyAlgorithm::AES128, SymmetricKeyAlgorithm::AES192, SymmetricKeyAlgorithm::AES256];

/// build with the library; returns (bytes, plaintext, ed text, builder session key)
fn build_message(ctx: &mut Ctx, w: &World, v2: bool, sym: SymmetricKeyAlgorithm, aead: AeadAlgorithm, rcp: &Recipients, n: usize)
    -> Option<(Vec<u8>, Vec<u8>, String)> {
    let plaintext: Vec<u8> = (0..n).map(|i| (i * 7 + 3) as u8).collect();
    let pool = &w.pool;
    let rng = &mut ctx.rng;
    let r = guarded(|| -> Option<(Vec<u8>, String)> {
        macro_rules! enc_to {
            ($b:expr, $ki:expr, $anon:expr) => {{
                let k = &pool[$ki];
                if k.enc_comp == 0 {
                    let pk = k.key.primary_key.public_key();
                    if $anon { $b.encrypt_to_key_anonymous(&mut *rng, pk).ok()?; } else { $b.encrypt_to_key(&mut *rng, pk).ok()?; }
                } else {
                    let pk = k.key.secret_subkeys[k.enc_comp - 1].key.public_key();
                    if $anon { $b.encrypt_to_key_anonymous(&mut *rng, pk).ok()?; } else { $b.encrypt_to_key(&mut *rng, pk).ok()?; }
                }
            }};
        }
        if v2 {
            let mut b = MessageBuilder::from_bytes("", plaintext.clone()).seipd_v2(&mut *rng, sym, aead, ChunkSize::default());
            for &(ki, anon) in &rcp.keys {
                enc_to!(b, ki, anon);
            }
            for &(p, kind) in &rcp.pws {
                let s2k = mk_s2k(rng, kind);
                b.encrypt_with_password(&mut *rng, s2k, &MPWS[p].into()).ok()?;
            }
            let ed = format!("c.{}", hx(b.session_key().as_ref()));
            Some((b.to_vec(&mut *rng).ok()?, ed))
        } else {
            let mut b = MessageBuilder::from_bytes("", plaintext.clone()).seipd_v1(&mut *rng, sym);
            for &(ki, anon) in &rcp.keys {
                enc_to!(b, ki, anon);
            }
            for &(p, kind) in &rcp.pws {
                let s2k = mk_s2k(rng, kind);
                b.encrypt_with_password(s2k, &MPWS[p].into()).ok()?;
            }
            let ed = format!("a.{}.{}", u8::from(sym), hx(b.session_key().as_ref()));
            Some((b.to_vec(&mut *rng).ok()?, ed))
        }
    });
    match r {
        Ok(Some((bytes, ed))) => Some((bytes, plaintext, ed)),
        _ => None,
    }
}

fn parse_sk(text: &str) -> PlainSessionKey {
    let parts: Vec<&str> = text.split('.').collect();
    let unhex = |s: &str| if s == "-" { vec![] } else { hex::decode(s).unwrap_or_default() };
    match parts[0] {
        "a" => PlainSessionKey::V3_4 { sym_alg: SymmetricKeyAlgorithm::from(parts[1].parse::<u8>().unwrap_or(0)), key: RawSessionKey::from(unhex(parts[2])) },
        "b" => PlainSessionKey::V5 { key: RawSessionKey::from(unhex(parts[1])) },
        _ => PlainSessionKey::V6 { key: RawSessionKey::from(unhex(parts[1])) },
    }
}

fn wrong_sk(text: &str) -> PlainSessionKey {
    let flip = |key: &RawSessionKey| -> RawSessionKey {
        let mut k = key.as_ref().to_vec();
        if k.is_empty() { k.push(1) } else { k[0] ^= 0x80 } // not a DES parity bit
        k.into()
    };
    match &parse_sk(text) {
        PlainSessionKey::V3_4 { sym_alg, key } => PlainSessionKey::V3_4 { sym_alg: *sym_alg, key: flip(key) },
        PlainSessionKey::V5 { key } => PlainSessionKey::V5 { key: flip(key) },
        PlainSessionKey::V6 { key } => PlainSessionKey::V6 { key: flip(key) },
    }
}

/// other session keys that are NOT the message's: a strict prefix (half, all but one octet), the empty
/// key, the key extended by one octet, the last octet changed — equality of session keys must be
/// equality of the whole octet string
fn wrong_sk_variants(text: &str) -> Vec<PlainSessionKey> {
    let base = parse_sk(text);
    let raw: Vec<u8> = match &base {
        PlainSessionKey::V3_4 { key, .. } | PlainSessionKey::V5 { key } | PlainSessionKey::V6 { key } => key.as_ref().to_vec(),
    };
    let mut outs: Vec<Vec<u8>> = vec![raw[..raw.len() / 2].to_vec(), raw[..raw.len().saturating_sub(1)].to_vec(), vec![]];
    let mut ext = raw.clone();
    ext.push(0);
    outs.push(ext);
    let mut last = raw.clone();
    if let Some(b) = last.last_mut() {
        *b ^= 0x10;
    }
    outs.push(last);
    outs.retain(|k| *k != raw);
    let mut res: Vec<PlainSessionKey> = outs
        .into_iter()
        .map(|k| match &base {
            PlainSessionKey::V3_4 { sym_alg, .. } => PlainSessionKey::V3_4 { sym_alg: *sym_alg, key: k.into() },
            PlainSessionKey::V5 { .. } => PlainSessionKey::V5 { key: k.into() },
            PlainSessionKey::V6 { .. } => PlainSessionKey::V6 { key: k.into() },
        })
        .collect();
    // the same octets under another cipher of the same key size: for v3/v4 session keys the cipher id
    // is part of the session key
    if let PlainSessionKey::V3_4 { sym_alg, .. } = &base {
        use SymmetricKeyAlgorithm as S;
        let same_size: &[S] = match raw.len() {
            16 => &[S::AES128, S::CAST5, S::Camellia128, S::Blowfish, S::IDEA],
            24 => &[S::AES192, S::Camellia192, S::TripleDES],
            32 => &[S::AES256, S::Twofish, S::Camellia256],
            _ => &[],
        };
        for alt in same_size.iter().filter(|a| *a != sym_alg).take(2) {
            res.push(PlainSessionKey::V3_4 { sym_alg: *alt, key: raw.clone().into() });
        }
    }
    res
}

/// Input class marker (appended to oracle inputs, ignored by the model): some presented message password
/// "opens" a v4 SKESK of this library-written message to something that is not the message's session key —
/// the SKESK v4 plausibility check let garbage through (known finding D18b). Measured with the public
/// `decrypt_session_key_with_password`, independent of the model.
fn fp_class(m: &Msg, mpws: &[usize]) -> &'static str {
    let versions: Vec<&str> = m.esks.iter().filter(|e| e.starts_with("s.")).map(|e| e.split('.').nth(1).unwrap_or("")).collect();
    for (r, row) in m.sk.iter().enumerate() {
        if versions.get(r) != Some(&"4") {
            continue;
        }
        for p in mpws {
            if let Some(k) = row.get(p) {
                if *k != m.ed {
                    return " class=skesk-v4-false-positive";
                }
            }
        }
    }
    ""
}

fn all_kpws() -> Vec<usize> {
    (0..KPWS.len()).collect()
}

fn is_plain_ok(out: &Outcome, m: &Msg) -> bool {
    matches!(out, Outcome::Plain(d, _) if *d == m.plaintext)
}

fn out_text(out: &Outcome, detail: &str) -> String {
    match out {
        Outcome::Plain(d, rr) => format!("plaintext({} bytes) {rr}", d.len()),
        Outcome::Err(c) => format!("{c} [{detail}]"),
    }
}

/// the property's clauses on a library-written message
fn honest_message_oracles(ctx: &mut Ctx, w: &World, m: &Msg, rcp: &Recipients, v2: bool) {
    let rkeys: Vec<usize> = rcp.keys.iter().map(|k| k.0).collect();
    let rpws: Vec<usize> = rcp.pws.iter().map(|p| p.0).collect();
    let decoys: Vec<usize> = (0..w.pool.len()).filter(|k| !rkeys.contains(k)).collect();
    let wrong_pws: Vec<usize> = (0..MPWS.len()).filter(|p| !rpws.contains(p)).collect();
    let site_ring = "Message::decrypt_the_ring";
    // ---- clause 1: each recipient alone
    for &k in &rkeys {
        for ae in [true, false] {
            let rc = RingCase { keys: vec![k], kpws: vec![w.pool[k].comps[w.pool[k].enc_comp].true_pw], mpws: vec![], sks: vec![], ae, ga: false };
            let (out, d) = ring_case(ctx, w, m, &rc);
            let req = format!("{}{}", request_line(w, m, &rc), fp_class(m, &rc.mpws));
            ctx.oracle("each_recipient_alone", site_ring, &req, is_plain_ok(&out, m), &format!("{} key {}: {}", m.label, w.pool[k].name, out_text(&out, &d)));
        }
        // Message::decrypt / decrypt_with_keys (public wrappers)
        let pw: Password = KPWS[w.pool[k].comps[w.pool[k].enc_comp].true_pw].into();
        let r = guarded(|| {
            let msg = Message::from_bytes(&m.bytes[..]).ok()?;
            let mut dec = msg.decrypt(&pw, &w.pool[k].key).ok()?;
            dec.as_data_vec().ok()
        });
        let ok = matches!(&r, Ok(Some(d)) if *d == m.plaintext);
        ctx.oracle("each_recipient_alone", "Message::decrypt", &format!("esks={} msg={} key={}", m.esks.join(";"), hx(&m.bytes), w.pool[k].name), ok, &m.label);
        let pws: Vec<Password> = KPWS.iter().map(|p| (*p).into()).collect();
        let r = guarded(|| {
            let msg = Message::from_bytes(&m.bytes[..]).ok()?;
            let mut dec = msg.decrypt_with_keys(pws.iter().collect(), vec![&w.pool[k].key]).ok()?;
            dec.as_data_vec().ok()
        });
        let ok = matches!(&r, Ok(Some(d)) if *d == m.plaintext);
        ctx.oracle("each_recipient_alone", "Message::decrypt_with_keys", &format!("esks={} msg={} key={}", m.esks.join(";"), hx(&m.bytes), w.pool[k].name), ok, &m.label);
    }
    for &p in &rpws {
        for ae in [true, false] {
            let rc = RingCase { keys: vec![], kpws: vec![], mpws: vec![p], sks: vec![], ae, ga: false };
            let (out, d) = ring_case(ctx, w, m, &rc);
            let req = format!("{}{}", request_line(w, m, &rc), fp_class(m, &rc.mpws));
            ctx.oracle("each_recipient_alone", site_ring, &req, is_plain_ok(&out, m), &format!("{} password {}: {}", m.label, MPWS[p], out_text(&out, &d)));
        }
        let r = guarded(|| -> Result<Vec<u8>, String> {
            let msg = Message::from_bytes(&m.bytes[..]).map_err(|e| e.to_string())?;
            let mut dec = msg.decrypt_with_password(&MPWS[p].into()).map_err(|e| e.to_string())?;
            dec.as_data_vec().map_err(|e| e.to_string())
        });
        let ok = matches!(&r, Ok(Ok(d)) if *d == m.plaintext);
        let why = match &r { Ok(Ok(d)) => format!("plaintext({} bytes)", d.len()), Ok(Err(e)) => e.clone(), Err(e) => format!("panic {e}") };
        ctx.oracle("each_recipient_alone", "Message::decrypt_with_password",
            &format!("esks={} msg={} pw={}{}", m.esks.join(";"), hx(&m.bytes), MPWS[p], fp_class(m, &[p])), ok, &format!("{}: {}", m.label, why));
    }
    // the session key itself
    {
        let r = guarded(|| {
            let msg = Message::from_bytes(&m.bytes[..]).ok()?;
            let mut dec = msg.decrypt_with_session_key(parse_sk(&m.ed)).ok()?;
            dec.as_data_vec().ok()
        });
        let ok = matches!(&r, Ok(Some(d)) if *d == m.plaintext);
        ctx.oracle("each_recipient_alone", "Message::decrypt_with_session_key", &format!("esks={} msg={} sk={}", m.esks.join(";"), hx(&m.bytes), m.ed), ok, &m.label);
    }
    // ---- clause 2: with unrelated keys (and, for integrity-protected password packets, passwords)
    let mut secrets: Vec<(Option<usize>, Option<usize>)> = rkeys.iter().map(|&k| (Some(k), None)).collect();
    secrets.extend(rpws.iter().map(|&p| (None, Some(p))));
    for (rk, rp) in secrets {
        for round in 0..2 {
            let nd = ctx.rng.gen_range(1..=decoys.len().min(3).max(1));
            let mut keys: Vec<usize> = decoys.choose_multiple(&mut ctx.rng, nd).copied().collect();
            if let Some(k) = rk {
                keys.push(k);
            }
            keys.shuffle(&mut ctx.rng);
            let mut mpws: Vec<usize> = rp.into_iter().collect();
            if v2 && !rpws.is_empty() {
                // SKESK v6 is integrity protected: unrelated passwords may be presented alongside
                mpws.extend(wrong_pws.choose_multiple(&mut ctx.rng, 2).copied());
                mpws.shuffle(&mut ctx.rng);
            } else if rpws.is_empty() {
                // no password packets at all: any password is unrelated and harmless
                mpws.extend(wrong_pws.choose_multiple(&mut ctx.rng, 1).copied());
            }
            let mut kpws = all_kpws();
            kpws.shuffle(&mut ctx.rng);
            let rc = RingCase { keys, kpws, mpws, sks: vec![], ae: round == 0, ga: false };
            let (out, d) = ring_case(ctx, w, m, &rc);
            let req = format!("{}{}", request_line(w, m, &rc), fp_class(m, &rc.mpws));
            ctx.oracle("with_unrelated", site_ring, &req, is_plain_ok(&out, m), &format!("{}: {}", m.label, out_text(&out, &d)));
        }
    }
    // ---- clause 3: only non-recipient keys / wrong passwords / wrong session key
    let mut neg: Vec<RingCase> = Vec::new();
    for ae in [true, false] {
        neg.push(RingCase { keys: decoys.clone(), kpws: all_kpws(), mpws: vec![], sks: vec![], ae, ga: false });
        neg.push(RingCase { keys: vec![], kpws: vec![], mpws: wrong_pws.clone(), sks: vec![], ae, ga: false });
        neg.push(RingCase { keys: vec![], kpws: vec![], mpws: vec![], sks: vec![wrong_sk(&m.ed)], ae, ga: false });
        neg.push(RingCase { keys: decoys.clone(), kpws: all_kpws(), mpws: wrong_pws.clone(), sks: vec![wrong_sk(&m.ed)], ae, ga: false });
        if let Some(&d) = decoys.choose(&mut ctx.rng) {
            neg.push(RingCase { keys: vec![d], kpws: all_kpws(), mpws: vec![], sks: vec![], ae, ga: false });
        }
        // recipient key, but none of the passwords that unlock it
        for &k in &rkeys {
            if w.pool[k].comps[w.pool[k].enc_comp].locked {
                neg.push(RingCase { keys: vec![k], kpws: vec![0, 6], mpws: vec![], sks: vec![], ae, ga: false });
            }
        }
    }
    for rc in neg {
        let (out, d) = ring_case(ctx, w, m, &rc);
        let req = request_line(w, m, &rc);
        let ok = matches!(out, Outcome::Err(ref c) if c != "panic");
        ctx.oracle("non_recipient_errors", site_ring, &req, ok, &format!("{}: {}", m.label, out_text(&out, &d)));
    }
    {
        let r = guarded(|| {
            let msg = Message::from_bytes(&m.bytes[..]).ok()?;
            let mut dec = msg.decrypt_with_session_key(wrong_sk(&m.ed)).ok()?;
            dec.as_data_vec().ok()
        });
        ctx.oracle("non_recipient_errors", "Message::decrypt_with_session_key", &format!("esks={} msg={} sk=wrong", m.esks.join(";"), hx(&m.bytes)), matches!(r, Ok(None)), &m.label);
    }
}

/// random rings over the whole pool (correspondence only)
fn random_rings(ctx: &mut Ctx, w: &World, m: &Msg, n: usize) {
    for _ in 0..n {
        let nk = ctx.rng.gen_range(0..=4usize.min(w.pool.len()));
        let mut keys: Vec<usize> = (0..w.pool.len()).collect();
        keys.shuffle(&mut ctx.rng);
        keys.truncate(nk);
        let mut kpws = all_kpws();
        kpws.shuffle(&mut ctx.rng);
        let nkp = ctx.rng.gen_range(0..=kpws.len());
        kpws.truncate(nkp);
        let mut mpws: Vec<usize> = (0..MPWS.len()).collect();
        mpws.shuffle(&mut ctx.rng);
        let nmp = ctx.rng.gen_range(0..=3);
        mpws.truncate(nmp);
        let sks = match ctx.rng.gen_range(0..8) {
            0 => vec![parse_sk(&m.ed)],
            1 => vec![wrong_sk(&m.ed)],
            2 => vec![parse_sk(&m.ed), wrong_sk(&m.ed)],
            3 => vec![wrong_sk(&m.ed), parse_sk(&m.ed)],
            4 => vec![parse_sk(&m.ed), parse_sk(&m.ed)],
            _ => vec![],
        };
        let rc = RingCase { keys, kpws, mpws, sks, ae: ctx.rng.gen_bool(0.4), ga: ctx.rng.gen_bool(0.3) };
        ring_case(ctx, w, m, &rc);
    }
}

fn library_messages(ctx: &mut Ctx, w: &World) {
    let n_msgs = ctx.pick(900, 8000);
    let recipients_pool: Vec<usize> = (0..w.pool.len()).filter(|&k| !w.pool[k].name.starts_with("decoy")).collect();
    for i in 0..n_msgs {
        let v2 = i % 2 == 1;
        // (SEIPDv1 with every cipher: the v3 PKESK of an X25519 / X448 recipient names the cipher in the clear)
        use SymmetricKeyAlgorithm as S;
        let v1_syms = [S::AES128, S::TripleDES, S::AES256, S::CAST5, S::Camellia128, S::Blowfish, S::AES192, S::Twofish, S::Camellia256, S::IDEA, S::Camellia192];
        let sym = if v2 { SYMS[i % 3] } else { v1_syms[(i / 2) % v1_syms.len()] };
        let aead = [AeadAlgorithm::Ocb, AeadAlgorithm::Eax, AeadAlgorithm::Gcm][(i / 2) % 3];
        let nk = if i < 12 { 1 + i % 4 } else { ctx.rng.gen_range(0..=4usize) };
        let np = if i < 12 { i % 4 } else if nk == 0 { ctx.rng.gen_range(1..=3usize) } else { ctx.rng.gen_range(0..=3usize) };
        let mut ks = recipients_pool.clone();
        ks.shuffle(&mut ctx.rng);
        ks.truncate(nk.min(ks.len()));
        let keys: Vec<(usize, bool)> = ks.into_iter().map(|k| (k, ctx.rng.gen_bool(0.35))).collect();
        let mut ps: Vec<usize> = vec![0, 1, 2];
        ps.shuffle(&mut ctx.rng);
        ps.truncate(np);
        let pws: Vec<(usize, u8)> = ps.into_iter().map(|p| (p, ctx.rng.gen_range(0..3u8))).collect();
        let mut rcp = Recipients { keys, pws };
        let n = [0usize, 1, 13, 100, 700][i % 5];
        let Some((bytes, plaintext, ed)) = build_message(ctx, w, v2, sym, aead, &rcp, n) else {
            // a recipient the builder refuses (e.g. algorithm/version combination): retry without keys
            ctx.stat("builder:refused");
            rcp.keys.clear();
            if rcp.pws.is_empty() {
                continue;
            }
            let Some((bytes, plaintext, ed)) = build_message(ctx, w, v2, sym, aead, &rcp, n) else { continue };
            let label = format!("lib-v{}:{}k{}p", if v2 { 2 } else { 1 }, rcp.keys.len(), rcp.pws.len());
            if let Some(m) = measure(w, bytes, plaintext, ed, label) {
                honest_message_oracles(ctx, w, &m, &rcp, v2);
            }
            continue;
        };
        let label = format!("lib-v{}:{}k{}p", if v2 { 2 } else { 1 }, rcp.keys.len(), rcp.pws.len());
        ctx.stat(&format!("message:{label}"));
        for &(k, anon) in &rcp.keys {
            ctx.stat(&format!("recipient:{}:{}", w.pool[k].name, if anon { "anonymous" } else { "addressed" }));
        }
        let Some(m) = measure(w, bytes, plaintext, ed, label) else {
            ctx.oracle("library_message_parses", "Message::from_bytes", &format!("i={i}"), false, "library-written message does not parse");
            continue;
        };
        honest_message_oracles(ctx, w, &m, &rcp, v2);
        let n = ctx.pick(8, 30);
        random_rings(ctx, w, &m, n);
    }
}


// ------------------------------------------------------------------------------------------------
// hand-assembled messages: ESKs that carry DIFFERENT session keys, anonymous / mis-addressed
// recipients, unsupported versions, password packets without integrity
// ------------------------------------------------------------------------------------------------

#[derive(Clone, Debug)]
enum Addr {
    Own,
    Anon,
    /// recipient field names this pool key's encryption component instead
    Named(usize),
}

#[derive(Clone, Debug)]
enum EskSpec {
    Pk { key: usize, sk: usize, addr: Addr },
    /// SKESK with an encrypted session key (v4 for SEIPDv1, v6 for SEIPDv2)
    Sk { pw: usize, sk: usize, kind: u8 },
    /// v4 SKESK without encrypted session key: the session key IS S2K(password); s2k 0 simple / 1 salted
    SkDirect { s2k: u8 },
    PkOther,
    SkOther,
    SkPlaintextAlg,
    SkV5Junk,
}

#[derive(Clone, Debug)]
enum EdKey {
    Sk(usize),
    /// S2K(password) of the first SkDirect packet
    Direct(usize),
}

fn raw_packet(tag: u8, body: &[u8]) -> Vec<u8> {
    let mut v = vec![0xC0 | tag];
    if body.len() < 192 {
        v.push(body.len() as u8);
    } else {
        let n = body.len() - 192;
        v.push((n / 256 + 192) as u8);
        v.push((n % 256) as u8);
    }
    v.extend_from_slice(body);
    v
}

struct Assembled {
    msg: Msg,
    /// by construction: pool key -> indices of the session keys its ESKs carry
    key_yields: HashMap<usize, Vec<usize>>,
    /// by construction: MPWS index -> session key indices
    pw_yields: HashMap<usize, Vec<usize>>,
    has_direct: bool,
    v2: bool,
    specs: Vec<EskSpec>,
}

fn enc_public<'a>(k: &'a PoolKey) -> (Option<&'a pgp::packet::PublicKey>, Option<&'a pgp::packet::PublicSubkey>) {
    if k.enc_comp == 0 {
        (Some(k.key.primary_key.public_key()), None)
    } else {
        (None, Some(k.key.secret_subkeys[k.enc_comp - 1].key.public_key()))
    }
}

fn assemble(ctx: &mut Ctx, w: &World, v2: bool, specs: &[EskSpec], ed: EdKey, label: &str) -> Option<Assembled> {
    let sym = SymmetricKeyAlgorithm::AES128;
    let plaintext: Vec<u8> = (0..40u8).map(|i| i.wrapping_mul(11)).collect();
    let pool = &w.pool;
    let rng = &mut ctx.rng;
    let specs_v = specs.to_vec();
    let r = guarded(|| -> Option<(Vec<u8>, String, HashMap<usize, Vec<usize>>, HashMap<usize, Vec<usize>>, bool, Vec<(usize, u8, Vec<u8>)>)> {
        let sks: Vec<RawSessionKey> = (0..3).map(|_| sym.new_session_key(&mut *rng)).collect();
        let mut out = Vec::new();
        let mut key_yields: HashMap<usize, Vec<usize>> = HashMap::new();
        let mut pw_yields: HashMap<usize, Vec<usize>> = HashMap::new();
        let mut direct: Option<SymKeyEncryptedSessionKey> = None;
        let mut inject: Vec<(usize, u8, Vec<u8>)> = Vec::new();
        for (pos, sp) in specs_v.iter().enumerate() {
            match sp {
                EskSpec::Pk { key, sk, addr } => {
                    let k = &pool[*key];
                    let (pp, ps) = enc_public(k);
                    let mut e = match (v2, pp, ps) {
                        (false, Some(p), _) => PublicKeyEncryptedSessionKey::from_session_key_v3(&mut *rng, &sks[*sk], sym, p).ok()?,
                        (false, _, Some(p)) => PublicKeyEncryptedSessionKey::from_session_key_v3(&mut *rng, &sks[*sk], sym, p).ok()?,
                        (true, Some(p), _) => PublicKeyEncryptedSessionKey::from_session_key_v6(&mut *rng, &sks[*sk], p).ok()?,
                        (true, _, Some(p)) => PublicKeyEncryptedSessionKey::from_session_key_v6(&mut *rng, &sks[*sk], p).ok()?,
                        _ => return None,
                    };
                    match addr {
                        Addr::Own => key_yields.entry(*key).or_default().push(*sk),
                        Addr::Anon => {
                            match &mut e {
                                PublicKeyEncryptedSessionKey::V3 { id, .. } => *id = KeyId::WILDCARD,
                                PublicKeyEncryptedSessionKey::V6 { fingerprint, .. } => *fingerprint = None,
                                _ => {}
                            }
                            key_yields.entry(*key).or_default().push(*sk);
                        }
                        Addr::Named(o) => {
                            let oc = &pool[*o].comps[pool[*o].enc_comp];
                            match &mut e {
                                PublicKeyEncryptedSessionKey::V3 { id, .. } => {
                                    let a: [u8; 8] = oc.keyid.clone().try_into().ok()?;
                                    *id = KeyId::from(a);
                                }
                                PublicKeyEncryptedSessionKey::V6 { fingerprint, .. } => {
                                    let kv = if oc.fpver == 6 { KeyVersion::V6 } else { KeyVersion::V4 };
                                    *fingerprint = Some(Fingerprint::new(kv, &oc.fp).ok()?);
                                }
                                _ => {}
                            }
                        }
                    }
                    e.to_writer_with_header(&mut out).ok()?;
                }
                EskSpec::Sk { pw, sk, kind } => {
                    let s2k = mk_s2k(rng, *kind);
                    let e = if v2 {
                        SymKeyEncryptedSessionKey::encrypt_v6(&mut *rng, &MPWS[*pw].into(), &sks[*sk], s2k, sym, AeadAlgorithm::Ocb).ok()?
                    } else {
                        SymKeyEncryptedSessionKey::encrypt_v4(&MPWS[*pw].into(), &sks[*sk], s2k, sym).ok()?
                    };
                    pw_yields.entry(*pw).or_default().push(*sk);
                    e.to_writer_with_header(&mut out).ok()?;
                }
                EskSpec::SkDirect { s2k } => {
                    let s2k = if *s2k == 0 { StringToKey::Simple { hash_alg: HashAlgorithm::Sha256 } } else { mk_s2k(rng, 0) };
                    let mut body = vec![4u8, u8::from(sym)];
                    pgp::ser::Serialize::to_writer(&s2k, &mut body).ok()?;
                    let pkt = raw_packet(3, &body);
                    out.extend_from_slice(&pkt);
                    if direct.is_none() {
                        let hdr = PacketHeader::new_fixed(Tag::SymKeyEncryptedSessionKey, body.len() as u32);
                        direct = Some(SymKeyEncryptedSessionKey::try_from_reader(hdr, &body[..]).ok()?);
                    }
                }
                EskSpec::PkOther => inject.push((pos, 1, vec![4, 1, 2, 3, 4, 5, 6, 7, 8, 1, 0, 8, 0xff])),
                EskSpec::SkOther => inject.push((pos, 3, vec![7, 9, 3, 8, 1, 2, 3, 4, 5, 6, 7, 8, 0, 9, 9])),
                EskSpec::SkPlaintextAlg => out.extend_from_slice(&raw_packet(3, &[4, 0, 0, 8])),
                EskSpec::SkV5Junk => {
                    let mut body = vec![5u8, 7, 2, 3, 8, 1, 2, 3, 4, 5, 6, 7, 8, 0];
                    body.extend_from_slice(&[0x55; 15]);
                    body.extend_from_slice(&[0xAA; 32]);
                    inject.push((pos, 3, body));
                }
            }
        }
        let inner = MessageBuilder::from_bytes("", plaintext.clone()).to_vec(&mut *rng).ok()?;
        let (edkey, ed_text): (Vec<u8>, String) = match &ed {
            EdKey::Sk(i) => {
                let k = sks[*i].as_ref().to_vec();
                let t = if v2 { format!("c.{}", hx(&k)) } else { format!("a.{}.{}", u8::from(sym), hx(&k)) };
                (k, t)
            }
            EdKey::Direct(p) => {
                let d = direct.as_ref()?;
                let k = decrypt_session_key_with_password(d, &MPWS[*p].into()).ok()?;
                let t = sk_text(&k);
                let PlainSessionKey::V3_4 { key, .. } = &k else { return None };
                (key.as_ref().to_vec(), t)
            }
        };
        let seipd = if v2 {
            SymEncryptedProtectedData::encrypt_seipdv2(&mut *rng, sym, AeadAlgorithm::Ocb, ChunkSize::default(), &edkey, &inner).ok()?
        } else {
            SymEncryptedProtectedData::encrypt_seipdv1(&mut *rng, sym, &edkey, &inner).ok()?
        };
        seipd.to_writer_with_header(&mut out).ok()?;
        Some((out, ed_text, key_yields, pw_yields, direct.is_some(), inject))
    });
    let Ok(Some((bytes, ed_text, key_yields, pw_yields, has_direct, inject))) = r else {
        ctx.stat("assemble:failed");
        return None;
    };
    let msg = measure_with(w, bytes, plaintext, ed_text, label.to_string(), inject)?;
    Some(Assembled { msg, key_yields, pw_yields, has_direct, v2, specs: specs.to_vec() })
}

/// "secrets that yield different session keys are reported as a conflict instead of one being silently
/// chosen" — by construction the harness knows which ESK carries which session key for which secret.
fn crosscheck_oracle(ctx: &mut Ctx, w: &World, a: &Assembled) {
    // every presented secret with the (constructed) set of session keys it yields; a direct-S2K SKESK
    // yields S2K(password) for every password: encoded as 100 + password index
    #[derive(Clone)]
    enum Sec {
        Key(usize),
        Pw(usize),
        Sk(PlainSessionKey, usize),
    }
    let mut secrets: Vec<(Sec, Vec<usize>)> = Vec::new();
    for (k, ys) in &a.key_yields {
        secrets.push((Sec::Key(*k), ys.clone()));
    }
    let pw_candidates: Vec<usize> = if a.has_direct { vec![0, 1, 3] } else { a.pw_yields.keys().copied().collect() };
    for p in pw_candidates {
        let mut ys = a.pw_yields.get(&p).cloned().unwrap_or_default();
        if a.has_direct {
            ys.push(100 + p);
        }
        secrets.push((Sec::Pw(p), ys));
    }
    // explicit session keys: the one the data opens under (tagged 200) and a wrong one (201)
    secrets.push((Sec::Sk(parse_sk(&a.msg.ed), 200), vec![200]));
    secrets.push((Sec::Sk(wrong_sk(&a.msg.ed), 201), vec![201]));
    for (i, k) in wrong_sk_variants(&a.msg.ed).into_iter().enumerate() {
        secrets.push((Sec::Sk(k, 202 + i), vec![202 + i]));
    }
    secrets.sort_by_key(|s| match &s.0 { Sec::Key(k) => *k, Sec::Pw(p) => 50 + *p, Sec::Sk(_, t) => *t });
    // ONE presented secret that opens several session-key packets with different session keys (two
    // PKESKs addressed to subkeys of the same certificate, two SKESKs under the same password) is a
    // conflict as well
    for (s1, y1) in &secrets {
        let mut distinct = y1.clone();
        distinct.sort_unstable();
        distinct.dedup();
        if distinct.len() < 2 || distinct.iter().any(|&x| x >= 100) {
            continue;
        }
        let mut rc = RingCase { keys: vec![], kpws: all_kpws(), mpws: vec![], sks: vec![], ae: false, ga: false };
        match s1 {
            Sec::Key(k) => rc.keys.push(*k),
            Sec::Pw(p) => rc.mpws.push(*p),
            Sec::Sk(k, _) => rc.sks.push(k.clone()),
        }
        let (out, d) = ring_case(ctx, w, &a.msg, &rc);
        let req = request_line(w, &a.msg, &rc);
        let ok = matches!(out, Outcome::Err(ref c) if c != "panic");
        ctx.oracle("crosscheck_conflict", "Message::decrypt_the_ring(abort_early=false), one secret yielding two session keys", &req, ok,
            &format!("{} specs={:?}: {}", a.msg.label, a.specs, out_text(&out, &d)));
        ctx.stat("crosscheck:one_secret_two_session_keys");
    }
    // the data key's tag, so that "same key" is recognised across kinds
    let ed_tag: Option<usize> = None;
    let _ = ed_tag;
    for i in 0..secrets.len() {
        for j in 0..secrets.len() {
            if i == j {
                continue;
            }
            let (s1, y1) = &secrets[i];
            let (s2, y2) = &secrets[j];
            // explicit keys are compared by value with ESK keys only when known different: the wrong
            // key (201) differs from everything; the right key (200) is not used against ESK yields
            let differ = match (y1.first(), y2.first()) {
                (Some(&a1), Some(&b1)) => {
                    let known = |x: usize| x != 200;
                    (known(a1) && known(b1) && y1.iter().any(|x| y2.iter().any(|y| x != y))) || (a1 == 200 && b1 >= 201) || (a1 >= 201 && b1 == 200)
                }
                _ => false,
            };
            if !differ {
                continue;
            }
            let mut rc = RingCase { keys: vec![], kpws: all_kpws(), mpws: vec![], sks: vec![], ae: false, ga: false };
            for s in [s1, s2] {
                match s {
                    Sec::Key(k) => rc.keys.push(*k),
                    Sec::Pw(p) => rc.mpws.push(*p),
                    Sec::Sk(k, _) => rc.sks.push(k.clone()),
                }
            }
            let (out, d) = ring_case(ctx, w, &a.msg, &rc);
            let req = request_line(w, &a.msg, &rc);
            let ok = matches!(out, Outcome::Err(ref c) if c != "panic");
            ctx.oracle("crosscheck_conflict", "Message::decrypt_the_ring(abort_early=false)", &req, ok,
                &format!("{} specs={:?}: {}", a.msg.label, a.specs, out_text(&out, &d)));
        }
    }
}

/// every sub-sequence (subset + order) of up to `max` elements
fn sequences(universe: &[usize], max: usize) -> Vec<Vec<usize>> {
    let mut out = vec![vec![]];
    let mut frontier = vec![vec![]];
    for _ in 0..max {
        let mut next = Vec::new();
        for s in &frontier {
            for &u in universe {
                if !s.contains(&u) {
                    let mut t: Vec<usize> = s.clone();
                    t.push(u);
                    next.push(t);
                }
            }
        }
        out.extend(next.iter().cloned());
        frontier = next;
    }
    out
}

/// all subsets and orderings of a small universe of secrets, abort_early on and off
fn exhaustive_rings(ctx: &mut Ctx, w: &World, m: &Msg, keys: &[usize], mpws: &[usize], max_keys: usize, stride: usize) {
    let sk_opts: Vec<Vec<PlainSessionKey>> = vec![
        vec![],
        vec![parse_sk(&m.ed)],
        vec![wrong_sk(&m.ed)],
        vec![parse_sk(&m.ed), wrong_sk(&m.ed)],
        vec![wrong_sk(&m.ed), parse_sk(&m.ed)],
        [vec![parse_sk(&m.ed)], wrong_sk_variants(&m.ed).into_iter().take(1).collect()].concat(),
        [wrong_sk_variants(&m.ed).into_iter().skip(2).take(1).collect(), vec![parse_sk(&m.ed)]].concat(),
    ];
    let mut n = 0usize;
    for ks in sequences(keys, max_keys) {
        for ps in sequences(mpws, 2) {
            for sks in &sk_opts {
                for ae in [false, true] {
                    n += 1;
                    if n % stride != 0 {
                        continue;
                    }
                    let rc = RingCase { keys: ks.clone(), kpws: all_kpws(), mpws: ps.clone(), sks: sks.clone(), ae, ga: false };
                    ring_case(ctx, w, m, &rc);
                }
            }
        }
    }
    ctx.stat("exhaustive:families");
}

fn find(w: &World, name: &str) -> Option<usize> {
    w.pool.iter().position(|k| k.name == name)
}

fn assembled_messages(ctx: &mut Ctx, w: &World) {
    let (Some(a), Some(b), Some(c), Some(d6), Some(e6), Some(r), Some(dec), Some(dec6)) = (
        find(w, "cv25519"), find(w, "p256-locked"), find(w, "two-subkeys-two-pws"), find(w, "x25519-v6"),
        find(w, "x448-v6-sublocked"), find(w, "rsa"), find(w, "decoy-cv25519"), find(w, "decoy-x25519-v6-locked"),
    ) else {
        ctx.note("assembled messages skipped: key pool incomplete");
        return;
    };
    use Addr::*;
    use EskSpec::*;
    let mut plans: Vec<(bool, Vec<EskSpec>, EdKey, &str)> = vec![
        // two keys, two different session keys
        (false, vec![Pk { key: a, sk: 0, addr: Own }, Pk { key: b, sk: 1, addr: Own }], EdKey::Sk(0), "asm-v1:2pk-diff"),
        (true, vec![Pk { key: d6, sk: 0, addr: Own }, Pk { key: e6, sk: 1, addr: Own }], EdKey::Sk(1), "asm-v2:2pk-diff"),
        (false, vec![Pk { key: a, sk: 0, addr: Anon }, Pk { key: r, sk: 1, addr: Anon }], EdKey::Sk(0), "asm-v1:2pk-anon-diff"),
        (true, vec![Pk { key: a, sk: 0, addr: Anon }, Pk { key: d6, sk: 1, addr: Own }, Pk { key: c, sk: 0, addr: Own }], EdKey::Sk(0), "asm-v2:3pk-mixed"),
        // key vs password
        (false, vec![Pk { key: a, sk: 0, addr: Own }, Sk { pw: 0, sk: 1, kind: 1 }], EdKey::Sk(0), "asm-v1:pk-sk-diff"),
        (true, vec![Sk { pw: 0, sk: 1, kind: 2 }, Pk { key: e6, sk: 0, addr: Anon }], EdKey::Sk(1), "asm-v2:sk-pk-diff"),
        // two passwords, two session keys
        (false, vec![Sk { pw: 0, sk: 0, kind: 0 }, Sk { pw: 1, sk: 1, kind: 1 }], EdKey::Sk(1), "asm-v1:2sk-diff"),
        (true, vec![Sk { pw: 0, sk: 0, kind: 1 }, Sk { pw: 1, sk: 1, kind: 2 }, Sk { pw: 2, sk: 0, kind: 0 }], EdKey::Sk(0), "asm-v2:3sk-diff"),
        // same session key everywhere (consistent), incl. one key addressed twice
        (false, vec![Pk { key: a, sk: 0, addr: Own }, Pk { key: a, sk: 0, addr: Anon }, Sk { pw: 0, sk: 0, kind: 1 }], EdKey::Sk(0), "asm-v1:same"),
        // one key, two ESKs with different session keys
        (false, vec![Pk { key: a, sk: 0, addr: Own }, Pk { key: a, sk: 1, addr: Anon }], EdKey::Sk(0), "asm-v1:1key-2sk"),
        // ... both ADDRESSED to the key (a session-key packet spliced in from another message to the same
        // recipient), the one that opens the data first / last
        (false, vec![Pk { key: a, sk: 0, addr: Own }, Pk { key: a, sk: 1, addr: Own }], EdKey::Sk(0), "asm-v1:1key-2sk-addressed"),
        (false, vec![Pk { key: a, sk: 1, addr: Own }, Pk { key: a, sk: 0, addr: Own }], EdKey::Sk(0), "asm-v1:1key-2sk-addressed-rev"),
        (true, vec![Pk { key: d6, sk: 0, addr: Own }, Pk { key: d6, sk: 1, addr: Own }], EdKey::Sk(0), "asm-v2:1key-2sk-addressed"),
        (false, vec![Pk { key: r, sk: 0, addr: Own }, Pk { key: b, sk: 0, addr: Own }, Pk { key: r, sk: 1, addr: Own }], EdKey::Sk(0), "asm-v1:1key-2sk-addressed-apart"),
        // recipient field names somebody else
        (false, vec![Pk { key: a, sk: 0, addr: Named(dec) }, Pk { key: b, sk: 0, addr: Own }], EdKey::Sk(0), "asm-v1:named-decoy"),
        (true, vec![Pk { key: d6, sk: 0, addr: Named(dec6) }, Pk { key: e6, sk: 0, addr: Named(a) }], EdKey::Sk(0), "asm-v2:named-decoy"),
        // unsupported versions, v5, plaintext algorithm
        (false, vec![PkOther, SkOther, Pk { key: a, sk: 0, addr: Own }, Sk { pw: 1, sk: 0, kind: 0 }], EdKey::Sk(0), "asm-v1:other-versions"),
        (false, vec![Pk { key: a, sk: 0, addr: Own }, PkOther], EdKey::Sk(0), "asm-v1:other-last"),
        (false, vec![SkV5Junk, Sk { pw: 0, sk: 0, kind: 1 }], EdKey::Sk(0), "asm-v1:v5-first"),
        (false, vec![Sk { pw: 0, sk: 0, kind: 1 }, SkV5Junk], EdKey::Sk(0), "asm-v1:v5-last"),
        (false, vec![Pk { key: a, sk: 0, addr: Own }, SkPlaintextAlg], EdKey::Sk(0), "asm-v1:plaintext-skesk"),
        // password packets without integrity: the session key is S2K(password)
        (false, vec![SkDirect { s2k: 1 }], EdKey::Direct(0), "asm-v1:direct-salted"),
        (false, vec![SkDirect { s2k: 0 }], EdKey::Direct(1), "asm-v1:direct-simple"),
        (false, vec![SkDirect { s2k: 1 }, Pk { key: a, sk: 0, addr: Own }], EdKey::Sk(0), "asm-v1:direct+pk"),
    ];
    if ctx.thorough() {
        plans.push((false, vec![Pk { key: r, sk: 0, addr: Own }, Pk { key: c, sk: 1, addr: Anon }, Sk { pw: 2, sk: 2, kind: 2 }], EdKey::Sk(2), "asm-v1:3-way"));
        plans.push((true, vec![Pk { key: r, sk: 0, addr: Anon }, Pk { key: b, sk: 0, addr: Anon }, Pk { key: e6, sk: 1, addr: Anon }], EdKey::Sk(0), "asm-v2:3anon"));
    }
    let rounds = ctx.pick(2, 10);
    for _ in 0..rounds {
        for (v2, specs, ed, label) in &plans {
            let Some(asm) = assemble(ctx, w, *v2, specs, ed.clone(), label) else { continue };
            ctx.stat(&format!("message:{label}"));
            crosscheck_oracle(ctx, w, &asm);
            // the keys named by the plan + one decoy, the passwords of the plan + one wrong
            let mut ks: Vec<usize> = asm.key_yields.keys().copied().collect();
            ks.sort_unstable();
            ks.push(if asm.v2 { dec6 } else { dec });
            ks.truncate(3);
            let mut ps: Vec<usize> = asm.pw_yields.keys().copied().collect();
            ps.sort_unstable();
            ps.push(3);
            ps.truncate(3);
            let stride = ctx.pick(3, 1);
            exhaustive_rings(ctx, w, &asm.msg, &ks, &ps, 3, stride);
            // gnupg_aead on/off matters for the v5 packet
            for ga in [false, true] {
                for mp in [vec![0usize], vec![3, 0], vec![0, 3]] {
                    let rc = RingCase { keys: vec![], kpws: vec![], mpws: mp, sks: vec![], ae: false, ga };
                    ring_case(ctx, w, &asm.msg, &rc);
                }
            }
            let n = ctx.pick(6, 20);
            random_rings(ctx, w, &asm.msg, n);
        }
    }
}

// ------------------------------------------------------------------------------------------------
// decoders (the code that sits behind the primitives)
// ------------------------------------------------------------------------------------------------

fn checksum(k: &[u8]) -> [u8; 2] {
    let s: u32 = k.iter().map(|&b| b as u32).sum();
    [((s >> 8) & 0xff) as u8, (s & 0xff) as u8]
}

fn decoder_cases(ctx: &mut Ctx, w: &World) {
    let Some(r) = find(w, "rsa") else { return };
    let rsa = &w.pool[r].key;
    // ---- pkdecode: arbitrary octets through a real RSA encryption and PlainSecretParams::decrypt
    let mut datas: Vec<(bool, Vec<u8>)> = Vec::new();
    for alg in [0u8, 1, 2, 3, 4, 5, 6, 7, 8, 9, 10, 11, 12, 13, 14, 110, 200] {
        for klen in [0usize, 15, 16, 17, 24, 32, 33] {
            let key: Vec<u8> = (0..klen).map(|i| (i as u8).wrapping_mul(37).wrapping_add(alg)).collect();
            let ck = checksum(&key);
            let mut d = vec![alg];
            d.extend_from_slice(&key);
            d.extend_from_slice(&ck);
            datas.push((false, d.clone()));
            let mut bad = d.clone();
            let l = bad.len();
            bad[l - 1] ^= 1;
            datas.push((false, bad));
            if klen > 0 {
                let mut bad2 = d.clone();
                bad2[1] ^= 0x80;
                datas.push((false, bad2));
            }
            // V6: no algorithm octet
            let mut d6 = key.clone();
            d6.extend_from_slice(&ck);
            datas.push((true, d6.clone()));
            let l = d6.len();
            d6[l - 2] ^= 1;
            datas.push((true, d6));
        }
    }
    datas.push((true, vec![]));
    datas.push((true, vec![0]));
    datas.push((true, vec![0, 0]));
    datas.push((true, vec![0, 1]));
    datas.push((false, vec![9]));
    datas.push((false, vec![9, 0]));
    datas.push((false, vec![9, 0, 0]));
    // checksum wrap-around: 255 * 300 > 65535? no; use a long all-0xff key under an unknown algorithm
    for (v6, d) in datas {
        let typ = if v6 { EskType::V6 } else { EskType::V3_4 };
        let res = guarded(|| {
            let values = rsa.primary_key.public_key().encrypt(&mut ctx.rng, &d, typ).ok()?;
            Some(rsa.primary_key.decrypt(&"".into(), &values, typ))
        });
        let ans = match res {
            Ok(Some(Ok(Ok(k)))) => format!("ok:{}", sk_text(&k)),
            Ok(Some(_)) => "err".to_string(),
            Ok(None) => continue,
            Err(_) => "panic".to_string(),
        };
        ctx.case(format!("pkdecode v6={} data={}", v6 as u8, hx(&d)), ans);
    }
    // D4a (C04, known): an empty RSA plaintext under a v3 PKESK
    {
        let res = guarded(|| {
            let values = rsa.primary_key.public_key().encrypt(&mut ctx.rng, &[], EskType::V3_4).ok()?;
            Some(rsa.primary_key.decrypt(&"".into(), &values, EskType::V3_4).is_ok())
        });
        if res.is_err() {
            ctx.note("D4a still present: PlainSecretParams::decrypt panics on an empty RSA plaintext under a v3 PKESK (decrypted_key[0]); not a C18 case (model: failure)");
        }
    }
    // ---- skdecode: SKESK v4 plausibility around arbitrary octets
    let pw: Password = "pw".into();
    let sym = SymmetricKeyAlgorithm::AES128;
    let mut sdatas: Vec<Vec<u8>> = Vec::new();
    for alg in [0u8, 1, 2, 3, 4, 5, 7, 8, 9, 10, 11, 12, 13, 14, 110, 255] {
        for klen in [0usize, 1, 15, 16, 17, 24, 31, 32, 33] {
            let mut d = vec![alg];
            d.extend((0..klen).map(|i| (i as u8) ^ alg));
            sdatas.push(d);
        }
    }
    for _ in 0..ctx.pick(200, 3000) {
        let n = [17usize, 25, 33][ctx.rng.gen_range(0..3)];
        sdatas.push(crate::gen::random_bytes(&mut ctx.rng, n));
    }
    for d in sdatas {
        let res = guarded(|| {
            let s2k = StringToKey::Salted { hash_alg: HashAlgorithm::Sha256, salt: [7; 8] };
            let key = s2k.derive_key(&pw.read(), sym.key_size()).ok()?;
            let mut enc = d.clone();
            sym.encrypt_with_iv_regular(key.as_ref(), &[0u8; 16], &mut enc).ok()?;
            let len = 2 + pgp::ser::Serialize::write_len(&s2k) + enc.len();
            let pkt = SymKeyEncryptedSessionKey::V4 {
                packet_header: PacketHeader::new_fixed(Tag::SymKeyEncryptedSessionKey, len as u32),
                sym_algorithm: sym,
                s2k,
                encrypted_key: enc.into(),
            };
            Some(decrypt_session_key_with_password(&pkt, &pw))
        });
        let ans = match res {
            Ok(Some(Ok(k))) => format!("ok:{}", sk_text(&k)),
            Ok(Some(Err(_))) => "err".to_string(),
            Ok(None) => continue,
            Err(_) => "panic".to_string(),
        };
        ctx.case(format!("skdecode data={}", hx(&d)), ans);
    }
    // ---- prepare: raw RSA plaintext of a library-made PKESK
    for (i, alg) in [SymmetricKeyAlgorithm::AES128, SymmetricKeyAlgorithm::AES192, SymmetricKeyAlgorithm::AES256,
        SymmetricKeyAlgorithm::Camellia256, SymmetricKeyAlgorithm::TripleDES].into_iter().enumerate() {
        for v6 in [false, true] {
            let sk = if i == 2 { RawSessionKey::from(vec![0xffu8; alg.key_size()]) } else { alg.new_session_key(&mut ctx.rng) };
            let res = guarded(|| {
                let pk = rsa.primary_key.public_key();
                let e = if v6 {
                    PublicKeyEncryptedSessionKey::from_session_key_v6(&mut ctx.rng, &sk, pk).ok()?
                } else {
                    PublicKeyEncryptedSessionKey::from_session_key_v3(&mut ctx.rng, &sk, alg, pk).ok()?
                };
                let PkeskBytes::Rsa { mpi } = e.values().ok()? else { return None };
                let raw = rsa.primary_key.unlock(&"".into(), |_, plain| match plain {
                    PlainSecretParams::RSA(k) => pgp::crypto::Decryptor::decrypt(k, mpi).map(|z| z.to_vec()),
                    _ => Ok(vec![]),
                });
                raw.ok()?.ok()
            });
            if let Ok(Some(raw)) = res {
                let algs = if v6 { "-".to_string() } else { u8::from(alg).to_string() };
                ctx.case(format!("prepare alg={algs} x=0 key={}", hx(sk.as_ref())), format!("ok:{}", hx(&raw)));
            }
        }
    }
    // ---- match_identity
    let mut idents: Vec<(String, usize, usize)> = Vec::new();
    for (ki, k) in w.pool.iter().enumerate() {
        for (c, ci) in k.comps.iter().enumerate() {
            idents.push((format!("{}.{}.{}", hx(&ci.keyid), ci.fpver, hx(&ci.fp)), ki, c));
        }
    }
    for (idt, ki, c) in &idents {
        for (_, kj, cj) in &idents {
            let other = &w.pool[*kj].comps[*cj];
            let mut esks: Vec<PublicKeyEncryptedSessionKey> = Vec::new();
            let Some(rp) = find(w, "rsa") else { continue };
            let pk = w.pool[rp].key.primary_key.public_key();
            let sk = SymmetricKeyAlgorithm::AES128.new_session_key(&mut ctx.rng);
            let Ok(base3) = PublicKeyEncryptedSessionKey::from_session_key_v3(&mut ctx.rng, &sk, SymmetricKeyAlgorithm::AES128, pk) else { continue };
            let Ok(base6) = PublicKeyEncryptedSessionKey::from_session_key_v6(&mut ctx.rng, &sk, pk) else { continue };
            let mut e = base3.clone();
            if let PublicKeyEncryptedSessionKey::V3 { id, .. } = &mut e {
                let a: [u8; 8] = other.keyid.clone().try_into().unwrap_or([0; 8]);
                *id = KeyId::from(a);
            }
            esks.push(e);
            let mut e = base6.clone();
            if let PublicKeyEncryptedSessionKey::V6 { fingerprint, .. } = &mut e {
                let kv = if other.fpver == 6 { KeyVersion::V6 } else { KeyVersion::V4 };
                *fingerprint = Fingerprint::new(kv, &other.fp).ok();
            }
            esks.push(e);
            if kj == ki && cj == c {
                let mut e = base3.clone();
                if let PublicKeyEncryptedSessionKey::V3 { id, .. } = &mut e {
                    *id = KeyId::WILDCARD;
                }
                esks.push(e);
                let mut e = base6.clone();
                if let PublicKeyEncryptedSessionKey::V6 { fingerprint, .. } = &mut e {
                    *fingerprint = None;
                }
                esks.push(e);
                // same bytes under the other fingerprint version (v6 fp bytes are 32 long: only for v6 keys)
                if other.fpver == 6 {
                    let mut e = base6.clone();
                    if let PublicKeyEncryptedSessionKey::V6 { fingerprint, .. } = &mut e {
                        *fingerprint = Fingerprint::new(KeyVersion::V5, &other.fp).ok();
                    }
                    esks.push(e);
                }
            }
            for e in esks {
                let real = if *c == 0 {
                    e.match_identity(w.pool[*ki].key.primary_key.public_key())
                } else {
                    e.match_identity(w.pool[*ki].key.secret_subkeys[*c - 1].key.public_key())
                };
                let desc = esk_desc(&Esk::PublicKeyEncryptedSessionKey(e));
                ctx.case(format!("match esk={desc} id={idt}"), format!("ok:{}", real as u8));
            }
        }
    }
}

/// session keys of every cipher: SEIPDv1 under each symmetric algorithm (one password, one key where the
/// PKESK allows it), opened with the explicit session key, a wrong one, the password
fn cipher_sweep(ctx: &mut Ctx, w: &World) {
    let algs = [
        SymmetricKeyAlgorithm::IDEA, SymmetricKeyAlgorithm::TripleDES, SymmetricKeyAlgorithm::CAST5,
        SymmetricKeyAlgorithm::Blowfish, SymmetricKeyAlgorithm::AES128, SymmetricKeyAlgorithm::AES192,
        SymmetricKeyAlgorithm::AES256, SymmetricKeyAlgorithm::Twofish, SymmetricKeyAlgorithm::Camellia128,
        SymmetricKeyAlgorithm::Camellia192, SymmetricKeyAlgorithm::Camellia256,
    ];
    let rsa = find(w, "rsa");
    for (i, alg) in algs.into_iter().enumerate() {
        for with_key in [false, true] {
            let keys = match (with_key, rsa) { (true, Some(r)) => vec![(r, i % 2 == 0)], _ => vec![] };
            let rcp = Recipients { keys, pws: vec![(i % 3, (i % 3) as u8)] };
            let Some((bytes, plaintext, ed)) = build_message(ctx, w, false, alg, AeadAlgorithm::Ocb, &rcp, 50 + i) else {
                ctx.stat(&format!("cipher:{}:builder-refused", u8::from(alg)));
                continue;
            };
            ctx.stat(&format!("cipher:{}", u8::from(alg)));
            let Some(m) = measure(w, bytes, plaintext, ed, format!("cipher-v1:{}", u8::from(alg))) else { continue };
            honest_message_oracles(ctx, w, &m, &rcp, false);
            for ae in [true, false] {
                for sks in [vec![parse_sk(&m.ed)], vec![wrong_sk(&m.ed)], vec![parse_sk(&m.ed), parse_sk(&m.ed)], vec![wrong_sk(&m.ed), parse_sk(&m.ed)]] {
                    for mp in [vec![], vec![i % 3]] {
                        let rc = RingCase { keys: vec![], kpws: vec![], mpws: mp, sks: sks.clone(), ae, ga: false };
                        ring_case(ctx, w, &m, &rc);
                    }
                }
            }
        }
    }
}

/// Corpus (run first on every run, independent of VERIF_SEED): one stored witness per known finding.
/// D18b: a message written by MessageBuilder (SEIPDv1/AES128, two passwords, salted/iterated S2K);
/// password `bravo` opens its own SKESK and passes the v4 plausibility check on the other one.
const CORPUS_D18B: &str = "c31d04070108f3e67d77ef869ec696ca9f1ba4a026fd307ea022ca4b7cc66ac31e0407030823f7160997b21e661000ed79eef47e3fbfa6df3c752412563415d23e0132a98be2340ed78d86ff040f3cc63989ac84806d7b0a77b903afbd566b22f83d6f47f140a6499b2aec5d93256f9e2a95e8f99479025e43459378e95c03";

fn corpus(ctx: &mut Ctx, w: &World) {
    let Ok(bytes) = hex::decode(CORPUS_D18B) else { return };
    // recipients and plaintext are recovered from the stored message itself: the passwords that,
    // alone, open the data through the public wrapper, or whose SKESK key opens it
    let probe = measure(w, bytes.clone(), vec![], "x".to_string(), "corpus-D18b".to_string());
    let Some(probe) = probe else {
        ctx.oracle("corpus_parses", "Message::from_bytes", CORPUS_D18B, false, "stored witness does not parse");
        return;
    };
    let mut found: Option<(String, Vec<u8>)> = None;
    let mut rpws: Vec<usize> = Vec::new();
    for row in &probe.sk {
        for (p, kt) in row {
            let r = guarded(|| {
                let msg = Message::from_bytes(&bytes[..]).ok()?;
                let mut dec = msg.decrypt_with_session_key(parse_sk(kt)).ok()?;
                dec.as_data_vec().ok()
            });
            if let Ok(Some(d)) = r {
                found = Some((kt.clone(), d));
                if !rpws.contains(p) {
                    rpws.push(*p);
                }
            }
        }
    }
    let Some((ed, plaintext)) = found else {
        ctx.oracle("corpus_opens", "Message::decrypt_with_session_key", CORPUS_D18B, false, "no password of the pool opens the stored witness");
        return;
    };
    rpws.sort_unstable();
    let Some(m) = measure(w, bytes, plaintext, ed, "corpus-D18b".to_string()) else { return };
    ctx.stat("corpus");
    let rcp = Recipients { keys: vec![], pws: rpws.into_iter().map(|p| (p, 0)).collect() };
    honest_message_oracles(ctx, w, &m, &rcp, false);
}

/// passwords longer than the smallest iterated-S2K octet counts: salt ‖ password is then hashed once
/// in full, so a wrong password that shares a long prefix with the right one must still be refused
/// (oracle only; both container versions, every iterated count code around the password length)
fn long_password_cases(ctx: &mut Ctx) {
    use std::io::Read;
    let data = b"for the holder of the right password only".to_vec();
    for (ci, code) in [0u8, 1, 2, 16, 96].into_iter().enumerate() {
        for n in [1016usize, 1017, 1100, 2100] {
            for v2 in [false, true] {
                let right: Vec<u8> = (0..n as u32).map(|i| (i as u8).wrapping_mul(7).wrapping_add(1)).collect();
                let mut wrongs: Vec<Vec<u8>> = Vec::new();
                let mut w = right.clone();
                *w.last_mut().unwrap() ^= 1;
                wrongs.push(w);
                wrongs.push(right[..n - 1].to_vec());
                let mut w = right.clone();
                w.push(0);
                wrongs.push(w);
                let built = guarded(|| {
                    let mut rng = rand::thread_rng();
                    let s2k = StringToKey::new_iterated(&mut rng, HashAlgorithm::Sha256, code);
                    if v2 {
                        let mut b = MessageBuilder::from_bytes("", data.clone()).seipd_v2(&mut rng, SymmetricKeyAlgorithm::AES128, AeadAlgorithm::Ocb, ChunkSize::C64B);
                        b.encrypt_with_password(&mut rng, s2k, &Password::from(&right[..])).ok()?;
                        b.to_vec(&mut rng).ok()
                    } else {
                        let mut b = MessageBuilder::from_bytes("", data.clone()).seipd_v1(&mut rng, SymmetricKeyAlgorithm::AES128);
                        b.encrypt_with_password(s2k, &Password::from(&right[..])).ok()?;
                        b.to_vec(&mut rng).ok()
                    }
                });
                let Ok(Some(msg)) = built else { continue };
                let open = |pw: &[u8]| -> Option<Vec<u8>> {
                    guarded(|| {
                        let m = Message::from_bytes(&msg[..]).ok()?;
                        let mut d = m.decrypt_with_password(&Password::from(pw)).ok()?;
                        let mut out = Vec::new();
                        d.read_to_end(&mut out).ok()?;
                        Some(out)
                    })
                    .ok()
                    .flatten()
                };
                let site = if v2 { "Message::decrypt_with_password (SKESK v6 + SEIPDv2, iterated S2K)" } else { "Message::decrypt_with_password (SKESK v4 + SEIPDv1, iterated S2K)" };
                let input = format!("count_code={code} password_len={n} case={ci}");
                ctx.oracle("each_recipient_alone", site, &input, open(&right).as_deref() == Some(&data[..]), "the right (long) password does not decrypt");
                for (wi, w) in wrongs.iter().enumerate() {
                    let r = open(w);
                    ctx.oracle("non_recipient_errors", site, &format!("{input} wrong#{wi} (differs from the right password only beyond octet {})", n.min(w.len()) - 1), r.is_none(), &format!("a wrong password returned {:?} octets", r.map(|d| d.len())));
                }
                ctx.stat("long_password");
            }
        }
    }
}

/// keys whose components are locked differently (primary locked / encryption subkey not, and the
/// reverse), presented with no, the right and unrelated key passwords: every component that can be
/// used with what was presented is used (oracle only)
fn mixed_lock_cases(ctx: &mut Ctx) {
    use std::io::Read;
    let data = b"mixed lock state".to_vec();
    // key flags of the encryption subkey: both encryption flags, "communications" only, "storage" only
    // (each one makes the subkey a legitimate recipient; the locked / unlocked table is run in full for
    // the first, two rows of it for the others)
    for (capn, caps) in [("all", EncryptionCaps::All), ("comms", EncryptionCaps::Communication), ("storage", EncryptionCaps::Storage)] {
    for (ci, (ppw, spw)) in [(Some("primary-pw"), None), (None, Some("subkey-pw")), (Some("p1"), Some("p2")), (None, None)].into_iter().enumerate() {
        if capn != "all" && ppw.is_some() {
            continue;
        }
        for v6 in [false, true] {
            let built = guarded(|| {
                let mut rng = rand::thread_rng();
                let version = if v6 { KeyVersion::V6 } else { KeyVersion::V4 };
                let (pt, st) = if v6 { (KeyType::Ed25519, KeyType::X25519) } else { (KeyType::Ed25519Legacy, KeyType::ECDH(ECCCurve::Curve25519Legacy)) };
                let sub = SubkeyParamsBuilder::default().version(version).key_type(st).can_encrypt(caps).passphrase(spw.map(|s: &str| s.to_string())).build().ok()?;
                let mut b = SecretKeyParamsBuilder::default();
                b.version(version).key_type(pt).can_certify(true).can_sign(true).primary_user_id("mixed <m@example.org>".into()).passphrase(ppw.map(|s: &str| s.to_string())).subkey(sub);
                // iterated S2K keeps the run cheap (the v6 default would be Argon2)
                let key = b.build().ok()?.generate(&mut rng).ok()?;
                let pk = key.to_public_key();
                let msg = if v6 {
                    let mut mb = MessageBuilder::from_bytes("", data.clone()).seipd_v2(&mut rng, SymmetricKeyAlgorithm::AES128, AeadAlgorithm::Ocb, ChunkSize::C64B);
                    mb.encrypt_to_key(&mut rng, &pk.public_subkeys[0].key).ok()?;
                    mb.to_vec(&mut rng).ok()?
                } else {
                    let mut mb = MessageBuilder::from_bytes("", data.clone()).seipd_v1(&mut rng, SymmetricKeyAlgorithm::AES128);
                    mb.encrypt_to_key(&mut rng, &pk.public_subkeys[0].key).ok()?;
                    mb.to_vec(&mut rng).ok()?
                };
                Some((key, msg))
            });
            let Ok(Some((key, msg))) = built else {
                ctx.stat("mixed_lock:cannot_build");
                continue;
            };
            let none: Vec<&str> = vec![];
            let mut presentations: Vec<(Vec<&str>, bool)> = Vec::new();
            // (key passwords presented, must it decrypt?)
            match spw {
                None => {
                    presentations.push((none.clone(), true));
                    presentations.push((vec!["unrelated"], true));
                    if let Some(p) = ppw {
                        presentations.push((vec![p], true));
                    }
                }
                Some(s) => {
                    presentations.push((none.clone(), false));
                    presentations.push((vec![s], true));
                    presentations.push((vec!["unrelated", s], true));
                    presentations.push((vec![s, "unrelated"], true));
                    presentations.push((vec!["unrelated", "another", s], true));
                    presentations.push((vec!["unrelated"], false));
                }
            }
            for (pws, must) in presentations {
                let pw_objs: Vec<Password> = pws.iter().map(|p| Password::from(*p)).collect();
                let r = guarded(|| {
                    let m = Message::from_bytes(&msg[..]).ok()?;
                    let ring = TheRing { secret_keys: vec![&key], key_passwords: pw_objs.iter().collect(), message_password: vec![], session_keys: vec![], decrypt_options: DecryptionOptions::new() };
                    let (mut d, _) = m.decrypt_the_ring(ring, true).ok()?;
                    let mut out = Vec::new();
                    d.read_to_end(&mut out).ok()?;
                    Some(out)
                });
                let got = matches!(&r, Ok(Some(o)) if *o == data);
                let input = format!("case={ci} v6={v6} subkey_flags={capn} primary_locked={} subkey_locked={} key_passwords={pws:?}", ppw.is_some(), spw.is_some());
                if must {
                    ctx.oracle("each_recipient_alone", "Message::decrypt_the_ring (components locked differently)", &input, got, "the recipient could not decrypt");
                } else {
                    ctx.oracle("non_recipient_errors", "Message::decrypt_the_ring (components locked differently)", &input, !got && !matches!(r, Err(_)), "decrypted without the subkey's password, or panicked");
                }
                ctx.stat("mixed_lock");
            }
        }
    }
    }
}

/// "a wrong session key returns an error and never plaintext", session keys of every cipher: octet
/// strings of another length than the cipher's key size are wrong session keys, whatever the cipher's
/// key schedule would make of them (Blowfish cycles over its key, CAST5 pads short keys with zero octets)
fn wrong_length_session_keys(ctx: &mut Ctx) {
    use std::io::Read;
    let algs = [
        SymmetricKeyAlgorithm::IDEA, SymmetricKeyAlgorithm::TripleDES, SymmetricKeyAlgorithm::CAST5,
        SymmetricKeyAlgorithm::Blowfish, SymmetricKeyAlgorithm::AES128, SymmetricKeyAlgorithm::AES192,
        SymmetricKeyAlgorithm::AES256, SymmetricKeyAlgorithm::Twofish, SymmetricKeyAlgorithm::Camellia128,
        SymmetricKeyAlgorithm::Camellia192, SymmetricKeyAlgorithm::Camellia256,
    ];
    let data = b"wrong length session keys".to_vec();
    for alg in algs {
        let n = alg.key_size();
        // key shapes: random; trailing zero octets; a repeated half
        let mut shapes: Vec<(&str, Vec<u8>)> = Vec::new();
        let mut k: Vec<u8> = (0..n).map(|_| ctx.rng.gen::<u8>() | 0x10).collect();
        shapes.push(("random", k.clone()));
        for z in 1..=3usize {
            k[n - z] = 0;
            shapes.push((["", "zero1", "zero2", "zero3"][z], k.clone()));
        }
        let half: Vec<u8> = (0..n / 2).map(|_| ctx.rng.gen::<u8>() | 0x10).collect();
        shapes.push(("halves", [&half[..], &half[..]].concat()));
        for (shape, key) in shapes {
            let built = guarded(|| {
                let mut rng = rand::thread_rng();
                let mut mb = MessageBuilder::from_bytes("", data.clone()).seipd_v1(&mut rng, alg);
                mb.set_session_key(key.clone().into()).ok()?;
                mb.encrypt_with_password(StringToKey::new_iterated(&mut rng, HashAlgorithm::Sha256, 0), &Password::from("pw")).ok()?;
                mb.to_vec(&mut rng).ok()
            });
            let Ok(Some(msg)) = built else {
                ctx.stat(&format!("wrong_len_sk:cannot_build:{}", u8::from(alg)));
                continue;
            };
            let open = |cand: &[u8]| -> Option<Vec<u8>> {
                guarded(|| {
                    let m = Message::from_bytes(&msg[..]).ok()?;
                    let mut d = m.decrypt_with_session_key(PlainSessionKey::V3_4 { sym_alg: alg, key: cand.to_vec().into() }).ok()?;
                    let mut out = Vec::new();
                    d.read_to_end(&mut out).ok()?;
                    Some(out)
                })
                .ok()
                .flatten()
            };
            let input0 = format!("cipher={} shape={shape} key={} msg={}", u8::from(alg), hx(&key), hx(&msg));
            ctx.oracle("each_recipient_alone", "Message::decrypt_with_session_key (set_session_key)", &input0, open(&key).as_deref() == Some(&data[..]), "the right session key does not decrypt");
            let mut cands: Vec<Vec<u8>> = vec![[&key[..], &key[..]].concat(), [&key[..], &key[..], &key[..]].concat(), [&key[..], &[0u8][..]].concat(), key[..n / 2].to_vec()];
            for z in 1..=4usize {
                cands.push(key[..n - z].to_vec());
            }
            for cand in cands {
                let got = open(&cand);
                ctx.stat("wrong_len_sk");
                ctx.oracle(
                    "non_recipient_errors",
                    "Message::decrypt_with_session_key (session key of another length)",
                    &format!("{input0} presented={}", hx(&cand)),
                    got.is_none(),
                    &format!("a session key of {} octets (cipher key size {n}) returned {:?} octets of plaintext", cand.len(), got.as_ref().map(|d| d.len())),
                );
            }
        }
    }
}

pub fn run(ctx: &mut Ctx) {
    wrong_length_session_keys(ctx);
    mixed_lock_cases(ctx);
    long_password_cases(ctx);
    let w = World::new(ctx);
    corpus(ctx, &w);
    ctx.stat_n("pool:keys", w.pool.len() as u64);
    library_messages(ctx, &w);
    assembled_messages(ctx, &w);
    cipher_sweep(ctx, &w);
    decoder_cases(ctx, &w);
}
