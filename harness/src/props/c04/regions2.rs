//! Part A (continued): S2K argument handling, Base64Reader, armor checksum, cleartext body,
//! NormalizedReader, LineWriter.

use std::io::{Read, Write};
use std::time::Instant;

use base64::Engine;
use generic_array::typenum::{U1, U4, U64};
use pgp::armor::{Dearmor, DearmorOptions};
use pgp::base64::Base64Reader;
use pgp::composed::CleartextSignedMessage;
use pgp::crypto::hash::HashAlgorithm;
use pgp::line_writer::{LineBreak, LineWriter};
use pgp::normalize_lines::NormalizedReader;
use pgp::types::{KeyVersion, Password, StringToKey};
use rand::{Rng, SeedableRng};
use rand_chacha::ChaCha8Rng;

use super::{cls, guard, no_panic, Chunked};
use crate::ctx::{hx, hx_list, Ctx};
use crate::gen;

// -------------------------------------------------------------------------------------------
// S2K derive_key
// -------------------------------------------------------------------------------------------

fn s2k_cases(ctx: &mut Ctx, rng: &mut ChaCha8Rng) {
    let site = "types/s2k.rs StringToKey::derive_key";
    // Argon2: every octet triple whose admission is decided before the primitive runs, plus the
    // accepted ones that are cheap (m <= 4 MiB); accepted triples with 2^13..2^21 KiB are not run
    // (cost: up to 2 GiB each) and are carried by the theorem `argon2_admit_total` only.
    let ts: Vec<u8> = if ctx.thorough() { (0..=255).collect() } else { vec![0, 1, 2, 3, 31, 32, 33, 255] };
    let ps: Vec<u8> = if ctx.thorough() { (0..=255).step_by(1).collect() } else { vec![0, 1, 2, 3, 4, 5, 8, 9, 16, 17, 31, 32, 33, 128, 255] };
    let ms: Vec<u8> = (0..=40).chain([63, 64, 127, 128, 254, 255]).collect();
    for &t in &ts {
        for &p in &ps {
            for &m in &ms {
                let expensive = t <= 32 && p <= 32 && (13..=21).contains(&m);
                let costly_small = t <= 32 && p <= 32 && m <= 12 && (t as u32) * (1u32 << m.min(12)) > 16 * 1024;
                if expensive || costly_small {
                    ctx.stat("argon2:not-run(cost)");
                    continue;
                }
                for ks in [16usize, 0] {
                    if ks == 0 && !(t == 1 && p == 1) {
                        continue;
                    }
                    let s2k = StringToKey::Argon2 { salt: [9; 16], t, p, m_enc: m };
                    let t0 = Instant::now();
                    let r = guard(|| s2k.derive_key(b"pw", ks).map(|_| ()));
                    let req = format!("argon2 t={t} p={p} m={m} ks={ks}");
                    no_panic(ctx, site, &req, &r, t0);
                    ctx.case(req, cls(&r).to_string());
                }
            }
        }
    }
    // hash-based specifiers: every hash octet, key sizes of every cipher (and 0), count octets
    let coded: Vec<u8> = if ctx.thorough() { (0..=255).step_by(5).chain([255]).collect() } else { vec![0, 1, 15, 16, 17, 96, 143, 224] };
    for h in 0..=255u8 {
        let hash_alg = HashAlgorithm::from(h);
        let dsz = hash_alg.digest_size();
        let known = dsz.is_some();
        for ks in [0usize, 1, 16, 24, 32, 33, 65, 129] {
            if !known && ks != 16 {
                continue;
            }
            for pwlen in [0usize, 1, 7, 8, 9, 100] {
                if !known && pwlen != 1 {
                    continue;
                }
                let pw = gen::random_bytes(rng, pwlen);
                let mut specs: Vec<(StringToKey, Option<u8>)> = vec![
                    (StringToKey::Simple { hash_alg }, None),
                    (StringToKey::Salted { hash_alg, salt: [5; 8] }, None),
                ];
                if ks <= 33 || pwlen == 9 {
                    for &c in &coded {
                        if c > 150 && !(ks == 16 && pwlen == 9 && (h == 8 || h == 2)) {
                            continue;
                        }
                        specs.push((StringToKey::IteratedAndSalted { hash_alg, salt: [5; 8], count: c }, Some(c)));
                    }
                }
                for (s2k, c) in specs {
                    let t0 = Instant::now();
                    let r = guard(|| s2k.derive_key(&pw, ks).map(|k| k.as_ref().len()));
                    let req = format!(
                        "s2k_hashed dsz={} ks={ks} pw={pwlen} coded={}",
                        dsz.map(|d| d.to_string()).unwrap_or("-".into()),
                        c.map(|c| c.to_string()).unwrap_or("-".into())
                    );
                    no_panic(ctx, site, &format!("{req} hash={h} s2k={}", s2k.id()), &r, t0);
                    if let Ok(Ok(n)) = &r {
                        ctx.oracle("derived_key_has_requested_size", site, &req, *n == ks, &format!("{n}"));
                    }
                    ctx.case(req, cls(&r).to_string());
                }
            }
        }
    }
}

// -------------------------------------------------------------------------------------------
// Base64Reader::read
// -------------------------------------------------------------------------------------------

fn b64_cases(ctx: &mut Ctx, rng: &mut ChaCha8Rng) {
    let site = "base64/reader.rs Base64Reader::read";
    let alphabet = b"A\n\r=-";
    let maxlen = ctx.pick(4, 5);
    for n in 0..=maxlen {
        for s in gen::all_strings(alphabet, n) {
            for chunks in gen::all_chunkings(&s) {
                for into in [0usize, 1, 2, 3, 8] {
                    b64_one(ctx, site, &chunks, into);
                }
            }
        }
    }
    for _ in 0..ctx.pick(200, 2000) {
        let n = rng.gen_range(1..200);
        let s = gen::random_text(rng, n, b"ABCDabcd0189+/=\n\r\n -\x00\xff");
        let chunks = gen::random_chunking(rng, &s, 40);
        let into = [0usize, 1, 3, 4, 64, 300][rng.gen_range(0..6)];
        b64_one(ctx, site, &chunks, into);
    }
}

fn b64_one(ctx: &mut Ctx, site: &str, chunks: &[Vec<u8>], into: usize) {
    let t = Instant::now();
    let r = guard(|| {
        let mut rd = Base64Reader::new(Chunked::new(chunks));
        let mut buf = vec![0u8; into];
        rd.read(&mut buf).map(|n| (buf[..n].to_vec(), rd.into_inner().rest()))
    });
    let ans = match &r {
        Ok(Ok((out, rest))) => format!("ok:{}:{}", hx(out), hx(rest)),
        Ok(Err(_)) => "err".into(),
        Err(_) => "panic".into(),
    };
    let req = format!("b64read into={into} src={}", hx_list(&chunks.iter().filter(|c| !c.is_empty()).cloned().collect::<Vec<_>>()));
    no_panic(ctx, site, &req, &r, t);
    ctx.case(req, ans);
}

// -------------------------------------------------------------------------------------------
// armor footer checksum
// -------------------------------------------------------------------------------------------

fn crc_cases(ctx: &mut Ctx, rng: &mut ChaCha8Rng) {
    let site = "armor/reader.rs footer_parser/read_checksum (through Dearmor)";
    let alphabet = b"AZaz09+/=-\n !";
    let mut inputs: Vec<Vec<u8>> = Vec::new();
    for s in gen::all_strings(b"Az/=", 4) {
        inputs.push(s);
    }
    for _ in 0..ctx.pick(300, 3000) {
        inputs.push(gen::random_text(rng, 4, alphabet));
    }
    for four in inputs {
        let mut armor = b"-----BEGIN PGP MESSAGE-----\n\naGVsbG8gd29ybGQ=\n=".to_vec();
        armor.extend_from_slice(&four);
        armor.extend_from_slice(b"\n-----END PGP MESSAGE-----\n");
        let t = Instant::now();
        let r = guard(|| {
            let mut d = Dearmor::with_options(&armor[..], DearmorOptions::default());
            let mut out = Vec::new();
            d.read_to_end(&mut out).map(|_| d.checksum)
        });
        no_panic(ctx, site, &format!("armor={}", hx(&armor)), &r, t);
        // the model is asked about the decoded octets (base64 is a primitive): only when the four
        // characters are a footer the grammar accepts as such (no '-', newline, blank)
        let dec = base64::engine::general_purpose::STANDARD.decode(&four).ok();
        match (&r, &dec) {
            (Ok(Ok(Some(v))), Some(d)) => ctx.case(format!("crc dec={}", hx(d)), format!("ok:{v}")),
            (Err(_), Some(d)) => ctx.case(format!("crc dec={}", hx(d)), "panic".into()),
            _ => ctx.stat("crc:not-a-checksum"),
        }
    }
    // decoded lengths the base64 contract excludes (4 characters -> at most 3 octets): model only
    ctx.note("read_checksum: decoded length >= 4 is unreachable from a 4-character footer (theorem read_checksum_total + armor_checksum_fits_buffer)");
}

// -------------------------------------------------------------------------------------------
// cleartext body
// -------------------------------------------------------------------------------------------

fn clearbody_cases(ctx: &mut Ctx, rng: &mut ChaCha8Rng) {
    let site = "composed/cleartext.rs read_cleartext_body (through CleartextSignedMessage::from_armor_after_header)";
    let key = crate::keys::ed25519_x25519(ChaCha8Rng::seed_from_u64(77), KeyVersion::V4);
    let signed = CleartextSignedMessage::sign(&mut *rng, "x", &*key, &Password::empty()).expect("sign");
    let armored = signed.to_armored_string(Default::default()).expect("armor");
    let sig_at = armored.find("-----BEGIN PGP SIGNATURE-----").expect("sig block");
    let sig_block = &armored[sig_at..];
    let atoms: [&str; 9] = ["a", " ", "\n", "\r\n", "\r", "- -----x", "-", "é", "--- "];
    let mut bodies: Vec<String> = vec!["".into(), "\n".into(), "\r\n".into(), "abc".into()];
    for n in 1..=ctx.pick(3, 4) {
        let mut idx = vec![0usize; n];
        loop {
            bodies.push(idx.iter().map(|&i| atoms[i]).collect());
            let mut k = 0;
            while k < n {
                idx[k] += 1;
                if idx[k] < atoms.len() {
                    break;
                }
                idx[k] = 0;
                k += 1;
            }
            if k == n {
                break;
            }
        }
    }
    for _ in 0..ctx.pick(100, 1000) {
        let n = rng.gen_range(1..40);
        bodies.push((0..n).map(|_| atoms[rng.gen_range(0..atoms.len())]).collect());
    }
    for body in bodies {
        // a body whose last line is followed by the line break that precedes the signature block
        for sep in ["\n", "\r\n"] {
            let text = format!("{body}{sep}{sig_block}");
            let early = body.starts_with("-----") || format!("{body}{sep}").contains("\n-----");
            let t = Instant::now();
            let r = guard(|| {
                CleartextSignedMessage::from_armor_after_header(text.as_bytes(), Default::default(), DearmorOptions::default())
                    .map(|(m, _)| m.text().to_string())
            });
            no_panic(ctx, site, &format!("text={}", hx(text.as_bytes())), &r, t);
            if early {
                ctx.stat("clearbody:early-boundary(oracle only)");
                continue;
            }
            let ans = match &r {
                Ok(Ok(t)) => format!("ok:{}", hx(t.as_bytes())),
                Ok(Err(_)) => "err".into(),
                Err(_) => "panic".into(),
            };
            ctx.case(format!("clearbody text={}", hx(text.as_bytes())), ans);
        }
    }
    // hostile: no signature block at all / early end / boundary first (oracle only)
    for text in ["", "abc", "abc\n", "-----", "-----\n", "a\n-----", "a\r\n-----BEGIN PGP SIGNATURE-----\n\n=\n-----END PGP SIGNATURE-----", "\u{e9}\n-----"] {
        let t = Instant::now();
        let r = guard(|| CleartextSignedMessage::from_armor_after_header(text.as_bytes(), Default::default(), DearmorOptions::default()).map(|_| ()));
        no_panic(ctx, site, &format!("text={}", hx(text.as_bytes())), &r, t);
        let model_cls = cls(&r);
        if model_cls != "ok" {
            ctx.stat("clearbody:hostile-tail");
        }
    }
}

// -------------------------------------------------------------------------------------------
// NormalizedReader, LineWriter
// -------------------------------------------------------------------------------------------

fn nread_cases(ctx: &mut Ctx, rng: &mut ChaCha8Rng) {
    let site = "normalize_lines.rs NormalizedReader::read";
    let w = 512usize;
    let mut inputs: Vec<Vec<u8>> = Vec::new();
    for n in [0usize, 1, 2, w - 1, w, w + 1, 2 * w - 1, 2 * w, 2 * w + 1, 3 * w] {
        for fill in [b'a', b'\r', b'\n'] {
            let base = vec![fill; n];
            inputs.push(base.clone());
            for at in [0usize, 1, w - 2, w - 1, w, w + 1, 2 * w - 1, 2 * w] {
                for pair in [&b"\r\n"[..], b"\n", b"\r", b"\r\r", b"\n\r"] {
                    if at + pair.len() <= n {
                        let mut v = vec![b'a'; n];
                        v[at..at + pair.len()].copy_from_slice(pair);
                        inputs.push(v);
                    }
                }
            }
        }
    }
    for _ in 0..ctx.pick(60, 600) {
        let n = rng.gen_range(0..3 * w + 5);
        inputs.push(gen::random_text(rng, n, b"ab\r\n\r\n"));
    }
    for data in inputs {
        for (lb, lbb) in [(LineBreak::Crlf, &b"\r\n"[..]), (LineBreak::Lf, b"\n"), (LineBreak::Cr, b"\r")] {
            let chunks = gen::random_chunking(rng, &data, 700);
            let t = Instant::now();
            let r = guard(|| {
                let mut out = Vec::new();
                let src = crate::io::ScheduledReader::new(&data, &chunks.iter().map(|c| c.len()).collect::<Vec<_>>());
                NormalizedReader::new(src, lb).read_to_end(&mut out).map(|_| out)
            });
            let ans = match &r {
                Ok(Ok(o)) => format!("ok:{}", hx(o)),
                Ok(Err(_)) => "err".into(),
                Err(_) => "panic".into(),
            };
            let req = format!("nread lb={} data={}", hx(lbb), hx(&data));
            no_panic(ctx, site, &req, &r, t);
            ctx.case(req, ans);
        }
    }
}

fn lw_session<N>(chunks: &[Vec<u8>], lb: LineBreak) -> Result<std::io::Result<Vec<u8>>, String>
where
    N: generic_array::typenum::Unsigned + generic_array::ArrayLength<u8> + std::ops::Add<generic_array::typenum::U2>,
    generic_array::typenum::Sum<N, generic_array::typenum::U2>: generic_array::ArrayLength<u8>,
{
    guard(|| {
        let mut out = Vec::new();
        {
            let mut w = LineWriter::<_, N>::new(&mut out, lb);
            for c in chunks {
                w.write_all(c)?;
            }
            w.finish()?;
        }
        Ok(out)
    })
}

fn lw_cases(ctx: &mut Ctx, rng: &mut ChaCha8Rng) {
    let site = "line_writer.rs LineWriter::write";
    for _ in 0..ctx.pick(300, 3000) {
        let n = rng.gen_range(0..200);
        let data = gen::random_bytes(rng, n);
        let maxc = [1usize, 3, 5, 70, 200][rng.gen_range(0..5)];
        let chunks = gen::random_chunking(rng, &data, maxc);
        for (lb, lbb) in [(LineBreak::Crlf, &b"\r\n"[..]), (LineBreak::Lf, b"\n")] {
            for width in [1usize, 4, 64] {
                let t = Instant::now();
                let r = match width {
                    1 => lw_session::<U1>(&chunks, lb),
                    4 => lw_session::<U4>(&chunks, lb),
                    _ => lw_session::<U64>(&chunks, lb),
                };
                let ans = match &r {
                    Ok(Ok(o)) => format!("ok:{}", hx(o)),
                    Ok(Err(_)) => "err".into(),
                    Err(_) => "panic".into(),
                };
                let req = format!("lw n={width} lb={} writes={}", hx(lbb), hx_list(&chunks));
                no_panic(ctx, site, &req, &r, t);
                ctx.case(req, ans);
            }
        }
    }
}

pub fn run(ctx: &mut Ctx, rng: &mut ChaCha8Rng) {
    s2k_cases(ctx, rng);
    b64_cases(ctx, rng);
    crc_cases(ctx, rng);
    clearbody_cases(ctx, rng);
    nread_cases(ctx, rng);
    lw_cases(ctx, rng);
}
